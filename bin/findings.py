"""known_findings.json: genuine defects recorded rather than repaired (status "open") and repaired ones
(status "fixed", which suppress nothing)."""
import json
import os
import re

PATH = os.path.join(os.path.dirname(os.path.dirname(os.path.abspath(__file__))), 'known_findings.json')


def load():
    if not os.path.exists(PATH):
        return []
    return json.load(open(PATH)).get('findings', [])


def match(kf, prop, line, k, detail):
    """an *open* finding listed for this property whose trigger matches this failing case"""
    if line is None:
        return None
    if isinstance(line, list):
        line = line[0][0]
    grammar = line.partition(' M ')[2].partition(' I ')[0].split()
    header = line.split(' ', 5)[:5]
    for f in kf:
        if f.get('status') != 'open' or prop not in f.get('properties', []):
            continue
        m = f.get('match', {})
        if any(op not in grammar for op in m.get('grammar_contains', [])):
            continue
        if 'header_contains' in m and not all(h in header for h in m['header_contains']):
            continue
        if 'id_prefix' in m and not header[0].startswith(m['id_prefix']):
            continue
        if 'grammar_regex' in m and not re.search(m['grammar_regex'], ' '.join(grammar)):
            continue
        if 'detail_regex' in m and not re.search(m['detail_regex'], detail or ''):
            continue
        return f
    return None
