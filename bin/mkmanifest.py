#!/usr/bin/env python3
"""regenerate MANIFEST.json from bin/props.py (claimed properties) and properties.jsonl"""
import json, os, sys
sys.path.insert(0, os.path.dirname(os.path.abspath(__file__)))
import props
V = os.path.dirname(os.path.dirname(os.path.abspath(__file__)))
ids = [json.loads(l)['id'] for l in open(os.path.join(V, 'properties.jsonl')) if l.strip()]
checks, na = [], []
for pid in ids:
    p = props.PROPS.get(pid)
    if p is None or not getattr(p, 'claimed', False):
        na.append({'property_id': pid, 'reason': getattr(p, 'na_reason', 'check not built yet in this round; planned per DESIGN.md section 5 (not a judgement that the technique cannot apply)')})
        continue
    checks.append({
        'property_id': pid,
        'quick_cmd': f'bin/check {pid} --tier quick',
        'thorough_cmd': f'bin/check {pid} --tier thorough',
        'evidence_file': f'/verif/evidence/{pid}.json',
        'replay_cmd_template': f'bin/check {pid} --replay {{path}}',
        'engine': 'lean-proof+correspondence',
        'level_claimed': {'category': 'proof', 'text': p.level_text, 'design_ref': f'DESIGN.md section 5, {pid}'},
        'level_note': p.level_note,
        'technique': p.technique,
    })
m = {
    'version': 1,
    'setup_cmd': 'bin/setup',
    'hooks': {
        'guard': 'chumsky_verif',
        'enable': 'RUSTFLAGS="--cfg chumsky_verif" (set by bin/check when it builds the harness; no source in /repo is guarded by it at present)',
        'baseline_off_cmd': 'cd /repo && cargo test --workspace --no-fail-fast --offline',
        'source_commits': [],
        'add_only': True,
    },
    'engines': [{
        'name': 'lean-proof+correspondence',
        'path': 'bin/check',
        'serves_properties': [c['property_id'] for c in checks],
        'kind_free_text': 'Lean 4 theorems about a hand-written executable model (lean/ChumskyModel) + differential correspondence '
                          'of the model against the real crate (harness/) on generated cases, on every run',
    }],
    'checks': checks,
    'not_applicable': na,
    'notes': 'See DESIGN.md. Genuine defects repaired in /repo are listed in known_findings.json (status fixed).',
}
json.dump(m, open(os.path.join(V, 'MANIFEST.json'), 'w'), indent=1)
print('claimed', [c['property_id'] for c in checks])
