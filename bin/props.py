"""Per-property definitions: case generators, the observable compared (Obs_X), the predicate evaluated on
the implementation's observation (PropX.holds), evidence texts."""
import random

import gen
from gen import case_line, inputs_all, inputs_lit
from vcheck import parse_M, parse_S

BACKTRACK_OPS = {'or', 'choicet', 'choices', 'ornot', 'not', 'andis', 'rewind', 'rep', 'sep', 'recvia', 'recskip',
                 'recretry', 'ornotit'}


def grammar_of(line):
    return line.partition(' M ')[2].partition(' I ')[0]


def is_nontrivial(line, k, impl):
    """rule: the grammar contains a backtracking site, and the input is non-empty (k > 0 in an `all` enumeration)"""
    g = grammar_of(line).split()
    return k > 0 and any(t in BACKTRACK_OPS for t in g)


class Prop:
    name = '?'
    module = '?'
    title = ''
    claimed = False
    technique = 'Lean 4 proof about a hand-written model + differential correspondence model/implementation'
    level_text = ''
    level_note = ('theorems are about the model; the model is tied to /repo by the correspondence check run on every invocation '
                  '(bounded by the generators); trusted: Lean kernel, standard axioms only, harness interpreter and printers, closure library')
    bins = ['h_str_rich', 'h_slice_rich']
    trusted = [
        'Lean 4.33 kernel; axioms per theorem as printed by #print axioms (subset of propext, Classical.choice, Quot.sound)',
        'hand-written model (lean/ChumskyModel/Model) validated against /repo by differential execution on every run',
        'harness interpreter AST -> real combinators, canonical observation printers on both sides',
        'closed library of user closures; std, hashbrown, stacker, rustc',
    ]

    def cases(self, tier, seed):
        raise NotImplementedError

    def corpus(self):
        return []

    # Obs_X projections -------------------------------------------------------------------------
    def obs_impl(self, m):
        """projection of an implementation / machine observation"""
        return m

    def compare(self, line, k, impl_M, model_M, spec_S):
        raise NotImplementedError

    def group_of(self, line):
        """case lines with the same group are evaluated in the same worker (metamorphic pairs)"""
        return line.split(' ', 1)[0]

    def check_chunk(self, by_id, impl, model, stats, fails):
        """default: every (case, input) on its own, through `compare`"""
        for key, mo in model.items():
            if key == '__bad__':
                continue
            cid, _, k = key.rpartition('.')
            line = by_id.get(cid)
            io = impl.get(key, {})
            stats['pairs'] += 1
            i_m = io.get('M')
            m_m = mo.get('M')
            m_s = mo.get('S')
            if i_m is None:
                fails.append(('missing', line, int(k), 'no implementation observation (crash / hang?)'))
                continue
            res = self.compare(line, int(k), i_m, m_m, m_s)
            oc = res.get('outcome', '?')
            stats['outcomes'][oc] = stats['outcomes'].get(oc, 0) + 1
            if res.get('nontrivial'):
                stats['nontrivial'] += 1
            if not res['pred']:
                stats['pred_fail'] += 1
                if len(fails) < 200:
                    fails.append(('pred', line, int(k), res.get('why', '') + f' || impl: {i_m} || model: {m_m} || spec: {m_s}'))
            elif not res['corr']:
                stats['corr_disagree'] += 1
                if len(fails) < 200:
                    fails.append(('corr', line, int(k), f'impl: {i_m} || model: {m_m}'))
            elif len(stats['samples']) < 2 and res.get('nontrivial'):
                stats['samples'].append({'case': grammar_of(line), 'input_index': int(k), 'impl': i_m})


def proj_accept_value(m):
    if m['kind'] == 'R':
        return ('R', m['out'])
    if m['kind'] == 'P':
        return ('P', m['site'])
    return (m['kind'],)


def spec_accept_value(s):
    if s['kind'] == 'ok':
        return ('R', s['val'])
    if s['kind'] == 'fail':
        return ('R', None)
    if s['kind'] == 'P':
        return ('P', s['site'])
    return (s['kind'],)


def dedup(lines_iter):
    seen = set()
    for g in lines_iter:
        r = gen.render(g)
        if r in seen:
            continue
        seen.add(r)
        yield g


class C01(Prop):
    name = 'C01'
    module = 'C01'
    title = 'PEG semantics of sequence / ordered choice / option / lookahead'
    claimed = True
    level_text = ('refinement theorem machine -> PEG reading for every grammar/input/fuel (Lean), '
                  'and acceptance/output of the real crate compared with model and PEG reading on enumerated and random grammars')
    rule = ('grammars: exhaustive enumeration by node count over the C01 constructor set (deduplicated), plus seeded '
            'random deeper ones; inputs: all strings up to the bound over {a,b,e-acute,clef}; kinds &str and &[char]; '
            'non-trivial = grammar contains a backtracking site and the input is non-empty; every (grammar,input) pair is distinct')

    def cases(self, tier, seed):
        rng = random.Random(seed)
        max_size = 3 if tier == 'quick' else 4
        by = gen.enum_by_size(3, gen.C01_LEAVES, gen.C01_UNARIES, gen.C01_BINARIES, gen.C01_TERNARIES)
        lines = []
        n = 0
        grammars = [g for s in sorted(by) for g in by[s]]
        if tier != 'quick':
            # size-4 grammars: a seeded sample of the enumeration
            by4 = gen.enum_by_size(4, gen.C01_LEAVES, gen.C01_UNARIES, gen.C01_BINARIES, gen.C01_TERNARIES)[4]
            rng.shuffle(by4)
            grammars += by4[:30000]
        nrand = 1500 if tier == 'quick' else 15000
        for _ in range(nrand):
            grammars.append(gen.random_grammar(rng, rng.randint(3, 6), gen.C01_LEAVES, gen.C01_UNARIES,
                                               gen.C01_BINARIES, gen.C01_TERNARIES))
        maxlen = 4 if tier == 'quick' else 5
        for g in dedup(grammars):
            kind = 'str' if n % 2 == 0 else 'slice'
            lines.append(case_line(f'g{n}', g, inputs_all(maxlen if gen.size(g) <= 3 else 4, gen.C01_ALPHA), kind=kind))
            n += 1
        return lines

    def compare(self, line, k, impl_M, model_M, spec_S):
        i = proj_accept_value(parse_M(impl_M))
        m = proj_accept_value(parse_M(model_M))
        s = spec_accept_value(parse_S(spec_S))
        return {'corr': i == m, 'pred': i == s, 'why': 'acceptance/output differs from the PEG reading',
                'outcome': 'accept' if i[0] == 'R' and i[1] is not None else ('reject' if i[0] == 'R' else i[0]),
                'nontrivial': is_nontrivial(line, k, i)}



def full_compare(line, k, impl_M, model_M, spec_S):
    return {'corr': impl_M == model_M, 'pred': True, 'outcome': impl_M.split(' ')[0] + ('+' if impl_M.startswith('R ok') else '-'),
            'nontrivial': is_nontrivial(line, k, None)}


def stream_items(tier, seed, want):
    """(grammar, inputs, kwargs) of the validation streams"""
    rng = random.Random(seed)
    items = []

    def add(g, inputs, **kw):
        items.append((g, inputs, kw))
    by = gen.enum_by_size(3, gen.C01_LEAVES, gen.C01_UNARIES, gen.C01_BINARIES, gen.C01_TERNARIES)
    small = [g for s in (1, 2) for g in by[s]]
    c01 = [g for s in sorted(by) for g in by[s]]
    inp01 = inputs_all(4, [gen.A, gen.B, gen.EA]) + ' ' + inputs_all(2, [gen.A, gen.CLEF])
    if 'c01' in want:
        for g in c01:
            add(g, inp01)
    if 'c02' in want:
        inp02 = inputs_all(6 if tier != 'quick' else 5, gen.C02_ALPHA)
        its = gen.c02_iterators(gen.C02_ITEMS[:4], gen.C02_SEPS[:2], gen.bounds(3))
        rng.shuffle(its)
        for it in its[:400 if tier == 'quick' else 4000]:
            for c in gen.c02_consumers(it):
                add(c, inp02)
        for g in gen.c02_special():
            add(g, inp02)
        for a in gen.C02_NULLABLE_ITEMS:
            for it in [('rep', a, 0, None), ('rep', a, 1, 3), ('sep', a, ('just', [gen.COMMA]), 0, None, False, False)]:
                for c in gen.c02_consumers(it):
                    add(c, inputs_all(3, gen.C02_ALPHA))
    base = [g for g in c01 if gen.size(g) >= 2]
    rng.shuffle(base)
    for key, wraps, cnt in (('emit', gen.EMITTERS, 600), ('rec', gen.RECOVERIES, 600), ('deco', gen.DECORATIONS, 600)):
        if key not in want:
            continue
        for g in base[:cnt if tier == 'quick' else cnt * 8]:
            for w in wraps:
                for g2 in gen.insert_at_nodes(g, w):
                    add(g2, inp01)
    if 'ek' in want:
        pool = base[:300] + [g2 for g in base[300:420] for w in gen.RECOVERIES + gen.DECORATIONS[2:] for g2 in gen.insert_at_nodes(g, w)[:3]]
        for g in pool:
            for ek in ('simple', 'cheap', 'empty'):
                add(g, inp01, ek=ek)
    if 'ctx' in want:
        for g in gen.ctx_family():
            add(g, inputs_all(5, [gen.A, gen.B, 50, 51]))
        pool = base[:500]
        for g in pool:
            for g2 in gen.insert_at_nodes(g, lambda a: ('mwctx', a))[:2]:
                for w in gen.CTX_PROVIDERS:
                    for g3 in gen.insert_at_nodes(g2, w)[:4]:
                        add(g3, inp01)
    return items



class ALL(Prop):
    """model validation: the whole observation (output, every error, final inspector state) of model and
    implementation on every stream. Not a property check; used to keep the model honest."""
    name = 'ALL'
    module = 'C01'
    rule = 'all streams; full observation equality'
    bins = ['h_str_rich', 'h_slice_rich', 'h_str_simple', 'h_slice_simple', 'h_str_cheap', 'h_slice_cheap', 'h_str_empty', 'h_slice_empty']

    def __init__(self, streams=None):
        self.streams = streams

    def cases(self, tier, seed):
        want = self.streams or ['c01', 'c02', 'emit', 'rec', 'deco', 'ctx', 'ek']
        lines = []
        for n, (g, inputs, kw) in enumerate(stream_items(tier, seed, want)):
            kw = dict(kw)
            kind = kw.pop('kind', 'str' if n % 2 == 0 else 'slice')
            lines.append(case_line(f'a{n}', g, inputs, kind=kind, **kw))
        return lines

    def compare(self, line, k, impl_M, model_M, spec_S):
        return full_compare(line, k, impl_M, model_M, spec_S)



class C04(Prop):
    name = 'C04'
    module = 'C04'
    title = 'check mode and output elision are unobservable'
    claimed = True
    level_text = ('theorem run check = erase (run emit) for every grammar of the object language, every state and fuel (Lean), '
                  'value-building formulations proved equal; check() vs parse() of the real crate compared on every stream')
    rule = ('every grammar of the validation streams (C01 class, repetition/consumers, emitters, recovery, decorations, context, '
            'all four error kinds) is run twice, through parse and through check; non-trivial = backtracking grammar and '
            'non-empty input; pairs are distinct (grammar, input, mode) triples')
    bins = ALL.bins

    def cases(self, tier, seed):
        lines = []
        items = stream_items(tier, seed, ['c01', 'c02', 'emit', 'rec', 'deco', 'ctx', 'ek'])
        rng = random.Random(seed)
        if tier == 'quick':
            rng.shuffle(items)
            items = items[:6000]
        for n, (g, inputs, kw) in enumerate(items):
            kw = dict(kw)
            kind = kw.pop('kind', 'str' if n % 2 == 0 else 'slice')
            lines.append(case_line(f'x{n}p', g, inputs, kind=kind, mode='parse', **kw))
            lines.append(case_line(f'x{n}c', g, inputs, kind=kind, mode='check', **kw))
        # value-building formulations
        pairs = []
        smalls = gen.C01_LEAVES[:10]
        for a in smalls:
            for b in smalls:
                pairs.append((('ithen', a, b), ('map', 'snd', ('then', a, b))))
                pairs.append((('theni', a, b), ('map', 'fst', ('then', a, b))))
                pairs.append((('padded', a, b), ('theni', ('ithen', b, a), b)))
                pairs.append((('delim', a, b, ('just', [gen.B])), ('theni', ('ithen', b, a), ('just', [gen.B]))))
            pairs.append((('ignored', a), ('to', ('vunit',), a)))
            pairs.append((('iterp', ('rep', a, 1, 3)), ('collect', 'unit', ('rep', a, 1, 3))))
        inp = inputs_all(4, [gen.A, gen.B, gen.EA])
        for n, (l, r) in enumerate(pairs):
            for mode in ('parse', 'check'):
                lines.append(case_line(f'y{n}{mode[0]}p', l, inp, mode=mode))
                lines.append(case_line(f'y{n}{mode[0]}c', r, inp, mode=mode))
        return lines

    def group_of(self, line):
        return line.split(' ', 1)[0][:-1]

    def check_chunk(self, by_id, impl, model, stats, fails):
        for key, mo in model.items():
            if key == '__bad__' or not key.rpartition('.')[0].endswith('p'):
                continue
            cid, _, k = key.rpartition('.')
            cid_c = cid[:-1] + 'c'
            line = by_id.get(cid)
            ip = impl.get(key, {}).get('M')
            ic = impl.get(cid_c + '.' + k, {}).get('M')
            mp = mo.get('M')
            mc = model.get(cid_c + '.' + k, {}).get('M')
            stats['pairs'] += 2
            if ip is None or ic is None:
                fails.append(('missing', line, int(k), 'no implementation observation'))
                continue
            a, b = parse_M(ip), parse_M(ic)
            if cid.startswith('x'):
                # check vs parse: same acceptance, identical error list (values erased)
                pa = (a['kind'], a.get('out') is not None, a.get('errs'), a.get('site'))
                pb = (b['kind'], b.get('out') is not None, b.get('errs'), b.get('site'))
            else:
                # two formulations: identical observation
                pa, pb = ip, ic
            pred = pa == pb
            corr = (ip == mp) and (ic == mc)
            oc = a['kind'] + ('+' if a.get('out') is not None else '-')
            stats['outcomes'][oc] = stats['outcomes'].get(oc, 0) + 1
            if is_nontrivial(line, int(k), None):
                stats['nontrivial'] += 2
            if not pred:
                stats['pred_fail'] += 1
                if len(fails) < 200:
                    fails.append(('pred', line, int(k), f'check/parse (or the two formulations) differ || first: {ip} || second: {ic}'))
            elif not corr:
                stats['corr_disagree'] += 1
                if len(fails) < 200:
                    fails.append(('corr', line, int(k), f'impl: {ip} / {ic} || model: {mp} / {mc}'))
            elif len(stats['samples']) < 2 and int(k) > 3:
                stats['samples'].append({'case': grammar_of(line), 'input_index': int(k), 'parse': ip, 'check': ic})


PROPS = {p.name: p for p in [C01(), ALL(), C04()]}
for _s in ['c01', 'c02', 'emit', 'rec', 'deco', 'ctx', 'ek']:
    PROPS['ALL_' + _s] = ALL([_s])
    PROPS['ALL_' + _s].name = 'ALL_' + _s

