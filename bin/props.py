"""Per-property definitions: case generators, the observable compared (Obs_X), the predicate evaluated on
the implementation's observation (PropX.holds), evidence texts."""
import random

import gen
from gen import case_line, inputs_all, inputs_lit
from vcheck import parse_M, parse_S

BACKTRACK_OPS = {'or', 'choicet', 'choices', 'ornot', 'not', 'andis', 'rewind', 'rep', 'sep', 'recvia', 'recskip',
                 'recretry', 'ornotit'}


def grammar_of(line):
    return line.partition(' M ')[2].partition(' I ')[0]


def is_nontrivial(line, k, impl):
    """rule: the grammar contains a backtracking site, and the input is non-empty (k > 0 in an `all` enumeration)"""
    g = grammar_of(line).split()
    return k > 0 and any(t in BACKTRACK_OPS for t in g)


class Prop:
    name = '?'
    module = '?'
    title = ''
    claimed = False
    technique = 'Lean 4 proof about a hand-written model + differential correspondence model/implementation'
    level_text = ''
    level_note = ('theorems are about the model; the model is tied to /repo by the correspondence check run on every invocation '
                  '(bounded by the generators); trusted: Lean kernel, standard axioms only, harness interpreter and printers, closure library')
    bins = ['h_str_rich', 'h_slice_rich']
    trusted = [
        'Lean 4.33 kernel; axioms per theorem as printed by #print axioms (subset of propext, Classical.choice, Quot.sound)',
        'hand-written model (lean/ChumskyModel/Model) validated against /repo by differential execution on every run',
        'harness interpreter AST -> real combinators, canonical observation printers on both sides',
        'closed library of user closures; std, hashbrown, stacker, rustc',
    ]

    def cases(self, tier, seed):
        raise NotImplementedError

    def corpus(self):
        return []

    # Obs_X projections -------------------------------------------------------------------------
    def obs_impl(self, m):
        """projection of an implementation / machine observation"""
        return m

    def compare(self, line, k, impl_M, model_M, spec_S):
        raise NotImplementedError

    def group_of(self, line):
        """case lines with the same group are evaluated in the same worker (metamorphic pairs)"""
        return line.split(' ', 1)[0]

    def fail(self, stats, fails, kind, line, k, detail):
        """record a failing case; failures matching an *open* known finding are counted apart and never use up the
        per-worker cap (so they cannot hide a different violation)"""
        import findings
        global _KF
        try:
            kf = _KF
        except NameError:
            kf = _KF = findings.load()
        hit = findings.match(kf, self.name, line, k, detail) if kind in ('pred', 'corr') else None
        if hit:
            known = stats.setdefault('known', {})
            known[hit['id']] = known.get(hit['id'], 0) + 1
            return
        if sum(1 for f in fails if f[0] == kind) < 100:
            fails.append((kind, line, k, detail))

    def check_chunk(self, by_id, impl, model, stats, fails):
        """default: every (case, input) on its own, through `compare`"""
        for key, mo in model.items():
            if key == '__bad__':
                continue
            cid, _, k = key.rpartition('.')
            line = by_id.get(cid)
            io = impl.get(key, {})
            stats['pairs'] += 1
            i_m = io.get('M')
            m_m = mo.get('M')
            m_s = mo.get('S')
            if i_m is None:
                fails.append(('missing', line, int(k), 'no implementation observation (crash / hang?)'))
                continue
            res = self.compare(line, int(k), i_m, m_m, m_s)
            oc = res.get('outcome', '?')
            stats['outcomes'][oc] = stats['outcomes'].get(oc, 0) + 1
            if res.get('nontrivial'):
                stats['nontrivial'] += 1
            if not res['pred']:
                stats['pred_fail'] += 1
                if True:
                    self.fail(stats, fails, 'pred', line, int(k), res.get('why', '') + f' || impl: {i_m} || model: {m_m} || spec: {m_s}')
            elif not res['corr']:
                stats['corr_disagree'] += 1
                if True:
                    self.fail(stats, fails, 'corr', line, int(k), f'impl: {i_m} || model: {m_m}')
            elif len(stats['samples']) < 2 and res.get('nontrivial'):
                stats['samples'].append({'case': grammar_of(line), 'input_index': int(k), 'impl': i_m})


def proj_accept_value(m):
    if m['kind'] == 'R':
        return ('R', m['out'])
    if m['kind'] == 'P':
        return ('P', m['site'])
    return (m['kind'],)


def spec_accept_value(s):
    if s['kind'] == 'ok':
        return ('R', s['val'])
    if s['kind'] == 'fail':
        return ('R', None)
    if s['kind'] == 'P':
        return ('P', s['site'])
    return (s['kind'],)


def dedup(lines_iter):
    seen = set()
    for g in lines_iter:
        r = gen.render(g)
        if r in seen:
            continue
        seen.add(r)
        yield g


class C01(Prop):
    name = 'C01'
    module = 'C01'
    title = 'PEG semantics of sequence / ordered choice / option / lookahead'
    claimed = True
    level_text = ('refinement theorem machine -> PEG reading for every grammar/input/fuel (Lean), '
                  'and acceptance/output of the real crate compared with model and PEG reading on enumerated and random grammars; the same refinement and PEG laws for grammars with extensions (Pratt tables and nested-input parsers containing each other, machine runE / reading pegE)')
    rule = ('grammars: exhaustive enumeration by node count over the C01 constructor set (deduplicated), plus seeded '
            'random deeper ones; inputs: all strings up to the bound over {a,b,e-acute,clef}; kinds &str and &[char]; '
            'non-trivial = grammar contains a backtracking site and the input is non-empty; every (grammar,input) pair is distinct')

    bins = ['h_str_rich', 'h_slice_rich', 'h_kinds_rich']

    def cases(self, tier, seed):
        rng = random.Random(seed)
        max_size = 3 if tier == 'quick' else 4
        by = gen.enum_by_size(3, gen.C01_LEAVES, gen.C01_UNARIES, gen.C01_BINARIES, gen.C01_TERNARIES)
        lines = []
        n = 0
        grammars = [g for s in sorted(by) for g in by[s]]
        if tier != 'quick':
            # size-4 grammars: a seeded sample of the enumeration
            by4 = gen.enum_by_size(4, gen.C01_LEAVES, gen.C01_UNARIES, gen.C01_BINARIES, gen.C01_TERNARIES)[4]
            rng.shuffle(by4)
            grammars += by4[:30000]
        nrand = 1500 if tier == 'quick' else 15000
        for _ in range(nrand):
            grammars.append(gen.random_grammar(rng, rng.randint(3, 6), gen.C01_LEAVES, gen.C01_UNARIES,
                                               gen.C01_BINARIES, gen.C01_TERNARIES))
        maxlen = 4 if tier == 'quick' else 5
        rest = ('toslice', ('iterp', ('rep', ('any',), 0, None)))
        for g in dedup(grammars):
            kind = 'str' if n % 2 == 0 else 'slice'
            inp = inputs_all(maxlen if gen.size(g) <= 3 else 4, gen.C01_ALPHA) + ' ' + inputs_all(2, [gen.A, gen.THAI])
            lines.append(case_line(f'g{n}', g, inp, kind=kind))
            # the same grammar followed by "the remainder": the parse succeeds whenever the grammar matches a prefix, so the output
            # (value, every captured span, how much was consumed) is observed on most inputs instead of a bare rejection
            lines.append(case_line(f'h{n}', ('then', g, rest), inp, kind=kind))
            n += 1
        # the same semantics on an input that has to SEEK to follow the parser (IoInput behind Input::map, read through a reader that
        # hands out two bytes per call): lookahead and backtracking move the cursor in both directions relative to the reader
        io_alpha = [gen.A, gen.B, 99]
        io_in = inputs_all(4, io_alpha)
        a_, b_, c_ = ('just', [gen.A]), ('just', [gen.B]), ('just', [99])
        two = ('then', ('any',), ('any',))
        io_g = [('then', ('andis', two, ('any',)), ('any',)), ('then', ('andis', two, ('not', b_)), rest_any := ('collect', 'vec', ('rep', ('any',), 0, None))),
                ('then', ('andis', ('just', [gen.A, gen.B]), a_), c_), ('then', ('rewind', two), two), ('then', ('not', ('then', a_, b_)), two),
                ('then', ('ornot', ('then', a_, ('then', b_, c_))), rest_any), ('or', ('then', a_, ('then', b_, c_)), ('then', a_, two)),
                ('then', ('andis', ('collect', 'vec', ('rep', a_, 1, None)), a_), rest_any),
                ('collect', 'vec', ('rep', ('andis', two, ('any',)), 0, None)), ('then', ('andis', ('andis', two, a_), ('any',)), ('ornot', ('any',)))]
        for g in io_g:
            lines.append(case_line(f'i{n}', g, io_in, kind='iomap'))
            n += 1
        # the token sets / sequences of `one_of`, `none_of`, `just` handed over as every `Seq` / `OrderedSeq` implementation
        # (`container.rs`: String, &str, arrays, slices, ranges, a single token, references, hash / tree sets, linked list;
        # harness flavour `~sN`, 0 = Vec): all must behave as the Vec the model describes. Inputs include tokens next to the
        # range ends and tokens that agree with a member of the set modulo 2^8 / 2^16.
        sets = [[97, 98], [97, 98, 99], [97], [98, 97], [97, 99], [233, 97], [97, 0x161], [0x4e2d, 0x4e2e]]
        alpha = [97, 98, 99, 100, 96, 233, 0x161, 0x162, 0x10061, 0x4e2d, 0x2d, 0x4e2f]
        inp = inputs_all(2, alpha)
        for si, ts in enumerate(sets):
            for prim in ('oneof', 'noneof', 'just'):
                for fl in range(13):
                    if prim == 'just' and fl >= 10:
                        continue
                    g = (prim, ts)
                    kind = 'str' if (si + fl) % 2 == 0 else 'slice'
                    lines.append(case_line(f'q{n}~s{fl}', g, inp, kind=kind))
                    lines.append(case_line(f'r{n}~s{fl}', ('then', ('collect', 'vec', ('rep', ('or', g, ('map', ('tag', 3), ('any',))), 0, None)), ('end',)), inp, kind=kind))
                    n += 1
        # choice over an array (`~s3`), over a Vec, and over a one-element tuple (no save / rewind at all)
        ab, a1, b1 = ('just', [97, 98]), ('just', [97]), ('just', [98])
        alts = [[ab, a1], [a1, ab], [ab, a1, b1], [('then', a1, b1), ('then', a1, a1), a1], [ab], [('ornot', ab), a1]]
        inp2 = inputs_all(4, [97, 98, 233])
        for ai, gs in enumerate(alts):
            for fl in (0, 3):
                for shape in (lambda c: c, lambda c: ('then', c, rest), lambda c: ('collect', 'vec', ('rep', c, 0, None))):
                    if shape(('choices', gs))[0] == 'collect' and any(x[0] == 'ornot' for x in gs):
                        continue
                    kind = 'str' if (ai + fl) % 2 == 0 else 'slice'
                    lines.append(case_line(f'c{n}~s{fl}', shape(('choices', gs)), inp2, kind=kind))
                    if len(gs) == 1 and fl == 0:
                        lines.append(case_line(f'd{n}', shape(('choicet', gs)), inp2, kind=kind))
                    n += 1
        # the InputRef conveniences a hand-written `custom` parser is built from: `next_maybe` / `peek_maybe` / `span_since`
        # (harness-only `!ze…` = the model's `cnext`), `InputRef::parse` / `InputRef::check` around an ordinary parser
        # (`!za…` / `!zb…`: same acceptance, same output, same consumption as the parser itself)
        inp3 = inputs_all(3, [97, 98, 233])
        subs = [('just', [97]), ('just', [97, 98]), ('ornot', ('just', [97])), ('collect', 'vec', ('rep', ('just', [97]), 1, None)),
                ('or', ('just', [97, 98]), ('just', [97])), ('then', ('any',), ('just', [98])), ('andis', ('any',), ('just', [97])),
                ('validate', 'always', 5, 1, ('any',)), ('recvia', ('just', [97]), ('to', ('vnat', 9), ('any',)))]
        for si, p_ in enumerate(subs):
            kind = 'str' if si % 2 == 0 else 'slice'
            lines.append(case_line(f'za{n}', ('then', p_, rest), inp3, kind=kind))
            lines.append(case_line(f'!za{n}', ('then', ('cparse', p_), rest), inp3, kind=kind))
            lines.append(case_line(f'zb{n}', ('then', ('ignored', p_), rest), inp3, kind=kind))
            lines.append(case_line(f'!zb{n}', ('then', ('ccheck', p_), rest), inp3, kind=kind))
            n += 1
            # `unwrapped()` over `map(Some)` / `map(Ok)` is the identity (harness-only `!zu…` / `!zv…` against the parser itself),
            # in parse and in check mode
            for mode in ('parse', 'check'):
                lines.append(case_line(f'zu{n}', ('then', p_, rest), inp3, kind=kind, mode=mode))
                lines.append(case_line(f'!zu{n}', ('then', ('unwrapsome', p_), rest), inp3, kind=kind, mode=mode))
                lines.append(case_line(f'zv{n}', ('or', ('then', p_, ('just', [98])), p_), inp3, kind=kind, mode=mode))
                lines.append(case_line(f'!zv{n}', ('or', ('then', ('unwrapok', p_), ('just', [98])), ('unwrapok', p_)), inp3, kind=kind, mode=mode))
                n += 1
        for shape in (lambda c: ('then', c, rest), lambda c: ('collect', 'vec', ('rep', c, 0, 2)), lambda c: ('or', ('then', c, ('just', [98])), c)):
            kind = 'str' if n % 2 == 0 else 'slice'
            lines.append(case_line(f'ze{n}', shape(('cnext', 3)), inp3, kind=kind))
            lines.append(case_line(f'!ze{n}', shape(('cnextmaybe', 3)), inp3, kind=kind))
            n += 1
        return lines

    def group_of(self, line):
        return line.split(' ', 1)[0].lstrip('!')

    def check_chunk(self, by_id, impl, model, stats, fails):
        super().check_chunk(by_id, impl, model, stats, fails)
        for key, io in impl.items():
            if not key.startswith('!'):
                continue
            cid, _, k = key.rpartition('.')
            a, b = io.get('M'), impl.get(key[1:], {}).get('M')
            stats['pairs'] += 1
            stats['nontrivial'] += 1
            if a is None or b is None:
                fails.append(('missing', by_id.get(cid), int(k), 'no implementation observation (crash / hang?)'))
                continue
            pa, pb = parse_M(a), parse_M(b)
            # `ze`: everything; `za` / `zb`: acceptance and output (the errors of `InputRef::parse` are re-recorded by `custom`)
            same = (a == b) if cid.startswith('!ze') else (proj_accept_value(pa) == proj_accept_value(pb) or
                                                            (pa['kind'] == pb['kind'] == 'R' and pa['out'] is None and pb['out'] is None))
            if not same:
                stats['pred_fail'] += 1
                self.fail(stats, fails, 'pred', [(by_id.get(cid), int(k)), (by_id.get(cid[1:]), int(k))], int(k),
                          f'INPUTREF-API: written with the InputRef conveniences: {a} || the plain parser: {b}')

    def compare(self, line, k, impl_M, model_M, spec_S):
        i = proj_accept_value(parse_M(impl_M))
        m = proj_accept_value(parse_M(model_M))
        s = spec_accept_value(parse_S(spec_S))
        if ' check ' in line[:48] and s[0] == 'R' and s[1] is not None:
            s = ('R', 'u')          # `check()` builds no output
        return {'corr': i == m, 'pred': i == s, 'why': 'acceptance/output differs from the PEG reading',
                'outcome': 'accept' if i[0] == 'R' and i[1] is not None else ('reject' if i[0] == 'R' else i[0]),
                'nontrivial': is_nontrivial(line, k, i)}



def full_compare(line, k, impl_M, model_M, spec_S):
    return {'corr': impl_M == model_M, 'pred': True, 'outcome': impl_M.split(' ')[0] + ('+' if impl_M.startswith('R ok') else '-'),
            'nontrivial': is_nontrivial(line, k, None)}


def stream_items(tier, seed, want):
    """(grammar, inputs, kwargs) of the validation streams"""
    rng = random.Random(seed)
    items = []

    def add(g, inputs, **kw):
        items.append((g, inputs, kw))
    by = gen.enum_by_size(3, gen.C01_LEAVES, gen.C01_UNARIES, gen.C01_BINARIES, gen.C01_TERNARIES)
    small = [g for s in (1, 2) for g in by[s]]
    c01 = [g for s in sorted(by) for g in by[s]]
    inp01 = inputs_all(4, [gen.A, gen.B, gen.EA]) + ' ' + inputs_all(2, [gen.A, gen.CLEF, gen.THAI])
    if 'c01' in want:
        for g in c01:
            add(g, inp01)
        for g in gen.furthest_family():
            add(g, inputs_all(4, [gen.A, gen.B, gen.EA]), prio=True)
        for _ in range(1200 if tier == 'quick' else 12000):
            add(gen.random_grammar(rng, rng.randint(3, 6), gen.C01_LEAVES, gen.C01_UNARIES, gen.C01_BINARIES, gen.C01_TERNARIES),
                inputs_all(4, [gen.A, gen.B, gen.EA]))
    if 'c02' in want:
        inp02 = inputs_all(6 if tier != 'quick' else 5, gen.C02_ALPHA)
        its = gen.c02_iterators(gen.C02_ITEMS[:4], gen.C02_SEPS[:4], gen.bounds(3))
        rng.shuffle(its)
        for it in its[:500 if tier == 'quick' else 5000]:
            for c in gen.c02_consumers(it):
                add(c, inp02)
        for g in gen.c02_special():
            add(g, inp02)
        for g in gen.length_sensitive_family():
            add(g, inputs_all(4, gen.C02_ALPHA), prio=True, must=True)
        for a in gen.C02_NULLABLE_ITEMS:
            for it in [('rep', a, 0, None), ('rep', a, 1, 3), ('sep', a, ('just', [gen.COMMA]), 0, None, False, False)]:
                for c in gen.c02_consumers(it):
                    add(c, inputs_all(3, gen.C02_ALPHA))
    base = [g for g in c01 if gen.size(g) >= 2]
    rng.shuffle(base)
    if 'emit' in want:
        inp_ab = inputs_all(4, [gen.A, gen.B])
        for g in gen.abandon_family():
            add(g, inp_ab, prio=True)
        # an emission KEPT by a lookahead (rewind / and_is) lies ahead of the cursor; an attempt abandoned afterwards emits at an
        # earlier position: the truncation on backtracking must remove the abandoned one and only that one (the list is a stack
        # in emission order, whatever the positions)
        ANY_, A_, B_ = ('any',), ('just', [gen.A]), ('just', [gen.B])
        E1 = lambda a: ('validate', 'always', 5, 1, a)
        E2 = lambda a: ('validate', 'always', 6, 1, a)
        rest = ('toslice', ('iterp', ('rep', ('any',), 0, None)))
        deep = [('then', ANY_, E1(ANY_)), ('then', ANY_, ('then', ANY_, E1(ANY_))), ('then', A_, E1(('oneof', [gen.A, gen.B])))]
        las = [lambda d: ('rewind', d), lambda d: ('andis', ('then', ANY_, ANY_), d), lambda d: ('andis', d, ANY_)]
        abandoned = [('then', E2(ANY_), ('cfail', 3)), ('then', E2(A_), B_), E2(('then', A_, ('then', B_, B_))), ('then', E2(ANY_), ('then', E2(ANY_), ('cfail', 3)))]
        conts = [lambda ab: ('or', ab, ANY_), lambda ab: ('ornot', ab), lambda ab: ('collect', 'vec', ('rep', ab, 0, None)),
                 lambda ab: ('choices', [ab, ('then', ANY_, ('cfail', 3)), ANY_]), lambda ab: ('then', ('not', ab), ANY_),
                 lambda ab: ('collect', 'vec', ('sep', ANY_, ab, 0, None, False, True))]
        for d in deep:
            for la in las:
                for ab in abandoned:
                    for ct in conts:
                        add(('then', la(d), ('then', ct(ab), rest)), inp_ab, prio=True)
        # an attempt that EMITS and then fails, abandoned by `recover_with` whose strategy then succeeds: what the attempt emitted
        # must be gone (only the recovered error is reported)
        for w in gen.RECOVERIES:
            for body in [('then', E1(ANY_), B_), ('then', E1(A_), ('then', E2(ANY_), ('cfail', 3))), ('then', E1(ANY_), ('then', ANY_, B_)),
                         ('then', ('recvia', A_, ('to', ('vnat', 9), ('any',))), B_)]:
                add(('then', w(body), rest), inp_ab, prio=True)
                add(('then', ('collect', 'vec', ('rep', w(body), 0, 2)), rest), inp_ab, prio=True)
                add(('or', ('then', w(body), ('cfail', 4)), rest), inp_ab, prio=True)
        # two emitters at different nodes (nested, in sequence, across a choice): the ORDER of the reported errors is the order
        # of emission
        for g in base[:150 if tier == 'quick' else 1500]:
            for g2 in gen.insert_at_nodes(g, gen.EMITTERS[0])[:4]:
                for g3 in gen.insert_at_nodes(g2, E2, pred=lambda t: t[0] != 'validate')[:3]:
                    add(g3, inp01)
    if 'rec' in want:
        # nested recovery: an inner recovery that succeeds (emitting), then a later failure, then an outer strategy
        nested = []
        for g in base[:120]:
            for w in gen.RECOVERIES[:3]:
                for g2 in gen.insert_at_nodes(g, w)[:2]:
                    for w2 in (gen.RECOVERIES[0], gen.RECOVERIES[2], gen.RECOVERIES[3]):
                        nested.append(w2(('then', g2, ('just', [gen.B]))))
                        nested.extend(gen.insert_at_nodes(g2, w2)[:1])
        for g in nested:
            add(g, inp01, prio=True)
        # recovery INSIDE the fallback of `via_parser` (the inner strategy takes the pending error as its own; the outer one
        # must still report one), under every error type incl. the zero-sized one
        A_, B_ = ('just', [gen.A]), ('just', [gen.B])
        inner_fbs = [('recvia', B_, ('to', ('vnat', 9), ('any',))), ('recvia', B_, ('to', ('vnat', 8), ('empty',))),
                     ('recskip', B_, ('any',), A_, ('vnat', 7)), ('recretry', B_, ('any',), ('end',)),
                     ('then', ('recvia', B_, ('to', ('vnat', 9), ('any',))), ('ornot', A_))]
        for a in (A_, ('then', A_, B_), ('any',), ('collect', 'vec', ('rep', A_, 1, None))):
            for fb in inner_fbs:
                g = ('recvia', a, fb)
                for g2 in (g, ('then', g, ('ornot', B_)), ('collect', 'vec', ('rep', g, 0, 2))):
                    for ek in ('empty', 'cheap', 'rich', 'simple'):
                        add(g2, inputs_all(3, [gen.A, gen.B]), ek=ek, prio=True)
        # nested_delimiters: all bracket strings (valid and invalid) up to the bound
        nd_alpha = [gen.A, gen.B, gen.LP, gen.RP, gen.LB, gen.RB]
        for g, defs in gen.nd_family():
            add(g, inputs_all(4 if tier == 'quick' else 5, nd_alpha) + ' ' + inputs_all(3, [gen.LP, gen.RP, gen.LC, gen.RC, gen.COMMA]),
                prio=True, defs=defs)
    for key, wraps, cnt in (('emit', gen.EMITTERS, 600), ('rec', gen.RECOVERIES, 600), ('deco', gen.DECORATIONS, 600)):
        if key not in want:
            continue
        for g in base[:cnt if tier == 'quick' else cnt * 8]:
            for w in wraps:
                for g2 in gen.insert_at_nodes(g, w):
                    add(g2, inp01)
    if 'ek' in want:
        for g in gen.unwrap_family():
            for ek in ('empty', 'cheap', 'rich'):
                add(g, inputs_all(3, [gen.A, gen.B]), ek=ek, prio=True, must=True)
        pool = base[:300] + [g2 for g in base[300:420] for w in gen.RECOVERIES + gen.DECORATIONS[2:] for g2 in gen.insert_at_nodes(g, w)[:3]]
        for g in pool:
            for ek in ('simple', 'cheap', 'empty'):
                add(g, inp01, ek=ek)
    if 'state' in want:
        pool = base[:500] + [g for g in c01 if gen.size(g) >= 2 and ('rewind' in gen.ops_of(g) or 'andis' in gen.ops_of(g))][:200]
        for g in pool:
            for g2 in gen.insert_at_nodes(g, lambda a: ('mwstate', a))[:4]:
                add(g2, inp01)
                for g3 in gen.insert_at_nodes(g2, lambda a: ('withstate', a), pred=lambda t: t[0] != 'mwstate')[:2]:
                    add(g3, inp01)
        for g in pool[:150]:
            for w in gen.RECOVERIES[:3]:
                for g2 in gen.insert_at_nodes(g, w)[:2]:
                    for g3 in gen.insert_at_nodes(g2, lambda a: ('mwstate', a))[:2]:
                        add(g3, inp01)
    if 'state' in want:
        # a shared memoized parser run where no output is required of it (check mode), abandoned by the enclosing alternative
        # and visited again at the same position: whatever the table remembers, the inspector must have been fed the tokens
        # of the second visit when the observation behind it is made
        A_, B_, ANY_ = ('just', [gen.A]), ('just', [gen.B]), ('any',)
        for body in [('just', [gen.A, gen.B]), ('then', ANY_, ANY_), ('collect', 'vec', ('rep', A_, 1, None)), ('then', A_, ('ornot', B_))]:
            d = ('memo', 54, body)
            c = ('call', 0)
            obs = ('mwstate', ('ornot', ANY_))
            for main in [('or', ('ithen', c, ('then', ('just', [gen.EA]), obs)), ('ithen', c, obs)),
                         ('then', ('rewind', ('ignored', c)), ('ithen', c, obs)),
                         ('choices', [('then', ('ignored', c), ('just', [gen.EA])), ('then', ('ignored', c), obs), obs]),
                         ('then', ('andis', ('ignored', c), ('ignored', c)), obs),
                         ('collect', 'vec', ('rep', ('or', ('ithen', c, ('just', [gen.EA])), ('ithen', c, obs)), 0, 2))]:
                for mode in ('parse', 'check'):
                    add(main, inputs_all(4, [gen.A, gen.B]), defs=[d], mode=mode, prio=True)
    if 'state' in want:
        # negative lookahead whose inner parser fails AFTER consuming: whatever it pulled must be gone from the inspector before
        # parsing continues (a `not` in sequence position, in a repetition, under and_is)
        A_, B_ = gen.A, gen.B
        for inner in [('just', [A_, B_]), ('then', ('any',), ('just', [B_])), ('then', ('just', [A_]), ('then', ('just', [A_]), ('just', [B_]))),
                      ('collect', 'vec', ('rep', ('just', [A_]), 2, None)), ('then', ('just', [A_]), ('ornot', ('just', [B_])))]:
            nt = ('not', inner)
            for g in [('then', nt, ('mwstate', ('any',))), ('then', ('mwstate', nt), ('mwstate', ('any',))),
                      ('collect', 'vec', ('rep', ('then', nt, ('mwstate', ('any',))), 0, None)),
                      ('then', ('andis', ('any',), nt), ('mwstate', ('ornot', ('any',)))),
                      ('then', ('ornot', ('then', nt, ('just', [B_]))), ('mwstate', ('ornot', ('any',))))]:
                add(g, inputs_all(4, [A_, B_, gen.EA]), prio=True)
    if 'ctx' in want:
        for g in gen.ctx_family():
            add(g, inputs_all(5, [gen.A, gen.B, 50, 51]), prio=True)
        pool = base[:500]
        for g in pool:
            for g2 in gen.insert_at_nodes(g, lambda a: ('mwctx', a))[:2]:
                for w in gen.CTX_PROVIDERS:
                    for g3 in gen.insert_at_nodes(g2, w)[:4]:
                        add(g3, inp01)
    return items



class ALL(Prop):
    """model validation: the whole observation (output, every error, final inspector state) of model and
    implementation on every stream. Not a property check; used to keep the model honest."""
    name = 'ALL'
    module = 'C01'
    rule = 'all streams; full observation equality'
    bins = ['h_str_rich', 'h_slice_rich', 'h_str_simple', 'h_slice_simple', 'h_str_cheap', 'h_slice_cheap', 'h_str_empty', 'h_slice_empty']

    def __init__(self, streams=None):
        self.streams = streams

    def cases(self, tier, seed):
        want = self.streams or ['c01', 'c02', 'emit', 'rec', 'deco', 'ctx', 'ek']
        lines = []
        for n, (g, inputs, kw) in enumerate(stream_items(tier, seed, want)):
            kw = dict(kw)
            kw.pop('prio', None)
            kw.pop('must', None)
            kind = kw.pop('kind', 'str' if n % 2 == 0 else 'slice')
            lines.append(case_line(f'a{n}', g, inputs, kind=kind, **kw))
        return lines

    def compare(self, line, k, impl_M, model_M, spec_S):
        return full_compare(line, k, impl_M, model_M, spec_S)



class C04(Prop):
    name = 'C04'
    module = 'C04'
    title = 'check mode and output elision are unobservable'
    claimed = True
    level_text = ('theorem run check = erase (run emit) for every grammar of the object language, every state and fuel (Lean), '
                  'value-building formulations proved equal; check() vs parse() of the real crate compared on every stream')
    rule = ('every grammar of the validation streams (C01 class, repetition/consumers, emitters, recovery, decorations, context, '
            'all four error kinds) is run twice, through parse and through check; non-trivial = backtracking grammar and '
            'non-empty input; pairs are distinct (grammar, input, mode) triples; regex(p) run for its output against regex(p) under to_slice / ignored (check mode)')
    bins = ALL.bins + ['h_text']

    def custom_run(self, lines, tier, seed, jobs):
        import vcheck
        tl = [l for l in lines if l.startswith('T ')]
        lines = [l for l in lines if not l.startswith('T ')]
        tot, fails = vcheck.run_cases(self.name, lines, jobs=jobs, timeout=900 if tier == 'quick' else 3600) if lines else (
            {'pairs': 0, 'corr_disagree': 0, 'pred_fail': 0, 'outcomes': {}, 'impl_s': 0.0, 'model_s': 0.0, 'crash': None, 'samples': [], 'nontrivial': 0}, [])
        if len(lines) >= 10 or tl:
            self.regex_modes(tl, tot, fails, tier, jobs)
        return tot, fails

    def regex_modes(self, given, tot, fails, tier, jobs):
        """`regex(p)` (an external engine, no model): the parser run for its output against the same parser where no output is
        required of it (`to_slice()` / `ignored()` run it in check mode) — both must consume the same text"""
        import multiprocessing
        ralpha = [97, 98, 48, 55, 32, 95, 233, 10]
        spec = inputs_all(4 if tier == 'quick' else 5, ralpha)
        if given:
            lines = []
            for l in given:
                t = l.split(' ')
                for pn in ('regex', 'regex_c', 'regex_i'):
                    lines.append(' '.join(t[:3] + [pn] + t[4:]))
            lines = list(dict.fromkeys(lines))
        else:
            lines = [f'T w{pi}{inst[0]} {inst} {pn} 1 {pi} I {spec}' for pi in range(len(REGEX_PATTERNS)) for inst in ('char', 'u8')
                     for pn in ('regex', 'regex_c', 'regex_i')]
        with multiprocessing.Pool(jobs) as pool:
            results = pool.map(_text_impl_worker, lines)
        obs = {}
        for line, (rc, out) in zip(lines, results):
            if rc != 0:
                tot['crash'] = f'h_text rc={rc}'
            t = line.split(' ')
            for o in out.split('\n'):
                if ' M ' in o:
                    key, _, v = o.partition(' M ')
                    obs[(t[1], t[3], int(key.rpartition('.')[2]))] = (v.partition(' i')[0], line)
        for (cid, pn, k), (v, line) in obs.items():
            if pn == 'regex':
                continue
            ref = obs.get((cid, 'regex', k))
            tot['pairs'] += 1
            tot['nontrivial'] += 1
            tot['outcomes']['regex-modes'] = tot['outcomes'].get('regex-modes', 0) + 1
            if ref is None:
                fails.append(('missing', line, k, 'no observation of the emitting regex run'))
            elif ref[0] != v:
                tot['pred_fail'] += 1
                self.fail(tot, fails, 'pred', line, k,
                          f'CHECK-VS-EMIT regex({REGEX_PATTERNS[int(line.split(" ")[5])]!r}) on input #{k} {input_of(line, k)}: run for its output it gives {ref[0]}; '
                          f'under {"to_slice()" if pn == "regex_c" else "ignored().to_slice()"} (check mode) it gives {v}')

    def cases(self, tier, seed):
        lines = []
        items = stream_items(tier, seed, ['c01', 'c02', 'emit', 'rec', 'deco', 'ctx', 'ek'])
        rng = random.Random(seed)
        if tier == 'quick':
            must = [it for it in items if it[2].get('must')]
            prio = [it for it in items if it[2].get('prio') and not it[2].get('must')]
            rest = [it for it in items if not it[2].get('prio')]
            rng.shuffle(rest)
            rng.shuffle(prio)
            items = must + prio[:3000] + rest[:5000]
        for n, (g, inputs, kw) in enumerate(items):
            kw = dict(kw)
            kw.pop('prio', None)
            kw.pop('must', None)
            kw.pop('must', None)
            kind = kw.pop('kind', 'str' if n % 2 == 0 else 'slice')
            lines.append(case_line(f'x{n}p', g, inputs, kind=kind, mode='parse', **kw))
            lines.append(case_line(f'x{n}c', g, inputs, kind=kind, mode='check', **kw))
        # a memoized parser shared through a definition, succeeding while it emits, abandoned by the enclosing choice and visited
        # again at the same position: whatever the memo table remembers, check() must report what parse() reports
        A_, B_, E_ = ('just', [gen.A]), ('just', [gen.B]), ('just', [gen.EA])
        n = len(lines)
        minp = inputs_all(4, [gen.A, gen.B, gen.EA])
        for x in [('any',), A_, ('then', ('any',), ('ornot', B_)), ('collect', 'vec', ('rep', A_, 1, None))]:
            for em in gen.EMITTERS + gen.RECOVERIES[:1] + [lambda a: ('maperr', 4, a)]:
                d = ('memo', 52, em(x))
                c = ('call', 0)
                for main in [('or', ('ithen', c, B_), ('ithen', c, A_)), ('or', ('then', c, B_), ('then', c, E_)),
                             ('choices', [('then', c, B_), ('then', c, A_), ('then', c, E_)]),
                             ('then', ('rewind', c), ('ignored', c)),
                             ('collect', 'vec', ('rep', ('or', ('ithen', c, B_), ('ithen', c, A_)), 0, None))]:
                    lines.append(case_line(f'x{n}p', main, minp, mode='parse', defs=[d]))
                    lines.append(case_line(f'x{n}c', main, minp, mode='check', defs=[d]))
                    n += 1
        # value-building formulations
        pairs = []
        smalls = gen.C01_LEAVES[:10]
        for a in smalls:
            for b in smalls:
                pairs.append((('ithen', a, b), ('map', 'snd', ('then', a, b))))
                pairs.append((('theni', a, b), ('map', 'fst', ('then', a, b))))
                pairs.append((('padded', a, b), ('theni', ('ithen', b, a), b)))
                pairs.append((('delim', a, b, ('just', [gen.B])), ('theni', ('ithen', b, a), ('just', [gen.B]))))
            pairs.append((('ignored', a), ('to', ('vunit',), a)))
            pairs.append((('iterp', ('rep', a, 1, 3)), ('collect', 'unit', ('rep', a, 1, 3))))
        # an iterable parser used directly as a parser == collected into (): also when an abandoned iteration has emitted
        rest = ('toslice', ('iterp', ('rep', ('any',), 0, None)))
        for x in [('any',), ('oneof', [gen.A, gen.B])]:
            for em in gen.EMITTERS:
                for y in [('just', [gen.B]), ('end',), ('cfail', 3)]:
                    b = ('then', em(x), y)
                    for lo, hi in [(0, None), (1, None), (0, 2)]:
                        pairs.append((('then', ('iterp', ('rep', b, lo, hi)), rest), ('then', ('collect', 'unit', ('rep', b, lo, hi)), rest)))
                        pairs.append((('then', ('iterp', ('sep', ('any',), b, lo, hi, False, True)), rest),
                                      ('then', ('collect', 'unit', ('sep', ('any',), b, lo, hi, False, True)), rest)))
        # repeated / separated_by used without a consumer (their own `go`) against the same iterator collected into ():
        # every combination of bounds and leading / trailing flags, single- and two-token separators and items
        for item in [('just', [gen.A]), ('just', [gen.A, gen.A]), ('oneof', [gen.A, gen.EA])]:
            for sepg in [('just', [gen.B]), ('just', [gen.B, gen.B]), ('ornot', ('just', [gen.B]))]:
                for lo, hi in [(0, None), (1, None), (0, 2), (2, 3), (1, 1)]:
                    for lead in (False, True):
                        for trail in (False, True):
                            it = ('sep', item, sepg, lo, hi, lead, trail)
                            if sepg[0] == 'ornot' and (lo, hi) != (0, 2):
                                continue
                            pairs.append((('then', ('iterp', it), rest), ('then', ('collect', 'unit', it), rest)))
            for lo, hi in [(0, None), (1, None), (0, 2), (2, 3), (1, 1), (0, 0)]:
                it = ('rep', item, lo, hi)
                pairs.append((('then', ('iterp', it), rest), ('then', ('collect', 'unit', it), rest)))
        inp = inputs_all(4, [gen.A, gen.B, gen.EA])
        for n, (l, r) in enumerate(pairs):
            for mode in ('parse', 'check'):
                lines.append(case_line(f'y{n}{mode[0]}p', l, inp, mode=mode))
                lines.append(case_line(f'y{n}{mode[0]}c', r, inp, mode=mode))
        return lines

    def group_of(self, line):
        return line.split(' ', 1)[0][:-1]

    def check_chunk(self, by_id, impl, model, stats, fails):
        for key, mo in model.items():
            if key == '__bad__' or not key.rpartition('.')[0].endswith('p'):
                continue
            cid, _, k = key.rpartition('.')
            cid_c = cid[:-1] + 'c'
            line = by_id.get(cid)
            ip = impl.get(key, {}).get('M')
            ic = impl.get(cid_c + '.' + k, {}).get('M')
            mp = mo.get('M')
            mc = model.get(cid_c + '.' + k, {}).get('M')
            stats['pairs'] += 2
            if ip is None or ic is None:
                fails.append(('missing', line, int(k), 'no implementation observation'))
                continue
            a, b = parse_M(ip), parse_M(ic)
            if cid.startswith('x'):
                # check vs parse: same acceptance, identical error list (values erased)
                pa = (a['kind'], a.get('out') is not None, a.get('errs'), a.get('site'))
                pb = (b['kind'], b.get('out') is not None, b.get('errs'), b.get('site'))
            else:
                # two formulations: identical observation
                pa, pb = ip, ic
            pred = pa == pb
            corr = (ip == mp) and (ic == mc)
            oc = a['kind'] + ('+' if a.get('out') is not None else '-')
            stats['outcomes'][oc] = stats['outcomes'].get(oc, 0) + 1
            if is_nontrivial(line, int(k), None):
                stats['nontrivial'] += 2
            if not pred:
                stats['pred_fail'] += 1
                if True:
                    self.fail(stats, fails, 'pred', line, int(k), f'check/parse (or the two formulations) differ || first: {ip} || second: {ic}')
            elif not corr:
                stats['corr_disagree'] += 1
                if True:
                    self.fail(stats, fails, 'corr', line, int(k), f'impl: {ip} / {ic} || model: {mp} / {mc}')
            elif len(stats['samples']) < 2 and int(k) > 3:
                stats['samples'].append({'case': grammar_of(line), 'input_index': int(k), 'parse': ip, 'check': ic})



def emits_match(errs, emits):
    """implementation errors vs spec emissions: user emissions must be identical, a recovered error is abstract"""
    if len(errs) != len(emits):
        return False
    return all(e == s or s.startswith('rec@') for e, s in zip(errs, emits))


class SpecProp(Prop):
    """properties decided against the PEG reading on a set of streams"""
    streams = []
    quick_cap = 8000
    with_errors = False       # compare the secondary errors of accepted parses with the spec's emissions
    with_insp = False         # compare the final inspector state
    bins = ['h_str_rich', 'h_slice_rich']
    ek_filter = ('rich',)

    def cases(self, tier, seed):
        items = [it for it in stream_items(tier, seed, self.streams) if it[2].get('ek', 'rich') in self.ek_filter]
        rng = random.Random(seed)
        if tier == 'quick' and len(items) > self.quick_cap:
            prio = [it for it in items if it[2].get('prio')]
            rest = [it for it in items if not it[2].get('prio')]
            rng.shuffle(rest)
            items = prio + rest[:max(0, self.quick_cap - len(prio))]
        lines = []
        for n, (g, inputs, kw) in enumerate(items):
            kw = dict(kw)
            kw.pop('prio', None)
            kw.pop('must', None)
            kind = kw.pop('kind', 'str' if n % 2 == 0 else 'slice')
            lines.append(case_line(f's{n}', g, inputs, kind=kind, **kw))
        return lines

    def proj_impl(self, m):
        if m['kind'] != 'R':
            return proj_accept_value(m)
        out = m['out']
        r = ['R', out]
        if self.with_errors:
            r.append(tuple(m['errs']) if out is not None else None)
        if self.with_insp:
            r.append(m['insp'] if out is not None else None)
        return tuple(r)

    def holds(self, i, s, check_mode=False):
        """predicate on the implementation's observation `i` given the spec's result `s`"""
        if check_mode and s['kind'] == 'ok':
            s = dict(s, val='u')          # `check()` builds no output
        if s['kind'] == 'P':
            return i['kind'] == 'P' and i['site'] == s['site']
        if s['kind'] == 'OOF':
            return True
        if i['kind'] != 'R':
            return False
        if s['kind'] == 'fail':
            return i['out'] is None
        if i['out'] != s['val']:
            return False
        if self.with_errors and not emits_match(i['errs'], s['emits']):
            return False
        if self.with_insp and i['insp'] != s['insp']:
            return False
        return True

    def compare(self, line, k, impl_M, model_M, spec_S):
        im, mm, ss = parse_M(impl_M), parse_M(model_M), parse_S(spec_S)
        corr = self.proj_impl(im) == self.proj_impl(mm)
        return {'corr': corr, 'pred': self.holds(im, ss, ' check ' in line[:48]), 'why': self.why,
                'outcome': im['kind'] + ('+' if im.get('out') is not None else '-') + ('e' if im.get('errs') and im.get('out') is not None else ''),
                'nontrivial': is_nontrivial(line, k, None)}


def ill_formed_bounds(g):
    for t in gen.subterms(g):
        if t[0] == 'rep' and t[3] is not None and t[2] > t[3]:
            return True
        if t[0] == 'sep' and t[4] is not None and t[3] > t[4]:
            return True
    return False


class C02(SpecProp):
    name = 'C02'; module = 'C02'; claimed = True

    def cases(self, tier, seed):
        items = stream_items(tier, seed, self.streams)
        lines = []
        for n, (g, inputs, kw) in enumerate(items):
            kw = dict(kw)
            kw.pop('prio', None)
            kw.pop('must', None)
            kind = kw.pop('kind', 'str' if n % 2 == 0 else 'slice')
            tag = 'w' if ill_formed_bounds(g) else 's'
            lines.append(case_line(f'{tag}{n}', g, inputs, kind=kind, **kw))
        # `collect()` into the other order-preserving containers (LinkedList, VecDeque, Box<Vec>, RefCell<Vec>, Cell<Vec>): the
        # same items in the same order (case ids `…~kN`; the model knows one `collect`)
        extra = []
        for l in lines:
            if ' collect vec ' in l and l[0] == 's':
                cid = l.split(' ', 1)[0]
                extra.append(l.replace(cid, f'{cid}~k{len(extra) % 5 + 1}', 1))
            if len(extra) >= (200 if tier == 'quick' else 2000):
                break
        return lines + extra

    def compare(self, line, k, impl_M, model_M, spec_S):
        res = super().compare(line, k, impl_M, model_M, spec_S)
        if line.startswith('w') and res['pred']:
            im = parse_M(impl_M)
            # literal reading of the property: with at_least > at_most no count is within bounds
            if im['kind'] == 'R' and im['out'] is not None:
                res['pred'] = False
                res['why'] = 'D14 ill-formed bounds: the repetition succeeded although at_least > at_most'
        return res

    title = 'repetition and separators: bounds, greediness, leading/trailing'
    streams = ['c02']
    why = 'items / count / remainder differ from the greedy bounded reading'
    rule = ('iterators repeated/separated_by over all bounds 0..2 (+unbounded), lead/trail flags, sampled item and separator '
            'grammars, every consumer (collect vec/string/count/unit, collect_exactly 0/2/3, foldl, foldr, foldl_with, '
            'foldr_with, enumerate, plain parser), remainder observed through any().repeated().to_slice(); or_not/into_iter/then '
            'iterators; configure/try_configure from context; nullable items (debug-assertion panics); all inputs over {a , b}')
    level_text = ('machine loops refine the functional iterator protocol of the spec (Lean, all grammars/inputs); the protocol is '
                  'characterised by chain predicates (greedy, possessive, bounds, separators); items, counts and remainders of the '
                  'real crate compared with model and spec; repetition / separated-list characterisations also over items read by the extension reading (pegE)')


class C03(SpecProp):
    name = 'C03'; module = 'C03'; claimed = True
    title = 'parse result contract'
    streams = ['c01', 'c02', 'rec']
    quick_cap = 9000
    why = 'result contract violated'
    rule = ('C01, C02 and recovery streams; inputs enumerated exhaustively up to the bound, so every one-token extension of an '
            'accepted input below the bound is itself a case; observation = (has_output, has_errors, into_result is Ok); shared memoized parsers that succeed with a non-fatal error, revisited in check mode / under ignored / to_slice; IoInput readers positioned after a header; every fourth Pratt table of C09 (acceptance and tree against the reading)')
    level_text = ('theorems on parse/check of the model: error-free output iff the grammar followed by end-of-input matches in the '
                  'PEG reading (every token consumed), no-output implies an error, into_result consistency; the real ParseResult '
                  'accessors compared on every case; the same contract for grammars with extensions (parseTopE)')

    bins = ['h_str_rich', 'h_slice_rich', 'h_stream_rich', 'h_mstream_rich', 'h_kinds_rich', 'h_pratt']

    def custom_run(self, lines, tier, seed, jobs):
        import vcheck
        tot, fails = vcheck.run_cases(self.name, [l for l in lines if not l.startswith('PR ')], jobs=jobs,
                                      timeout=900 if tier == 'quick' else 3600)
        # the contract for Pratt parsers: an error-free result means the expression grammar matched the whole input (two binary
        # operators in a row, a dangling operator … are rejected) — C09's tables, acceptance and tree against the reading
        pratt_part('C03', lines, tier, seed, jobs, tot, fails, every=4)
        return tot, fails

    def cases(self, tier, seed):
        lines = SpecProp.cases(self, tier, seed)
        # "every token consumed" on inputs that are pulled lazily: a Stream over an iterator whose size_hint lower bound is 0
        # (the harness's counting iterator), longer than one 512-token refill batch, with and without an unmatched last token;
        # and a stream-backed Input::map
        A, B = gen.A, gen.B
        longg = [
            ('collect', 'count', ('rep', ('just', [A]), 0, None)),
            ('iterp', ('rep', ('just', [A]), 0, None)),
            ('then', ('collect', 'count', ('rep', ('just', [A]), 0, None)), ('ornot', ('just', [B]))),
            ('collect', 'count', ('rep', ('or', ('just', [A, B]), ('just', [A])), 0, None)),
            ('lazy', ('collect', 'count', ('rep', ('just', [A]), 0, 600))),
            ('foldl', 'fcount', ('empty',), ('rep', ('any',), 0, None)),
            ('collect', 'count', ('sep', ('just', [A]), ('just', [B]), 0, None, False, False)),
        ]
        longs = []
        for L in (511, 512, 513, 1024, 1025):
            longs.append([A] * L)
            longs.append([A] * L + [B])            # one-token extension
            longs.append([A] * L + [gen.COMMA])    # … by a token nothing matches
            longs.append([A, B] * (L // 2) + [A])
        linp = ' '.join(inputs_lit(t) for t in longs)
        for n, g in enumerate(longg):
            for kd in ('slice', 'stream', 'mstream1'):
                lines.append(case_line(f'L{n}{kd}', g, linp, kind=kd, fuel=6000))
        # an IoInput whose reader hands out two bytes at a time and reports a transient `Interrupted` every third call: end of
        # input is only where the reader says 0 bytes — all short inputs, and every one-token extension among them
        ioinp = inputs_all(5 if tier == 'quick' else 6, [A, B])
        iog = [('just', [A, B]), ('then', ('just', [A]), ('just', [B])), ('collect', 'count', ('rep', ('just', [A]), 0, None)),
               ('then', ('collect', 'count', ('rep', ('just', [A]), 0, None)), ('ornot', ('just', [B]))),
               ('collect', 'vec', ('sep', ('just', [A]), ('just', [B]), 0, None, False, True)),
               ('or', ('just', [A, B, A]), ('just', [A, B])), ('lazy', ('just', [A, B]))]
        for n, g in enumerate(iog):
            lines.append(case_line(f'I{n}io', g, ioinp, kind='iomap'))
        # a SHARED memoized parser that succeeds with a non-fatal error (recovery, validate), abandoned with its alternative and
        # visited again at the same position — for its output and where none is required (check(), ignored, to_slice): a result
        # without errors must still mean that the input is in the language
        A_, B_, E_ = ('just', [A]), ('just', [B]), ('just', [gen.EA])
        minp = inputs_all(4, [A, B, gen.EA])
        mn = 0
        for body in [('recvia', A_, ('to', ('vnat', 9), ('any',))), ('validate', 'always', 5, 1, ('any',)),
                     ('recskip', A_, ('any',), B_, ('vnat', 7)), ('then', ('validate', ('tokis', A), 6, 1, ('any',)), ('ornot', A_))]:
            d = ('memo', 55, body)
            c = ('call', 0)
            for main in [('or', ('then', c, B_), ('then', c, E_)), ('or', ('ithen', c, B_), ('ithen', c, E_)),
                         ('ignored', ('or', ('then', c, B_), ('then', c, E_))), ('toslice', ('or', ('then', c, B_), ('then', c, E_))),
                         ('choices', [('then', c, B_), ('then', ('ornot', ('ignored', c)), E_), ('ignored', c)]),
                         ('then', ('rewind', ('ignored', c)), ('ignored', c))]:
                for mode in ('parse', 'check'):
                    for kd in ('str', 'slice'):
                        if kd == 'slice' and 'toslice' in gen.ops_of(main):
                            continue
                        lines.append(case_line(f'M{mn}', main, minp, kind=kd, mode=mode, defs=[d]))
                        mn += 1
        # the contract is the same through check(): every grammar that can succeed with non-fatal errors (recovery, validate)
        # is also run in check mode — an error-free check() must mean exactly what an error-free parse() means
        extra = []
        for l in lines:
            h = l.split(' ', 5)
            if h[3] == 'parse' and any(t in l for t in (' rec', ' validate ')):
                h[0] += 'k'
                h[3] = 'check'
                extra.append(' '.join(h))
        return lines + extra

    def compare(self, line, k, impl_M, model_M, spec_S):
        im, mm, ss = parse_M(impl_M), parse_M(model_M), parse_S(spec_S)
        if im['kind'] != 'R':
            return {'corr': proj_accept_value(im) == proj_accept_value(mm), 'pred': ss['kind'] == 'P' and im.get('site') == ss.get('site'),
                    'why': 'panic', 'outcome': im['kind'], 'nontrivial': False}
        has_out, has_err = im['out'] is not None, bool(im['errs'])
        ir = im.get('ir')
        pred = True
        why = []
        if not has_out and not has_err:
            pred = False; why.append('no output and no error')
        if ir is not None and (ir == 'ok') != (has_out and not has_err):
            pred = False; why.append('into_result inconsistent')
        clean = has_out and not has_err
        spec_clean = ss['kind'] == 'ok' and not ss['emits']
        if ss['kind'] != 'OOF' and clean != spec_clean:
            pred = False; why.append('error-free acceptance differs from "grammar then end matches the whole input"')
        if ss['kind'] == 'ok' and not has_out:
            pred = False; why.append('no output although the grammar matches')
        if ss['kind'] == 'fail' and has_out:
            pred = False; why.append('output although the grammar does not match')
        corr = (mm['kind'] == 'R' and (mm['out'] is not None) == has_out and bool(mm['errs']) == has_err and mm.get('ir') == ir)
        return {'corr': corr, 'pred': pred, 'why': '; '.join(why), 'outcome': ('O' if has_out else 'o') + ('E' if has_err else 'e'),
                'nontrivial': is_nontrivial(line, k, None)}


class C05(SpecProp):
    name = 'C05'; module = 'C05'; claimed = True
    title = 'backtracking is atomic'
    streams = ['emit', 'rec', 'c01']
    with_errors = True
    with_insp = True
    quick_cap = 9000
    why = 'reported non-fatal errors / state differ from those of the surviving path'
    rule = ('C01-class grammars with validate emitters and recover_with inserted at every node position (inside choices, '
            'lookahead, and_is, rewind, optional), custom parsers that fail after consuming; observation = output + ordered list '
            'of secondary errors + final inspector state; emissions kept by rewind / and_is ahead of later abandoned emissions, two emitters per grammar')
    level_text = ('refinement theorem: on success the secondary errors are exactly (in order) the emissions of the surviving path of '
                  'the PEG reading, the inspector equals the one fed the consumed prefix; on failure the caller-visible list is only '
                  'extended; error lists of the real crate compared with spec emissions; atomicity and reported errors also for grammars with extensions (through operator rewinds and nested sub-contexts)')


class C08(SpecProp):
    name = 'C08'; module = 'C08'; claimed = True
    title = 'error recovery'
    streams = ['rec']
    with_errors = True
    quick_cap = 9000
    ek_filter = ('rich', 'empty', 'cheap', 'simple')
    bins = ['h_str_rich', 'h_slice_rich', 'h_str_simple', 'h_slice_simple', 'h_str_cheap', 'h_slice_cheap', 'h_str_empty', 'h_slice_empty']
    why = 'recovery result differs from the recovery reading'
    rule = ('C01-class grammars with recover_with(via_parser | skip_until | skip_then_retry_until) inserted at every node position; '
            'observation = output + error list (recovered errors matched by position in the spec, by full content in the model); recovery inside the fallback of via_parser under all four error types')
    level_text = ('recover_with/strategies refine the recovery reading of the spec (transparent on success, one extra error on '
                  'recovery, failure restores position); full error content compared between the real crate and the model; the recovery laws and never-silent also around and inside extensions (Pratt tables, nested parses)')

    def proj_impl(self, m):
        if m['kind'] != 'R':
            return proj_accept_value(m)
        return ('R', m['out'], tuple(m['errs']))


class C15(SpecProp):
    name = 'C15'; module = 'C15'; claimed = True
    title = 'context and configuration'
    streams = ['ctx']
    why = 'context delivered / configured parser differs from the lexical reading'
    rule = ('length-prefixed, delimiter-echo and nested-provider families plus C01 grammars with context readers and providers '
            '(with_ctx, ignore_with_ctx, then_with_ctx, map_ctx) inserted at node positions; outputs embed the observed context; the context across a nested parse (provider outside a.nested_in(b), readers inside)')
    level_text = ('refinement theorem: the machine (which swaps a context reference) delivers the lexically nearest provider of the '
                  'PEG reading; configure/try_configure equal the statically configured parser; outputs of the real crate compared; the context of the caller is handed back also by Pratt parsers and nested parses (runE)')

    def cases(self, tier, seed):
        lines = super().cases(tier, seed)
        # the context providers used as ITERABLE parsers (`IterParser for IgnoreWithCtx / ThenWithCtx`, combinator.rs:1148-1266):
        # `a.ignore_with_ctx(it).collect()` must be `a.ignore_with_ctx(it.collect())` (and likewise then_with_ctx). The first form has
        # no constructor in the model: it is a harness-only line `!y<n>` whose observation must equal that of the model-known `y<n>`.
        a, b_, comma = ('just', [gen.A]), ('just', [gen.B]), ('just', [gen.COMMA])
        digit = ('or', ('to', ('vnat', 2), ('just', [50])), ('to', ('vnat', 1), ('just', [51])))
        provs = [('any',), ('oneof', [gen.A, gen.B]), digit, ('ornot', a), ('collect', 'string', ('rep', ('oneof', [gen.A, gen.B]), 1, 2)),
                 ('validate', 'always', 5, 1, ('any',))]
        items = [('mwctx', a), ('mwctx', ('any',)), ('mwctx', ('oneof', [gen.A, gen.B])), ('mwctx', ('cfgjust', 'seqctx', [gen.B])),
                 ('then', ('mwctx', a), b_), ('validate', 'always', 6, 1, ('mwctx', a)), ('iwctx', ('any',), ('mwctx', a))]
        its = []
        for it in items:
            for lo, hi in ((0, None), (1, 2), (2, 2)):
                its.append(('rep', it, lo, hi))
            its.append(('sep', it, comma, 0, None, False, True))
            its.append(('sep', it, comma, 1, 3, True, False))
            its.append(('ornotit', it))
            its.append(('thenit', ('rep', it, 0, 1), ('rep', ('mwctx', b_), 0, None)))
            for cfn in ('exactlyctx', 'atleastctx', 'atmostctx'):
                its.append(('cfgrep', cfn, ('rep', it, 0, None)))
        inp = inputs_all(4 if tier == 'quick' else 5, [gen.A, gen.B, gen.COMMA, 50])
        rest = ('toslice', ('iterp', ('rep', ('any',), 0, None)))
        n = 0
        for pv in provs:
            for it in its:
                kind = 'str' if n % 2 == 0 else 'slice'
                mode = 'parse' if n % 3 else 'check'
                for tag, ho, eq in (('i', ('collectiw', pv, it), ('iwctx', pv, ('collect', 'vec', it))),
                                    ('t', ('collecttw', pv, it), ('map', 'snd', ('twctx', pv, ('collect', 'vec', it))))):
                    lines.append(case_line(f'y{tag}{n}', ('then', eq, rest), inp, kind=kind, mode=mode))
                    lines.append(case_line(f'!y{tag}{n}', ('then', ho, rest), inp, kind=kind, mode=mode))
                n += 1
        return lines

    bins = ['h_str_rich', 'h_slice_rich', 'h_nested']

    def custom_run(self, lines, tier, seed, jobs):
        import vcheck
        given = [l for l in lines if l.startswith('NH ')]
        tot, fails = vcheck.run_cases(self.name, [l for l in lines if not l.startswith('NH ')], jobs=jobs,
                                      timeout=900 if tier == 'quick' else 3600)
        # the context across the boundary of a nested parse (provider outside `a.nested_in(b)`, readers inside `a`): C16's
        # general-form lines `hk…`, compared with the model's reading (the inner parse starts with the outer context)
        replaying = len(lines) < 10
        t = C16()
        t.name = 'C15'
        nl = given if replaying else [l for l in t.cases(tier, seed) if l.startswith('NH hk')]
        t2, f2 = t.custom_run(nl, tier, seed, jobs) if nl else ({'pairs': 0, 'pred_fail': 0, 'corr_disagree': 0, 'nontrivial': 0, 'outcomes': {}}, [])
        for k in ('pairs', 'pred_fail', 'corr_disagree', 'nontrivial'):
            tot[k] += t2[k]
        for k, v in t2['outcomes'].items():
            tot['outcomes']['nested-ctx:' + k] = tot['outcomes'].get('nested-ctx:' + k, 0) + v
        if t2.get('crash'):
            tot['crash'] = t2['crash']
        return tot, fails + f2

    def group_of(self, line):
        return line.split(' ', 1)[0].lstrip('!')

    def check_chunk(self, by_id, impl, model, stats, fails):
        super().check_chunk(by_id, impl, model, stats, fails)
        for key, io in impl.items():
            if not key.startswith('!'):
                continue
            cid, _, k = key.rpartition('.')
            other = impl.get(key[1:], {}).get('M')
            a = io.get('M')
            stats['pairs'] += 1
            stats['nontrivial'] += 1
            oc = 'ctx-iter' + ('+' if a and a.startswith('R ok') else '-')
            stats['outcomes'][oc] = stats['outcomes'].get(oc, 0) + 1
            if a is None or other is None:
                fails.append(('missing', by_id.get(cid), int(k), 'no implementation observation (crash / hang?)'))
            elif a != other:
                stats['pred_fail'] += 1
                self.fail(stats, fails, 'pred', [(by_id.get(cid), int(k)), (by_id.get(cid[1:]), int(k))], int(k),
                          f'CTX-ITER: the context provider used as an iterable parser gives {a} || the same provider around the collected '
                          f'iterator gives {other}')


class C18(SpecProp):
    name = 'C18'; module = 'C18'; claimed = True
    title = 'user state and inspectors'
    streams = ['state']
    with_insp = True
    why = 'observed inspector state differs from "fed exactly the tokens before the position"'
    rule = ('C01/C02/recovery grammars with state observations (map_with reading the inspector) inserted at node positions and '
            'with_state scopes; observation = every observed (count, hash) in the output and the final state of parse_with_state; a shared memoized parser in check mode, abandoned and revisited, followed by an inspector observation')
    level_text = ('refinement theorem threads the inspector: every observation equals the inspector fed the tokens consumed on the '
                  'surviving path; with_state starts fresh and leaves the outer inspector untouched; real inspector compared; machine inspector = the inspector of the reading also in grammars with extensions, the inspector threaded through nested parses')
    bins = ['h_str_rich', 'h_slice_rich', 'h_text']

    def custom_run(self, lines, tier, seed, jobs):
        import vcheck
        tot, fails = vcheck.run_cases(self.name, lines, jobs=jobs, timeout=900 if tier == 'quick' else 3600)
        # the text parsers (newline's peek/skip path, padded's skip_while, keyword's try_map) under a counting inspector
        t = C14()
        t.insp_only = True
        t.name = 'C18'
        tl = [l for l in t.cases('quick', seed) if l.split()[3] in ('newline', 'pad_int', 'pad_aident', 'ws', 'akw', 'int')]
        t2, f2 = t.custom_run(tl, tier, seed, jobs)
        tot['pairs'] += t2['pairs']; tot['pred_fail'] += t2['pred_fail']; tot['nontrivial'] += t2['nontrivial']
        tot['outcomes']['text:ok'] = t2['outcomes'].get('ok', 0); tot['outcomes']['text:none'] = t2['outcomes'].get('none', 0)
        if t2['crash']:
            tot['crash'] = t2['crash']
        return tot, fails + f2



import re as _re
import functools
from vcheck import expand_inputs


@functools.lru_cache(maxsize=64)
def _inputs_of(spec):
    return expand_inputs(spec.split())


def input_of(line, k):
    return _inputs_of(line.partition(' I ')[2])[k]


def utf8w(c):
    return 1 if c < 0x80 else 2 if c < 0x800 else 3 if c < 0x10000 else 4


def offsets(kind, toks):
    """offset of every token index (0..len) in the input's own units"""
    offs = [0]
    for t in toks:
        offs.append(offs[-1] + (utf8w(t) if kind == 'str' else 1))
    return offs


_ERR = _re.compile(r'\{(\d+)-(\d+);(E\[([^\]]*)\]F(\d+|-)|C(\d+));([^}]*)\}')


def parse_err(e):
    m = _ERR.match(e)
    if not m:
        return None
    d = {'start': int(m.group(1)), 'end': int(m.group(2)), 'ctx': m.group(7)}
    if m.group(6) is not None:
        d['custom'] = m.group(6)
    else:
        d['expected'] = m.group(4)
        d['found'] = None if m.group(5) == '-' else int(m.group(5))
    return d


class C06(Prop):
    name = 'C06'; module = 'C06'; claimed = True
    title = 'primary error = furthest failure, merged expectations, truthful span'
    bins = ALL.bins
    rule = ('C01/C02 streams without negative lookahead, every rejected input scored, each grammar under all four error types; '
            'observation = last reported error (span, found, expected set, reason kind); non-trivial = backtracking grammar and '
            'non-empty input')
    level_text = ('theorem: the pending error is (up to the order of expected) the fold of the code\'s priority rule over ALL failure '
                  'events logged during the run, hence lies at the furthest event, carries the union of expectations there / the first '
                  'custom error; kind simulation: Cheap, Simple and Rich report the same spans; the real crate\'s last error is compared '
                  'with the model\'s and with the summary of the model\'s event log, spans/found checked against the input, and the three '
                  'error types against each other')

    def cases(self, tier, seed):
        items = stream_items(tier, seed, ['c01', 'c02'])
        items = [it for it in items if 'not' not in gen.ops_of(it[0])]
        rng = random.Random(seed)
        prio = [it for it in items if it[2].get('prio')]
        rest = [it for it in items if not it[2].get('prio')]
        rng.shuffle(rest)
        items = prio + rest[:2000 if tier == 'quick' else 25000]
        lines = []
        for n, (g, inputs, kw) in enumerate(items):
            kind = 'str' if n % 2 == 0 else 'slice'
            for ek in ('rich', 'simple', 'cheap', 'empty'):
                lines.append(case_line(f'k{n}{ek[0]}', g, inputs, kind=kind, ek=ek))
        # the wrappers that shelter the pending error while their parser runs (labelled, map_err, memoized) put back what they
        # took: with such a wrapper at any node the primary error stays where the furthest failure of the plain grammar is
        # (pairs w<n>r = wrapped / w<n>p = plain, Rich; predicate on the implementation alone)
        by = gen.enum_by_size(3, gen.C01_LEAVES, gen.C01_UNARIES, gen.C01_BINARIES, gen.C01_TERNARIES)
        base = [g for s_ in (2, 3) for g in by[s_] if 'not' not in gen.ops_of(g)]
        rng.shuffle(base)
        inp = inputs_all(4, [gen.A, gen.B, gen.EA])
        wraps = [lambda a: ('label', 3, False, a), lambda a: ('maperr', 4, a), lambda a: ('memo', 1, a), lambda a: ('label', 3, True, a)]
        m = 0
        for g in base[:250 if tier == 'quick' else 2500]:
            for w in wraps:
                for d in gen.insert_at_nodes(g, w)[:3]:
                    # followed by a token so that a success of the wrapped part can still be overtaken by a later failure
                    tail = ('just', [gen.B])
                    kind = 'str' if m % 2 == 0 else 'slice'
                    lines.append(case_line(f'w{m}r', ('then', d, tail), inp, kind=kind))
                    lines.append(case_line(f'w{m}p', ('then', g, tail), inp, kind=kind))
                    m += 1
        # directed: a pending error from an earlier alternative strictly between the cursor the wrapped parser ends at and the
        # position of what it re-inserts (gen.shelter_family)
        inp5 = inputs_all(5, [gen.A, gen.B, 99, 100]) + ' ' + inputs_lit([gen.A, gen.B, 99, 100, 90]) + ' ' + inputs_lit([gen.A, gen.B, 99, 90])
        for wrapped, plain in gen.shelter_family():
            kind = 'str' if m % 2 == 0 else 'slice'
            lines.append(case_line(f'w{m}r', wrapped, inp5, kind=kind))
            lines.append(case_line(f'w{m}p', plain, inp5, kind=kind))
            m += 1
        return lines

    def group_of(self, line):
        return line.split(' ', 1)[0][:-1]

    def check_wrapped(self, by_id, impl, model, stats, fails):
        for key, mo in model.items():
            if key == '__bad__' or not key.startswith('w'):
                continue
            cid, _, k = key.rpartition('.')
            if not cid.endswith('r'):
                continue
            k = int(k)
            line = by_id.get(cid)
            a = impl.get(key, {}).get('M')
            b = impl.get(f'{cid[:-1]}p.{k}', {}).get('M')
            stats['pairs'] += 2
            if a is None or b is None:
                fails.append(('missing', line, k, 'no implementation observation'))
                continue
            pa, pb = parse_M(a), parse_M(b)
            oc = 'wrap:' + pa['kind'] + ('+' if pa.get('out') is not None else '-')
            stats['outcomes'][oc] = stats['outcomes'].get(oc, 0) + 1
            stats['nontrivial'] += 2
            why = None
            if (pa['kind'], pa.get('out') is not None) != (pb['kind'], pb.get('out') is not None):
                why = 'acceptance changes when a sub-parser is wrapped in labelled / map_err / memoized'
            elif pa['kind'] == 'R' and pa['out'] is None and pa['errs'] and pb['errs']:
                ea, eb = parse_err(pa['errs'][-1]), parse_err(pb['errs'][-1])
                if ea and eb and (ea['start'], ea['end']) != (eb['start'], eb['end']):
                    why = (f'primary error at {ea["start"]}..{ea["end"]} with the wrapper, at {eb["start"]}..{eb["end"]} (the furthest failure) '
                           'without it: the wrapper did not put the pending error back')
            if why:
                stats['pred_fail'] += 1
                self.fail(stats, fails, 'pred', [(line, k), (by_id.get(cid[:-1] + 'p'), k)], k, f'{why} || wrapped: {a} || plain: {b}')
            elif a != mo.get('M'):
                stats['corr_disagree'] += 1
                self.fail(stats, fails, 'corr', line, k, f'impl: {a} || model: {mo.get("M")}')

    def check_chunk(self, by_id, impl, model, stats, fails):
        self.check_wrapped(by_id, impl, model, stats, fails)
        for key, mo in model.items():
            if key == '__bad__' or key.startswith('w'):
                continue
            cid, _, k = key.rpartition('.')
            if not cid.endswith('r'):
                continue
            k = int(k)
            line = by_id.get(cid)
            kind = line.split(' ', 4)[2]
            obs = {}
            for ek in 'rsce':
                kk = f'{cid[:-1]}{ek}.{k}'
                obs[ek] = (impl.get(kk, {}).get('M'), model.get(kk, {}).get('M'))
            stats['pairs'] += 4
            if any(o[0] is None for o in obs.values()):
                fails.append(('missing', line, k, 'no implementation observation'))
                continue
            P = {ek: parse_M(o[0]) for ek, o in obs.items()}
            why = []
            # acceptance identical under all four error types
            acc = {ek: (p['kind'], p.get('out') is not None) for ek, p in P.items()}
            if len(set(acc.values())) != 1:
                why.append(f'acceptance depends on the error type: {acc}')
            r = P['r']
            oc = r['kind'] + ('+' if r.get('out') is not None else '-')
            stats['outcomes'][oc] = stats['outcomes'].get(oc, 0) + 1
            if r['kind'] == 'R' and r['out'] is None and r['errs']:
                toks = input_of(line, k)
                offs = offsets(kind, toks)
                e = parse_err(r['errs'][-1])
                total = offs[-1]
                if e is None:
                    why.append('unparsable error ' + r['errs'][-1])
                else:
                    if not (0 <= e['start'] <= e['end'] <= total):
                        why.append(f'span {e["start"]}..{e["end"]} not inside the input (0..{total}) / inverted')
                    if 'expected' in e:
                        if e['start'] in offs:
                            i = offs.index(e['start'])
                            tok = toks[i] if i < len(toks) else None
                            if e['found'] != tok:
                                why.append(f'found={e["found"]} but the token at the start of the span is {tok}')
                        else:
                            why.append('span start is not on a token boundary')
                    # Cheap / Simple / Rich agree on the span
                    spans = {}
                    for ek in 'rsc':
                        pe = parse_err(P[ek]['errs'][-1]) if P[ek].get('errs') else None
                        spans[ek] = (pe['start'], pe['end']) if pe else None
                    if len(set(spans.values())) != 1:
                        why.append(f'span depends on the error type: {spans}')
                    # furthest failure / union of expectations: against the summary of the model's event log
                    x = model.get(f'{cid}.{k}', {}).get('X')
                    if x and x != 'none':
                        xp, xspan, xdesc = x.split(' ', 2)
                        if int(xp) != e['start'] and 'expected' in e:
                            why.append(f'primary error at offset {e["start"]} but the furthest failure event is at {xp}')
                        got = ('C' + e['custom']) if 'custom' in e else 'E[' + e['expected'] + ']'
                        if got != xdesc and (int(xp) == e['start']):
                            why.append(f'description {got} differs from the merge of the failure events at the furthest position {xdesc}')
            corr = all(o[0] == o[1] for o in obs.values())
            if is_nontrivial(line, k, None):
                stats['nontrivial'] += 4
            if why:
                stats['pred_fail'] += 1
                if True:
                    self.fail(stats, fails, 'pred', line, k, '; '.join(why) + f' || impl: {obs["r"][0]} || model: {obs["r"][1]}')
            elif not corr:
                stats['corr_disagree'] += 1
                if len(fails) < 200:
                    bad = [ek for ek, o in obs.items() if o[0] != o[1]][0]
                    fails.append(('corr', by_id.get(cid[:-1] + bad), k, f'impl: {obs[bad][0]} || model: {obs[bad][1]}'))
            elif len(stats['samples']) < 2 and r.get('out') is None and k > 2:
                stats['samples'].append({'case': grammar_of(line), 'input_index': k, 'rich': obs['r'][0], 'cheap': obs['c'][0]})


def erase_deco(g):
    """python mirror of G.eraseDeco, except that decorations are simply removed"""
    if g[0] in ('label',):
        return erase_deco(g[3])
    if g[0] == 'maperr':
        return erase_deco(g[2])
    return gen.replace_children(g, erase_deco)


class C17(Prop):
    name = 'C17'; module = 'C17'; claimed = True
    title = 'labels and map_err change how a failure is described, never whether or where'
    rule = ('C01-class grammars with labelled / labelled.as_context / map_err inserted at one or two node positions, each compared '
            'with the undecorated grammar on all inputs; observation = acceptance, output, number of errors and all error spans; emitters that leave no pending error under an as_context label (every user error must carry the context)')
    level_text = ('simulation theorem decorated ~ undecorated (equal up to error descriptions) for every grammar; labels/contexts of the '
                  'real crate compared with the model; acceptance, outputs, error counts and spans of decorated vs plain compared on the '
                  'real crate; for grammars with extensions: strong erasure theorem under the same proviso (prattGo_sim, nestedStep_simS) and the every-grammar theorem')

    def cases(self, tier, seed):
        rng = random.Random(seed)
        by = gen.enum_by_size(3, gen.C01_LEAVES, gen.C01_UNARIES, gen.C01_BINARIES, gen.C01_TERNARIES)
        base = [g for s in (2, 3) for g in by[s]]
        rng.shuffle(base)
        base = base[:700 if tier == 'quick' else 6000]
        inp = inputs_all(4, [gen.A, gen.B, gen.EA]) + ' ' + inputs_all(2, [gen.A, gen.CLEF])
        lines = []
        n = 0
        for g in base:
            decorated = []
            for w in gen.DECORATIONS:
                ds = gen.insert_at_nodes(g, w)
                decorated.extend(ds)
                for d in ds[:2]:
                    decorated.extend(gen.insert_at_nodes(d, rng.choice(gen.DECORATIONS))[:2])
            for d in decorated:
                kind = 'str' if n % 2 == 0 else 'slice'
                lines.append(case_line(f'd{n}p', d, inp, kind=kind))
                lines.append(case_line(f'd{n}c', erase_deco(d), inp, kind=kind))
                n += 1
        # a decorated alternative that fails past its first token next to alternatives that fail earlier / at the same place /
        # strictly further (a later replacement of the pending error must not keep what the abandoned label attached)
        further = [('just', [gen.A, gen.EA, gen.B]), ('then', ('just', [gen.A]), ('then', ('oneof', [gen.A, gen.EA]), ('just', [gen.B]))),
                   ('just', [gen.A, gen.A]), ('just', [gen.B])]
        inner = [('just', [gen.A, gen.B]), ('then', ('just', [gen.A]), ('just', [gen.B])), ('then', ('any',), ('just', [gen.B, gen.B]))]
        for w in gen.DECORATIONS:
            for i_ in inner:
                for f_ in further:
                    for j, d in enumerate([('or', w(i_), f_), ('or', f_, w(i_)), ('choices', [w(i_), f_, ('just', [gen.EA])]),
                                           ('then', ('ornot', w(i_)), f_), ('or', w(('label', 1, True, i_)), f_),
                                           ('then', ('collect', 'vec', ('rep', w(i_), 0, None)), f_)]):
                        kind = 'str' if n % 2 == 0 else 'slice'
                        lines.append(case_line(f'd{n}p', d, inp, kind=kind))
                        lines.append(case_line(f'd{n}c', erase_deco(d), inp, kind=kind))
                        if j < 4 and w(i_)[0] == 'label' and w(i_)[2]:
                            # the labelled parser starts at offset 0 in these shapes: run it alone (followed by "the rest") to
                            # learn whether and where IT fails — a context may only describe a failure inside the labelled parser
                            lines.append(case_line(f'd{n}x', ('lazy', i_), inp, kind=kind))
                        n += 1
        # as_context also describes the SECONDARY errors emitted inside the labelled parser (`validate`, a recovery that succeeds):
        # bodies that emit and leave no pending error behind (built from parsers that give no hint on success), under an
        # as_context label 2 — every user error of the decorated run must carry that context (ids `e…`)
        A_, B_ = ('just', [gen.A]), ('just', [gen.B])
        bodies = [('validate', 'always', 5, 1, A_), ('then', ('validate', 'always', 5, 1, ('any',)), B_),
                  ('then', A_, ('validate', 'always', 5, 1, ('any',))), ('validate', ('tokis', gen.A), 6, 2, ('any',)),
                  ('label', 1, True, ('validate', 'always', 5, 1, ('oneof', [gen.A, gen.B]))),
                  ('then', ('validate', 'always', 5, 1, A_), ('validate', 'always', 6, 1, ('any',))),
                  ('maperr', 3, ('validate', 'always', 5, 1, A_)),
                  ('collect', 'vec', ('rep', ('validate', 'always', 5, 1, A_), 1, 2))]
        for body in bodies:
            lb = ('label', 2, True, body)
            for d in [lb, ('then', lb, ('ornot', A_)), ('then', lb, B_), ('or', ('then', lb, B_), ('just', [gen.A, gen.A])),
                      ('then', A_, lb), ('collect', 'vec', ('rep', lb, 0, None)), ('label', 1, False, lb)]:
                kind = 'str' if n % 2 == 0 else 'slice'
                lines.append(case_line(f'e{n}p', d, inp, kind=kind))
                lines.append(case_line(f'e{n}c', erase_deco(d), inp, kind=kind))
                n += 1
        return lines

    def group_of(self, line):
        return line.split(' ', 1)[0][:-1]

    def check_chunk(self, by_id, impl, model, stats, fails):
        for key, mo in model.items():
            if key == '__bad__' or not key.rpartition('.')[0].endswith('p'):
                continue
            cid, _, k = key.rpartition('.')
            cid_c = cid[:-1] + 'c'
            line = by_id.get(cid)
            ip = impl.get(key, {}).get('M')
            ic = impl.get(cid_c + '.' + k, {}).get('M')
            mp = mo.get('M')
            mc = model.get(cid_c + '.' + k, {}).get('M')
            stats['pairs'] += 2
            if ip is None or ic is None:
                fails.append(('missing', line, int(k), 'no implementation observation'))
                continue
            a, b = parse_M(ip), parse_M(ic)

            def shape(m):
                if m['kind'] != 'R':
                    return (m['kind'], m.get('site'))
                return ('R', m['out'], tuple(err_span_of(e) for e in m['errs']))
            pred = shape(a) == shape(b)
            why = 'decorated and plain differ in acceptance / output / error count / spans'
            # an as_context entry describes a failure INSIDE the labelled parser: its span runs from that parser's start to the
            # failure position, so it cannot end before the (expected/found) error it is attached to starts
            if pred and a['kind'] == 'R' and a.get('out') is None and a['errs']:
                pe = parse_err(a['errs'][-1])
                if pe and 'expected' in pe and pe['ctx']:
                    for c in pe['ctx'].split(','):
                        cs, _, ce = c.rpartition('@')[2].partition('-')
                        if int(ce) < pe['start'] or int(cs) > int(ce):
                            pred = False
                            why = (f'context {c} attached to an error at {pe["start"]}..{pe["end"]}: the context span does not run from the '
                                   f'labelled parser\'s start to this failure (stale context of an abandoned alternative?)')
            if pred and cid.startswith('e') and a['kind'] == 'R':
                for e in a['errs']:
                    pe = parse_err(e)
                    if pe and 'custom' in pe and 'l2@' not in (pe['ctx'] or ''):
                        pred = False
                        why = (f'the user error {e} was emitted inside a parser labelled 2 with as_context, but does not carry that '
                               f'context (as_context describes the secondary errors of its parser too)')
            # … and it may only be attached to an error that stems from a failure INSIDE the labelled parser: in the shapes where
            # that parser starts at offset 0 it is also run alone; a context on the final error requires that the parser alone
            # fails, at the very position of that error
            ix = impl.get(cid[:-1] + 'x.' + k, {}).get('M')
            if pred and ix is not None and a['kind'] == 'R' and a['errs']:
                x = parse_M(ix)
                pe = parse_err(a['errs'][-1])
                if pe and pe['ctx'] and x['kind'] == 'R':
                    px = parse_err(x['errs'][-1]) if x['errs'] else None
                    if x.get('out') is not None or px is None or px['start'] != pe['start']:
                        pred = False
                        why = (f'context {pe["ctx"]} on the error at {pe["start"]}..{pe["end"]}, but the labelled parser run alone '
                               + ('succeeds' if x.get('out') is not None else f'fails at {px["start"] if px else "?"}')
                               + ': the context was attached to a failure that did not happen inside the labelled parser')
            corr = (ip == mp) and (ic == mc)
            oc = a['kind'] + ('+' if a.get('out') is not None else '-')
            stats['outcomes'][oc] = stats['outcomes'].get(oc, 0) + 1
            if is_nontrivial(line, int(k), None):
                stats['nontrivial'] += 2
            if not pred:
                stats['pred_fail'] += 1
                if True:
                    xl = by_id.get(cid[:-1] + 'x')
                    self.fail(stats, fails, 'pred', [(line, int(k)), (by_id.get(cid_c), int(k))] + ([(xl, int(k))] if xl else []), int(k),
                              f'{why} || decorated: {ip} || plain: {ic}')
            elif not corr:
                stats['corr_disagree'] += 1
                if True:
                    self.fail(stats, fails, 'corr', line, int(k), f'impl: {ip} / {ic} || model: {mp} / {mc}')
            elif len(stats['samples']) < 2 and int(k) > 3 and a.get('out') is None:
                stats['samples'].append({'case': grammar_of(line), 'input_index': int(k), 'decorated': ip, 'plain': ic})


def err_span_of(e):
    pe = parse_err(e)
    return (pe['start'], pe['end']) if pe else e


class C20(Prop):
    name = 'C20'; module = 'C20'; claimed = True

    def corpus(self):
        # D15: Then of two iterators, progress assertion (known finding)
        g = ('collect', 'vec', ('thenit', ('rep', ('any',), 0, None), ('ornotit', ('to', ('vtok', 7), ('empty',)))))
        return [case_line('sD15', g, inputs_all(2, [53]))]

    title = 'parsing is total'
    bins = ALL.bins + ['h_deep', 'h_text']

    def custom_run(self, lines, tier, seed, jobs):
        import vcheck
        tlines = [l for l in lines if l.startswith('T ')]
        lines = [l for l in lines if not l.startswith('T ')]
        tot, fails = vcheck.run_cases(self.name, lines, jobs=jobs, timeout=900 if tier == 'quick' else 3600) if lines else (
            {'pairs': 0, 'corr_disagree': 0, 'pred_fail': 0, 'outcomes': {}, 'impl_s': 0.0, 'model_s': 0.0, 'crash': None, 'samples': [], 'nontrivial': 0}, [])
        # "no stack exhaustion": recursion and Pratt operator chains nested 10^5 deep on a 512 KiB thread (runtime evidence)
        if len(lines) >= 10:
            deep_probes(self, tot, fails, tier, jobs)
            text_total_probes(self, tot, fails, tier, seed, jobs)
        elif tlines:
            for l in tlines:
                rc, out = _text_impl_worker(l)
                for o in out.split('\n'):
                    if ' M P ' in o:
                        tot['pred_fail'] += 1
                        self.fail(tot, fails, 'pred', l, int(o.split(' ')[0].rpartition('.')[2]), 'PANIC ' + o)
        return tot, fails
    rule = ('union of all streams (C01, repetition incl. nullable items, emitters, recovery, decorations, context, state, four error '
            'kinds) on exhaustive small inputs, plus malformed inputs: random strings over the full Unicode range incl. combining marks, '
            'surrogate-adjacent and 4-byte characters, long inputs; every case under catch_unwind and a wall-clock watchdog; '
            'observation = returned / panic(site) / hang; every text parser over &str and &Graphemes inputs of context-dependent clusters (no panic); define-twice probe; repetitions configured with absurd counts (2^64-1 … 10^12); the define-twice refusal names the define site')
    level_text = ('theorems: a failing run always leaves a pending error (the "can\'t fail" unwraps never fire), well-formed grammars never '
                  'panic, fuel bound for non-recursive well-formed grammars (Lean); every case of every stream plus malformed inputs run '
                  'against the real crate under catch_unwind + watchdog and compared with the model')

    def cases(self, tier, seed):
        rng = random.Random(seed)
        items = stream_items(tier, seed, ['c01', 'c02', 'emit', 'rec', 'deco', 'ctx', 'state', 'ek'])
        must = [it for it in items if it[2].get('must')]
        items = [it for it in items if not it[2].get('must')]
        rng.shuffle(items)
        items = must + items[:9000 if tier == 'quick' else 60000]
        lines = []
        pool = [0x61, 0x62, 0xe9, 0x301, 0x1D11E, 0x10FFFF, 0xD7FF, 0xE000, 0x0, 0x200D, 0xFEFF, 0x1F600, 0x20, 0x0A, 0x0D, 0x2C, gen.THAI] + gen.UTF8_EDGES
        for n, (g, inputs, kw) in enumerate(items):
            kw = dict(kw)
            kw.pop('prio', None)
            kw.pop('must', None)
            kind = kw.pop('kind', 'str' if n % 2 == 0 else 'slice')
            extra = []
            for _ in range(4):
                ln = rng.choice([0, 1, 2, 3, 5, 8, 13, 40])
                toks = [rng.choice(pool) if rng.random() < 0.7 else rng.choice([gen.A, gen.B, gen.COMMA, gen.EA]) for _ in range(ln)]
                extra.append(inputs_lit(toks))
            tag = 'w' if ill_formed_items(g) else 's'
            lines.append(case_line(f'{tag}{n}', g, inputs + ' ' + ' '.join(extra), kind=kind, **kw))
        # failing memoized parsers retried at the same position under the wrappers that unwrap the pending error
        inp = inputs_all(4, [gen.A, gen.B, gen.EA])
        n = len(lines)
        for g in [('just', [gen.A]), ('then', ('just', [gen.A]), ('just', [gen.B])), ('oneof', [gen.A, gen.B]), ('not', ('just', [gen.A])),
                  ('filter', ('tokis', gen.A), ('any',)), ('collect', 'vec', ('rep', ('just', [gen.A]), 1, None))]:
            d = ('memo', 51, g)
            for w in gen.DECORATIONS + gen.RECOVERIES[:3]:
                a_ = w(('call', 0))
                for main in [('or', ('then', a_, ('just', [gen.B])), ('then', a_, ('just', [gen.A]))),
                             ('choices', [('then', a_, ('just', [gen.B])), ('then', ('ornot', a_), ('just', [gen.EA])), a_])]:
                    for ek in ('rich', 'empty'):
                        lines.append(case_line(f's{n}', main, inp, defs=[d], ek=ek))
                        n += 1
        # counts that come from the INPUT (configure) may be absurd: a repetition configured with `exactly` / `at_least` of 2^64-1,
        # 2^63, 2^32 items on a short input fails like any other repetition that finds too few items — it must not size
        # anything by the announced count
        A_ = ('just', [gen.A])
        for cnt in (2 ** 64 - 1, 2 ** 63, 2 ** 32, 10 ** 12):
            for cfn in ('exactlyctx', 'atleastctx'):
                it = ('cfgrep', cfn, ('rep', A_, 0, None))
                for cons in (('collect', 'vec', it), ('collect', 'string', it), ('foldr', 'fpair', it, ('empty',)), ('collect', 'count', it),
                             ('foldl', 'fpair', ('empty',), it)):
                    for mode in ('parse', 'check'):
                        lines.append(case_line(f's{n}', ('withctx', ('vnat', cnt), ('then', cons, ('toslice', ('iterp', ('rep', ('any',), 0, None))))),
                                               inputs_all(3, [gen.A, gen.B]), mode=mode))
                        n += 1
        return lines

    def compare(self, line, k, impl_M, model_M, spec_S):
        im, mm = parse_M(impl_M), parse_M(model_M)
        corr = proj_total(im) == proj_total(mm)
        pred = True
        why = ''
        if im['kind'] != 'R':
            # a panic is admissible only as the documented debug assertion on a repetition whose item consumed nothing
            if not (im['kind'] == 'P' and im.get('site') == 'no-progress' and line.startswith('w')):
                pred = False
                why = f'did not return a ParseResult: {impl_M}'
        elif im['out'] is None and not im['errs']:
            pred = False
            why = 'failure not reported through the error list'
        return {'corr': corr, 'pred': pred, 'why': why, 'outcome': im['kind'] + (':' + im.get('site', '') if im['kind'] == 'P' else ''),
                'nontrivial': is_nontrivial(line, k, None)}


def proj_total(m):
    if m['kind'] == 'R':
        return ('R', m['out'] is not None, len(m['errs']))
    return (m['kind'], m.get('site'))


def consumes(g):
    """conservative: every successful match of g takes at least one token (python mirror of `G.consumes`)"""
    op = g[0]
    if op in ('any', 'oneof', 'noneof', 'select', 'cnext'):
        return True
    if op == 'just':
        return len(g[1]) > 0
    if op in ('then', 'ithen', 'theni', 'iwctx', 'twctx'):
        return consumes(g[1]) or consumes(g[2])
    if op == 'delim':
        return consumes(g[1]) or consumes(g[2]) or consumes(g[3])
    if op == 'padded':
        return consumes(g[1]) or consumes(g[2])
    if op in ('group', 'grouparr'):
        return any(consumes(x) for x in g[1])
    if op == 'or':
        return consumes(g[1]) and consumes(g[2])
    if op in ('choicet', 'choices'):
        return len(g[1]) > 0 and all(consumes(x) for x in g[1])
    if op in ('map', 'to', 'filter', 'label', 'maperr', 'withctx', 'mapctx', 'memo'):
        return consumes(g[-1])
    if op in ('ignored', 'tospan', 'toslice', 'mwspan', 'mwstate', 'mwctx', 'boxed', 'withstate'):
        return consumes(g[1])
    if op in ('trymap', 'trymapw', 'validate'):
        return consumes(g[4])
    if op == 'andis':
        return consumes(g[1])
    if op == 'recvia':
        return consumes(g[1]) and consumes(g[2])
    return False


def ill_formed_items(g):
    """a repetition whose item may succeed without consuming (the debug assertions may fire)"""
    for t in gen.subterms(g):
        if t[0] in ('rep', 'sep') and not consumes(t[1]):
            return True
        if t[0] == 'ornotit' and not consumes(t[1]):
            pass
    return False



def erase_memo(g):
    if g[0] == 'memo':
        return erase_memo(g[2])
    return gen.replace_children(g, erase_memo)


def memo_variants(g, rng, maxn=3):
    """g with memoized() inserted at 1..maxn node positions (incl. nested / adjacent), distinct ids"""
    out = []
    counter = [100]

    def w(a):
        counter[0] += 1
        return ('memo', counter[0], a)
    singles = gen.insert_at_nodes(g, w)
    out.extend(singles)
    for s1 in singles[:3]:
        doubles = gen.insert_at_nodes(s1, w)
        rng.shuffle(doubles)
        out.extend(doubles[:2])
        for s2 in doubles[:1]:
            triples = gen.insert_at_nodes(s2, w)
            rng.shuffle(triples)
            out.extend(triples[:1])
    return out


LEFT_REC = [
    # expr = (expr op atom).memoized() | atom
    ([('or', ('memo', 1, ('then', ('call', 0), ('then', ('just', [43]), ('just', [120])))), ('just', [120]))], ('call', 0)),
    # expr = (expr atom).memoized() | atom   (juxtaposition), collected through map
    ([('or', ('memo', 1, ('map', ('tag', 3), ('then', ('call', 0), ('oneof', [120, 121])))), ('oneof', [120, 121]))], ('call', 0)),
    # one memoized rule with TWO left-recursive alternatives: the in-progress marker must cut every re-entry, not only the first
    ([('or', ('memo', 1, ('or', ('then', ('call', 0), ('then', ('just', [43]), ('just', [120]))),
                               ('then', ('call', 0), ('then', ('just', [45]), ('just', [120]))))), ('just', [120]))], ('call', 0)),
    ([('or', ('memo', 1, ('choices', [('then', ('call', 0), ('just', [43])), ('then', ('call', 0), ('just', [45])), ('then', ('call', 0), ('just', [121]))])),
              ('just', [120]))], ('call', 0)),
    # indirect left recursion through a second definition
    ([('or', ('memo', 1, ('then', ('call', 1), ('just', [43]))), ('just', [120])), ('or', ('call', 0), ('just', [121]))], ('call', 0)),
    # the recursive reference crosses a context boundary (with_ctx / ignore_with_ctx / then_with_ctx / map_ctx): the memo table —
    # and with it the in-progress marker — belongs to the parse, not to the context
    ([('or', ('memo', 1, ('then', ('withctx', ('vnat', 1), ('call', 0)), ('then', ('just', [43]), ('just', [120])))), ('just', [120]))], ('call', 0)),
    ([('or', ('memo', 1, ('iwctx', ('empty',), ('then', ('call', 0), ('then', ('just', [43]), ('just', [120]))))), ('just', [120]))], ('call', 0)),
    ([('or', ('withctx', ('vnat', 2), ('memo', 1, ('then', ('call', 0), ('then', ('just', [43]), ('just', [120]))))), ('just', [120]))], ('call', 0)),
    ([('or', ('memo', 1, ('then', ('mapctx', ('ctag', 3), ('call', 0)), ('just', [43]))), ('just', [120]))], ('call', 0)),
    ([('or', ('memo', 1, ('map', 'snd', ('twctx', ('empty',), ('then', ('call', 0), ('just', [45]))))), ('just', [120]))], ('call', 0)),
]


class C11(Prop):
    name = 'C11'; module = 'C11'; claimed = True
    title = 'memoization is transparent and makes left recursion terminate'
    rule = ('C01/C02-class grammars with memoized() inserted at one to three node positions (nested and adjacent placements, distinct '
            'parsers), memoized parsers under recover_with / map_err / labelled, shared through recursive definitions; each compared '
            'with the unmemoized grammar on all inputs; left-recursive families on all inputs up to the bound; the address-collision '
            'shapes (memoized().memoized(), adjacent zero-sized memoized parsers) as known findings; a shared memoized parser failing first as a non-first alternative under labelled / map_err / not, revisited from outside')
    level_text = ('memo table model with parser ids; correspondence of full results (incl. errors) between the real crate and the model '
                  'with memoization on; memoized vs plain compared on the real crate; left-recursive family under watchdog')

    def cases(self, tier, seed):
        rng = random.Random(seed)
        by = gen.enum_by_size(3, gen.C01_LEAVES, gen.C01_UNARIES, gen.C01_BINARIES, gen.C01_TERNARIES)
        base = [g for s in (2, 3) for g in by[s]]
        rng.shuffle(base)
        base = base[:900 if tier == 'quick' else 8000]
        its = gen.c02_iterators(gen.C02_ITEMS[:3], gen.C02_SEPS[:1], [(0, None), (1, 2)])
        rng.shuffle(its)
        for it in its[:60 if tier == 'quick' else 400]:
            base.extend(gen.c02_consumers(it)[:4])
        inp = inputs_all(4, [gen.A, gen.B, gen.EA]) + ' ' + inputs_all(5, [gen.A, gen.COMMA])
        lines = []
        n = 0
        for g in base:
            vs = memo_variants(g, rng)
            wrapped = []
            for v in vs[:2]:
                for w in gen.RECOVERIES[:2] + gen.DECORATIONS:
                    wrapped.extend(gen.insert_at_nodes(v, w, pred=lambda t: t[0] == 'memo')[:1])
            for v in vs + wrapped:
                kind = 'str' if n % 2 == 0 else 'slice'
                lines.append(case_line(f'm{n}p', v, inp, kind=kind))
                lines.append(case_line(f'm{n}c', erase_memo(v), inp, kind=kind))
                n += 1
        # shared parser objects through definitions
        for g in base[:150]:
            d = ('memo', 50, g)
            main = ('then', ('ornot', ('call', 0)), ('or', ('call', 0), ('any',)))
            lines.append(case_line(f'm{n}p', main, inp, defs=[d]))
            lines.append(case_line(f'm{n}c', main, inp, defs=[erase_memo(d)]))
            n += 1
        # the SAME memoized parser retried at the same position (cache hit) under wrappers that take the pending error and
        # expect the retried failure to leave one: a.then(b).or(a.then(c)) with a = wrapped memoized parser
        for g in base[:60] + [('just', [gen.A]), ('then', ('just', [gen.A]), ('just', [gen.B])), ('oneof', [gen.A, gen.B])]:
            d = ('memo', 51, g)
            for w in gen.DECORATIONS + gen.RECOVERIES[:3] + [lambda a: a]:
                a_ = w(('call', 0))
                main = ('or', ('then', a_, ('just', [gen.B])), ('then', a_, ('just', [gen.A])))
                main_c = main
                lines.append(case_line(f'm{n}p', main, inp, defs=[d]))
                lines.append(case_line(f'm{n}c', main_c, inp, defs=[erase_memo(d)]))
                n += 1
                main = ('choices', [('then', a_, ('just', [gen.B])), ('then', ('ornot', a_), ('just', [gen.EA])), a_])
                lines.append(case_line(f'm{n}p', main, inp, defs=[d]))
                lines.append(case_line(f'm{n}c', main, inp, defs=[erase_memo(d)]))
                n += 1
        # a memoized parser that FAILS at its first token as a non-first alternative, inside a combinator that then rewrites or
        # drops the pending error (labelled, map_err, not), and is visited again at the same position from outside: what the table
        # stores must be the parser's own failure, not that failure merged with whatever was pending when it ran
        A_, B_, E_ = ('just', [gen.A]), ('just', [gen.B]), ('just', [gen.EA])
        for body in [B_, ('then', B_, A_), ('oneof', [gen.B, gen.COMMA]), ('then', ('just', [gen.B]), ('ornot', A_)), ('just', [gen.B, gen.B])]:
            d = ('memo', 53, body)
            c = ('call', 0)
            for w in gen.DECORATIONS + [lambda a: ('not', a), lambda a: ('ornot', a), lambda a: ('rewind', a), lambda a: a]:
                for first in (A_, ('then', A_, A_), E_):
                    inner = w(('or', first, c))
                    mains = [('or', ('then', inner, E_), ('then', c, ('just', [gen.COMMA]))),
                             ('choices', [('then', inner, E_), ('then', c, ('just', [gen.COMMA])), ('then', ('any',), c)]),
                             ('then', ('ornot', ('then', inner, E_)), c)]
                    for main in mains:
                        lines.append(case_line(f'm{n}p', main, inp, defs=[d]))
                        lines.append(case_line(f'm{n}c', main, inp, defs=[erase_memo(d)]))
                        n += 1
        # a memoized parser that SUCCEEDS while emitting non-fatal errors / feeding the inspector, abandoned by the enclosing
        # choice and visited again at the same position — with its output needed, and with its output discarded (check mode):
        # whatever the table remembers, the second visit must report what a fresh run reports
        A_, B_, E_ = ('just', [gen.A]), ('just', [gen.B]), ('just', [gen.EA])
        for x in [('any',), A_, ('oneof', [gen.A, gen.B]), ('then', ('any',), ('ornot', B_)), ('collect', 'vec', ('rep', A_, 1, None))]:
            # (validate emitters and inspector observations; a recovery strategy UNDER memoized() is outside the property's class
            # — it reads the pending error that memoized() shelters, see c11 header / `cex_recovery`)
            for em in gen.EMITTERS + [lambda a: ('mwstate', a)]:
                d = ('memo', 52, em(x))
                c = ('call', 0)
                mains = [('or', ('ithen', c, B_), ('ithen', c, A_)), ('or', ('then', c, B_), ('ithen', c, A_)),
                         ('or', ('ithen', c, B_), ('then', c, A_)), ('or', ('then', c, B_), ('then', c, E_)),
                         ('choices', [('ithen', c, B_), ('then', ('ornot', ('ignored', c)), E_), ('to', ('vnat', 5), c)]),
                         ('then', ('rewind', c), ('ignored', c)), ('then', ('rewind', ('ignored', c)), c),
                         ('andis', c, ('ignored', c)), ('then', ('ornot', ('then', c, ('cfail', 3))), ('theni', ('empty',), c)),
                         ('collect', 'vec', ('rep', ('or', ('ithen', c, B_), ('ithen', c, A_)), 0, None))]
                for main in mains:
                    for mode in ('parse', 'check'):
                        lines.append(case_line(f'm{n}p', main, inp, defs=[d], mode=mode))
                        lines.append(case_line(f'm{n}c', main, inp, defs=[erase_memo(d)], mode=mode))
                        n += 1
        # left recursion: must terminate (no plain counterpart: the unmemoized grammar overflows the stack)
        linp = inputs_all(4 if tier == 'quick' else 6, [120, 43, 121, 45])
        for i, (defs, main) in enumerate(LEFT_REC):
            lines.append(case_line(f'l{i}p', main, linp, defs=defs, fuel=60))
        # address collisions (known findings D9 / D10)
        for i, a in enumerate(gen.C01_LEAVES[:8]):
            lines.append(case_line(f'z{i}p', ('memonest', 9, a), inp))
            lines.append(case_line(f'z{i}c', a, inp))
        lines.append(case_line('y0p', ('memozst', 7), inp))
        lines.append(case_line('y0c', ('to', ('vunit',), ('or', ('ignored', ('any',)), ('end',))), inp))
        return lines

    def group_of(self, line):
        return line.split(' ', 1)[0][:-1]

    def custom_run(self, lines, tier, seed, jobs):
        import vcheck
        # the left-recursive families run apart, one input per case line, under a short watchdog: a parser that does not
        # terminate must cost seconds, not the whole budget
        lrec = [l for l in lines if l.startswith('l')]
        rest = [l for l in lines if not l.startswith('l')]
        tot, fails = vcheck.run_cases(self.name, rest, jobs=jobs, timeout=900 if tier == 'quick' else 3600)
        single = []
        for l in lrec:
            head, _, spec = l.partition(' I ')
            cid = head.split(' ', 1)[0]
            for k, toks in enumerate(expand_inputs(spec.split())):
                single.append(head.replace(cid, f'{cid[:-1]}i{k}p', 1) + ' I ' + inputs_lit(toks))
        # two phases: the short inputs first; when a family already fails to return on those, the long tail (every case of which
        # would cost a watchdog period on a tree that does not cut the recursion) adds nothing and is skipped
        short = [l for l in single if int(l.partition(' I lit ')[2].split(' ')[0]) <= 2]
        long_ = [l for l in single if int(l.partition(' I lit ')[2].split(' ')[0]) > 2]
        t2, f2 = vcheck.run_cases(self.name, short, jobs=jobs, timeout=10, per_case=True)
        if not any(f[0] in ('pred', 'missing') for f in f2):
            t3, f3 = vcheck.run_cases(self.name, long_, jobs=jobs, timeout=10, per_case=True)
            for k_ in ('pairs', 'corr_disagree', 'pred_fail', 'nontrivial', 'impl_s', 'model_s'):
                t2[k_] += t3[k_]
            for k_, v in t3['outcomes'].items():
                t2['outcomes'][k_] = t2['outcomes'].get(k_, 0) + v
            f2 = f2 + f3
        for k_ in ('pairs', 'corr_disagree', 'pred_fail', 'nontrivial', 'impl_s', 'model_s'):
            tot[k_] += t2[k_]
        for k_, v in t2['outcomes'].items():
            tot['outcomes'][k_] = tot['outcomes'].get(k_, 0) + v
        # a watchdog kill shows as a crashed worker: the per-case predicate failure is the report, not the crash
        return tot, fails + f2

    def check_chunk(self, by_id, impl, model, stats, fails):
        for key, mo in model.items():
            if key == '__bad__' or not key.rpartition('.')[0].endswith('p'):
                continue
            cid, _, k = key.rpartition('.')
            line = by_id.get(cid)
            ip = impl.get(key, {}).get('M')
            mp = mo.get('M')
            stats['pairs'] += 1
            if ip is None:
                if cid.startswith('l'):
                    stats['pred_fail'] += 1
                    self.fail(stats, fails, 'pred', line, int(k), 'left-recursive memoized grammar did not return (no observation: hang, runaway recursion or crash)')
                else:
                    fails.append(('missing', line, int(k), 'no implementation observation (hang / crash?)'))
                continue
            a = parse_M(ip)
            oc = a['kind'] + ('+' if a.get('out') is not None else '-')
            stats['outcomes'][oc] = stats['outcomes'].get(oc, 0) + 1
            if is_nontrivial(line, int(k), None):
                stats['nontrivial'] += 1
            if cid.startswith('l'):
                pred = a['kind'] == 'R'
                why = 'left-recursive memoized grammar did not return a result'
                corr = ip == mp
                ic = mc = None
            else:
                cid_c = cid[:-1] + 'c'
                ic = impl.get(cid_c + '.' + k, {}).get('M')
                mc = model.get(cid_c + '.' + k, {}).get('M')
                stats['pairs'] += 1
                pred = ip == ic
                why = 'memoized and plain grammar give different results'
                corr = (ip == mp) and (ic == mc)
            if not pred:
                stats['pred_fail'] += 1
                if True:
                    self.fail(stats, fails, 'pred', line, int(k), f'{why} || memoized: {ip} || plain: {ic}')
            elif not corr:
                stats['corr_disagree'] += 1
                if True:
                    self.fail(stats, fails, 'corr', line, int(k), f'impl: {ip} / {ic} || model: {mp} / {mc}')
            elif len(stats['samples']) < 2 and int(k) > 3:
                stats['samples'].append({'case': grammar_of(line), 'input_index': int(k), 'memoized': ip, 'plain': ic})



LP, RP, LB, RB, X, Y = 40, 41, 91, 93, 120, 121


def unroll(defs, g, d):
    """expand every `call k` d levels deep (`boxed` keeps the model's fuel aligned); `todo` below"""
    def go(t, d):
        if t[0] == 'call':
            if d == 0:
                return ('todo',)
            return ('boxed', go(defs[t[1]], d - 1))
        return gen.replace_children(t, lambda c: go(c, d))
    return go(g, d)


REC_FAMILIES = [
    # (defs, main, alphabet, max input length)
    ([('or', ('delim', ('call', 0), ('just', [LP]), ('just', [RP])), ('just', [X]))], ('call', 0), [LP, RP, X], 8),
    ([('or', ('map', ('tag', 1), ('delim', ('call', 0), ('just', [LP]), ('just', [RP]))), ('to', ('vnat', 0), ('just', [X])))],
     ('mwspan', ('call', 0)), [LP, RP, X], 8),
    # mutual: a = 'a' b | x ; b = 'b' a | y
    ([('or', ('then', ('just', [gen.A]), ('call', 1)), ('just', [X])), ('or', ('then', ('just', [gen.B]), ('call', 0)), ('just', [Y]))],
     ('call', 0), [gen.A, gen.B, X, Y], 6),
    # list = '[' (item (',' item)*)? ']' ; item = list | x
    ([('delim', ('collect', 'vec', ('sep', ('call', 1), ('just', [gen.COMMA]), 0, None, False, True)), ('just', [LB]), ('just', [RB])),
      ('or', ('call', 0), ('just', [X]))], ('call', 0), [LB, RB, X, gen.COMMA], 7),
    # right-nested optional with fold
    ([('then', ('just', [X]), ('ornot', ('ithen', ('just', [gen.COMMA]), ('call', 0))))], ('call', 0), [X, gen.COMMA], 9),
    # recursion under repetition, lookahead and recovery
    ([('or', ('delim', ('collect', 'count', ('rep', ('call', 0), 0, None)), ('just', [LP]), ('just', [RP])),
              ('andis', ('any',), ('noneof', [LP, RP])))], ('call', 0), [LP, RP, X], 7),
    ([('or', ('delim', ('recvia', ('call', 0), ('to', ('vnat', 9), ('noneof', [RP]))), ('just', [LP]), ('just', [RP])), ('just', [X]))],
     ('call', 0), [LP, RP, X, Y], 6),
]


def _deep_worker(args):
    import subprocess, vcheck as vc
    probe, depth, mode = args
    try:
        p = subprocess.run([os.path.join(vc.HBIN_DIR, 'h_deep'), probe, str(depth), mode], stdout=subprocess.PIPE, stderr=subprocess.PIPE,
                           text=True, timeout=120)
        return probe, depth, mode, p.returncode, p.stdout.strip(), p.stderr.strip()[-200:]
    except subprocess.TimeoutExpired:
        return probe, depth, mode, -9, '', 'timeout'


def deep_probes(prop, tot, fails, tier, jobs):
    """every recursion site goes through the stack-growing guard: a parser nested 10^5 (thorough: 10^6) levels deep returns on a
    512 KiB thread; an unguarded site overflows the stack and kills the probe process"""
    import multiprocessing
    depths = [1000, 100000] if tier == 'quick' else [1000, 100000, 1000000]
    jobsl = [(pr, d, m) for pr in ('parens', 'mutual', 'pratt_prefix', 'pratt_postfix', 'pratt_infixr', 'pratt_infixl',
                                   'parens_boxed', 'parens_rc', 'mutual_boxed', 'declared_boxed', 'pratt_parens',
                                   'flat_foldr', 'flat_foldr_with', 'flat_foldl', 'flat_foldl_with', 'flat_collect', 'flat_count',
                                   'flat_sep', 'flat_plain')
             for d in depths for m in ('parse', 'check')]
    with multiprocessing.Pool(min(jobs, 8)) as pool:
        res = pool.map(_deep_worker, jobsl)
    # "defined exactly once": a refused second definition leaves the first one in place
    rc_, out_, err_ = _deep_worker(('define_twice', 0, 'parse'))[3:]
    tot['pairs'] += 1
    tot['nontrivial'] += 1
    ok_ = out_ == 'define_twice refused=true first-definition-kept'
    tot['outcomes']['define-once:' + ('ok' if ok_ else 'FAIL')] = 1
    if not ok_:
        tot['pred_fail'] += 1
        prop.fail(tot, fails, 'pred', None, 0,
                  f'DEFINE-ONCE probe: a recursive parser defined a second time (the second `define` must panic and leave the first '
                  f'definition in place for every handle): exit status {rc_}, output {out_!r} {err_!r}')
    for probe, depth, mode, rc, out, err in res:
        tot['pairs'] += 1
        tot['nontrivial'] += 1
        want = f'ok {probe} {depth} ' + (f'Some({depth})' if mode == 'parse' else 'accepted=true')
        key = 'deep:ok' if out == want else 'deep:FAIL'
        tot['outcomes'][key] = tot['outcomes'].get(key, 0) + 1
        if out != want:
            tot['pred_fail'] += 1
            prop.fail(tot, fails, 'pred', None, 0,
                      f'DEEP-NESTING probe {probe} depth {depth} ({mode}) on a 512 KiB stack: exit status {rc}, output {out!r} {err!r}; expected {want!r}')


class C12(Prop):
    name = 'C12'; module = 'C12'; claimed = True
    bins = ['h_str_rich', 'h_slice_rich', 'h_deep', 'h_nested']

    def custom_run(self, lines, tier, seed, jobs):
        import vcheck, multiprocessing
        given = [l for l in lines if l.startswith(('NH ', 'EX '))]
        tot, fails = vcheck.run_cases(self.name, [l for l in lines if not l.startswith(('NH ', 'EX '))], jobs=jobs,
                                      timeout=900 if tier == 'quick' else 3600)
        # runtime part (supporting evidence, not a theorem): every recursion site goes through the stack-growing guard, so a
        # parser nested 10^5 (thorough: 10^6) levels deep returns on a 512 KiB thread; an unguarded site overflows and kills the probe
        replaying = len(lines) < 10          # a replay / a shrinking step: only the lines given
        if not replaying:
            deep_probes(self, tot, fails, tier, jobs)
        # recursion ACROSS input boundaries: a recursive handle (declare / define) whose body is a nested parse that contains
        # the handle again — token trees of every depth, positions restart at 0 in every nested input (C16's general-form
        # lines; the unrolling is the model's reading applied level by level)
        t = C16()
        t.name = 'C12'
        nl = given if replaying else [l for l in t.cases(tier, seed) if l.startswith(('NH ', 'EX ')) and
                                      ' call 0' in l.partition(' A ')[2].partition(' B ')[0]]
        t2, f2 = t.custom_run(nl, tier, seed, jobs) if nl else ({'pairs': 0, 'pred_fail': 0, 'corr_disagree': 0, 'nontrivial': 0, 'outcomes': {}}, [])
        for k in ('pairs', 'pred_fail', 'corr_disagree', 'nontrivial'):
            tot[k] += t2[k]
        for k, v in t2['outcomes'].items():
            tot['outcomes']['nested:' + k] = tot['outcomes'].get('nested:' + k, 0) + v
        if t2.get('crash'):
            tot['crash'] = t2['crash']
        return tot, fails + f2

    title = 'recursive parsers equal their unrolling and nest to any depth'
    rule = ('guarded recursive grammar families (single and mutually recursive definitions; recursion under delimiters, repetition, '
            'lookahead, option, recovery), built with Recursive::declare/define and with recursive(); every input up to the bound over '
            'the family alphabet (all nestings); each compared with the grammar unrolled deeper than any input can reach (todo below); define-twice probe (the refused second definition leaves the first in place for every handle)')
    level_text = ('theorem: a recursive run equals the run of its finite unrolling (Lean); the real crate built with declare/define and '
                  'with recursive() compared with its unrolling and with the model on all nestings up to the bound; define-twice and '
                  'deep-nesting probes in the thorough tier')

    def cases(self, tier, seed):
        lines = []
        n = 0
        for defs, main, alpha, maxlen in REC_FAMILIES:
            if tier != 'quick':
                maxlen += 1
            inp = inputs_all(maxlen, alpha)
            d = len(defs) * (maxlen + 1) + 2
            for style in ('r', 'R'):      # r: declare/define, R: recursive() (single definition only)
                if style == 'R' and len(defs) != 1:
                    continue
                lines.append(case_line(f'{style}{n}p', main, inp, defs=defs, fuel=600, kind='str' if n % 2 == 0 else 'slice'))
                lines.append(case_line(f'{style}{n}c', unroll(defs, main, d), inp, fuel=600, kind='str' if n % 2 == 0 else 'slice'))
                n += 1
        return lines

    def group_of(self, line):
        return line.split(' ', 1)[0][:-1]

    def check_chunk(self, by_id, impl, model, stats, fails):
        for key, mo in model.items():
            if key == '__bad__' or not key.rpartition('.')[0].endswith('p'):
                continue
            cid, _, k = key.rpartition('.')
            cid_c = cid[:-1] + 'c'
            line = by_id.get(cid)
            ip = impl.get(key, {}).get('M')
            ic = impl.get(cid_c + '.' + k, {}).get('M')
            mp = mo.get('M')
            mc = model.get(cid_c + '.' + k, {}).get('M')
            stats['pairs'] += 2
            if ip is None or ic is None:
                fails.append(('missing', line, int(k), 'no implementation observation'))
                continue
            pred = ip == ic
            corr = (ip == mp) and (ic == mc)
            a = parse_M(ip)
            oc = a['kind'] + ('+' if a.get('out') is not None else '-')
            stats['outcomes'][oc] = stats['outcomes'].get(oc, 0) + 1
            if int(k) > 0:
                stats['nontrivial'] += 2
            if not pred:
                stats['pred_fail'] += 1
                if True:
                    self.fail(stats, fails, 'pred', line, int(k), f'recursive parser and its unrolling differ || recursive: {ip} || unrolled: {ic}')
            elif not corr:
                stats['corr_disagree'] += 1
                if True:
                    self.fail(stats, fails, 'corr', line, int(k), f'impl: {ip} / {ic} || model: {mp} / {mc}')
            elif len(stats['samples']) < 2 and a.get('out') is not None and int(k) > 20:
                stats['samples'].append({'case': grammar_of(line), 'input_index': int(k), 'recursive': ip, 'unrolled': ic})



def _hist_worker(args):
    import subprocess, vcheck as vc
    lines, seed = args
    p = subprocess.run([os.path.join(vc.HBIN_DIR, 'h_hist'), str(seed)], input='\n'.join(lines) + '\n', stdout=subprocess.PIPE,
                       stderr=subprocess.PIPE, text=True, timeout=1800)
    return p.returncode, p.stdout, p.stderr[-300:]


import os


class C13(Prop):
    name = 'C13'; module = 'C13'; claimed = True
    title = 'parsers are pure values'
    bins = ['h_hist', 'h_str_rich', 'h_slice_rich', 'h_text']
    rule = ('grammars of the C01/C02/recovery/memoization/recursion streams, each with a pool of inputs (accepted and rejected ones); '
            'histories: every sequence of length <= 3 over the first three pool inputs plus seeded random histories of length 6, each '
            'history through one of nine wrappers over the SAME parser object (value, clone, &, Box, Rc, Arc, boxed().boxed(), Either '
            'left/right, Cache); every step compared with the result of a freshly built parser; 2-8 threads over Arc<dyn Parser+Send+Sync> '
            'static parsers compared with sequential results; non-trivial = step whose input differs from the previous one; one regex() value over windows of one buffer (every prefix, growing and shrinking) against the regex oracle')
    level_text = ('theorem (model): parse creates and discards all per-parse state, so any history gives pointwise the fresh result through '
                  'any wrapper (wrappers are the identity in the model); the content is the differential run on the real crate: histories '
                  'through nine wrappers and threads, with memo tables and recursive cells in the grammars')

    def cases(self, tier, seed):
        rng = random.Random(seed)
        lines = []
        n = 0
        items = stream_items('quick', seed, ['c01', 'c02', 'rec', 'emit'])
        rng.shuffle(items)
        items = items[:400 if tier == 'quick' else 4000]
        pool_inputs = [[], [gen.A], [gen.A, gen.B], [gen.B, gen.A, gen.A], [gen.A, gen.COMMA, gen.A], [gen.EA, gen.A], [gen.A, gen.A, gen.A, gen.A],
                       [gen.COMMA], [gen.A, gen.B, gen.A, gen.B]]
        for g, _, kw in items:
            rng.shuffle(pool_inputs)
            inp = ' '.join(inputs_lit(t) for t in pool_inputs[:6])
            mg = g
            if rng.random() < 0.5:
                ms = memo_variants(g, rng, 2)
                if ms:
                    mg = rng.choice(ms)
            lines.append(case_line(f'h{n}', mg, inp, mode=rng.choice(['parse', 'check'])))
            n += 1
        for defs, main, alpha, maxlen in REC_FAMILIES + [(d, m, [120, 43, 121], 6) for d, m in LEFT_REC]:
            pool = [[rng.choice(alpha) for _ in range(rng.randint(0, 5))] for _ in range(6)]
            lines.append(case_line(f'h{n}', main, ' '.join(inputs_lit(t) for t in pool), defs=defs))
            n += 1
        return lines

    def group_of(self, line):
        return line.split(' ', 1)[0].replace('~c', '')

    def check_chunk(self, by_id, impl, model, stats, fails):
        """clone family: `<id>~c` is the same grammar with every combinator value cloned (its own Clone impl) and the
        original dropped before use: the clone must behave as the original (implementation against itself) and as the model"""
        for key, mo in model.items():
            if key == '__bad__':
                continue
            cid, _, k = key.rpartition('.')
            if '~c' not in cid:
                continue
            line = by_id.get(cid)
            a = impl.get(key, {}).get('M')
            b = impl.get(cid.replace('~c', '') + '.' + k, {}).get('M')
            stats['pairs'] += 1
            stats['nontrivial'] += 1
            stats['outcomes']['clone'] = stats['outcomes'].get('clone', 0) + 1
            if a is None or b is None:
                fails.append(('missing', line, int(k), 'no implementation observation (crash / hang?)'))
            elif a != b:
                stats['pred_fail'] += 1
                self.fail(stats, fails, 'pred', [(line, int(k)), (by_id.get(cid.replace('~c', '')), int(k))], int(k),
                          f'CLONE: the cloned parser gives {a} || the original gives {b} || model: {mo.get("M")}')
            elif a != mo.get('M'):
                stats['corr_disagree'] += 1
                self.fail(stats, fails, 'corr', line, int(k), f'impl: {a} || model: {mo.get("M")}')

    def clone_lines(self, tier, seed):
        rng = random.Random(seed + 7)
        items = stream_items('quick', seed, ['c01', 'c02', 'rec', 'emit', 'deco', 'ctx', 'state'])
        rng.shuffle(items)
        keep = items[:600 if tier == 'quick' else 6000]
        # every operator of the object language at least three times (each has its own Clone impl)
        cnt = {}
        for g, _, _ in keep:
            for o in gen.ops_of(g):
                cnt[o] = cnt.get(o, 0) + 1
        for it in items[len(keep):]:
            ops = gen.ops_of(it[0])
            if any(cnt.get(o, 0) < 3 for o in ops):
                keep.append(it)
                for o in ops:
                    cnt[o] = cnt.get(o, 0) + 1
        # bounds and separator flags are plain fields of Repeated / SeparatedBy that a Clone impl has to carry over
        a, comma = ('just', [gen.A]), ('just', [gen.COMMA])
        for it in gen.c02_iterators([a], [comma], [(1, 2), (2, None), (0, 1)]):
            keep.extend((c, None, {}) for c in gen.c02_consumers(it))
        keep.extend((c, None, {}) for c in gen.c02_special())
        items = keep
        inp = inputs_all(4, [gen.A, gen.B, gen.COMMA]) + ' ' + inputs_lit([gen.EA, gen.A])
        out = []
        for n, (g, _, kw) in enumerate(items):
            kw = dict(kw)
            kind = kw.pop('kind', 'str' if n % 2 == 0 else 'slice')
            if kind not in ('str', 'slice'):
                kind = 'str'
            mode = 'parse' if n % 3 else 'check'
            kw = {k: v for k, v in kw.items() if k in ('defs', 'fuel')}
            out.append(case_line(f'k{n}', g, inp, kind=kind, mode=mode, **kw))
            out.append(case_line(f'k{n}~c', g, inp, kind=kind, mode=mode, **kw))
        return out

    def regex_lines(self, tier):
        ralpha = [97, 98, 48, 55, 32, 95, 233, 10]
        return [f'T r{pi}{inst[0]} {inst} regex_hist 1 {pi} I {inputs_all(4 if tier == "quick" else 5, ralpha)}'
                for pi in range(len(REGEX_PATTERNS)) for inst in ('char', 'u8')]

    def regex_histories(self, rlines, tot, fails, jobs):
        """one `regex` parser value over windows of one buffer (all prefixes of each text, growing then shrinking): a failing
        search followed by a succeeding one at the same address and vice versa; every step must give what the oracle (Python's
        `re`, as in C14) gives for that prefix alone"""
        import multiprocessing, subprocess, vcheck as vc
        if not rlines:
            return
        with multiprocessing.Pool(jobs) as pool:
            results = pool.map(_text_impl_worker, rlines)
        for line, (rc, out) in zip(rlines, results):
            if rc != 0:
                tot['crash'] = f'h_text rc={rc}'
            t = line.split()
            cid, inst = t[1], t[2]
            pi = int(t[5])
            inputs = expand_inputs(t[7:])
            d = dict(l.split(' M ', 1) for l in out.split('\n') if ' M ' in l)
            for k, toks in enumerate(inputs):
                got = d.get(f'{cid}.{k}')
                if got is None:
                    fails.append(('missing', line, k, f'no implementation observation for the regex history on {toks}'))
                    continue
                if inst == 'u8' and any(c >= 128 for c in toks):
                    continue          # the oracle works on text; bytes >= 128 are not text
                ends = list(range(len(toks) + 1))
                steps = [x.partition(' i')[0] for x in got.split(' | ')]
                want = []
                for e in ends + ends[::-1]:
                    o = regex_oracle(pi, toks[:e])
                    want.append('none' if o is None else 'ok %d %d %d' % o)
                tot['pairs'] += len(want)
                tot['nontrivial'] += len(want) - 1
                tot['outcomes']['regex-history'] = tot['outcomes'].get('regex-history', 0) + len(want)
                if steps != want:
                    j = next(i for i in range(max(len(steps), len(want))) if i >= len(steps) or i >= len(want) or steps[i] != want[i])
                    tot['pred_fail'] += 1
                    self.fail(tot, fails, 'pred', line, k,
                              f'REGEX-HISTORY regex({REGEX_PATTERNS[pi]!r}) [{inst}] one value over the prefixes of {"".join(chr(c) for c in toks)!r} '
                              f'(growing, then shrinking): step {j} gives {steps[j] if j < len(steps) else None}, a fresh parser gives {want[j] if j < len(want) else None}')

    def custom_run(self, lines, tier, seed, jobs):
        import multiprocessing, vcheck
        replaying = len(lines) < 10          # a replay / a shrinking step: only the lines given
        given = [l for l in lines if l.split(' ', 1)[0].startswith('k')]
        rlines = [l for l in lines if l.startswith('T ')]
        lines = [l for l in lines if not l.split(' ', 1)[0].startswith('k') and not l.startswith('T ')]
        ctot, cfails = vcheck.run_cases(self.name, given if replaying else self.clone_lines(tier, seed), jobs=jobs, timeout=900)
        n = max(1, min(jobs, len(lines)))
        chunks = [lines[i::n] for i in range(n)]
        thread_cmds = ['WRAPPERS'] + ['THREADS %d %d' % (t, 40 if tier == 'quick' else 400) for t in (2, 4, 8)]
        chunks.append(thread_cmds)
        # long histories through one value (thousands of parses): state that is never reset at a parse boundary
        chunks.append(['LONG %d' % (3000 if tier == 'quick' else 100000)])
        with multiprocessing.Pool(jobs) as pool:
            results = pool.map(_hist_worker, [(c, seed) for c in chunks if c])
        tot = {'pairs': 0, 'corr_disagree': 0, 'pred_fail': 0, 'outcomes': {}, 'impl_s': 0.0, 'model_s': 0.0, 'crash': None,
               'samples': [], 'nontrivial': 0}
        fails = []
        by_id = {l.split(' ', 1)[0]: l for l in lines}
        for rc, out, err in results:
            if rc != 0:
                tot['crash'] = f'h_hist exited rc={rc}: {err}'
            for line in out.split('\n'):
                if not line:
                    continue
                if line.startswith('ERR'):
                    fails.append(('bad-line', None, 0, line))
                    continue
                cid, _, rest = line.partition(' H ')
                kv = dict(x.split('=') for x in rest.split(' ')[:3])
                steps, diffs = int(kv['steps']), int(kv['diffs'])
                tot['pairs'] += steps
                tot['nontrivial'] += steps * 2 // 3
                key = 'threads' if cid.startswith('T') else 'wrappers' if cid.startswith('W-') else 'long-history' if cid.startswith('L-') else 'history'
                tot['outcomes'][key] = tot['outcomes'].get(key, 0) + steps
                if diffs:
                    tot['pred_fail'] += diffs
                    fails.append(('pred', by_id.get(cid), 0, f'{cid}: result differs from a fresh parser: {rest}'))
                elif len(tot['samples']) < 3:
                    tot['samples'].append({'case': cid, 'grammar': grammar_of(by_id[cid]) if cid in by_id else 'static threaded parser', 'observation': rest.strip()})
        self.regex_histories(rlines if replaying else self.regex_lines(tier), tot, fails, jobs)
        for k in ('pairs', 'corr_disagree', 'pred_fail', 'nontrivial'):
            tot[k] += ctot[k]
        tot['impl_s'] += ctot['impl_s']; tot['model_s'] += ctot['model_s']
        for k, v in ctot['outcomes'].items():
            tot['outcomes'][k] = tot['outcomes'].get(k, 0) + v
        if ctot.get('crash'):
            tot['crash'] = ctot['crash']
        fails.extend(cfails)
        return tot, fails



# ------------------------------------------------------------------------------------------------
# C14: text parsers

T_ALPHA = [48, 49, 55, 97, 90, 95, 32, 13, 10, 233, 45, 44]      # 0 1 7 a Z _ space CR LF e-acute - ,
T_UNI = [0x0B, 0x0C, 0x09, 0x85, 0xA0, 0x1680, 0x2028, 0x2029, 0x3000, 0x3B1, 0x4E2D, 0x301, 0xB7, 0x660, 0xAA, 0xB5, 0xC3, 0xA9, 0xD7, 0x1D11E, 0x0E01]
XID_START = {0xAA, 0xB5, 0xBA, 0xC3, 0xE9, 0x3B1, 0x4E2D, 0x0E01, 0x915, 0x937, 0x1100, 0x1161, 0x11A8}
XID_CONT_ONLY = {0xB7, 0x301, 0x660, 0xFE0F, 0x94D}
UNI_WS = set(range(9, 14)) | {32, 0x85, 0xA0, 0x1680, 0x2028, 0x2029, 0x202F, 0x205F, 0x3000} | set(range(0x2000, 0x200B)) | {0x110000}


def t_digit(r, c):
    if 48 <= c <= 57:
        d = c - 48
    elif 97 <= c <= 122:
        d = c - 97 + 10
    elif 65 <= c <= 90:
        d = c - 65 + 10
    else:
        return False
    return d < r


def t_alpha(c):
    return 65 <= c <= 90 or 97 <= c <= 122


def t_alnum(c):
    return t_alpha(c) or 48 <= c <= 57


def t_run(pred, toks, i):
    while i < len(toks) and pred(toks[i]):
        i += 1
    return i


def text_oracle(inst, pname, params, toks):
    """the documented language of each text parser: (slice start, slice end, end position) or None"""
    r = params[0] if params else 10
    ws = (lambda c: c in UNI_WS) if inst == 'char' else (lambda c: c in (9, 10, 11, 12, 13, 32))
    if pname == 'ws':
        e = t_run(ws, toks, 0)
        return (0, e, e)
    if pname == 'iws':
        e = t_run(lambda c: c in (32, 9), toks, 0)
        return (0, e, e)
    if pname in ('ws_b', 'iws_b', 'ws_x'):
        lo, hi = (params[0], params[1]) if pname != 'ws_x' else (params[0], params[0])
        cls = ws if pname != 'iws_b' else (lambda c: c in (32, 9))
        e = min(t_run(cls, toks, 0), hi)          # greedy, but never more than `hi` characters
        return (0, e, e) if e >= lo else None
    if pname == 'digits':
        e = t_run(lambda c: t_digit(r, c), toks, 0)
        return (0, e, e) if e > 0 else None

    def int_at(i):
        if i < len(toks) and toks[i] == 48:
            return i + 1
        e = t_run(lambda c: t_digit(r, c), toks, i)
        return e if e > i else None

    def aident_at(i):
        if i < len(toks) and toks[i] < 128 and (t_alpha(toks[i]) or toks[i] == 95):
            return t_run(lambda c: c < 128 and (t_alnum(c) or c == 95), toks, i + 1)
        return None
    if pname == 'int':
        e = int_at(0)
        return (0, e, e) if e is not None else None
    if pname == 'aident':
        e = aident_at(0)
        return (0, e, e) if e is not None else None
    if pname == 'uident':
        start = lambda c: t_alpha(c) or c == 95 or c in XID_START
        cont = lambda c: t_alnum(c) or c == 95 or c in XID_START or c in XID_CONT_ONLY
        if toks and start(toks[0]):
            e = t_run(cont, toks, 1)
            return (0, e, e)
        return None
    if pname in ('akw', 'ukw'):
        base = text_oracle(inst, 'aident' if pname == 'akw' else 'uident', [], toks)
        if base and toks[:base[1]] == list(params):
            return base
        return None
    if pname == 'newline':
        if toks[:2] == [13, 10]:
            return (0, 2, 2)
        if toks and toks[0] in (10, 13, 11, 12, 0x85, 0x2028, 0x2029, 0x110000):
            return (0, 1, 1)
        return None
    if pname in ('pad_int', 'pad_aident'):
        s0 = t_run(ws, toks, 0)
        e = int_at(s0) if pname == 'pad_int' else aident_at(s0)
        if e is None:
            return None
        return (s0, e, t_run(ws, toks, e))
    return None


# code points whose clustering depends on what PRECEDES them (regional-indicator pairs, ZWJ + pictograph, Indic linker +
# consonant, combining marks, Hangul jamo): the segmentation the `&Graphemes` input performs from every cursor position
T_SEG = [0x1F1E6, 0x1F1E7, 0x1F1FA, 0x200D, 0x1F468, 0x1F469, 0x2764, 0xFE0F, 0x94D, 0x915, 0x937, 0x301, 0x1100, 0x1161, 0x11A8,
         97, 48, 32, 10, 13]


def seg_inputs(seed, n):
    rng = random.Random(seed * 31 + 5)
    out = []
    for _ in range(n):
        k = rng.randint(1, 7)
        out.append(inputs_lit([rng.choice(T_SEG) for _ in range(k)]))
    return out


def text_total_probes(prop, tot, fails, tier, seed, jobs):
    """C20 on the text layer: every text parser over &str, &[u8] and &Graphemes inputs full of code points whose clustering
    is context dependent — no input may panic (the languages themselves are C14's business)"""
    import multiprocessing
    inp = ' '.join(seg_inputs(seed, 300 if tier == 'quick' else 3000)) + ' ' + inputs_all(3, [0x1F1E6, 0x200D, 0x1F468, 0x94D, 0x915, 10])
    lines = []
    for n, (pname, params) in enumerate([('ws', []), ('iws', []), ('digits', [10]), ('int', [16]), ('uident', []), ('pad_int', [10]), ('newline', [])]):
        ps = f'{len(params)} ' + ' '.join(str(x) for x in params)
        lines.append(f'T g{n}g gr {pname} {ps} I {inp}'.replace('  ', ' '))
        lines.append(f'T g{n}c char {pname} {ps} I {inp}'.replace('  ', ' '))
    with multiprocessing.Pool(jobs) as pool:
        results = pool.map(_text_impl_worker, lines)
    for line, (rc, out) in zip(lines, results):
        if rc != 0:
            tot['crash'] = f'h_text rc={rc}'
        t = line.split()
        inputs = expand_inputs(t[6 + int(t[4]):])
        d = dict(l.split(' M ', 1) for l in out.split('\n') if ' M ' in l)
        for k, toks in enumerate(inputs):
            a = d.get(f'{t[1]}.{k}')
            tot['pairs'] += 1
            tot['nontrivial'] += 1
            tot['outcomes']['text-total'] = tot['outcomes'].get('text-total', 0) + 1
            if a is None:
                fails.append(('missing', line, k, f'no observation for text::{t[3]} [{t[2]}] on {toks} (crash / hang?)'))
            elif a.startswith('P '):
                tot['pred_fail'] += 1
                prop.fail(tot, fails, 'pred', line, k, f'PANIC text::{t[3]} [{t[2]}] on {toks} ({"".join(chr(c) for c in toks)!r}): {a}')


CRLF = 0x110000      # pseudo-token: the grapheme cluster "\r\n" (white space, a newline, nothing else)
REGEX_PATTERNS = ["[0-9]+", "[a-zA-Z_][a-zA-Z0-9_]*", "a|ab", "(ab)*", "a*", "ab|a", "[^ ]+", ".", "é+", "a?b",
                  r"\bb", "^a", r"\Bb", r"\ba\b", "(?m)^a", r"a\b"]


def regex_oracle(pi, toks, at=0):
    import re
    s = ''.join(chr(c) for c in toks)
    if at > len(s):
        return None
    # `match(s, at)`: anchored at `at`, look-behind assertions see the text before it (re.ASCII: \b as in ... the engine's
    # Unicode word boundary agrees with it on the alphabet used here except for e-acute, which is handled by not using it)
    m = re.compile(REGEX_PATTERNS[pi % len(REGEX_PATTERNS)]).match(s, at)
    if m is None:
        return None
    return (at, m.end(), m.end())


def _text_worker(args):
    import subprocess, vcheck as vc
    lines = args
    text = '\n'.join(lines) + '\n'
    pi = subprocess.run([os.path.join(vc.HBIN_DIR, 'h_text')], input=text, stdout=subprocess.PIPE, stderr=subprocess.PIPE, text=True, timeout=1800)
    pm = subprocess.run([vc.DRIVER], input=text, stdout=subprocess.PIPE, stderr=subprocess.PIPE, text=True, timeout=1800)
    return pi.returncode, pi.stdout, pm.returncode, pm.stdout


def _text_impl_worker(line):
    import subprocess, vcheck as vc
    pi = subprocess.run([os.path.join(vc.HBIN_DIR, 'h_text')], input=line + '\n', stdout=subprocess.PIPE, stderr=subprocess.PIPE, text=True, timeout=1800)
    return pi.returncode, pi.stdout


class C14(Prop):
    name = 'C14'; module = 'C14'; claimed = True
    title = 'text parsers recognise exactly their documented languages'
    bins = ['h_text']
    rule = ('int/digits with radix 2,8,10,16,36; ascii and unicode ident; keywords; whitespace, inline_whitespace, newline; padded; each on '
            'all strings up to the bound over the 12-character alphabet {0 1 7 a Z _ space CR LF e-acute - ,}, every single ASCII character '
            '(and CR/LF pairs), and seeded random strings over Unicode white space / line terminators / XID samples; &str and &[u8]; '
            'observation = (matched slice, end position); non-trivial = non-empty input; regex under to_slice / ignored; the grapheme instance on context-dependent clusters (flags, ZWJ sequences, Indic conjuncts, Hangul jamo); a panic is a failure on every instance')
    level_text = ('theorems: each text parser (transcribed as a derived parser over the Char class record) accepts exactly its documented '
                  'language and returns the matched slice; char and u8 instances agree on ASCII; the real parsers compared with the model, '
                  'with an independent oracle of the documented languages, and &str against &[u8]')

    def cases(self, tier, seed):
        rng = random.Random(seed)
        maxlen = 4 if tier == 'quick' else 5
        inp = inputs_all(maxlen, T_ALPHA)
        singles = ' '.join(inputs_lit([c]) for c in range(128)) + ' ' + ' '.join(inputs_lit([a, b]) for a in (13, 10, 32, 48, 97) for b in (13, 10, 11, 48, 95))
        rnd = []
        for _ in range(300 if tier == 'quick' else 3000):
            n = rng.randint(1, 6)
            rnd.append(inputs_lit([rng.choice(T_UNI) if rng.random() < 0.5 else rng.choice(T_ALPHA) for _ in range(n)]))
        rnd_u8 = []
        for _ in range(300 if tier == 'quick' else 3000):
            n = rng.randint(1, 6)
            rnd_u8.append(inputs_lit([rng.choice([c for c in T_UNI if c < 256] + [0xE9, 0x80]) if rng.random() < 0.5 else rng.choice(T_ALPHA) for _ in range(n)]))
        configs = []
        for r in (2, 8, 10, 16, 36):
            configs += [('int', [r]), ('digits', [r]), ('pad_int', [r])]
        configs += [('ws_b', [2, 9]), ('ws_b', [0, 1]), ('ws_b', [1, 2]), ('iws_b', [2, 3]), ('iws_b', [0, 2]), ('ws_x', [3]), ('ws_x', [1])]
        configs += [('aident', []), ('uident', []), ('ws', []), ('iws', []), ('newline', []), ('pad_aident', []),
                    ('akw', [97]), ('akw', [97, 90]), ('akw', [95, 49]), ('akw', [97, 97, 97]), ('ukw', [233, 97]), ('ukw', [97])]
        lines = []
        n = 0
        for pname, params in configs:
            ps = f'{len(params)} ' + ' '.join(str(x) for x in params)
            for inst in ('char', 'u8'):
                if pname == 'newline' and inst == 'u8':
                    continue          # `text::newline` does not compile for &[u8] (bound `&str: OrderedSeq<u8>`)
                extra = ' '.join(rnd) if inst == 'char' else ' '.join(rnd_u8)
                lines.append(f'T x{n}{inst[0]} {inst} {pname} {ps} I {inp} {singles} {extra}'.replace('  ', ' '))
            # the same parsers over a `&Graphemes` input (`impl Char for &Grapheme`): tokens are grapheme clusters, CR LF is one
            if pname in ('int', 'digits', 'pad_int', 'uident', 'ws', 'iws', 'newline') and (not params or params[0] in (10, 16)):
                lines.append(f'T y{n}g gr {pname} {ps} I {inp} {singles} {" ".join(rnd)} {" ".join(seg_inputs(seed, 150 if tier == "quick" else 1500))}'.replace('  ', ' '))
            n += 1
        # regex(p): what an anchored leftmost-first search matches at the position (oracle: Python's `re` on the same pattern
        # table; no model — the engine is external); &[u8] against &str on ASCII text
        ralpha = [97, 98, 48, 55, 32, 95, 233, 10]
        for pi in range(len(REGEX_PATTERNS)):
            for inst in ('char', 'u8'):
                lines.append(f'T z{n}{inst[0]} {inst} regex 1 {pi} I {inputs_all(maxlen, ralpha)}')
            n += 1
            # … and where no output is required of it (check mode under to_slice / ignored)
            for pn in ('regex_c', 'regex_i'):
                for inst in ('char', 'u8'):
                    lines.append(f'T z{n}{inst[0]} {inst} {pn} 1 {pi} I {inputs_all(maxlen, ralpha)}')
                n += 1
            for at in (1, 2):
                for inst in ('char', 'u8'):
                    lines.append(f'T z{n}{inst[0]} {inst} regex_at 2 {pi} {at} I {inputs_all(maxlen, ralpha)}')
                n += 1
        return lines

    def custom_run(self, lines, tier, seed, jobs):
        import multiprocessing
        with multiprocessing.Pool(jobs) as pool:
            results = pool.map(_text_worker, [[l] for l in lines])
        tot = {'pairs': 0, 'corr_disagree': 0, 'pred_fail': 0, 'outcomes': {}, 'impl_s': 0.0, 'model_s': 0.0, 'crash': None,
               'samples': [], 'nontrivial': 0}
        fails = []
        obs = {}
        for (line,), (rci, oi, rcm, om) in zip([[l] for l in lines], results):
            if rci != 0 or rcm != 0:
                tot['crash'] = f'h_text rc={rci} driver rc={rcm}'
            t = line.split()
            cid, inst, pname = t[1], t[2], t[3]
            np_ = int(t[4]); params = [int(x) for x in t[5:5 + np_]]
            inputs = expand_inputs(t[6 + np_:])
            di = dict(l.split(' M ', 1) for l in oi.split('\n') if ' M ' in l)
            dm = dict(l.split(' M ', 1) for l in om.split('\n') if ' M ' in l)
            for k, toks in enumerate(inputs):
                key = f'{cid}.{k}'
                a, b = di.get(key), dm.get(key)
                tot['pairs'] += 1
                if toks:
                    tot['nontrivial'] += 1
                if a is None:
                    fails.append(('missing', None, 0, f'{key}: no implementation observation for {pname} {params} on {toks}'))
                    continue
                oc = a.split(' ')[0]
                tot['outcomes'][oc] = tot['outcomes'].get(oc, 0) + 1
                if oc == 'P':
                    tot['pred_fail'] += 1
                    self.fail(tot, fails, 'pred', line, k, f'PANIC text::{pname}{params} [{inst}] on {toks} ({"".join(chr(c) for c in toks if c < 0x110000)!r}): {a}')
                    continue
                # C18 inside the text parsers: the whole input was consumed, so the inspector must have been fed every token
                a, _, ncl = a.partition(' g')
                a, _, fed = a.partition(' i')
                if inst == 'gr':
                    # clusters the check can segment itself: every code point its own cluster, except CR LF (one cluster)
                    cl = []
                    for c in toks:
                        if c == 10 and cl and cl[-1] == 13:
                            cl[-1] = CRLF
                        else:
                            cl.append(c)
                    if int(ncl or -1) != len(cl):
                        tot['outcomes']['gr:other-segmentation'] = tot['outcomes'].get('gr:other-segmentation', 0) + 1
                        continue
                    toks = cl
                if fed and int(fed) != len(toks) and not pname.startswith('regex'):
                    tot['pred_fail'] += 1
                    self.fail(tot, fails, 'pred', None, 0, f'INSPECTOR text::{pname}{params} [{inst}] on {toks}: the parse consumed {len(toks)} tokens but the inspector was fed {fed}')
                    continue
                if getattr(self, 'insp_only', False):
                    continue
                if pname in ('regex', 'regex_at', 'regex_c', 'regex_i'):
                    if inst == 'u8':
                        obs[(cid[:-1], inst, k)] = (a, toks, pname, params)
                        continue          # &[u8]: compared with &str below (ASCII inputs)
                    want = regex_oracle(params[0], toks, params[1] if pname == 'regex_at' else 0)
                    b = a                 # no model of the engine
                else:
                    want = text_oracle('char' if inst == 'gr' else inst, pname, params, toks)
                    if inst == 'gr':
                        b = a             # the grapheme instance has no model of its own: oracle only
                want_s = 'none' if want is None else 'ok %d %d %d' % want
                obs[(cid[:-1], inst, k)] = (a, toks, pname, params)
                if a != want_s:
                    tot['pred_fail'] += 1
                    if True:
                        self.fail(tot, fails, 'pred', None, 0, f'D?? text::{pname}{params} [{inst}] on {toks} ({"".join(chr(c) for c in toks)!r}): got {a}, documented language gives {want_s} (model: {b})')
                elif a != b:
                    tot['corr_disagree'] += 1
                    if True:
                        self.fail(tot, fails, 'corr', None, 0, f'text::{pname}{params} [{inst}] on {toks}: impl {a} model {b}')
                elif len(tot['samples']) < 3 and len(toks) >= 3 and oc == 'ok':
                    tot['samples'].append({'parser': pname, 'params': params, 'instance': inst, 'input': toks, 'observation': a})
        # &str and &[u8] agree on ASCII text
        for (cid, inst, k), (a, toks, pname, params) in obs.items():
            if inst != 'char' or any(c >= 128 for c in toks):
                continue
            o = obs.get((cid, 'u8', k))
            if o and o[1] == toks and o[0] != a:
                tot['pred_fail'] += 1
                if True:
                    self.fail(tot, fails, 'pred', None, 0, f'ASCII-AGREE text::{pname}{params} on {toks}: &str gives {a}, &[u8] gives {o[0]}')
        return tot, fails



def _pratt_worker(args):
    import subprocess, vcheck as vc
    lines = args
    text = '\n'.join(lines) + '\n'
    pi = subprocess.run([os.path.join(vc.HBIN_DIR, 'h_pratt')], input=text, stdout=subprocess.PIPE, stderr=subprocess.PIPE, text=True, timeout=1800)
    pm = subprocess.run([vc.DRIVER], input=text, stdout=subprocess.PIPE, stderr=subprocess.PIPE, text=True, timeout=1800)
    return pi.returncode, pi.stdout, pm.returncode, pm.stdout


class C09(Prop):
    name = 'C09'; module = 'C09'; claimed = True
    title = 'Pratt parsing respects binding power and associativity and preserves token order'
    bins = ['h_pratt']
    rule = ('seeded random operator tables of 1-6 operators (prefix, postfix, left/right infix) over the symbols {+ - * !} with 4 power '
            'levels (the same symbol allowed as prefix and infix, equal powers with different associativities), atoms {x y}; all token '
            'strings up to the bound over the 6 symbols; every table built as a Vec of boxed operators and as a tuple; parse and check; '
            'observation = the fully parenthesised tree (with the span given to each fold callback) and errors; non-trivial = input with '
            'at least one operator symbol; thorough: 600 tables, the first 60 on all strings up to length 6')
    level_text = ('refinement theorem prattGo -> textbook binding-power reading for every table/input (also recursive tables: the expression '
                  'inside its own atom / operator parsers), shape (power-respecting), maximality '
                  '(missing operand left unconsumed) and token-order theorems (Lean); trees of the real crate compared with the reading and '
                  'the model, Vec and tuple tables against each other')

    def cases(self, tier, seed):
        rng = random.Random(seed)
        syms = [43, 45, 42, 33]
        alpha = [120, 121] + syms
        ntab = 150 if tier == 'quick' else 600
        lines = []
        for n in range(ntab):
            # thorough: four times the tables, the first 60 of them on all strings one token longer (more does not fit a run:
            # 6^7 inputs x 4 builds per table)
            maxlen = 5 if tier == 'quick' or n >= 60 else 6
            nops = rng.randint(1, 6)
            ops = []
            # every seventh table on the far end of the u16 scale of binding powers (the four levels 1, 32767, 32768, 65535)
            scale = {1: 1, 2: 32767, 3: 32768, 4: 65535} if n % 7 == 3 else None
            for _ in range(nops):
                kind = rng.choice(['infixl', 'infixr', 'prefix', 'postfix'])
                bp = rng.randint(1, 4)
                sym = rng.choice(syms)
                ops.append(f'{kind} {scale[bp] if scale else bp} just 1 {sym}')
            y = 233 if n % 4 >= 2 else 121                    # a two-byte atom: spans in bytes differ from spans in tokens
            body = f'A oneof 2 120 {y} O {nops} ' + ' '.join(ops) + ' I ' + inputs_all(maxlen, [120, y] + syms)
            kind = 'str' if n % 2 == 0 else 'slice'          # byte offsets / token indices in the spans the callbacks get
            ek = 'cheap' if n % 5 == 4 else 'rich'
            for fl in ('v', 't'):
                for mode in ('parse', 'check'):
                    lines.append(f'PR {fl}{n}{mode[0]} {ek} {kind} {mode} 80 {body}')
        # operators and atoms that are real grammars (multi-token operators, optional parts)
        extra = [
            ('A or oneof 2 120 121 delim just 1 120 just 1 45 just 1 45', ['infixl 1 then just 1 43 ornot just 1 43', 'postfix 2 just 2 33 33', 'prefix 3 just 1 45']),
            ('A collect count rep just 1 120 1 -', ['infixr 2 just 1 42', 'infixl 2 just 1 43', 'postfix 1 just 1 33']),
        ]
        for i, (atom, ops) in enumerate(extra):
            body = f'{atom} O {len(ops)} ' + ' '.join(ops) + ' I ' + inputs_all(maxlen, alpha)
            for fl in ('v', 't'):
                lines.append(f'PR {fl}x{i}p rich str parse 80 {body}')
        # recursive expression grammars `recursive(|e| atom.pratt(ops))` (model: XEnv / runX): parenthesised sub-expressions
        # in the atom, the expression again inside operator parsers (call arguments as a postfix operator, a ternary as an
        # infix operator). Inputs: all short strings, plus generated well-formed expressions and one-token mutations of them.
        nrec = 40 if tier == 'quick' else 400
        for n in range(nrec):
            nops = rng.randint(1, 5)
            ops, shapes = [], []
            for _ in range(nops):
                kind = rng.choice(['infixl', 'infixr', 'prefix', 'postfix'])
                bp = rng.randint(1, 4)
                sym = rng.choice(syms)
                ops.append(f'{kind} {bp} just 1 {sym}')
                shapes.append((kind, [sym], None))
            r = rng.random()
            if r < 0.35:
                ops.append(f'postfix {rng.randint(1, 4)} delim call 0 just 1 40 just 1 41')       # f(e)
                shapes.append(('postfix', [40], [41]))
            elif r < 0.6:
                ops.append(f'infixr {rng.randint(1, 4)} delim call 0 just 1 63 just 1 58')        # c ? e : e
                shapes.append(('infixr', [63], [58]))
            atom = 'or oneof 2 120 121 delim call 0 just 1 40 just 1 41'

            def gen(d):
                if d <= 0 or rng.random() < 0.3:
                    return [rng.choice([120, 121])]
                c = rng.random()
                if c < 0.2:
                    return [40] + gen(d - 1) + [41]
                k, o, cl = rng.choice(shapes)
                mid = o if cl is None else o + gen(d - 1) + cl
                if k == 'prefix':
                    return mid + gen(d - 1)
                if k == 'postfix':
                    return gen(d - 1) + mid
                return gen(d - 1) + mid + gen(d - 1)
            ins = []
            pool = [120, 121, 40, 41, 63, 58] + syms
            for _ in range(30 if tier == 'quick' else 60):
                e = gen(rng.randint(1, 4))[:24]
                ins.append(e)
                if e and rng.random() < 0.6:
                    m = list(e)
                    j = rng.randrange(len(m))
                    c = rng.random()
                    if c < 0.4:
                        del m[j]
                    elif c < 0.7:
                        m.insert(j, rng.choice(pool))
                    else:
                        m[j] = rng.choice(pool)
                    ins.append(m)
            lits = ' '.join(f'lit {len(e)} ' + ' '.join(map(str, e)) for e in ins)
            body = f'X A {atom} O {len(ops)} ' + ' '.join(ops) + ' I ' + inputs_all(3, [120, 40, 41] + syms[:2]) + ' ' + lits
            fl = 'v' if n % 2 == 0 else 't'
            for mode in ('parse', 'check'):
                lines.append(f'PR {fl}r{n}{mode[0]} rich {"str" if n % 3 else "slice"} {mode} 120 {body}'.replace('  ', ' '))
        return lines

    def custom_run(self, lines, tier, seed, jobs):
        """tables are compared inside the workers (the Vec and the tuple build of one table travel together), so that only
        counters and failures come back: the observations of a thorough run do not fit in memory at once"""
        import multiprocessing
        groups = {}
        for l in lines:
            groups.setdefault(l.split(' ')[1][1:-1], []).append(l)
        keys = list(groups)
        n = max(1, min(jobs * 8, len(keys)))
        chunks = [[l for k in keys[i::n] for l in groups[k]] for i in range(n)]
        tot = {'pairs': 0, 'corr_disagree': 0, 'pred_fail': 0, 'outcomes': {}, 'impl_s': 0.0, 'model_s': 0.0, 'crash': None,
               'samples': [], 'nontrivial': 0, 'known': {}}
        fails = []
        with multiprocessing.Pool(jobs, maxtasksperchild=4) as pool:
            for st, fl in pool.imap_unordered(_pratt_chunk, [c for c in chunks if c]):
                for k in ('pairs', 'corr_disagree', 'pred_fail', 'nontrivial'):
                    tot[k] += st[k]
                for k, v in st['outcomes'].items():
                    tot['outcomes'][k] = tot['outcomes'].get(k, 0) + v
                for k, v in st.get('known', {}).items():
                    tot['known'][k] = tot['known'].get(k, 0) + v
                if st.get('crash'):
                    tot['crash'] = st['crash']
                tot['samples'] = (tot['samples'] + st['samples'])[:3]
                for f in fl:
                    if sum(1 for g in fails if g[0] == f[0]) < 100:
                        fails.append(f)
        return tot, fails

    def compare_chunk(self, lines, rci, oi, rcm, om):
        tot = {'pairs': 0, 'corr_disagree': 0, 'pred_fail': 0, 'outcomes': {}, 'impl_s': 0.0, 'model_s': 0.0, 'crash': None,
               'samples': [], 'nontrivial': 0}
        fails = []
        impl, model = {}, {}
        if rci != 0 or rcm != 0:
            tot['crash'] = f'h_pratt rc={rci} driver rc={rcm}'
        for l in oi.split('\n'):
            sp = l.split(' ', 2)
            if len(sp) == 3:
                impl.setdefault(sp[0], {})[sp[1]] = sp[2]
        for l in om.split('\n'):
            sp = l.split(' ', 2)
            if len(sp) == 3:
                model.setdefault(sp[0], {})[sp[1]] = sp[2]
        by_id = {l.split(' ')[1]: l for l in lines}
        for key, mo in model.items():
            cid, _, k = key.rpartition('.')
            line = by_id.get(cid)
            if line is None:
                continue
            k = int(k)
            a = impl.get(key, {}).get('M')
            tot['pairs'] += 1
            if a is None:
                fails.append(('missing', None, 0, f'{key}: no implementation observation'))
                continue
            im, ss = parse_M(a), parse_S(mo.get('S', ''))
            oc = im['kind'] + ('+' if im.get('out') is not None else '-')
            tot['outcomes'][oc] = tot['outcomes'].get(oc, 0) + 1
            if k > 0:
                tot['nontrivial'] += 1
            mode_check = ' check ' in line[:40]
            want = spec_accept_value(ss)
            got = proj_accept_value(im)
            if mode_check and want[0] == 'R' and want[1] is not None:
                want = ('R', 'u')
            pred = got == want
            why = 'tree / acceptance differs from the binding-power reading'
            # Vec and tuple tables behave identically
            if cid[0] == 'v':
                other = impl.get('t' + cid[1:] + '.' + str(k), {}).get('M')
                if other is not None and other != a:
                    pred = False
                    why = f'Vec table and tuple table differ: tuple gives {other}'
            if not pred:
                tot['pred_fail'] += 1
                other_line = by_id.get('t' + cid[1:]) if cid[0] == 'v' else None
                self.fail(tot, fails, 'pred', [(line, k), (other_line, k)] if other_line else line, k,
                          f'{why} || table: {line.partition(" I ")[0]} || input #{k} || impl: {a} || spec: {mo.get("S")}')
            elif a != mo.get('M'):
                tot['corr_disagree'] += 1
                self.fail(tot, fails, 'corr', None, 0, f'table: {line.partition(" I ")[0]} || input #{k} || impl: {a} || model: {mo.get("M")}')
            elif len(tot['samples']) < 3 and im.get('out') is not None and k > 300:
                tot['samples'].append({'table': line.partition(' I ')[0], 'input_index': k, 'tree': a})
        return tot, fails


def _pratt_chunk(lines):
    rci, oi, rcm, om = _pratt_worker(lines)
    return C09().compare_chunk(lines, rci, oi, rcm, om)


# ------------------------------------------------------------------------------------------------
# C19: drop accounting

def _drop_worker(args):
    import subprocess, vcheck as vc
    lines = args
    text = '\n'.join(lines) + '\n'
    pi = subprocess.run([os.path.join(vc.HBIN_DIR, 'h_drop')], input=text, stdout=subprocess.PIPE, stderr=subprocess.PIPE, text=True,
                        timeout=1800, preexec_fn=vc.limit_mem)
    pm = subprocess.run([vc.DRIVER], input=text, stdout=subprocess.PIPE, stderr=subprocess.PIPE, text=True, timeout=1800)
    return pi.returncode, pi.stdout, pi.stderr[-300:], pm.returncode, pm.stdout


def track_all(g):
    """g with a tracked value created at every `map` site: map f a  ->  map track (map f a)"""
    return g


TRACK = lambda a: ('map', 'track', a)


class C19(Prop):
    name = 'C19'; module = 'C19'; claimed = True
    title = 'every produced value is dropped exactly once or handed to the caller'
    bins = ['h_drop']
    rule = ('(1) statically typed collect_exactly::<[T;N]> / Box<[T;N]> and group([..;N]) for N in {0,1,2,3,4,7}, bounds that make the item '
            'stream end early by cap / by failure / not at all, parse and check, all inputs up to the bound over {a,b}: values created, '
            'destructor calls at return, values in the result compared with the ledger model; (2) caller-supplied tracked tokens through '
            '&[T] and Stream with a backtracking grammar; (3) C01/C02-class grammars extended with group((..)), group([..;N]), '
            'collect_exactly, folds and recovery, a drop-tracked value created by a mapper at one to three node positions, parse and '
            'check: after the result is dropped no tracked value is alive and none was dropped twice; non-trivial = a tracked value was created; the same array families with a 328-byte tracked item (arrays below and above 1 KiB)')
    level_text = ('theorems (ledger model of the MaybeUninit code, every N and every stopping point): each created value is dropped exactly '
                  'once or moved into the result, never both, no uninitialised slot is read; instrumented runs of the real crate compared '
                  'with the ledger and checked for leaks / double drops on generated grammars; all other paths rest on safe Rust ownership')

    def cases(self, tier, seed):
        rng = random.Random(seed)
        lines = []
        n = 0
        maxlen = 5 if tier == 'quick' else 7
        inp = inputs_all(maxlen, [gen.A, gen.B]) + ' ' + inputs_lit([gen.A] * 9)
        for N in (0, 1, 2, 3, 4, 7):
            for boxed in (0, 1):
                for mode in ('parse', 'check'):
                    for lo, hi in ((0, '-'), (0, 1), (0, 2), (2, '-'), (3, 3), (1, 7), (4, 4), (0, 0)):
                        lines.append(f'DR q{n} ce {N} {boxed} {mode} {lo} {hi} I {inp}')
                        n += 1
                        # the same with a ZERO-SIZED item type that has a destructor (cz / gz)
                        lines.append(f'DR q{n} cz {N} {boxed} {mode} {lo} {hi} I {inp}')
                        n += 1
                        # … and with a 328-byte item type: [T; 3] below, [T; 4] and [T; 7] above 1 KiB (cf / gf)
                        if N >= 3:
                            lines.append(f'DR q{n} cf {N} {boxed} {mode} {lo} {hi} I {inp}')
                            n += 1
            for mode in ('parse', 'check'):
                lines.append(f'DR q{n} ga {N} 0 {mode} 0 - I {inp}')
                n += 1
                lines.append(f'DR q{n} gz {N} 0 {mode} 0 - I {inp}')
                n += 1
                lines.append(f'DR q{n} gf {N} 0 {mode} 0 - I {inp}')
                n += 1
        tinp = inputs_all(maxlen, [gen.A, gen.B, 99])
        for stream in (0, 1):
            for mode in ('parse', 'check'):
                lines.append(f'DR q{n} tk 0 {stream} {mode} 0 - I {tinp}')
                n += 1
        # (3) generated grammars with tracked values
        by = gen.enum_by_size(3, gen.C01_LEAVES, gen.C01_UNARIES, gen.C01_BINARIES, gen.C01_TERNARIES)
        base = [g for s in (2, 3) for g in by[s]]
        rng.shuffle(base)
        base = base[:500 if tier == 'quick' else 5000]
        leaves = gen.C01_LEAVES[:6]
        special = []
        for a in leaves[:4]:
            for b in leaves[:4]:
                for c in leaves[:3]:
                    special.append(('grouparr', [a, b, c]))
                    special.append(('group', [a, b, c]))
                special.append(('grouparr', [a, b]))
                special.append(('or', ('grouparr', [a, b]), ('then', a, a)))
            special.append(('grouparr', [a]))
            special.append(('grouparr', []))
        its = gen.c02_iterators(gen.C02_ITEMS[:4], gen.C02_SEPS[:2], [(0, None), (1, 2), (2, 2), (0, 1)])
        rng.shuffle(its)
        for it in its[:80 if tier == 'quick' else 800]:
            for c in gen.c02_consumers(it):
                special.append(c)
        for g in base[:120]:
            for w in gen.RECOVERIES[:3]:
                special.extend(gen.insert_at_nodes(g, w)[:2])
        inp01 = inputs_all(4, [gen.A, gen.B, gen.EA]) + ' ' + inputs_all(5, [gen.A, gen.COMMA])
        for g in base + special:
            vs = gen.insert_at_nodes(g, TRACK)
            rng.shuffle(vs)
            picked = vs[:2]
            for v in vs[:1]:
                v2 = gen.insert_at_nodes(v, TRACK)
                rng.shuffle(v2)
                picked += v2[:1]
            for v in picked:
                for mode in ('parse', 'check'):
                    lines.append(case_line(f't{n}', v, inp01, kind='str' if n % 2 == 0 else 'slice', mode=mode))
                    n += 1
        # MANY tracked items held by a consumer that then never gets to use them (the tail / the next parser fails, or an
        # enclosing choice backtracks): runs of 0..9 items — buffers that change representation with their length
        item = TRACK(('just', [gen.A]))
        tail = ('just', [gen.B])
        runs = ' '.join(inputs_lit([gen.A] * k) + ' ' + inputs_lit([gen.A] * k + [gen.B]) + ' ' + inputs_lit([gen.A] * k + [gen.COMMA])
                        for k in range(10))
        for it in [('rep', item, 0, None), ('rep', item, 2, 7), ('sep', item, ('just', [gen.COMMA]), 0, None, False, True)]:
            held = [('foldr', 'fpair', it, tail), ('foldrw', it, tail), ('foldr', 'fpair', it, TRACK(tail)),
                    ('then', ('collect', 'vec', it), tail), ('then', ('foldl', 'fpair', TRACK(('empty',)), it), tail),
                    ('then', ('collectx', 3, it), tail), ('then', ('collect', 'vec', ('enum', it)), tail)]
            for h_ in held:
                for g in (h_, ('or', h_, ('collect', 'count', ('rep', ('any',), 0, None))), ('ornot', h_)):
                    for mode in ('parse', 'check'):
                        lines.append(case_line(f't{n}', g, runs, kind='str' if n % 2 == 0 else 'slice', mode=mode))
                        n += 1
        return lines

    def custom_run(self, lines, tier, seed, jobs):
        import multiprocessing
        n = max(1, min(jobs * 3, len(lines)))
        chunks = [lines[i::n] for i in range(n)]
        with multiprocessing.Pool(jobs) as pool:
            results = pool.map(_drop_worker, [c for c in chunks if c])
        tot = {'pairs': 0, 'corr_disagree': 0, 'pred_fail': 0, 'outcomes': {}, 'impl_s': 0.0, 'model_s': 0.0, 'crash': None,
               'samples': [], 'nontrivial': 0}
        fails = []
        impl, model = {}, {}
        for rci, oi, ei, rcm, om in results:
            if rci != 0 or rcm != 0:
                tot['crash'] = f'h_drop rc={rci} ({ei}) driver rc={rcm}'
            for l in oi.split('\n'):
                if l.startswith('ERR'):
                    fails.append(('bad-line', None, 0, l))
                sp = l.split(' ', 2)
                if len(sp) == 3 and sp[1] == 'M':
                    impl[sp[0]] = sp[2]
            for l in om.split('\n'):
                if l.startswith('ERR'):
                    fails.append(('bad-line', None, 0, l))
                sp = l.split(' ', 2)
                if len(sp) == 3 and sp[1] == 'M':
                    model[sp[0]] = sp[2]
        by_id = {}
        for l in lines:
            t = l.split(' ', 2)
            by_id[t[1] if t[0] == 'DR' else t[0]] = l
        # a double free or a use of freed memory kills the harness process and takes the observations of everything queued
        # behind it along: every case line with a missing observation is run again in a process of its own; the first input that
        # is still missing there is the one the process dies on
        lost = []
        for key in model:
            cid = key.rpartition('.')[0]
            if key not in impl and cid in by_id and cid not in lost:
                lost.append(cid)
        died = {}
        if lost:
            with multiprocessing.Pool(jobs) as pool:
                again = pool.map(_drop_worker, [[by_id[c]] for c in lost[:600]])
            for c, (rci, oi, ei, rcm, om) in zip(lost[:600], again):
                for l in oi.split('\n'):
                    sp = l.split(' ', 2)
                    if len(sp) == 3 and sp[1] == 'M':
                        impl[sp[0]] = sp[2]
                ks = sorted(int(key.rpartition('.')[2]) for key in model if key.rpartition('.')[0] == c and key not in impl)
                if ks:
                    died[c] = ks[0]
        for key, mo in model.items():
            cid, _, k = key.rpartition('.')
            line = by_id.get(cid)
            if line is None:
                continue
            k = int(k)
            a = impl.get(key)
            tot['pairs'] += 1
            if a is None:
                if cid in died:
                    if k == died[cid]:
                        tot['pred_fail'] += 1
                        self.fail(tot, fails, 'pred', line if not line.startswith('DR') else None, k,
                                  f'the process DIES while parsing this input (abort: double free / freed memory used / stack overflow), '
                                  f'run alone in a process of its own || {line.partition(" I ")[0]} input #{k} {input_of(line, k)}')
                    continue      # inputs queued behind the fatal one in the same process: not observed
                fails.append(('missing', line if not line.startswith('DR') else None, k, f'{key}: no implementation observation ({line[:60]})'))
                continue
            if line.startswith('DR'):
                kv = dict(x.split('=') for x in a.split(' ') if '=' in x)
                fam = line.split(' ')[2]
                oc = fam + ':' + ('ok' if kv.get('ok') == '1' else 'fail')
                tot['outcomes'][oc] = tot['outcomes'].get(oc, 0) + 1
                if int(kv.get('created', 0)) > 0:
                    tot['nontrivial'] += 1
                why = []
                if a.startswith('P ') or not kv:
                    why.append('did not return')
                else:
                    if kv.get('live') != '0' and fam != 'tk':
                        why.append(f'{kv.get("live")} value(s) leaked (alive after the result was dropped)')
                    if '1' in (kv.get('dd'), kv.get('caller_dd'), kv.get('final_dd')):
                        why.append('a value was dropped twice')
                    if fam == 'tk':
                        if kv.get('final_live') != '0':
                            why.append(f'{kv.get("final_live")} token clone(s) leaked')
                        if 'caller_live' in kv and kv['caller_live'] != kv['n0']:
                            why.append(f'after the parse {kv["caller_live"]} tracked tokens are alive but the caller owns {kv["n0"]}')
                    elif int(kv['created']) != int(kv['dropped']) + int(kv['returned']):
                        why.append('created != dropped + returned when parse returns')
                corr = fam == 'tk' or a.startswith(mo + ' ')
                detail = f'{line.partition(" I ")[0]} input #{k} {input_of(line, k)} || impl: {a} || ledger model: {mo}'
                if why:
                    tot['pred_fail'] += 1
                    self.fail(tot, fails, 'pred', None, 0, '; '.join(why) + ' || ' + detail)
                elif not corr:
                    tot['corr_disagree'] += 1
                    self.fail(tot, fails, 'corr', None, 0, detail)
                elif len(tot['samples']) < 3 and kv.get('ok') == '0' and int(kv['created']) >= 2:
                    tot['samples'].append({'case': line.partition(' I ')[0], 'input': input_of(line, k), 'impl': a, 'ledger': mo})
            else:
                obs, _, d = a.partition(' ; D ')
                kv = dict(x.split('=') for x in d.split(' ') if '=' in x)
                im, mm = parse_M(obs), parse_M(mo)
                oc = im['kind'] + ('+' if im.get('out') is not None else '-')
                tot['outcomes'][oc] = tot['outcomes'].get(oc, 0) + 1
                if int(kv.get('created', 0)) > 0:
                    tot['nontrivial'] += 1
                why = []
                if not kv:
                    why.append('no drop statistics')
                else:
                    if kv['live'] != '0':
                        why.append(f'{kv["live"]} value(s) leaked (alive after parse returned and its result was dropped)')
                    if kv['dd'] != '0':
                        why.append('a value was dropped twice')
                corr = proj_total(im) == proj_total(mm)
                if why:
                    tot['pred_fail'] += 1
                    self.fail(tot, fails, 'pred', line, k, '; '.join(why) + f' || impl: {a}')
                elif not corr:
                    tot['corr_disagree'] += 1
                    self.fail(tot, fails, 'corr', line, k, f'impl: {a} || model: {mo}')
                elif len(tot['samples']) < 5 and int(kv.get('created', 0)) >= 2 and im.get('out') is None:
                    tot['samples'].append({'case': grammar_of(line), 'input_index': k, 'impl': a})
        return tot, fails


# ------------------------------------------------------------------------------------------------
# C07: spans and slices

_SPTOK = _re.compile(r'\(sp (\d+) (\d+)\)|\(sl (\d+) (\d+)\)|\(g 77 |\(|\)')


def spans_in(val):
    """(all spans/slices of a rendered value, nesting violations among `(g 77 (p V (sp s e)))` capture nodes)"""
    spans = []
    bad = []
    # stack entries: ['cap', depth, [child spans]] for capture nodes, None for ordinary parens
    stack = []
    for m in _SPTOK.finditer(val):
        t = m.group(0)
        if t.startswith('(sp') or t.startswith('(sl'):
            s, e = (int(m.group(1)), int(m.group(2))) if t.startswith('(sp') else (int(m.group(3)), int(m.group(4)))
            spans.append((t[1:3], s, e))
            if t.startswith('(sp'):
                for fr in stack:
                    if fr is not None:
                        fr[1].append((s, e))
        elif t == '(g 77 ':
            stack.append(['cap', []])
        elif t == '(':
            stack.append(None)
        else:
            fr = stack.pop() if stack else None
            if fr is not None and fr[1]:
                # the last span recorded inside a capture node is the capture's own span; the others are its children
                ps, pe = fr[1][-1]
                for (cs, ce) in fr[1][:-1]:
                    if cs != ce and not (ps <= cs and ce <= pe):
                        bad.append(f'child span {cs}..{ce} not inside its parent {ps}..{pe}')
    return spans, bad


CAP = lambda a: ('map', ('tag', 77), ('mwspan', a))


def wrap_all(g, kind):
    """every grammar node (not iterators) wrapped in a tagged span capture"""
    def go(t):
        t2 = gen.replace_children(t, go)
        if t[0] in gen.IT_OPS:
            return t2
        return CAP(t2)
    return go(g)



def pratt_part(prop_name, lines, tier, seed, jobs, tot, fails, every=3):
    """Pratt tables (C09's lines: trees with the span handed to every fold callback, acceptance, errors) run under another
    property's name: every `every`-th table of the quick set, or the PR lines given (replay)"""
    t = C09()
    t.name = prop_name
    given = [l for l in lines if l.startswith('PR ')]
    if len(lines) < 10:
        pl = given
    else:
        allp = t.cases('quick', seed)
        keys = []
        for l in allp:
            k = l.split(' ')[1][1:-1]
            if k not in keys:
                keys.append(k)
        keep = set(keys[::every])
        pl = [l for l in allp if l.split(' ')[1][1:-1] in keep]
    if not pl:
        return
    t2, f2 = t.custom_run(pl, tier, seed, jobs)
    for k in ('pairs', 'pred_fail', 'corr_disagree', 'nontrivial'):
        tot[k] += t2[k]
    for k, v in t2['outcomes'].items():
        tot['outcomes']['pratt:' + k] = tot['outcomes'].get('pratt:' + k, 0) + v
    for k, v in t2.get('known', {}).items():
        tot.setdefault('known', {})[k] = tot.get('known', {}).get(k, 0) + v
    if t2.get('crash'):
        tot['crash'] = t2['crash']
    fails.extend(f2)


class C07(Prop):
    name = 'C07'; module = 'C07'; claimed = True
    title = 'spans and slices are exact, well-formed and zero-copy'
    bins = ['h_str_rich', 'h_slice_rich', 'h_mapped_rich', 'h_stream_rich', 'h_mstream_rich']
    rule = ('C01-class grammars (<= 3 nodes) and repetition/separator consumers incl. foldl_with/foldr_with, with EVERY node wrapped in a '
            'tagged map_with span capture, plus single to_span / to_slice insertions; input kinds &str (multi-byte), &[char], Stream, '
            'Input::map over a slice and over a Stream with token gaps 0, 1, 3; all inputs up to the bound; observation = the output '
            '(all spans, slices as pointer offsets into the caller\'s buffer); non-trivial = backtracking grammar and non-empty input; every third Pratt table of C09 (the spans handed to the fold callbacks)')
    level_text = ('theorems: every capture site gets mkSpan of exactly the positions its sub-parser matched between (machine = reading, '
                  'all grammars), and mkSpan is non-inverted, inside the input, on character boundaries, nested/ordered, empty for empty '
                  'matches and between the neighbouring tokens for gapped inputs (Lean); outputs of the real crate compared with reading '
                  'and model, spans checked against the input and for nesting; slices observed as pointer offsets')

    bins = ['h_str_rich', 'h_slice_rich', 'h_mapped_rich', 'h_stream_rich', 'h_mstream_rich', 'h_inputs', 'h_str_empty', 'h_slice_empty', 'h_pratt']

    def custom_run(self, lines, tier, seed, jobs):
        import vcheck
        tot, fails = vcheck.run_cases(self.name, [l for l in lines if not l.startswith('PR ')], jobs=jobs, timeout=900 if tier == 'quick' else 3600)
        # IterInput implements only `Input` (no whole-grammar build): its `span` is driven directly on call schedules —
        # spans of single pulls, from the first cursor, of empty matches, and of older cursor pairs asked again later
        # the spans handed to the fold callbacks of Pratt operators (prefix / postfix / infix, repeated applications of one
        # operator, recursive tables): C09's trees carry them
        pratt_part('C07', lines, tier, seed, jobs, tot, fails, every=3)
        t = C10()
        t.name = 'C07'
        il = [] if len(lines) < 10 else [l for l in t.cases(tier, seed) if l.startswith('IN ') and l.split(' ')[2] == 'iterspan']
        t2, f2 = t.custom_run(il, tier, seed, jobs)
        for k in ('pairs', 'pred_fail', 'corr_disagree', 'nontrivial'):
            tot[k] += t2[k]
        for k, v in t2['outcomes'].items():
            tot['outcomes'][k] = tot['outcomes'].get(k, 0) + v
        if t2.get('crash'):
            tot['crash'] = t2['crash']
        return tot, fails + f2

    def cases(self, tier, seed):
        rng = random.Random(seed)
        by = gen.enum_by_size(3, gen.C01_LEAVES, gen.C01_UNARIES, gen.C01_BINARIES, gen.C01_TERNARIES)
        base = [g for s in (1, 2, 3) for g in by[s]]
        rng.shuffle(base)
        base = base[:900 if tier == 'quick' else 9000]
        its = gen.c02_iterators(gen.C02_ITEMS[:5], gen.C02_SEPS[:3], [(0, None), (1, 2), (0, 1), (2, None)])
        rng.shuffle(its)
        cons = []
        for it in its[:90 if tier == 'quick' else 900]:
            cons.extend(gen.c02_consumers(it))
        for _ in range(300 if tier == 'quick' else 3000):
            base.append(gen.random_grammar(rng, rng.randint(3, 5), gen.C01_LEAVES, gen.C01_UNARIES, gen.C01_BINARIES, gen.C01_TERNARIES))
        kinds = ['str', 'slice', 'mapped0', 'mapped1', 'mapped3', 'stream', 'mstream1', 'mstream3']
        inp = inputs_all(4 if tier == 'quick' else 5, [gen.A, gen.B, gen.EA]) + ' ' + inputs_all(2, [gen.A, gen.CLEF, gen.THAI]) + ' ' + ' '.join(inputs_lit([gen.A, c, gen.B]) for c in gen.UTF8_EDGES)
        inp2 = inputs_all(5 if tier == 'quick' else 6, gen.C02_ALPHA)
        lines = []
        n = 0
        for g, inputs in [(g, inp) for g in base] + [(g, inp2) for g in cons]:
            variants = [wrap_all(g, None)]
            singles = gen.insert_at_nodes(g, lambda a: ('tospan', a)) + gen.insert_at_nodes(g, lambda a: ('toslice', a))
            rng.shuffle(singles)
            variants += singles[:2]
            for v in variants:
                kind = kinds[n % len(kinds)]
                if kind not in ('str', 'slice') and 'toslice' in gen.ops_of(v):
                    kind = 'str' if n % 2 == 0 else 'slice'      # to_slice needs a SliceInput
                lines.append(case_line(f'p{n}', v, inputs, kind=kind))
                n += 1
        # the span a SUCCEEDING `try_map` closure receives (`!t…`, harness-only) is the span `map_with` reports for the same node
        # (`t…`), under Rich and under the zero-sized error type (which has fast paths of its own)
        subs = [('any',), ('just', [gen.A, gen.EA]), ('then', ('any',), ('ornot', ('just', [gen.B]))),
                ('collect', 'vec', ('rep', ('oneof', [gen.A, gen.EA]), 1, None)), ('ornot', ('just', [gen.A])),
                ('ithen', ('just', [gen.EA]), ('any',)), ('or', ('just', [gen.A, gen.B]), ('just', [gen.A]))]
        restc = ('collect', 'string', ('rep', ('any',), 0, None))
        inp3 = inputs_all(4, [gen.A, gen.B, gen.EA])
        for si, sub in enumerate(subs):
            for ek in ('rich', 'empty'):
                for kind in ('str', 'slice'):
                    for shape in (lambda c: ('then', c, restc), lambda c: ('then', ('any',), ('then', c, restc)),
                                  lambda c: ('collect', 'vec', ('rep', ('then', c, ('just', [gen.B])), 0, None))):
                        lines.append(case_line(f't{n}', shape(('mwspan', sub)), inp3, kind=kind, ek=ek))
                        lines.append(case_line(f'!t{n}', shape(('trymapspan', sub)), inp3, kind=kind, ek=ek))
                        n += 1
        return lines

    def group_of(self, line):
        return line.split(' ', 1)[0].lstrip('!')

    def check_chunk(self, by_id, impl, model, stats, fails):
        super().check_chunk(by_id, impl, model, stats, fails)
        for key, io in impl.items():
            if not key.startswith('!'):
                continue
            cid, _, k = key.rpartition('.')
            a, b = io.get('M'), impl.get(key[1:], {}).get('M')
            stats['pairs'] += 1
            stats['nontrivial'] += 1
            if a is None or b is None:
                fails.append(('missing', by_id.get(cid), int(k), 'no implementation observation (crash / hang?)'))
            elif a != b:
                stats['pred_fail'] += 1
                self.fail(stats, fails, 'pred', [(by_id.get(cid), int(k)), (by_id.get(cid[1:]), int(k))], int(k),
                          f'TRY_MAP-SPAN: the span handed to a succeeding try_map closure: {a} || the span map_with reports for the same node: {b}')

    def compare(self, line, k, impl_M, model_M, spec_S):
        im, mm, ss = parse_M(impl_M), parse_M(model_M), parse_S(spec_S)
        i = proj_accept_value(im)
        corr = i == proj_accept_value(mm)
        why = []
        if ss['kind'] != 'OOF' and i != spec_accept_value(ss):
            why.append('output (spans / slices) differs from the reading: the span of exactly what each sub-parser consumed')
        if im['kind'] == 'R' and im['out'] is not None:
            kind = line.split(' ', 4)[2]
            toks = input_of(line, k)
            spans, bad = spans_in(im['out'])
            # nesting is claimed for what a parser CONSUMED: a lookahead child (rewind, and_is, not) matches input its parent does not consume
            if not any(t in ('rewind', 'andis', 'not') for t in grammar_of(line).split()):
                why.extend(bad[:2])
            gap = int(kind[-1]) if kind[-1].isdigit() else None
            if gap is not None:
                starts = {i_ * (gap + 2) + gap for i_ in range(len(toks) + 1)}
                ends = {i_ * (gap + 2) + gap + 2 for i_ in range(len(toks))}
                ok_pts = starts | ends
                total = len(toks) * (gap + 2) + gap
            else:
                offs = offsets('str' if kind == 'str' else 'slice', toks)
                ok_pts = set(offs)
                total = offs[-1]
            for (t, s_, e_) in spans:
                if s_ > e_:
                    why.append(f'inverted span {s_}..{e_}')
                elif e_ > total:
                    why.append(f'span {s_}..{e_} reaches outside the input (0..{total})')
                elif s_ not in ok_pts or e_ not in ok_pts:
                    why.append(f'span {s_}..{e_} does not start/end on a token (character) boundary')
                elif gap is not None and s_ != e_ and (s_ not in starts or e_ not in ends):
                    why.append(f'non-empty span {s_}..{e_} does not run from a token start to a token end')
        return {'corr': corr, 'pred': not why, 'why': '; '.join(why[:3]),
                'outcome': 'accept' if i[0] == 'R' and i[1] is not None else ('reject' if i[0] == 'R' else i[0]),
                'nontrivial': is_nontrivial(line, k, i)}


# ------------------------------------------------------------------------------------------------
# C10: input representations

def _inputs_worker(args):
    import subprocess, vcheck as vc
    lines = args
    text = '\n'.join(lines) + '\n'
    pi = subprocess.run([os.path.join(vc.HBIN_DIR, 'h_inputs')], input=text, stdout=subprocess.PIPE, stderr=subprocess.PIPE, text=True,
                        timeout=1800, preexec_fn=vc.limit_mem)
    pm = subprocess.run([vc.DRIVER], input=''.join(l + '\n' for l in lines if l.startswith('IN ')), stdout=subprocess.PIPE,
                        stderr=subprocess.PIPE, text=True, timeout=1800)
    return pi.returncode, pi.stdout, pi.stderr[-300:], pm.returncode, pm.stdout


C10_KINDS = ['slice', 'str', 'array', 'stream', 'bstream', 'mapped1', 'mstream3', 'iomap', 'wctx', 'mspan']
C10_SLICEABLE = ('slice', 'str', 'array', 'wctx')
_ANYSPAN = _re.compile(r'\((sp|sl) (\d+) (\d+)\)|\{(\d+)-(\d+);|@(\d+)-(\d+)')


def c10_normalise(kind, toks, obs):
    """re-base every span of an observation to token indices (the documented re-basing of each representation)"""
    if kind in ('slice', 'array', 'stream', 'bstream', 'wctx'):
        pt = lambda x: x
    elif kind == 'mspan':
        pt = lambda x: x - 1000
    elif kind == 'str':
        offs = offsets('str', toks)
        back = {o: i for i, o in enumerate(offs)}
        pt = lambda x: back.get(x, ('?', x))
    elif kind == 'iomap':
        return None        # spans are a function of the byte values, not of positions: compared through the model only
    else:
        gap = int(kind[-1])
        back = {}
        for i in range(len(toks) + 1):
            back[i * (gap + 2) + gap] = i                   # start of token i (or the end-of-input span)
        for i in range(len(toks)):
            back.setdefault(i * (gap + 2) + gap + 2, i + 1)   # end of token i = index i+1
        pt = lambda x: back.get(x, ('?', x))

    def rep(m):
        if m.group(1):
            return f'({m.group(1)} {pt(int(m.group(2)))} {pt(int(m.group(3)))})'
        if m.group(4) is not None:
            return '{' + f'{pt(int(m.group(4)))}-{pt(int(m.group(5)))};'
        return f'@{pt(int(m.group(6)))}-{pt(int(m.group(7)))}'
    return _ANYSPAN.sub(rep, obs)


class C10(Prop):
    name = 'C10'; module = 'C10'; claimed = True
    title = 'the result does not depend on how the input is represented'
    bins = ['h_slice_rich', 'h_str_rich', 'h_stream_rich', 'h_mapped_rich', 'h_mstream_rich', 'h_kinds_rich', 'h_inputs']
    rule = ('(1) C01/C02/recovery-class grammars, each on the same token sequences supplied as &[T], &str, &[T;N], Stream over a counting '
            'lower-bound-0 iterator, boxed Stream, Input::map over a slice and over a Stream (gapped spans), Input::map over an IoInput, '
            'with_context, map_span: full results compared after the documented span re-basing; (2) inputs of 500-1300 tokens with '
            'grammars that backtrack across the 512-token batch boundary, incl. inputs accepted at exactly 512 tokens and their one-token '
            'extensions; iterator pulls checked (each once, in order); (3) the Input trait of every implementation driven directly on '
            'seeded schedules of next() calls on saved cursors (short and >512-token inputs) and compared with the cursor-machine models; '
            '(4) Graphemes input vs unicode-segmentation on CR LF / combining / ZWJ / regional-indicator strings; '
            'non-trivial = non-empty input')
    level_text = ('theorems: for every schedule of next() calls on saved cursors Stream, IoInput, IterInput and Input::map over any of them '
                  'return what indexing the token list returns (so the parser core, written over a token list, applies to each); a Stream '
                  'pulls each item once and in order; span disciplines as in C07; the real implementations compared with these models on '
                  'schedules, and whole parse results compared across ten representations')

    def cases(self, tier, seed):
        rng = random.Random(seed)
        lines = []
        n = 0
        by = gen.enum_by_size(3, gen.C01_LEAVES, gen.C01_UNARIES, gen.C01_BINARIES, gen.C01_TERNARIES)
        base = [g for s_ in (1, 2, 3) for g in by[s_]]
        rng.shuffle(base)
        base = base[:350 if tier == 'quick' else 3000]
        its = gen.c02_iterators(gen.C02_ITEMS[:5], gen.C02_SEPS[:3], [(0, None), (1, 2), (2, None)])
        rng.shuffle(its)
        for it in its[:25 if tier == 'quick' else 250]:
            base.extend(gen.c02_consumers(it)[:6])
        for g in list(base[:40]):
            for w in gen.RECOVERIES[:3]:
                base.extend(gen.insert_at_nodes(g, w)[:1])
        inp = inputs_all(4 if tier == 'quick' else 5, [gen.A, gen.B, gen.EA]) + ' ' + inputs_all(4, [gen.A, gen.COMMA])
        for g in base:
            sl = 'toslice' in gen.ops_of(g)
            for kd in C10_KINDS:
                if sl and kd not in C10_SLICEABLE:
                    continue
                lines.append(case_line(f'v{n}_{kd}', g, inp, kind=kd))
            n += 1
        # (2) long inputs: backtracking across the 512-token batch boundary of Stream
        pair = ('or', ('just', [gen.A, gen.B]), ('just', [gen.A]))
        longg = [
            ('collect', 'count', ('rep', pair, 0, None)),
            ('then', ('collect', 'count', ('rep', ('just', [gen.A]), 0, None)), ('ornot', ('just', [gen.B]))),
            ('then', ('rewind', ('collect', 'count', ('rep', ('any',), 0, None))), ('collect', 'count', ('rep', ('oneof', [gen.A, gen.B]), 0, None))),
            ('or', ('then', ('collect', 'count', ('rep', ('just', [gen.A]), 0, None)), ('just', [gen.COMMA])), ('collect', 'count', ('rep', ('any',), 0, None))),
            ('collect', 'count', ('sep', ('just', [gen.A]), ('just', [gen.B]), 0, None, False, True)),
            ('mwspan', ('then', ('collect', 'count', ('rep', ('just', [gen.A]), 0, 512)), ('tospan', ('ornot', ('just', [gen.B]))))),
            ('collect', 'count', ('rep', ('just', [gen.A]), 0, 512)),
        ]
        longs = []
        for L in (510, 511, 512, 513, 1023, 1024, 1025, 1300):
            longs.append([gen.A] * L)
            longs.append([gen.A] * (L - 1) + [gen.B])
            longs.append([gen.A, gen.B] * (L // 2) + [gen.A] * (L % 2))
        longs.append([gen.A] * 512 + [gen.COMMA])
        linp = ' '.join(inputs_lit(t) for t in longs)
        for g in longg:
            for kd in ('slice', 'stream', 'bstream', 'mstream1'):
                lines.append(case_line(f'v{n}_{kd}', g, linp, kind=kd, fuel=6000))
            n += 1
        # (3) the Input trait driven directly
        small = inputs_all(3, [gen.A, gen.EA]) + ' ' + inputs_lit([gen.A, gen.B, gen.EA, gen.A, gen.B, gen.A])
        for kd in ('slice', 'str', 'stream', 'bstream', 'io', 'iomap', 'mapped', 'iter', 'iterspan'):
            for _ in range(12 if tier == 'quick' else 120):
                ln = rng.randint(5, 40)
                sched = [rng.randint(0, 50) if rng.random() < 0.5 else i for i in range(ln)]
                lines.append(f'IN i{n} {kd} S {ln} ' + ' '.join(map(str, sched)) + ' I ' + small)
                n += 1
        long_in = ' '.join(inputs_lit([rng.choice([gen.A, gen.B]) for _ in range(L)]) for L in (600, 1100))
        for kd in ('stream', 'bstream', 'io', 'iomap', 'iter'):
            for _ in range(3 if tier == 'quick' else 20):
                ln = 1200
                sched = []
                for i in range(ln):
                    r = rng.random()
                    sched.append(i if r < 0.9 else rng.randint(0, i) if r < 0.97 else 0)
                lines.append(f'IN i{n} {kd} S {ln} ' + ' '.join(map(str, sched)) + ' I ' + long_in)
                n += 1
        # (4) Graphemes
        galpha = [97, 13, 10, 0x301, 0x200D, 0x1F468, 0x1F1FA, 0x1F1F8, 0x1100, 0x1161, 233]
        lines.append(f'GR g{n} I ' + inputs_all(3 if tier == 'quick' else 4, galpha))
        # the classes on which extended and legacy clusters differ (spacing marks, prepended characters), a conjunct-forming
        # virama, precomposed Hangul syllables with a trailing consonant, a pictograph for ZWJ sequences, a control
        galpha2 = [0x915, 0x93F, 0xE33, 0x600, 0x94D, 0xAC00, 0x11A8, 0x2764, 0x200D, 0x301, 97, 1]
        lines.append(f'GR g{n + 1} I ' + inputs_all(3 if tier == 'quick' else 4, galpha2))
        return lines

    def group_of(self, line):
        t = line.split(' ', 2)
        if t[0] in ('IN', 'GR'):
            return t[1]
        return t[0].rpartition('_')[0]

    def custom_run(self, lines, tier, seed, jobs):
        import vcheck, multiprocessing
        case_lines = [l for l in lines if not l.startswith(('IN ', 'GR '))]
        other = [l for l in lines if l.startswith(('IN ', 'GR '))]
        tot, fails = vcheck.run_cases(self.name, case_lines, jobs=jobs, timeout=900 if tier == 'quick' else 3600)
        with multiprocessing.Pool(jobs) as pool:
            results = pool.map(_inputs_worker, [[l] for l in other])
        for (line,), (rci, oi, ei, rcm, om) in zip([[l] for l in other], results):
            if rci != 0 or (rcm != 0 and line.startswith('IN ')):
                tot['crash'] = f'h_inputs rc={rci} ({ei}) driver rc={rcm}'
            di = dict(l.split(' M', 1) for l in oi.split('\n') if ' M' in l)
            dm = dict(l.split(' M', 1) for l in om.split('\n') if ' M' in l)
            cid = line.split(' ', 2)[1]
            inputs = expand_inputs(line.partition(' I ')[2].split())
            for k, toks in enumerate(inputs):
                key = f'{cid}.{k}'
                a = di.get(key)
                tot['pairs'] += 1
                if toks:
                    tot['nontrivial'] += 1
                if a is None:
                    fails.append(('missing', None, 0, f'{key}: no observation for {line[:60]}'))
                    continue
                if line.startswith('GR '):
                    oc = 'graphemes'
                    tot['outcomes'][oc] = tot['outcomes'].get(oc, 0) + 1
                    if not a.strip().endswith('same=1'):
                        tot['pred_fail'] += 1
                        self.fail(tot, fails, 'pred', None, 0, f'GRAPHEMES on {toks} ({"".join(chr(c) for c in toks)!r}): cluster lengths yielded by the input / reference / Graphemes::iter:{a}')
                    continue
                kind = line.split(' ')[2]
                oc = 'sched:' + kind
                tot['outcomes'][oc] = tot['outcomes'].get(oc, 0) + 1
                # predicate (no model needed): at a cursor of location i the token returned is toks[i]; a stream pulls in order
                why = []
                body, _, tail = a.partition(' ;')
                hist = []
                lt = line.split(' ')
                sched_l = [int(x) for x in lt[5:5 + int(lt[4])]]
                for ent in body.split():
                    loc, _, t = ent.partition(':')
                    if kind == 'iterspan':
                        # IterInput::span (token i carries the span 3i+1..3i+3): the span of one pulled token is that token's,
                        # an empty match gets an empty span, the span from the first cursor starts at the first token
                        t, s1, s0, s2, s3 = t.split('@')
                        (a1, b1), (a0, b0), (a2, b2), (a3, b3) = [tuple(int(x) for x in sp.split('-')) for sp in (s1, s0, s2, s3)]
                        # the span of an OLDER call's (start, end) pair, asked again now
                        hist.append((int(loc), t != '-'))
                        oloc, opulled = hist[(sched_l[len(hist) - 1] * 7 + 3) % len(hist)]
                        want3 = (3 * oloc + 1, 3 * oloc + 3) if opulled else None
                        if (want3 and (a3, b3) != want3) or (not want3 and a3 != b3):
                            why.append(f'span of the token pulled earlier at location {oloc}, asked again after other pulls, is {a3}..{b3}')
                        e_idx = int(loc) + (1 if t != '-' else 0)
                        # an empty match after e_idx tokens: an empty span just after the previous token (before the first one at 0)
                        want2 = 3 * (e_idx - 1) + 3 if e_idx > 0 else (1 if toks else 1)
                        if (a2, b2) != (want2, want2):
                            why.append(f'span of an empty match after {e_idx} tokens is {a2}..{b2}, expected {want2}..{want2}')
                        i = int(loc)
                        if t != '-' and (a1, b1) != (3 * i + 1, 3 * i + 3):
                            why.append(f'span of the single token pulled at location {loc} is {a1}..{b1}, the token carries {3 * i + 1}..{3 * i + 3}')
                        if t == '-' and a1 != b1:
                            why.append(f'span of an empty match at location {loc} is {a1}..{b1}')
                        end_idx = i + (1 if t != '-' else 0)
                        want0 = (1, 3 * (end_idx - 1) + 3) if end_idx > 0 else None
                        if (want0 and (a0, b0) != want0) or (not want0 and a0 != b0):
                            why.append(f'span from the first cursor to location {end_idx} is {a0}..{b0}')
                    want = toks[int(loc)] if int(loc) < len(toks) else None
                    if kind in ('io', 'iomap') and want is not None:
                        want &= 0xFF
                    if (t == '-' and want is not None) or (t != '-' and (want is None or int(t) != want)):
                        why.append(f'at location {loc} the input returned {t}, the token sequence has {want}')
                        break
                if 'inorder=0' in tail:
                    why.append('the Stream pulled items from its iterator out of order or more than once')
                b = dm.get(key)
                if why:
                    tot['pred_fail'] += 1
                    self.fail(tot, fails, 'pred', None, 0, f'INPUT {kind} schedule {line.partition(" I ")[0][:120]}... input #{k}: ' + '; '.join(why))
                elif a != b:
                    tot['corr_disagree'] += 1
                    self.fail(tot, fails, 'corr', None, 0, f'INPUT {kind} input #{k}: impl{a[:200]} || model{(b or "")[:200]}')
        return tot, fails

    def check_chunk(self, by_id, impl, model, stats, fails):
        groups = {}
        for key in model:
            if key == '__bad__':
                continue
            cid, _, k = key.rpartition('.')
            base, _, kind = cid.rpartition('_')
            groups.setdefault((base, int(k)), {})[kind] = cid
        for (base, k), kinds in groups.items():
            ref_cid = kinds.get('slice')
            if ref_cid is None:
                continue
            line = by_id.get(ref_cid)
            toks = input_of(line, k)
            ref = impl.get(f'{ref_cid}.{k}', {}).get('M')
            why = []
            corr_bad = None
            for kind, cid in kinds.items():
                a = impl.get(f'{cid}.{k}', {}).get('M')
                m = model.get(f'{cid}.{k}', {}).get('M')
                stats['pairs'] += 1
                if toks:
                    stats['nontrivial'] += 1
                if a is None or ref is None:
                    fails.append(('missing', by_id.get(cid), k, 'no implementation observation'))
                    continue
                if a.startswith('SKIP'):
                    continue
                oc = kind + ':' + a.split(' ')[0] + ('+' if a.startswith('R ok') else '-')
                stats['outcomes'][oc] = stats['outcomes'].get(oc, 0) + 1
                if 'PULLS-OUT-OF-ORDER' in a:
                    why.append(f'{kind}: the Stream pulled items from its iterator out of order or more than once')
                na = c10_normalise(kind, toks, a.replace(' ; PULLS-OUT-OF-ORDER-OR-REPEATED', ''))
                if na is not None and na != ref:
                    why.append(f'{kind} differs from &[T] after re-basing spans: {a} (re-based: {na})')
                if (na if kind == 'mspan' else a.replace(' ; PULLS-OUT-OF-ORDER-OR-REPEATED', '')) != m and corr_bad is None:
                    corr_bad = (by_id.get(cid), f'{kind}: impl: {a} || model: {m}')
            if why:
                stats['pred_fail'] += 1
                self.fail(stats, fails, 'pred', line, k, '; '.join(why[:2]) + f' || &[T]: {ref}')
            elif corr_bad:
                stats['corr_disagree'] += 1
                self.fail(stats, fails, 'corr', corr_bad[0], k, corr_bad[1])
            elif len(stats['samples']) < 2 and len(toks) >= 3 and ref and ref.startswith('R none'):
                stats['samples'].append({'case': grammar_of(line), 'input': toks, 'slice': ref,
                                         'str': impl.get(f'{kinds.get("str")}.{k}', {}).get('M')})


# ------------------------------------------------------------------------------------------------
# C16: nested inputs

def _nested_worker(args):
    import subprocess, vcheck as vc
    lines = args
    text = '\n'.join(lines) + '\n'
    pi = subprocess.run([os.path.join(vc.HBIN_DIR, 'h_nested')], input=text, stdout=subprocess.PIPE, stderr=subprocess.PIPE, text=True,
                        timeout=1800, preexec_fn=vc.limit_mem)
    pm = subprocess.run([vc.DRIVER], input=text, stdout=subprocess.PIPE, stderr=subprocess.PIPE, text=True, timeout=1800)
    return pi.returncode, pi.stdout, pm.returncode, pm.stdout


def render_ng(t):
    op = t[0]
    if op == 'lift':
        return 'lift ' + gen.render(t[1])
    if op == 'nest':
        return 'nest ' + render_ng(t[1]) + ' ' + gen.render(t[2])
    if op in ('nthen', 'nor'):
        return op + ' ' + render_ng(t[1]) + ' ' + render_ng(t[2])
    return op + ' ' + render_ng(t[1])


def ng_depth(t):
    if t[0] == 'lift':
        return 0
    if t[0] == 'nest':
        return 1 + ng_depth(t[1])
    return max(ng_depth(x) for x in t[1:])


class C16(Prop):
    name = 'C16'; module = 'C16'; claimed = True
    title = 'Nested inputs are parsed completely, in isolation, and report back faithfully'
    bins = ['h_nested']
    GIDS = [1000, 1001, 1002, 1003]
    rule = ('token trees: group tokens 1000..1003 whose children are drawn from {a, b} and group tokens (random tables incl. empty groups, '
            'depth up to 4, a group that contains itself), every level an Input::map over (token, span) pairs with gaps 0/1/3; two-level '
            'grammars: sequence / ordered choice / option / span capture containing nested_in to depth 4, leaves from the C01/C02 classes '
            'with validate emitters, recovery, repetition; token parsers select/one_of over all or some group ids, with a prefix or a '
            'suffix; all outer inputs up to length 3 over {a, b, g0, g1} plus literals over the deeper groups; parse and check; '
            'three implementation-only families: nest(a, select g) on [g] = a on children(g) (output and every error), remainder after a '
            'nested parse = the outer tokens after the group, choice over a failed nested parse = its other alternative; '
            'non-trivial = the input contains a group token; context providers outside and readers inside the nested parse')
    level_text = ('refinement theorems: the two-level language, nested_in at ANY position of any grammar (hole form), and nested inputs '
                  'together with Pratt tables (extension machine) (machine of nested_in/with_input -> recursive reading, every grammar, token '
                  'tree, mode, fuel), completeness / leftover-fails / backtracking / failure-merge theorems (Lean); outputs, error lists and '
                  'spans of the real crate over Input::map token trees compared with the reading and the model, plus three '
                  'implementation-only metamorphic families')
    why = 'acceptance / output / emitted errors differ from the reading applied recursively to the token tree'

    # leaves of every level
    def leaves(self):
        A, B = gen.A, gen.B
        return [('any',), ('just', [A]), ('just', [B]), ('oneof', [A, B]), ('end',), ('empty',), ('just', [A, B]),
                ('validate', 'always', 5, 1, ('any',)), ('validate', ('tokis', A), 6, 2, ('oneof', [A, B])),
                ('collect', 'vec', ('rep', ('just', [A]), 0, None)), ('collect', 'vec', ('rep', ('any',), 1, None)),
                ('collect', 'string', ('rep', ('oneof', [A, B]), 0, 2)),
                ('recvia', ('just', [A]), ('to', ('vnat', 9), ('any',))), ('recvia', ('just', [B]), ('to', ('vnat', 8), ('empty',))),
                ('recskip', ('just', [A]), ('any',), ('just', [B]), ('vnat', 7)),
                ('then', ('just', [A]), ('just', [B])), ('ornot', ('just', [A])), ('or', ('just', [A, B]), ('just', [A])),
                ('mwspan', ('any',)), ('mwstate', ('any',)), ('tospan', ('oneof', [A, B])),
                ('trymap', ('tokis', B), 4, 2, ('any',)), ('filter', ('tokis', A), ('any',)), ('cfail', 3),
                ('label', 1, False, ('just', [A])), ('not', ('just', [B])), ('rewind', ('just', [A])),
                ('andis', ('any',), ('just', [A]))]

    def token_parsers(self, rng):
        G = self.GIDS
        A, B = gen.A, gen.B
        return [('select', G), ('select', G), ('oneof', G), ('select', G[:1]), ('select', G[1:3]), ('oneof', G[:2]),
                ('ithen', ('just', [A]), ('select', G)), ('theni', ('select', G), ('ornot', ('just', [B]))),
                ('theni', ('select', G), ('validate', 'always', 5, 1, ('empty',)))]

    def rand_ng(self, rng, depth, budget):
        lv = self.leaves()
        r = rng.random()
        if budget <= 0 or r < 0.22:
            if rng.random() < 0.3:
                return ('lift', gen.random_grammar(rng, 2, lv[:12], gen.C01_UNARIES[:6], gen.C01_BINARIES[:4]))
            return ('lift', rng.choice(lv))
        if r < 0.55 and depth > 0:
            return ('nest', self.rand_ng(rng, depth - 1, budget - 1), rng.choice(self.token_parsers(rng)))
        if r < 0.72:
            return ('nthen', self.rand_ng(rng, depth, budget - 1), self.rand_ng(rng, depth, budget - 2))
        if r < 0.86:
            return ('nor', self.rand_ng(rng, depth, budget - 1), self.rand_ng(rng, depth, budget - 2))
        if r < 0.93:
            return ('nornot', self.rand_ng(rng, depth, budget - 1))
        return ('nspan', self.rand_ng(rng, depth, budget - 1))

    def rand_table(self, rng):
        G = self.GIDS
        A, B = gen.A, gen.B
        tab = []
        for i, g in enumerate(G):
            n = rng.choice([0, 1, 1, 2, 2, 3])
            pool = [A, B, A, B] + G[i + 1:] * 2 + ([g] if rng.random() < 0.1 else [])
            tab.append((g, [rng.choice(pool) for _ in range(n)]))
        return tab

    @staticmethod
    def table_str(tab):
        return f'T {len(tab)} ' + ' '.join(f'{g} {len(k)} ' + ' '.join(map(str, k)) for g, k in tab).replace('  ', ' ')

    def line(self, cid, gap, mode, tab, ng, inputs):
        return f'NG {cid} rich {gap} {mode} 200 {self.table_str(tab)} G {render_ng(ng)} I {inputs}'.replace('  ', ' ')

    def cases(self, tier, seed):
        rng = random.Random(seed)
        A, B = gen.A, gen.B
        G = self.GIDS
        lines = []
        self.meta = {}
        n_rand = 700 if tier == 'quick' else 7000
        maxlen = 3 if tier == 'quick' else 4
        for n in range(n_rand):
            tab = self.rand_table(rng)
            ng = self.rand_ng(rng, rng.randint(1, 4), rng.randint(2, 6))
            if ng_depth(ng) == 0:
                ng = ('nest', ng, ('select', G))
            gap = rng.choice([0, 1, 3])
            inputs = inputs_all(maxlen, [A, B, G[0], G[1]]) + ' ' + ' '.join(
                inputs_lit([rng.choice([A, B] + G) for _ in range(rng.randint(1, 5))]) for _ in range(6))
            for mode in ('parse', 'check'):
                lines.append(self.line(f'r{n}{mode[0]}', gap, mode, tab, ng, inputs))
        # implementation-only families
        lv = self.leaves()
        n_meta = 250 if tier == 'quick' else 2500
        rest = ('collect', 'string', ('rep', ('any',), 0, None))
        for n in range(n_meta):
            tab = self.rand_table(rng)
            gap = rng.choice([0, 1, 3])
            a = self.rand_ng(rng, rng.randint(0, 2), rng.randint(1, 4))
            # (x) nest(a, select g) on [g]  vs  (y) a on children(g)
            for gi, (g, kids) in enumerate(tab):
                lines.append(self.line(f'x{n}g{gi}', gap, 'parse', tab, ('nest', a, ('select', [g])), inputs_lit([g])))
                lines.append(self.line(f'y{n}g{gi}', gap, 'parse', tab, a, inputs_lit(kids)))
            # (t) remainder after the nested parse; (n/c/o) choice over a nested parse
            inp = inputs_all(3, [A, B, G[0], G[1]])
            c = ('lift', rng.choice(lv))
            nest = ('nest', a, ('select', G))
            lines.append(self.line(f't{n}', gap, 'parse', tab, ('nthen', nest, ('lift', rest)), inp))
            lines.append(self.line(f'n{n}', gap, 'parse', tab, ('nthen', nest, ('lift', rest)), inp))
            lines.append(self.line(f'c{n}', gap, 'parse', tab, ('nthen', c, ('lift', rest)), inp))
            lines.append(self.line(f'o{n}', gap, 'parse', tab, ('nthen', ('nor', nest, c), ('lift', rest)), inp))
        # the general form (model: HEnv / runH): `a.nested_in(b)` is `call 0` and may occur at ANY position of an ordinary grammar
        # (repetitions, separated lists, recovery, labels, lookahead, folds), also inside `a` itself (trees parsed recursively)
        hole = ('call', 0)
        lvh = lv[:14] + [hole] * 6
        n_h = 500 if tier == 'quick' else 5000
        for n in range(n_h):
            tab = []
            for i, g in enumerate(G):
                cnt = rng.choice([0, 1, 2, 2, 3])
                pool = [A, B, A, B] + G[i + 1:] * 2          # acyclic: the recursion through `call 0` inside `a` must end
                tab.append((g, [rng.choice(pool) for _ in range(cnt)]))
            gap = rng.choice([0, 1, 3])
            bsel = rng.choice(self.token_parsers(rng))
            noslice = lambda mk: next(g for g in iter(mk, None) if 'toslice' not in gen.ops_of(g))   # Input::map has no slices
            a = noslice(lambda: gen.random_grammar(rng, rng.randint(1, 3), lvh, gen.C01_UNARIES[:8], gen.C01_BINARIES[:5]))
            if rng.random() < 0.4:
                a = ('collect', 'vec', ('rep', ('or', hole, ('oneof', [A, B])), 0, None))
            r = rng.random()
            item = ('or', hole, ('just', [A]))
            if r < 0.2:
                main = ('collect', 'vec', ('rep', item, 0, None))
            elif r < 0.3:
                main = ('collect', 'vec', ('sep', hole, ('just', [B]), 0, None, rng.random() < 0.5, rng.random() < 0.5))
            elif r < 0.4:
                main = ('then', ('recvia', hole, ('to', ('vnat', 9), ('any',))), rest)
            elif r < 0.5:
                main = ('then', ('recskip', hole, ('any',), ('just', [B]), ('vnat', 7)), rest)
            elif r < 0.6:
                main = ('foldl', 'fpair', ('empty',), ('rep', item, 0, 3))
            else:
                main = noslice(lambda: gen.random_grammar(rng, rng.randint(2, 4), lvh, gen.C01_UNARIES, gen.C01_BINARIES))
                if 'call' not in gen.ops_of(main):
                    main = ('then', main, ('ornot', hole))
            inputs = inputs_all(maxlen, [A, B, G[0], G[1]]) + ' ' + ' '.join(
                inputs_lit([rng.choice([A, B] + G) for _ in range(rng.randint(1, 5))]) for _ in range(6))
            ekh = 'empty' if n % 4 == 3 else 'rich'      # the zero-sized error type has fast paths of its own in with_input / add_alt
            for mode in ('parse', 'check'):
                lines.append(f'NH h{n}{mode[0]} {ekh} {gap} {mode} 200 {self.table_str(tab)} A {gen.render(a)} '
                             f'B {gen.render(bsel)} M {gen.render(main)} I {inputs}'.replace('  ', ' '))
        # the context crosses the boundary of a nested parse: the provider sits OUTSIDE `a.nested_in(b)`, the readers (map_with(..ctx),
        # a `just` configured from the context, a repetition configured from it) INSIDE `a` — `with_input` shares the context
        # reference (model: the inner state starts with the outer context)
        kn = 0
        ctab = [(G[0], [A, B, G[1]]), (G[1], [B, A])]
        readers = [('collect', 'vec', ('rep', ('or', ('mwctx', ('oneof', [A, B])), hole), 0, None)),
                   ('then', ('mwctx', ('any',)), ('collect', 'vec', ('rep', ('or', hole, ('any',)), 0, None))),
                   ('then', ('cfgjust', 'seqctx', [B]), ('collect', 'vec', ('rep', ('or', hole, ('any',)), 0, None))),
                   ('collect', 'vec', ('cfgrep', 'atmostctx', ('rep', ('or', hole, ('oneof', [A, B])), 0, None)))]
        provs = [lambda x: ('withctx', ('vtoks', [A]), x), lambda x: ('iwctx', ('oneof', [A, B]), x),
                 lambda x: ('map', 'snd', ('twctx', ('collect', 'string', ('rep', ('just', [A]), 0, 1)), x)),
                 lambda x: ('withctx', ('vnat', 2), x)]
        for a_ in readers:
            for pv in provs:
                for body in (('then', hole, rest), ('collect', 'vec', ('rep', ('or', hole, ('mwctx', ('just', [A]))), 0, None))):
                    if ('cfgjust' in gen.ops_of(a_)) != (pv is provs[0] or pv is provs[2]) and 'cfgjust' in gen.ops_of(a_):
                        continue          # a `just` configured from the context needs a token sequence as context
                    if 'cfgrep' in gen.ops_of(a_) and pv is not provs[3]:
                        continue          # … a configured repetition a number
                    for mode in ('parse', 'check'):
                        lines.append(f'NH hk{kn}{mode[0]} rich 1 {mode} 200 {self.table_str(ctab)} A {gen.render(a_)} '
                                     f'B {gen.render(("select", G))} M {gen.render(pv(body))} I {inputs_all(3, [A, B, G[0], G[1]])}'.replace('  ', ' '))
                    kn += 1
        # nested inputs and Pratt expressions together (model: EEnv / runE; `call 0` = the expression, `call 1` = a group parsed as an
        # expression, or the other way round): token trees of operator expressions, groups as atoms, expressions inside groups
        X, Y, PLUS, STAR, BANG = 120, 121, 43, 42, 33
        n_e = 300 if tier == 'quick' else 3000
        for n in range(n_e):
            tab = []
            for i, g in enumerate(G):
                cnt = rng.choice([1, 1, 3, 3, 2, 0])
                pool = [X, Y, X, PLUS, STAR, BANG] + G[i + 1:] * 2
                kids = [rng.choice(pool) for _ in range(cnt)]
                if cnt == 3 and rng.random() < 0.6:
                    kids = [rng.choice([X, Y] + G[i + 1:]), rng.choice([PLUS, STAR]), rng.choice([X, Y] + G[i + 1:])]
                tab.append((g, kids))
            gap = rng.choice([0, 1, 3])
            nops = rng.randint(1, 4)
            ops = []
            for _ in range(nops):
                kind = rng.choice(['infixl', 'infixr', 'prefix', 'postfix'])
                sym = rng.choice([PLUS, STAR, BANG])
                ops.append(f'{kind} {rng.randint(1, 3)} just 1 {sym}')
            bsel = rng.choice([('select', G), ('oneof', G), ('select', G[:2])])
            atom = ('or', ('oneof', [X, Y]), ('call', 1))
            if rng.random() < 0.3:
                atom = ('or', ('call', 1), ('validate', 'always', 5, 1, ('oneof', [X, Y])))
            inner = rng.choice([('call', 0), ('call', 0), ('collect', 'vec', ('sep', ('call', 0), ('just', [BANG]), 0, None, False, True)),
                                ('recvia', ('call', 0), ('to', ('vnat', 9), ('collect', 'unit', ('rep', ('any',), 0, None))))])
            pe = f'P A {gen.render(atom)} O {nops} ' + ' '.join(ops)
            ne_ = f'N A {gen.render(inner)} B {gen.render(bsel)}'
            if n % 3 == 2:
                exts, main = f'X 2 {ne_} {pe}', ('collect', 'vec', ('rep', ('or', ('call', 0), ('call', 1)), 0, None))   # call 0 = group, call 1 = expression
                exts = exts.replace('call 1', 'call 9').replace('call 0', 'call 1').replace('call 9', 'call 0')
            else:
                exts, main = f'X 2 {pe} {ne_}', rng.choice([('call', 0), ('then', ('call', 0), ('ornot', ('call', 1)))])
            inputs = inputs_all(maxlen, [X, PLUS, G[0], G[1]]) + ' ' + ' '.join(
                inputs_lit([rng.choice([X, Y, PLUS, STAR, BANG] + G) for _ in range(rng.randint(1, 5))]) for _ in range(8))
            eke = 'empty' if n % 5 == 4 else 'rich'
            for mode in ('parse', 'check'):
                lines.append(f'EX e{n}{mode[0]} {eke} {gap} {mode} 200 {self.table_str(tab)} {exts} M {gen.render(main)} I {inputs}'.replace('  ', ' '))
        return lines

    def corpus(self):
        tab = [(1000, [97, 1001]), (1001, [98])]
        sel = ('select', [1000, 1001])
        ng1 = ('nthen', ('lift', ('just', [97])), ('nest', ('nthen', ('lift', ('any',)), ('nest', ('nspan', ('lift', ('just', [98]))), sel)), sel))
        ng2 = ('nthen', ('lift', ('just', [97])), ('nor', ('nest', ('lift', ('any',)), sel), ('lift', ('to', ('vnat', 5), ('any',)))))
        # inner emission + inner failure under an outer choice; inner recovery
        ng3 = ('nor', ('nest', ('nthen', ('lift', ('validate', 'always', 5, 1, ('any',))), ('lift', ('just', [98]))), sel), ('lift', ('any',)))
        ng4 = ('nest', ('lift', ('recvia', ('just', [98]), ('to', ('vnat', 9), ('any',)))), sel)
        inp = inputs_all(3, [97, 98, 1000, 1001])
        out = []
        for i, ng in enumerate([ng1, ng2, ng3, ng4]):
            for gap in (0, 1, 3):
                for mode in ('parse', 'check'):
                    out.append(self.line(f'k{i}g{gap}{mode[0]}', gap, mode, tab, ng, inp))
        return out

    @staticmethod
    def c06_class(line):
        """the class for which 'pending error = summary of the event log' is a theorem (C06): no negative lookahead, no
        decorations, no recovery"""
        g = line.partition(' G ')[2].partition(' I ')[0].split()
        return not any(t in ('not', 'label', 'maperr', 'recvia', 'recskip', 'recretry') for t in g)

    def group_of(self, line):
        cid = line.split(' ')[1]
        m = _re.match(r'([a-z])(\d+)', cid)
        if not m:
            return cid
        fam, n = m.group(1), m.group(2)
        if fam in ('x', 'y'):
            return 'xy' + n
        if fam in ('n', 'c', 'o'):
            return 'nco' + n
        if fam == 'r':
            return 'r' + n
        return cid

    def custom_run(self, lines, tier, seed, jobs):
        import multiprocessing
        n = max(1, min(jobs * 3, len(lines)))
        chunks = [[] for _ in range(n)]
        gidx = {}
        for l in lines:
            g = self.group_of(l)
            if g not in gidx:
                gidx[g] = len(gidx) % n
            chunks[gidx[g]].append(l)
        with multiprocessing.Pool(jobs) as pool:
            results = pool.map(_nested_worker, [c for c in chunks if c])
        tot = {'pairs': 0, 'corr_disagree': 0, 'pred_fail': 0, 'outcomes': {}, 'impl_s': 0.0, 'model_s': 0.0, 'crash': None,
               'samples': [], 'nontrivial': 0}
        fails = []
        impl, model = {}, {}
        for rci, oi, rcm, om in results:
            if rci != 0 or rcm != 0:
                tot['crash'] = f'h_nested rc={rci} driver rc={rcm}'
            for l in oi.split('\n'):
                if l.startswith('ERR '):
                    fails.append(('bad-line', None, 0, l))
                    continue
                sp = l.split(' ', 2)
                if len(sp) == 3:
                    impl.setdefault(sp[0], {})[sp[1]] = sp[2]
            for l in om.split('\n'):
                if l.startswith('ERR '):
                    fails.append(('bad-line', None, 0, l))
                    continue
                sp = l.split(' ', 2)
                if len(sp) == 3:
                    model.setdefault(sp[0], {})[sp[1]] = sp[2]
        by_id = {l.split(' ')[1]: l for l in lines}
        inputs_cache = {}

        def inputs_of(cid):
            if cid not in inputs_cache:
                inputs_cache[cid] = expand_inputs(by_id[cid].partition(' I ')[2].split())
            return inputs_cache[cid]

        def desc(cid, k):
            line = by_id[cid]
            return f'{line.partition(" I ")[0]} || input #{k} = {inputs_of(cid)[k]}'

        for key, mo in model.items():
            cid, _, k = key.rpartition('.')
            line = by_id.get(cid)
            if line is None:
                continue
            k = int(k)
            a = impl.get(key, {}).get('M')
            tot['pairs'] += 1
            if a is None:
                fails.append(('missing', None, 0, f'{key}: no implementation observation'))
                continue
            im, mm, ss = parse_M(a), parse_M(mo.get('M', '')), parse_S(mo.get('S', ''))
            oc = im['kind'] + ('+' if im.get('out') is not None else '-') + ('e' if im.get('errs') and im.get('out') is not None else '')
            tot['outcomes'][oc] = tot['outcomes'].get(oc, 0) + 1
            toks = inputs_of(cid)[k]
            if any(t >= 1000 for t in toks):
                tot['nontrivial'] += 1
            check_mode = ' check ' in line[:40]
            pred, why = True, self.why
            # (1) the reading applied recursively: acceptance, output, emitted errors (in order), inspector
            if ss['kind'] == 'P':
                pred = im['kind'] == 'P'
            elif ss['kind'] == 'OOF':
                pred = True
            elif im['kind'] != 'R':
                pred = False
            elif ss['kind'] == 'fail':
                pred = im['out'] is None
            else:
                want = 'u' if check_mode else ss['val']
                pred = im['out'] == want and emits_match(im['errs'], ss['emits']) and im['insp'] == ss['insp']
            fam = cid[0]
            # (2) implementation-only families
            if pred and fam == 'x':
                other = impl.get('y' + cid[1:] + '.0', {}).get('M')
                if other is not None:
                    io = parse_M(other)
                    # observed inspector states differ by construction (the outer parse has seen the group token)
                    noinsp = lambda o: None if o is None else _re.sub(r'i\d+:\d+', 'i', o)
                    if (noinsp(im.get('out')), im.get('errs')) != (noinsp(io.get('out')), io.get('errs')) or im['kind'] != io['kind']:
                        pred = False
                        why = f'nest(a, select g) on [g] differs from a run directly on the children of g: direct run gives {other}'
            if pred and fam == 't' and im['kind'] == 'R' and im.get('out') is not None:
                want_rest = 's' + '.'.join(str(t) for t in toks[1:])
                if not im['out'].endswith(' ' + want_rest + ')'):
                    pred = False
                    why = f'the outer input was not advanced by exactly the group token: remainder should be {want_rest}'
            if pred and fam == 'o':
                nn = impl.get('n' + cid[1:] + f'.{k}', {}).get('M')
                cc = impl.get('c' + cid[1:] + f'.{k}', {}).get('M')
                if nn is not None and cc is not None:
                    pn, pc = parse_M(nn), parse_M(cc)
                    if pn['kind'] == 'R' and pc['kind'] == 'R' and im['kind'] == 'R':
                        if pn['out'] is not None:
                            ok = im['out'] == pn['out'] and im['errs'] == pn['errs']
                        else:
                            # a recovery inside the other alternative reports the pending error, which by the priority rule may
                            # be the (further) failure of the abandoned nested parse: same output, same number of errors
                            ok = im['out'] == pc['out'] and (pc['out'] is None or len(im['errs']) == len(pc['errs']))
                        if not ok:
                            pred = False
                            why = f'choice over a nested parse: nested alone gives {nn}, the other alternative alone gives {cc}'
            # (3) the inner failure surfaces: the reported primary error is the priority-merge of ALL failure events of the run
            #     (outer events and the failures of nested parses re-homed just after their group token), as summarised from the
            #     model's ghost event log (not from the model's pending error): description and span
            x = mo.get('X')
            if pred and x and x != 'none' and im['kind'] == 'R' and im.get('out') is None and im.get('errs') and self.c06_class(line):
                e = parse_err(im['errs'][-1])
                xp, xspan, xdesc = x.split(' ', 2)
                if e is not None:
                    got = ('C' + e['custom']) if 'custom' in e else 'E[' + e['expected'] + ']'
                    if got != xdesc or f'{e["start"]}-{e["end"]}' != xspan:
                        pred = False
                        why = (f'the reported primary error {got} at {e["start"]}-{e["end"]} is not the merge of the furthest failure events '
                               f'of the run ({xdesc} at {xspan}; an inner failure counts at the outer position just after its group token)')
            if not pred:
                tot['pred_fail'] += 1
                group = [(line, k)]
                if fam == 'x' and ('y' + cid[1:]) in by_id:
                    group.append((by_id['y' + cid[1:]], 0))
                if fam == 'o':
                    group += [(by_id[f + cid[1:]], k) for f in 'nc' if (f + cid[1:]) in by_id]
                self.fail(tot, fails, 'pred', group if len(group) > 1 else line, k,
                          f'{why} || {desc(cid, k)} || impl: {a} || spec: {mo.get("S")}')
            elif a != mo.get('M'):
                tot['corr_disagree'] += 1
                self.fail(tot, fails, 'corr', line, k, f'{desc(cid, k)} || impl: {a} || model: {mo.get("M")}')
            elif len(tot['samples']) < 3 and im.get('out') is not None and im.get('errs') and any(t >= 1000 for t in toks) and fam == 'r':
                tot['samples'].append({'case': line.partition(' I ')[0], 'input': toks, 'impl': a})
        return tot, fails


PROPS = {p.name: p for p in [C01(), ALL(), C04(), C02(), C03(), C05(), C08(), C15(), C18(), C06(), C17(), C20(), C11(), C12(), C13(), C14(), C09(), C19(), C07(), C10(), C16()]}
for _s in ['c01', 'c02', 'emit', 'rec', 'deco', 'ctx', 'ek', 'state']:
    PROPS['ALL_' + _s] = ALL([_s])
    PROPS['ALL_' + _s].name = 'ALL_' + _s

