"""Per-property definitions: case generators, the observable compared (Obs_X), the predicate evaluated on
the implementation's observation (PropX.holds), evidence texts."""
import random

import gen
from gen import case_line, inputs_all, inputs_lit
from vcheck import parse_M, parse_S

BACKTRACK_OPS = {'or', 'choicet', 'choices', 'ornot', 'not', 'andis', 'rewind', 'rep', 'sep', 'recvia', 'recskip',
                 'recretry', 'ornotit'}


def grammar_of(line):
    return line.partition(' M ')[2].partition(' I ')[0]


def is_nontrivial(line, k, impl):
    """rule: the grammar contains a backtracking site, and the input is non-empty (k > 0 in an `all` enumeration)"""
    g = grammar_of(line).split()
    return k > 0 and any(t in BACKTRACK_OPS for t in g)


class Prop:
    name = '?'
    module = '?'
    title = ''
    claimed = False
    technique = 'Lean 4 proof about a hand-written model + differential correspondence model/implementation'
    level_text = ''
    level_note = ('theorems are about the model; the model is tied to /repo by the correspondence check run on every invocation '
                  '(bounded by the generators); trusted: Lean kernel, standard axioms only, harness interpreter and printers, closure library')
    bins = ['h_str_rich', 'h_slice_rich']
    trusted = [
        'Lean 4.33 kernel; axioms per theorem as printed by #print axioms (subset of propext, Classical.choice, Quot.sound)',
        'hand-written model (lean/ChumskyModel/Model) validated against /repo by differential execution on every run',
        'harness interpreter AST -> real combinators, canonical observation printers on both sides',
        'closed library of user closures; std, hashbrown, stacker, rustc',
    ]

    def cases(self, tier, seed):
        raise NotImplementedError

    def corpus(self):
        return []

    # Obs_X projections -------------------------------------------------------------------------
    def obs_impl(self, m):
        """projection of an implementation / machine observation"""
        return m

    def compare(self, line, k, impl_M, model_M, spec_S):
        raise NotImplementedError

    def group_of(self, line):
        """case lines with the same group are evaluated in the same worker (metamorphic pairs)"""
        return line.split(' ', 1)[0]

    def check_chunk(self, by_id, impl, model, stats, fails):
        """default: every (case, input) on its own, through `compare`"""
        for key, mo in model.items():
            if key == '__bad__':
                continue
            cid, _, k = key.rpartition('.')
            line = by_id.get(cid)
            io = impl.get(key, {})
            stats['pairs'] += 1
            i_m = io.get('M')
            m_m = mo.get('M')
            m_s = mo.get('S')
            if i_m is None:
                fails.append(('missing', line, int(k), 'no implementation observation (crash / hang?)'))
                continue
            res = self.compare(line, int(k), i_m, m_m, m_s)
            oc = res.get('outcome', '?')
            stats['outcomes'][oc] = stats['outcomes'].get(oc, 0) + 1
            if res.get('nontrivial'):
                stats['nontrivial'] += 1
            if not res['pred']:
                stats['pred_fail'] += 1
                if len(fails) < 200:
                    fails.append(('pred', line, int(k), res.get('why', '') + f' || impl: {i_m} || model: {m_m} || spec: {m_s}'))
            elif not res['corr']:
                stats['corr_disagree'] += 1
                if len(fails) < 200:
                    fails.append(('corr', line, int(k), f'impl: {i_m} || model: {m_m}'))
            elif len(stats['samples']) < 2 and res.get('nontrivial'):
                stats['samples'].append({'case': grammar_of(line), 'input_index': int(k), 'impl': i_m})


def proj_accept_value(m):
    if m['kind'] == 'R':
        return ('R', m['out'])
    if m['kind'] == 'P':
        return ('P', m['site'])
    return (m['kind'],)


def spec_accept_value(s):
    if s['kind'] == 'ok':
        return ('R', s['val'])
    if s['kind'] == 'fail':
        return ('R', None)
    if s['kind'] == 'P':
        return ('P', s['site'])
    return (s['kind'],)


def dedup(lines_iter):
    seen = set()
    for g in lines_iter:
        r = gen.render(g)
        if r in seen:
            continue
        seen.add(r)
        yield g


class C01(Prop):
    name = 'C01'
    module = 'C01'
    title = 'PEG semantics of sequence / ordered choice / option / lookahead'
    claimed = True
    level_text = ('refinement theorem machine -> PEG reading for every grammar/input/fuel (Lean), '
                  'and acceptance/output of the real crate compared with model and PEG reading on enumerated and random grammars')
    rule = ('grammars: exhaustive enumeration by node count over the C01 constructor set (deduplicated), plus seeded '
            'random deeper ones; inputs: all strings up to the bound over {a,b,e-acute,clef}; kinds &str and &[char]; '
            'non-trivial = grammar contains a backtracking site and the input is non-empty; every (grammar,input) pair is distinct')

    def cases(self, tier, seed):
        rng = random.Random(seed)
        max_size = 3 if tier == 'quick' else 4
        by = gen.enum_by_size(3, gen.C01_LEAVES, gen.C01_UNARIES, gen.C01_BINARIES, gen.C01_TERNARIES)
        lines = []
        n = 0
        grammars = [g for s in sorted(by) for g in by[s]]
        if tier != 'quick':
            # size-4 grammars: a seeded sample of the enumeration
            by4 = gen.enum_by_size(4, gen.C01_LEAVES, gen.C01_UNARIES, gen.C01_BINARIES, gen.C01_TERNARIES)[4]
            rng.shuffle(by4)
            grammars += by4[:30000]
        nrand = 1500 if tier == 'quick' else 15000
        for _ in range(nrand):
            grammars.append(gen.random_grammar(rng, rng.randint(3, 6), gen.C01_LEAVES, gen.C01_UNARIES,
                                               gen.C01_BINARIES, gen.C01_TERNARIES))
        maxlen = 4 if tier == 'quick' else 5
        for g in dedup(grammars):
            kind = 'str' if n % 2 == 0 else 'slice'
            lines.append(case_line(f'g{n}', g, inputs_all(maxlen if gen.size(g) <= 3 else 4, gen.C01_ALPHA), kind=kind))
            n += 1
        return lines

    def compare(self, line, k, impl_M, model_M, spec_S):
        i = proj_accept_value(parse_M(impl_M))
        m = proj_accept_value(parse_M(model_M))
        s = spec_accept_value(parse_S(spec_S))
        return {'corr': i == m, 'pred': i == s, 'why': 'acceptance/output differs from the PEG reading',
                'outcome': 'accept' if i[0] == 'R' and i[1] is not None else ('reject' if i[0] == 'R' else i[0]),
                'nontrivial': is_nontrivial(line, k, i)}



def full_compare(line, k, impl_M, model_M, spec_S):
    return {'corr': impl_M == model_M, 'pred': True, 'outcome': impl_M.split(' ')[0] + ('+' if impl_M.startswith('R ok') else '-'),
            'nontrivial': is_nontrivial(line, k, None)}


def stream_items(tier, seed, want):
    """(grammar, inputs, kwargs) of the validation streams"""
    rng = random.Random(seed)
    items = []

    def add(g, inputs, **kw):
        items.append((g, inputs, kw))
    by = gen.enum_by_size(3, gen.C01_LEAVES, gen.C01_UNARIES, gen.C01_BINARIES, gen.C01_TERNARIES)
    small = [g for s in (1, 2) for g in by[s]]
    c01 = [g for s in sorted(by) for g in by[s]]
    inp01 = inputs_all(4, [gen.A, gen.B, gen.EA]) + ' ' + inputs_all(2, [gen.A, gen.CLEF])
    if 'c01' in want:
        for g in c01:
            add(g, inp01)
    if 'c02' in want:
        inp02 = inputs_all(6 if tier != 'quick' else 5, gen.C02_ALPHA)
        its = gen.c02_iterators(gen.C02_ITEMS[:4], gen.C02_SEPS[:2], gen.bounds(3))
        rng.shuffle(its)
        for it in its[:400 if tier == 'quick' else 4000]:
            for c in gen.c02_consumers(it):
                add(c, inp02)
        for g in gen.c02_special():
            add(g, inp02)
        for a in gen.C02_NULLABLE_ITEMS:
            for it in [('rep', a, 0, None), ('rep', a, 1, 3), ('sep', a, ('just', [gen.COMMA]), 0, None, False, False)]:
                for c in gen.c02_consumers(it):
                    add(c, inputs_all(3, gen.C02_ALPHA))
    base = [g for g in c01 if gen.size(g) >= 2]
    rng.shuffle(base)
    for key, wraps, cnt in (('emit', gen.EMITTERS, 600), ('rec', gen.RECOVERIES, 600), ('deco', gen.DECORATIONS, 600)):
        if key not in want:
            continue
        for g in base[:cnt if tier == 'quick' else cnt * 8]:
            for w in wraps:
                for g2 in gen.insert_at_nodes(g, w):
                    add(g2, inp01)
    if 'ek' in want:
        pool = base[:300] + [g2 for g in base[300:420] for w in gen.RECOVERIES + gen.DECORATIONS[2:] for g2 in gen.insert_at_nodes(g, w)[:3]]
        for g in pool:
            for ek in ('simple', 'cheap', 'empty'):
                add(g, inp01, ek=ek)
    if 'state' in want:
        pool = base[:500] + [g for g in c01 if gen.size(g) >= 2 and ('rewind' in gen.ops_of(g) or 'andis' in gen.ops_of(g))][:200]
        for g in pool:
            for g2 in gen.insert_at_nodes(g, lambda a: ('mwstate', a))[:4]:
                add(g2, inp01)
                for g3 in gen.insert_at_nodes(g2, lambda a: ('withstate', a), pred=lambda t: t[0] != 'mwstate')[:2]:
                    add(g3, inp01)
        for g in pool[:150]:
            for w in gen.RECOVERIES[:3]:
                for g2 in gen.insert_at_nodes(g, w)[:2]:
                    for g3 in gen.insert_at_nodes(g2, lambda a: ('mwstate', a))[:2]:
                        add(g3, inp01)
    if 'ctx' in want:
        for g in gen.ctx_family():
            add(g, inputs_all(5, [gen.A, gen.B, 50, 51]))
        pool = base[:500]
        for g in pool:
            for g2 in gen.insert_at_nodes(g, lambda a: ('mwctx', a))[:2]:
                for w in gen.CTX_PROVIDERS:
                    for g3 in gen.insert_at_nodes(g2, w)[:4]:
                        add(g3, inp01)
    return items



class ALL(Prop):
    """model validation: the whole observation (output, every error, final inspector state) of model and
    implementation on every stream. Not a property check; used to keep the model honest."""
    name = 'ALL'
    module = 'C01'
    rule = 'all streams; full observation equality'
    bins = ['h_str_rich', 'h_slice_rich', 'h_str_simple', 'h_slice_simple', 'h_str_cheap', 'h_slice_cheap', 'h_str_empty', 'h_slice_empty']

    def __init__(self, streams=None):
        self.streams = streams

    def cases(self, tier, seed):
        want = self.streams or ['c01', 'c02', 'emit', 'rec', 'deco', 'ctx', 'ek']
        lines = []
        for n, (g, inputs, kw) in enumerate(stream_items(tier, seed, want)):
            kw = dict(kw)
            kind = kw.pop('kind', 'str' if n % 2 == 0 else 'slice')
            lines.append(case_line(f'a{n}', g, inputs, kind=kind, **kw))
        return lines

    def compare(self, line, k, impl_M, model_M, spec_S):
        return full_compare(line, k, impl_M, model_M, spec_S)



class C04(Prop):
    name = 'C04'
    module = 'C04'
    title = 'check mode and output elision are unobservable'
    claimed = True
    level_text = ('theorem run check = erase (run emit) for every grammar of the object language, every state and fuel (Lean), '
                  'value-building formulations proved equal; check() vs parse() of the real crate compared on every stream')
    rule = ('every grammar of the validation streams (C01 class, repetition/consumers, emitters, recovery, decorations, context, '
            'all four error kinds) is run twice, through parse and through check; non-trivial = backtracking grammar and '
            'non-empty input; pairs are distinct (grammar, input, mode) triples')
    bins = ALL.bins

    def cases(self, tier, seed):
        lines = []
        items = stream_items(tier, seed, ['c01', 'c02', 'emit', 'rec', 'deco', 'ctx', 'ek'])
        rng = random.Random(seed)
        if tier == 'quick':
            rng.shuffle(items)
            items = items[:6000]
        for n, (g, inputs, kw) in enumerate(items):
            kw = dict(kw)
            kind = kw.pop('kind', 'str' if n % 2 == 0 else 'slice')
            lines.append(case_line(f'x{n}p', g, inputs, kind=kind, mode='parse', **kw))
            lines.append(case_line(f'x{n}c', g, inputs, kind=kind, mode='check', **kw))
        # value-building formulations
        pairs = []
        smalls = gen.C01_LEAVES[:10]
        for a in smalls:
            for b in smalls:
                pairs.append((('ithen', a, b), ('map', 'snd', ('then', a, b))))
                pairs.append((('theni', a, b), ('map', 'fst', ('then', a, b))))
                pairs.append((('padded', a, b), ('theni', ('ithen', b, a), b)))
                pairs.append((('delim', a, b, ('just', [gen.B])), ('theni', ('ithen', b, a), ('just', [gen.B]))))
            pairs.append((('ignored', a), ('to', ('vunit',), a)))
            pairs.append((('iterp', ('rep', a, 1, 3)), ('collect', 'unit', ('rep', a, 1, 3))))
        inp = inputs_all(4, [gen.A, gen.B, gen.EA])
        for n, (l, r) in enumerate(pairs):
            for mode in ('parse', 'check'):
                lines.append(case_line(f'y{n}{mode[0]}p', l, inp, mode=mode))
                lines.append(case_line(f'y{n}{mode[0]}c', r, inp, mode=mode))
        return lines

    def group_of(self, line):
        return line.split(' ', 1)[0][:-1]

    def check_chunk(self, by_id, impl, model, stats, fails):
        for key, mo in model.items():
            if key == '__bad__' or not key.rpartition('.')[0].endswith('p'):
                continue
            cid, _, k = key.rpartition('.')
            cid_c = cid[:-1] + 'c'
            line = by_id.get(cid)
            ip = impl.get(key, {}).get('M')
            ic = impl.get(cid_c + '.' + k, {}).get('M')
            mp = mo.get('M')
            mc = model.get(cid_c + '.' + k, {}).get('M')
            stats['pairs'] += 2
            if ip is None or ic is None:
                fails.append(('missing', line, int(k), 'no implementation observation'))
                continue
            a, b = parse_M(ip), parse_M(ic)
            if cid.startswith('x'):
                # check vs parse: same acceptance, identical error list (values erased)
                pa = (a['kind'], a.get('out') is not None, a.get('errs'), a.get('site'))
                pb = (b['kind'], b.get('out') is not None, b.get('errs'), b.get('site'))
            else:
                # two formulations: identical observation
                pa, pb = ip, ic
            pred = pa == pb
            corr = (ip == mp) and (ic == mc)
            oc = a['kind'] + ('+' if a.get('out') is not None else '-')
            stats['outcomes'][oc] = stats['outcomes'].get(oc, 0) + 1
            if is_nontrivial(line, int(k), None):
                stats['nontrivial'] += 2
            if not pred:
                stats['pred_fail'] += 1
                if len(fails) < 200:
                    fails.append(('pred', line, int(k), f'check/parse (or the two formulations) differ || first: {ip} || second: {ic}'))
            elif not corr:
                stats['corr_disagree'] += 1
                if len(fails) < 200:
                    fails.append(('corr', line, int(k), f'impl: {ip} / {ic} || model: {mp} / {mc}'))
            elif len(stats['samples']) < 2 and int(k) > 3:
                stats['samples'].append({'case': grammar_of(line), 'input_index': int(k), 'parse': ip, 'check': ic})



def emits_match(errs, emits):
    """implementation errors vs spec emissions: user emissions must be identical, a recovered error is abstract"""
    if len(errs) != len(emits):
        return False
    return all(e == s or s.startswith('rec@') for e, s in zip(errs, emits))


class SpecProp(Prop):
    """properties decided against the PEG reading on a set of streams"""
    streams = []
    quick_cap = 8000
    with_errors = False       # compare the secondary errors of accepted parses with the spec's emissions
    with_insp = False         # compare the final inspector state
    bins = ['h_str_rich', 'h_slice_rich']
    ek_filter = ('rich',)

    def cases(self, tier, seed):
        items = [it for it in stream_items(tier, seed, self.streams) if it[2].get('ek', 'rich') in self.ek_filter]
        rng = random.Random(seed)
        if tier == 'quick' and len(items) > self.quick_cap:
            rng.shuffle(items)
            items = items[:self.quick_cap]
        lines = []
        for n, (g, inputs, kw) in enumerate(items):
            kw = dict(kw)
            kind = kw.pop('kind', 'str' if n % 2 == 0 else 'slice')
            lines.append(case_line(f's{n}', g, inputs, kind=kind, **kw))
        return lines

    def proj_impl(self, m):
        if m['kind'] != 'R':
            return proj_accept_value(m)
        out = m['out']
        r = ['R', out]
        if self.with_errors:
            r.append(tuple(m['errs']) if out is not None else None)
        if self.with_insp:
            r.append(m['insp'] if out is not None else None)
        return tuple(r)

    def holds(self, i, s):
        """predicate on the implementation's observation `i` given the spec's result `s`"""
        if s['kind'] == 'P':
            return i['kind'] == 'P' and i['site'] == s['site']
        if s['kind'] == 'OOF':
            return True
        if i['kind'] != 'R':
            return False
        if s['kind'] == 'fail':
            return i['out'] is None
        if i['out'] != s['val']:
            return False
        if self.with_errors and not emits_match(i['errs'], s['emits']):
            return False
        if self.with_insp and i['insp'] != s['insp']:
            return False
        return True

    def compare(self, line, k, impl_M, model_M, spec_S):
        im, mm, ss = parse_M(impl_M), parse_M(model_M), parse_S(spec_S)
        corr = self.proj_impl(im) == self.proj_impl(mm)
        return {'corr': corr, 'pred': self.holds(im, ss), 'why': self.why,
                'outcome': im['kind'] + ('+' if im.get('out') is not None else '-') + ('e' if im.get('errs') and im.get('out') is not None else ''),
                'nontrivial': is_nontrivial(line, k, None)}


def ill_formed_bounds(g):
    for t in gen.subterms(g):
        if t[0] == 'rep' and t[3] is not None and t[2] > t[3]:
            return True
        if t[0] == 'sep' and t[4] is not None and t[3] > t[4]:
            return True
    return False


class C02(SpecProp):
    name = 'C02'; module = 'C02'; claimed = True

    def cases(self, tier, seed):
        items = stream_items(tier, seed, self.streams)
        lines = []
        for n, (g, inputs, kw) in enumerate(items):
            kw = dict(kw)
            kind = kw.pop('kind', 'str' if n % 2 == 0 else 'slice')
            tag = 'w' if ill_formed_bounds(g) else 's'
            lines.append(case_line(f'{tag}{n}', g, inputs, kind=kind, **kw))
        return lines

    def compare(self, line, k, impl_M, model_M, spec_S):
        res = super().compare(line, k, impl_M, model_M, spec_S)
        if line.startswith('w') and res['pred']:
            im = parse_M(impl_M)
            # literal reading of the property: with at_least > at_most no count is within bounds
            if im['kind'] == 'R' and im['out'] is not None:
                res['pred'] = False
                res['why'] = 'D14 ill-formed bounds: the repetition succeeded although at_least > at_most'
        return res

    title = 'repetition and separators: bounds, greediness, leading/trailing'
    streams = ['c02']
    why = 'items / count / remainder differ from the greedy bounded reading'
    rule = ('iterators repeated/separated_by over all bounds 0..2 (+unbounded), lead/trail flags, sampled item and separator '
            'grammars, every consumer (collect vec/string/count/unit, collect_exactly 0/2/3, foldl, foldr, foldl_with, '
            'foldr_with, enumerate, plain parser), remainder observed through any().repeated().to_slice(); or_not/into_iter/then '
            'iterators; configure/try_configure from context; nullable items (debug-assertion panics); all inputs over {a , b}')
    level_text = ('machine loops refine the functional iterator protocol of the spec (Lean, all grammars/inputs); the protocol is '
                  'characterised by chain predicates (greedy, possessive, bounds, separators); items, counts and remainders of the '
                  'real crate compared with model and spec')


class C03(SpecProp):
    name = 'C03'; module = 'C03'; claimed = True
    title = 'parse result contract'
    streams = ['c01', 'c02', 'rec']
    quick_cap = 9000
    why = 'result contract violated'
    rule = ('C01, C02 and recovery streams; inputs enumerated exhaustively up to the bound, so every one-token extension of an '
            'accepted input below the bound is itself a case; observation = (has_output, has_errors, into_result is Ok)')
    level_text = ('theorems on parse/check of the model: error-free output iff the grammar followed by end-of-input matches in the '
                  'PEG reading (every token consumed), no-output implies an error, into_result consistency; the real ParseResult '
                  'accessors compared on every case')

    def compare(self, line, k, impl_M, model_M, spec_S):
        im, mm, ss = parse_M(impl_M), parse_M(model_M), parse_S(spec_S)
        if im['kind'] != 'R':
            return {'corr': proj_accept_value(im) == proj_accept_value(mm), 'pred': ss['kind'] == 'P' and im.get('site') == ss.get('site'),
                    'why': 'panic', 'outcome': im['kind'], 'nontrivial': False}
        has_out, has_err = im['out'] is not None, bool(im['errs'])
        ir = im.get('ir')
        pred = True
        why = []
        if not has_out and not has_err:
            pred = False; why.append('no output and no error')
        if ir is not None and (ir == 'ok') != (has_out and not has_err):
            pred = False; why.append('into_result inconsistent')
        clean = has_out and not has_err
        spec_clean = ss['kind'] == 'ok' and not ss['emits']
        if ss['kind'] != 'OOF' and clean != spec_clean:
            pred = False; why.append('error-free acceptance differs from "grammar then end matches the whole input"')
        if ss['kind'] == 'ok' and not has_out:
            pred = False; why.append('no output although the grammar matches')
        if ss['kind'] == 'fail' and has_out:
            pred = False; why.append('output although the grammar does not match')
        corr = (mm['kind'] == 'R' and (mm['out'] is not None) == has_out and bool(mm['errs']) == has_err and mm.get('ir') == ir)
        return {'corr': corr, 'pred': pred, 'why': '; '.join(why), 'outcome': ('O' if has_out else 'o') + ('E' if has_err else 'e'),
                'nontrivial': is_nontrivial(line, k, None)}


class C05(SpecProp):
    name = 'C05'; module = 'C05'; claimed = True
    title = 'backtracking is atomic'
    streams = ['emit', 'rec', 'c01']
    with_errors = True
    with_insp = True
    quick_cap = 9000
    why = 'reported non-fatal errors / state differ from those of the surviving path'
    rule = ('C01-class grammars with validate emitters and recover_with inserted at every node position (inside choices, '
            'lookahead, and_is, rewind, optional), custom parsers that fail after consuming; observation = output + ordered list '
            'of secondary errors + final inspector state')
    level_text = ('refinement theorem: on success the secondary errors are exactly (in order) the emissions of the surviving path of '
                  'the PEG reading, the inspector equals the one fed the consumed prefix; on failure the caller-visible list is only '
                  'extended; error lists of the real crate compared with spec emissions')


class C08(SpecProp):
    name = 'C08'; module = 'C08'; claimed = True
    title = 'error recovery'
    streams = ['rec']
    with_errors = True
    quick_cap = 9000
    why = 'recovery result differs from the recovery reading'
    rule = ('C01-class grammars with recover_with(via_parser | skip_until | skip_then_retry_until) inserted at every node position; '
            'observation = output + error list (recovered errors matched by position in the spec, by full content in the model)')
    level_text = ('recover_with/strategies refine the recovery reading of the spec (transparent on success, one extra error on '
                  'recovery, failure restores position); full error content compared between the real crate and the model')

    def proj_impl(self, m):
        if m['kind'] != 'R':
            return proj_accept_value(m)
        return ('R', m['out'], tuple(m['errs']))


class C15(SpecProp):
    name = 'C15'; module = 'C15'; claimed = True
    title = 'context and configuration'
    streams = ['ctx']
    why = 'context delivered / configured parser differs from the lexical reading'
    rule = ('length-prefixed, delimiter-echo and nested-provider families plus C01 grammars with context readers and providers '
            '(with_ctx, ignore_with_ctx, then_with_ctx, map_ctx) inserted at node positions; outputs embed the observed context')
    level_text = ('refinement theorem: the machine (which swaps a context reference) delivers the lexically nearest provider of the '
                  'PEG reading; configure/try_configure equal the statically configured parser; outputs of the real crate compared')


class C18(SpecProp):
    name = 'C18'; module = 'C18'; claimed = True
    title = 'user state and inspectors'
    streams = ['state']
    with_insp = True
    why = 'observed inspector state differs from "fed exactly the tokens before the position"'
    rule = ('C01/C02/recovery grammars with state observations (map_with reading the inspector) inserted at node positions and '
            'with_state scopes; observation = every observed (count, hash) in the output and the final state of parse_with_state')
    level_text = ('refinement theorem threads the inspector: every observation equals the inspector fed the tokens consumed on the '
                  'surviving path; with_state starts fresh and leaves the outer inspector untouched; real inspector compared')


PROPS = {p.name: p for p in [C01(), ALL(), C04(), C02(), C03(), C05(), C08(), C15(), C18()]}
for _s in ['c01', 'c02', 'emit', 'rec', 'deco', 'ctx', 'ek', 'state']:
    PROPS['ALL_' + _s] = ALL([_s])
    PROPS['ALL_' + _s].name = 'ALL_' + _s

