"""Grammar construction, rendering (case-line format) and enumeration / random generation.

A grammar is a nested tuple  (op, arg, ...)  whose argument kinds are given by SIG.
"""
import random

# argument kinds: G grammar, IT iterator, N nat, L nat list, V value, P pred, M mapfn, F foldfn,
# C cfgfn, X ctxfn, K collkind, O optional nat, B bool, GL grammar list
SIG = {
    'end': '', 'empty': '', 'any': '', 'just': 'L', 'oneof': 'L', 'noneof': 'L', 'select': 'L', 'anyref': '', 'selectref': 'L',
    'cnext': 'N', 'cnextmaybe': 'N', 'cparse': 'G', 'ccheck': 'G', 'unwrapsome': 'G', 'unwrapok': 'G', 'trymapspan': 'G', 'ctake2': 'N', 'cnothing': '', 'cfail': 'N', 'todo': '',
    'then': 'GG', 'ithen': 'GG', 'theni': 'GG', 'delim': 'GGG', 'padded': 'GG',
    'group': ['GL'], 'grouparr': ['GL'],
    'or': 'GG', 'choicet': ['GL'], 'choices': ['GL'], 'ornot': 'G', 'not': 'G', 'andis': 'GG', 'rewind': 'G',
    'map': 'MG', 'to': 'VG', 'ignored': 'G', 'filter': 'PG', 'trymap': 'PNNG', 'trymapw': 'PNNG',
    'tospan': 'G', 'toslice': 'G', 'mwspan': 'G', 'mwstate': 'G', 'mwctx': 'G', 'validate': 'PNNG',
    'collect': ['K', 'IT'], 'collectx': ['N', 'IT'], 'collectiw': ['G', 'IT'], 'collecttw': ['G', 'IT'], 'foldl': ['F', 'G', 'IT'], 'foldr': ['F', 'IT', 'G'],
    'foldlw': ['G', 'IT'], 'foldrw': ['IT', 'G'], 'iterp': ['IT'],
    'recvia': 'GG', 'recskip': 'GGGV', 'recretry': 'GGG', 'recnd': 'GNNNL', 'ndblock': 'NNNL', 'label': 'NBG', 'maperr': 'NG',
    'withctx': 'VG', 'iwctx': 'GG', 'twctx': 'GG', 'mapctx': 'XG', 'cfgjust': 'CL', 'withstate': 'G',
    'memo': 'NG', 'memonest': 'NG', 'memozst': 'N', 'lazy': 'G', 'call': 'N', 'boxed': 'G',
    # iterators
    'rep': 'GNO', 'sep': 'GGNOBB', 'enum': ['IT'], 'ornotit': 'G', 'intoiter': 'G', 'thenit': ['IT', 'IT'],
    'cfgrep': ['C', 'IT'], 'trycfgrep': ['N', 'IT'],
}


def sig(op):
    s = SIG[op]
    return list(s) if isinstance(s, str) else s


def render(g, out=None):
    """prefix token list of a grammar / iterator"""
    top = out is None
    if top:
        out = []
    op = g[0]
    out.append(op)
    for kind, a in zip(sig(op), g[1:]):
        if kind in ('G', 'IT'):
            render(a, out)
        elif kind == 'GL':
            out.append(str(len(a)))
            for x in a:
                render(x, out)
        elif kind == 'N':
            out.append(str(a))
        elif kind == 'L':
            out.append(str(len(a)))
            out.extend(str(x) for x in a)
        elif kind == 'O':
            out.append('-' if a is None else str(a))
        elif kind == 'B':
            out.append('1' if a else '0')
        elif kind == 'V':
            render_val(a, out)
        else:  # P M F C X K : atoms or small tuples
            if isinstance(a, tuple):
                out.extend(str(x) for x in a)
            else:
                out.append(str(a))
    return ' '.join(out) if top else None


def render_val(v, out):
    out.append(v[0])
    if v[0] == 'vtoks':
        out.append(str(len(v[1])))
        out.extend(str(x) for x in v[1])
    elif v[0] == 'vtag':
        out.append(str(v[1]))
        render_val(v[2], out)
    elif v[0] in ('vtok', 'vnat'):
        out.append(str(v[1]))


def subterms(g):
    """all grammar/iterator sub-terms (including g)"""
    yield g
    for kind, a in zip(sig(g[0]), g[1:]):
        if kind in ('G', 'IT'):
            yield from subterms(a)
        elif kind == 'GL':
            for x in a:
                yield from subterms(x)


def ops_of(g):
    return [t[0] for t in subterms(g)]


def size(g):
    return sum(1 for _ in subterms(g))


def replace_children(g, f):
    """rebuild g with f applied to each direct grammar/iterator child"""
    args = []
    for kind, a in zip(sig(g[0]), g[1:]):
        if kind in ('G', 'IT'):
            args.append(f(a))
        elif kind == 'GL':
            args.append([f(x) for x in a])
        else:
            args.append(a)
    return (g[0], *args)


def case_line(cid, g, inputs, ek='rich', kind='str', mode='parse', fuel=400, defs=()):
    d = ' '.join(render(x) for x in defs)
    return f"{cid} {ek} {kind} {mode} {fuel} D {len(defs)} {d} M {render(g)} I {inputs}".replace('  ', ' ')


def inputs_all(maxlen, alpha):
    return f"all {maxlen} {len(alpha)} " + ' '.join(str(a) for a in alpha)


def inputs_lit(toks):
    return f"lit {len(toks)} " + ' '.join(str(t) for t in toks)



def shelter_family():
    """(wrapped, plain) pairs for the wrappers that shelter the pending error (labelled, map_err, memoized, try_map):
    an earlier alternative has left a pending error at p1; the wrapped parser SUCCEEDS or FAILS having probed further (its own
    deepest failure at p2 > p1) and ends with the cursor behind p1 (optional tail / repetition / inner choice gave the input
    back). What the wrapper re-inserts must be ranked at p2, against what is pending — not against where the cursor is."""
    C, D = 99, 100
    firsts = [('then', ('just', [A, B]), ('just', [120])), ('then', ('just', [A]), ('then', ('just', [B]), ('just', [B]))),
              ('then', ('just', [A, B, C]), ('just', [120]))]
    inners = [('then', ('just', [A]), ('ornot', ('just', [B, C, D, EA]))),
              ('then', ('just', [A]), ('collect', 'vec', ('rep', ('just', [B, C]), 0, None))),
              ('then', ('just', [A]), ('or', ('just', [B, C, D]), ('empty',))),
              ('then', ('any',), ('ornot', ('then', ('just', [B]), ('then', ('just', [C]), ('just', [C]))))),
              ('then', ('just', [A]), ('ornot', ('then', ('just', [B]), ('ornot', ('just', [C, D, D])))))]
    wraps = [lambda a: ('label', 3, False, a), lambda a: ('label', 3, True, a), lambda a: ('maperr', 4, a),
             lambda a: ('memo', 1, a), lambda a: ('trymap', 'never', 4, 2, a), lambda a: ('boxed', a)]
    out = []
    for f in firsts:
        for i in inners:
            for w in wraps:
                for shape in (lambda x, y: ('theni', ('or', x, y), ('end',)), lambda x, y: ('theni', ('choices', [x, y]), ('end',)),
                              lambda x, y: ('then', ('or', x, y), ('just', [C])), lambda x, y: ('theni', ('or', y, x), ('end',))):
                    out.append((shape(f, w(i)), shape(f, i)))
    return out

# ---------------------------------------------------------------------------------------------
# enumeration by size

def enum_by_size(max_size, leaves, unaries, binaries, ternaries=(), extra=None):
    """all grammars with 1..max_size nodes. unaries/binaries/ternaries: lists of functions building a node."""
    by = {1: list(leaves)}
    for n in range(2, max_size + 1):
        cur = []
        for u in unaries:
            for a in by[n - 1]:
                cur.append(u(a))
        for i in range(1, n - 1):
            j = n - 1 - i
            if j < 1:
                continue
            for b in binaries:
                for a1 in by[i]:
                    for a2 in by[j]:
                        cur.append(b(a1, a2))
        for i in range(1, n - 2):
            for j in range(1, n - 1 - i):
                k = n - 1 - i - j
                if k < 1:
                    continue
                for t in ternaries:
                    for a1 in by[i]:
                        for a2 in by[j]:
                            for a3 in by[k]:
                                cur.append(t(a1, a2, a3))
        if extra:
            cur.extend(extra(n, by))
        by[n] = cur
    return by


def random_grammar(rng, depth, leaves, unaries, binaries, ternaries=()):
    if depth <= 0 or rng.random() < 0.15:
        return rng.choice(leaves)
    r = rng.random()
    if r < 0.4 and unaries:
        return rng.choice(unaries)(random_grammar(rng, depth - 1, leaves, unaries, binaries, ternaries))
    if r < 0.92 or not ternaries:
        return rng.choice(binaries)(random_grammar(rng, depth - 1, leaves, unaries, binaries, ternaries),
                                    random_grammar(rng, depth - 1, leaves, unaries, binaries, ternaries))
    return rng.choice(ternaries)(*(random_grammar(rng, depth - 1, leaves, unaries, binaries, ternaries)
                                   for _ in range(3)))


# ---------------------------------------------------------------------------------------------
# constructor sets

A, B, EA, CLEF, COMMA = 97, 98, 233, 0x1D11E, 44
THAI = 0x0E01          # U+0800..U+0FFF: the only 3-byte characters whose UTF-8 leading byte is 0xE0
UTF8_EDGES = [0x7F, 0x80, 0x7FF, 0x800, 0xFFF, 0x1000, 0xD7FF, 0xE000, 0xFFFF, 0x10000, 0x3FFFF, 0x40000, 0xFFFFF, 0x100000, 0x10FFFF]

C01_LEAVES = [
    ('end',), ('empty',), ('any',), ('just', [A]), ('just', [B]), ('just', [A, B]), ('just', [EA]),
    ('oneof', [A, B]), ('noneof', [A]), ('select', [A, EA]), ('anyref',), ('selectref', [A, EA]),
    ('cnext', 1), ('ctake2', 2), ('cnothing',), ('cfail', 3),
]
C01_UNARIES = [
    lambda a: ('ornot', a), lambda a: ('not', a), lambda a: ('rewind', a),
    lambda a: ('map', ('tag', 1), a), lambda a: ('to', ('vnat', 5), a), lambda a: ('ignored', a),
    lambda a: ('filter', ('tokis', A), a), lambda a: ('trymap', ('tokis', B), 4, 2, a),
    lambda a: ('trymapw', ('tokis', B), 4, 2, a),
    lambda a: ('tospan', a), lambda a: ('toslice', a), lambda a: ('mwspan', a), lambda a: ('boxed', a),
]
C01_BINARIES = [
    lambda a, b: ('then', a, b), lambda a, b: ('ithen', a, b), lambda a, b: ('theni', a, b),
    lambda a, b: ('or', a, b), lambda a, b: ('andis', a, b), lambda a, b: ('padded', a, b),
    lambda a, b: ('choices', [a, b]), lambda a, b: ('group', [a, b]),
]
C01_TERNARIES = [
    lambda a, b, c: ('delim', a, b, c), lambda a, b, c: ('choicet', [a, b, c]),
    lambda a, b, c: ('choices', [a, b, c]), lambda a, b, c: ('grouparr', [a, b, c]),
]
C01_ALPHA = [A, B, EA, CLEF]


# ---------------------------------------------------------------------------------------------
# C02: repetition / separators / consumers

C02_ITEMS = [('just', [A]), ('oneof', [A, B]), ('any',), ('then', ('just', [A]), ('just', [B])),
             ('or', ('just', [A, B]), ('just', [A])), ('map', ('tag', 1), ('just', [A])),
             ('filter', ('tokis', A), ('any',)), ('noneof', [COMMA])]
C02_NULLABLE_ITEMS = [('empty',), ('ornot', ('just', [A])), ('rewind', ('just', [A]))]
C02_SEPS = [('just', [COMMA]), ('just', [COMMA, COMMA]), ('oneof', [COMMA, B]), ('then', ('just', [COMMA]), ('just', [B])),
            ('then', ('just', [COMMA]), ('ornot', ('just', [COMMA])))]
C02_ALPHA = [A, COMMA, B]


def bounds(maxn=4):
    out = []
    for lo in range(0, maxn):
        out.append((lo, None))
        for hi in range(0, maxn):
            out.append((lo, hi))
    return out


def c02_iterators(items, seps, bnds, full=True):
    its = []
    for a in items:
        for lo, hi in bnds:
            its.append(('rep', a, lo, hi))
    for a in items:
        for s in seps:
            for lo, hi in bnds:
                for lead in (False, True):
                    for trail in (False, True):
                        its.append(('sep', a, s, lo, hi, lead, trail))
    return its


def c02_consumers(it, rng=None):
    """every consumer over one iterator; the remainder is made observable by following with any*.to_slice"""
    rest = ('toslice', ('iterp', ('rep', ('any',), 0, None)))
    cons = [('collect', 'vec', it), ('collect', 'count', it), ('collect', 'unit', it), ('collect', 'string', it),
            ('collectx', 2, it), ('collectx', 0, it), ('collectx', 3, it),
            ('foldl', 'fpair', ('empty',), it), ('foldr', 'fpair', it, ('empty',)),
            ('foldlw', ('empty',), it), ('foldrw', it, ('empty',)),
            ('collect', 'vec', ('enum', it)), ('foldl', 'fpair', ('empty',), ('enum', it))]
    if it[0] in ('rep', 'sep', 'cfgrep', 'trycfgrep'):
        cons.append(('iterp', it))
    return [('then', c, rest) for c in cons]


def c02_special():
    """or_not / into_iter / then iterators and configure"""
    a, b = ('just', [A]), ('just', [B])
    its = [('ornotit', a), ('intoiter', ('collect', 'vec', ('rep', a, 0, None))),
           ('intoiter', ('just', [A, B])), ('intoiter', ('ornot', a)),
           ('thenit', ('rep', a, 0, 2), ('rep', b, 1, None)), ('thenit', ('ornotit', a), ('rep', b, 0, None)),
           ('thenit', ('rep', a, 1, None), ('sep', b, ('just', [COMMA]), 0, None, False, True)),
           ('thenit', ('intoiter', ('just', [A])), ('rep', b, 0, 3))]
    out = []
    for it in its:
        out.extend(c02_consumers(it))
    # configure from context
    for cfn in ('exactlyctx', 'atleastctx', 'atmostctx', 'keep'):
        for n in range(0, 4):
            for (lo, hi) in [(0, None), (1, 3), (2, 2)]:
                it = ('cfgrep', cfn, ('rep', a, lo, hi))
                for c in c02_consumers(it):
                    out.append(('withctx', ('vnat', n), c))
            # an item that fails after consuming a token
            it = ('cfgrep', cfn, ('rep', ('just', [A, B]), 0, None))
            for c in c02_consumers(it):
                out.append(('withctx', ('vnat', n), c))
    for ctxv in [('vnat', 2), ('vunit',), ('vnat', 0)]:
        it = ('trycfgrep', 6, ('rep', a, 0, None))
        for c in c02_consumers(it):
            out.append(('withctx', ctxv, c))
    return out


# ---------------------------------------------------------------------------------------------
# emitters / recovery / decorations inserted at every node position

def insert_at_nodes(g, wrap, pred=lambda t: True):
    """all grammars obtained from g by wrapping exactly one grammar node (not iterators) with `wrap`"""
    res = []

    def go(t, rebuild):
        if t[0] not in IT_OPS and pred(t):
            res.append(rebuild(wrap(t)))
        for i, (kind, a) in enumerate(zip(sig(t[0]), t[1:])):
            if kind in ('G', 'IT'):
                go(a, lambda x, t=t, i=i, rebuild=rebuild: rebuild(t[:i + 1] + (x,) + t[i + 2:]))
            elif kind == 'GL':
                for j, x in enumerate(a):
                    go(x, lambda y, t=t, i=i, j=j, rebuild=rebuild:
                       rebuild(t[:i + 1] + (list(t[i + 1][:j]) + [y] + list(t[i + 1][j + 1:]),) + t[i + 2:]))
    go(g, lambda x: x)
    return res


IT_OPS = {'rep', 'sep', 'enum', 'ornotit', 'intoiter', 'thenit', 'cfgrep', 'trycfgrep'}

EMITTERS = [lambda a: ('validate', 'always', 5, 1, a), lambda a: ('validate', ('tokis', A), 6, 2, a)]
SEMI, LP, RP = 59, 40, 41
RECOVERIES = [
    lambda a: ('recvia', a, ('to', ('vnat', 9), ('any',))),
    lambda a: ('recvia', a, ('to', ('vnat', 8), ('empty',))),
    lambda a: ('recskip', a, ('any',), ('just', [B]), ('vnat', 7)),
    lambda a: ('recretry', a, ('any',), ('end',)),
    lambda a: ('recretry', a, ('any',), ('just', [B])),
]
DECORATIONS = [lambda a: ('label', 1, False, a), lambda a: ('label', 2, True, a), lambda a: ('maperr', 3, a)]


# ---------------------------------------------------------------------------------------------
# context / configuration

CTX_PROVIDERS = [
    lambda a: ('withctx', ('vtoks', [A]), a),
    lambda a: ('iwctx', ('just', [A]), a),
    lambda a: ('twctx', ('oneof', [A, B]), a),
    lambda a: ('mapctx', ('ctag', 4), a),
    lambda a: ('iwctx', ('collect', 'string', ('rep', ('oneof', [A, B]), 0, 2)), a),
]


def ctx_family():
    """length-prefixed / delimiter-echo / nested providers"""
    a = ('just', [A])
    digit = ('map', 'snd', ('then', ('empty',), ('or', ('to', ('vnat', 2), ('just', [50])), ('to', ('vnat', 3), ('just', [51])))))
    out = []
    for cons in [lambda it: ('collect', 'vec', it), lambda it: ('collect', 'count', it), lambda it: ('iterp', it),
                 lambda it: ('foldl', 'fpair', ('empty',), it)]:
        for cfn in ('exactlyctx', 'atleastctx', 'atmostctx'):
            out.append(('iwctx', digit, cons(('cfgrep', cfn, ('rep', ('oneof', [A, B]), 0, None)))))
            out.append(('twctx', digit, cons(('cfgrep', cfn, ('rep', a, 1, 3)))))
            # items that fail AFTER consuming: the configured repetition must put the input back before it ends
            for item in (('just', [A, B]), ('then', ('just', [A]), ('just', [B])), ('then', ('any',), ('validate', 'always', 5, 1, ('just', [B])))):
                rest = ('toslice', ('iterp', ('rep', ('any',), 0, None)))
                out.append(('iwctx', digit, ('then', cons(('cfgrep', cfn, ('rep', item, 0, None))), rest)))
                out.append(('iwctx', digit, ('then', cons(('cfgrep', cfn, ('rep', item, 1, 3))), rest)))
        out.append(('iwctx', digit, cons(('trycfgrep', 6, ('rep', a, 0, None)))))
        out.append(('iwctx', a, cons(('trycfgrep', 6, ('rep', a, 0, None)))))
    # delimiter echo: the opening run of a/b must be repeated at the end
    opener = ('collect', 'string', ('rep', ('oneof', [A, B]), 1, 2))
    out.append(('twctx', opener, ('then', ('iterp', ('rep', ('just', [50]), 0, None)), ('cfgjust', 'seqctx', [B]))))
    out.append(('iwctx', opener, ('mwctx', ('cfgjust', 'seqctx', [B]))))
    out.append(('iwctx', opener, ('collect', 'vec', ('rep', ('mwctx', ('cfgjust', 'seqctx', [A])), 0, None))))
    out.append(('iwctx', opener, ('or', ('then', ('just', [50]), ('cfgjust', 'seqctx', [A])), ('mwctx', ('cfgjust', 'keep', [51])))))
    # nested providers: inner overrides, outer visible again afterwards
    out.append(('iwctx', opener, ('then', ('iwctx', ('just', [50]), ('mwctx', ('empty',))), ('mwctx', ('cfgjust', 'seqctx', [A])))))
    out.append(('withctx', ('vtoks', [B]), ('then', ('ornot', ('iwctx', ('just', [A]), ('mwctx', ('just', [51])))), ('mwctx', ('cfgjust', 'seqctx', [A])))))
    out.append(('iwctx', opener, ('mapctx', 'lenof', ('collect', 'vec', ('cfgrep', 'exactlyctx', ('rep', ('just', [50]), 0, None))))))
    out.append(('iwctx', opener, ('mapctx', ('ctag', 3), ('mwctx', ('any',)))))
    # a configured sequence may be EMPTY (zero echoed delimiters): `just(placeholder).configure(seq = ctx)` is then `just("")`,
    # whatever the placeholder was
    opener0 = ('collect', 'string', ('rep', ('oneof', [A, B]), 0, 2))
    rest = ('collect', 'string', ('rep', ('any',), 0, None))
    for ph in ([B], [A, B], []):
        out.append(('withctx', ('vtoks', []), ('then', ('cfgjust', 'seqctx', ph), rest)))
        out.append(('withctx', ('vtoks', [A]), ('then', ('cfgjust', 'seqctx', ph), rest)))
        out.append(('twctx', opener0, ('then', ('just', [50]), ('then', ('cfgjust', 'seqctx', ph), rest))))
        out.append(('iwctx', opener0, ('collect', 'vec', ('rep', ('then', ('just', [50]), ('cfgjust', 'seqctx', ph)), 0, None))))
    return out


LB, RB, LC, RC = 91, 93, 123, 125


def nd_family():
    """recover_with(via_parser(nested_delimiters(start, end, others, ..))): (grammar, defs) pairs. The model needs the recursive
    block of the strategy as definition 0 (`ndblock`); the real function builds its own."""
    a, b = ('just', [A]), ('just', [B])
    rest = ('collect', 'string', ('rep', ('any',), 0, None))
    out = []
    for (s, e, others) in [(LP, RP, []), (LP, RP, [LB, RB]), (LB, RB, [LP, RP]), (LP, RP, [LB, RB, LC, RC]), (LP, LP, []), (LP, RP, [RP, LP])]:
        defs = [('ndblock', 0, s, e, others)]
        nd = lambda p: ('recnd', p, 0, s, e, others)
        block = ('delim', ('collect', 'vec', ('rep', a, 0, None)), ('just', [s]), ('just', [e]))
        ps = [block, ('delim', a, ('just', [s]), ('just', [e])), ('then', ('just', [s]), ('then', b, ('just', [e]))), a,
              ('delim', ('validate', 'always', 5, 1, a), ('just', [s]), ('just', [e]))]
        for p in ps:
            r = nd(p)
            for g in [('then', r, rest), ('then', ('collect', 'vec', ('rep', r, 0, None)), rest),
                      ('then', ('or', ('then', r, b), ('then', r, a)), rest), ('then', a, ('then', r, rest)),
                      ('then', ('collect', 'vec', ('sep', r, ('just', [COMMA]), 0, None, False, True)), rest),
                      ('then', ('ornot', ('then', r, b)), rest), r,
                      # recovery inside the region that is recovered: the outer strategy skips over the inner one's region
                      ('then', ('recnd', ('delim', r, ('just', [s]), ('just', [e])), 0, s, e, others), rest)]:
                out.append((g, defs))
    return out


def length_sensitive_family():
    """consumers whose success depends on HOW MANY items an iterable parser yields (collect_exactly N), over every kind of
    iterable parser, placed where the output is built and where it is discarded (check-mode contexts inside a parse)"""
    a, b = ('just', [A]), ('just', [B])
    its = [('rep', a, 0, None), ('rep', a, 1, 3), ('rep', ('oneof', [A, B]), 0, 2),
           ('sep', a, ('just', [COMMA]), 0, None, False, False), ('sep', a, ('just', [COMMA]), 0, None, True, True),
           ('ornotit', a), ('intoiter', ('collect', 'vec', ('rep', a, 0, None))), ('intoiter', ('just', [A, B])),
           ('intoiter', ('ornot', a)), ('intoiter', ('collect', 'vec', ('rep', ('oneof', [A, B]), 1, 3))),
           ('thenit', ('rep', a, 0, 2), ('rep', b, 1, None)), ('thenit', ('intoiter', ('just', [A])), ('rep', b, 0, 3)),
           ('thenit', ('ornotit', a), ('intoiter', ('collect', 'vec', ('rep', b, 0, None)))),
           ('enum', ('rep', a, 0, None)), ('enum', ('intoiter', ('just', [A, B])))]
    rest = ('collect', 'string', ('rep', ('any',), 0, None))
    out = []
    for it in its:
        for n in range(0, 4):
            g = ('collectx', n, it)
            for c in [g, ('ignored', g), ('theni', ('empty',), g), ('ithen', g, ('empty',)), ('to', ('vnat', 5), g),
                      ('ornot', ('ignored', g)), ('iterp', ('rep', ('ignored', ('then', g, ('just', [COMMA]))), 0, None))]:
                out.append(('then', c, rest))
    return out


def unwrap_family():
    """every wrapper that unwraps / shelters the pending error (recovery strategies, map_err, try_map, not, labels) around
    every parser shape that can fail, nested two deep: a failing run must always leave a pending error behind, for every
    error type — the zero-sized one included (fast paths!)"""
    a, b = ('just', [A]), ('just', [B])
    xs = [a, ('then', a, b), ('any',), ('oneof', [A, B]), ('filter', ('tokis', A), ('any',)), ('cfail', 3), ('end',),
          ('trymap', ('tokis', B), 4, 2, ('any',)), ('collect', 'vec', ('rep', a, 1, None)), ('collectx', 2, ('rep', a, 0, None)),
          ('choices', []), ('not', a), ('andis', a, b), ('validate', 'always', 5, 1, a)]
    inners = DECORATIONS + [lambda x: ('trymap', ('never',), 4, 2, x), lambda x: ('not', ('not', x)), lambda x: ('boxed', x),
                            lambda x: ('rewind', x), lambda x: ('mwstate', x), lambda x: ('ornot', ('then', x, ('cfail', 3)))]
    outers = RECOVERIES + [lambda x: ('maperr', 3, x)]
    out = []
    for x in xs:
        for i in inners:
            for o in outers:
                g = o(i(x))
                out.append(g)
                out.append(('or', ('then', g, b), ('then', g, a)))
    return out


def abandon_family():
    """emit-then-fail bodies inside every kind of abandonable context (the emission must not survive), and the same
    bodies made to succeed (the emission must be kept)"""
    xs = [('any',), ('just', [A]), ('oneof', [A, B])]
    ys = [('just', [B]), ('end',), ('cfail', 3), ('just', [A, A])]
    out = []
    rest = ('toslice', ('iterp', ('rep', ('any',), 0, None)))
    for x in xs:
        for em in EMITTERS:
            ex = em(x)
            for y in ys:
                bodies = [('andis', ex, y), ('then', ('rewind', ex), y), ('then', ex, y),
                          ('then', ('recvia', ('then', x, ('just', [B])), ('to', ('vnat', 9), ('empty',))), y),
                          ('andis', ('then', ex, ('ornot', ('just', [B]))), ('not', y))]
                for b in bodies:
                    ctxs = [('ornot', b), ('or', b, ('any',)), ('choices', [b, ('any',)]), ('choicet', [b, ('any',), ('empty',)]),
                            ('collect', 'vec', ('rep', b, 0, None)), ('collect', 'count', ('rep', b, 0, 2)),
                            ('then', ('not', b), ('ornot', ('any',))), ('andis', ('ornot', ('any',)), ('ornot', b)),
                            ('foldl', 'fpair', ('empty',), ('rep', b, 0, None)),
                            ('collect', 'vec', ('sep', ('any',), b, 0, None, False, True)),
                            ('recvia', b, ('to', ('vnat', 8), ('ornot', ('any',)))), ('rewind', ('ornot', b)),
                            ('collect', 'vec', ('ornotit', b)), b,
                            # iterable parsers used directly as parsers (the unbounded one takes a fast path of its own)
                            ('iterp', ('rep', b, 0, None)), ('iterp', ('rep', b, 1, 3)), ('toslice', ('iterp', ('rep', b, 0, None))),
                            ('iterp', ('sep', ('any',), b, 0, None, False, True)), ('ithen', ('iterp', ('rep', b, 0, None)), ('empty',))]
                    for c in ctxs:
                        out.append(('then', c, rest))
    return out


def furthest_family():
    """an alternative that fails deep in the input next to a wrapped parser that fails earlier / later / succeeds:
    every wrapper that touches the pending error must keep what the other alternative recorded"""
    deep = [('then', ('just', [A]), ('then', ('just', [B]), ('just', [B]))), ('then', ('just', [A, B]), ('oneof', [A, EA])),
            ('ithen', ('just', [A]), ('filter', ('tokis', B), ('any',)))]
    inners = [('just', [A]), ('just', [B, A]), ('then', ('any',), ('just', [A])), ('collect', 'vec', ('rep', ('just', [A]), 1, None)),
              ('oneof', [A, B]), ('then', ('just', [A]), ('ornot', ('just', [B])))]
    wraps = C01_UNARIES + [lambda a: ('validate', 'always', 5, 1, a), lambda a: ('mwstate', a)]
    out = []
    for d in deep:
        for w in wraps:
            for i in inners:
                wi = w(i)
                out.extend([('or', d, wi), ('or', wi, d), ('choices', [d, wi]), ('then', ('ornot', d), wi),
                            ('then', ('ornot', ('rewind', d)), wi), ('or', d, ('then', wi, ('just', [B])))])
    return out
