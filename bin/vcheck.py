"""Shared machinery of the checks: build steps, proof audit, running the implementation (Rust harness)
and the model (Lean driver) on the same case lines, comparison, violation search, evidence."""
import hashlib
import json
import multiprocessing
import os
import re
import subprocess
import sys
import time

VERIF = os.path.dirname(os.path.dirname(os.path.abspath(__file__)))
LEAN = os.path.join(VERIF, 'lean')
HARNESS = os.path.join(VERIF, 'harness')
WORK = os.path.join(VERIF, 'work')
DRIVER = os.path.join(LEAN, '.lake', 'build', 'bin', 'driver')
# bin/implcov overrides these three to build and run an instrumented copy of the harness (never used by the registered checks)
HTARGET = os.environ.get('VERIF_HARNESS_TARGET') or os.path.join(HARNESS, 'target')
HBIN_DIR = os.path.join(HTARGET, 'debug')


def hbin(kind, ek):
    kind = re.sub(r'\d+$', '', kind)      # mapped0/1/3 -> mapped
    if kind in ('array', 'bstream', 'iomap', 'wctx', 'mspan'):
        kind = 'kinds'
    return os.path.join(HBIN_DIR, f'h_{kind}_{ek}')
ALLOWED_AXIOMS = {'propext', 'Classical.choice', 'Quot.sound'}
FORBIDDEN = re.compile(r'\bsorry\b|\badmit\b|^axiom |native_decide|bv_decide|implemented_by|\bunsafe |maxHeartbeats 0')

ENV = dict(os.environ, CARGO_NET_OFFLINE='true')


def sh(cmd, cwd=None, timeout=None, env=None):
    p = subprocess.run(cmd, cwd=cwd, shell=isinstance(cmd, str), stdout=subprocess.PIPE,
                       stderr=subprocess.STDOUT, text=True, timeout=timeout, env=env or ENV)
    return p.returncode, p.stdout


# ------------------------------------------------------------------------------------------------
# build + proof audit

def strip_comments(src):
    """remove Lean block comments (nested) and line comments"""
    out, i, depth = [], 0, 0
    while i < len(src):
        if src.startswith('/-', i):
            depth += 1
            i += 2
        elif src.startswith('-/', i) and depth > 0:
            depth -= 1
            i += 2
        elif depth > 0:
            if src[i] == '\n':
                out.append('\n')
            i += 1
        elif src.startswith('--', i):
            while i < len(src) and src[i] != '\n':
                i += 1
        else:
            out.append(src[i])
            i += 1
    return ''.join(out)


def lean_sources():
    res = []
    for root, _, files in os.walk(LEAN):
        if '.lake' in root:
            continue
        for f in files:
            if f.endswith('.lean'):
                res.append(os.path.join(root, f))
    return sorted(res)


def forbidden_hits():
    hits = []
    for f in lean_sources():
        code = strip_comments(open(f).read())
        for n, line in enumerate(code.split('\n'), 1):
            if FORBIDDEN.search(line):
                hits.append(f"{os.path.relpath(f, VERIF)}:{n}: {line.strip()}")
    return hits


def build_lean(prop_module, thorough=False):
    """Build the model, the driver and the property's proof module; re-elaborate the property file to
    collect `#print axioms`. Returns dict(ok, log, theorems={name: [axioms]}, bad=[...])"""
    t0 = time.time()
    res = {'ok': True, 'log': '', 'theorems': {}, 'bad': [], 'forbidden': []}
    rc, out = sh(['lake', 'build', 'driver', f'ChumskyModel.Proofs.{prop_module}'], cwd=LEAN, timeout=3000)
    res['log'] += out
    if rc != 0:
        res['ok'] = False
        res['bad'].append(f'lake build failed for ChumskyModel.Proofs.{prop_module}')
        res['failed_theorems'] = failed_decls(out)
        return res
    path = os.path.join('ChumskyModel', 'Proofs', prop_module + '.lean')
    rc, out = sh(['lake', 'env', 'lean', path], cwd=LEAN, timeout=3000)
    res['log'] += out
    if rc != 0:
        res['ok'] = False
        res['bad'].append(f'lean {path} failed')
        res['failed_theorems'] = failed_decls(out)
        return res
    for m in re.finditer(r"'([^']+)' depends on axioms: \[([^\]]*)\]", out):
        res['theorems'][m.group(1)] = [a.strip() for a in m.group(2).split(',') if a.strip()]
    for m in re.finditer(r"'([^']+)' does not depend on any axioms", out):
        res['theorems'][m.group(1)] = []
    for name, ax in res['theorems'].items():
        extra = [a for a in ax if a not in ALLOWED_AXIOMS]
        if extra:
            res['ok'] = False
            res['bad'].append(f'theorem {name} depends on non-standard axioms {extra}')
    if not res['theorems']:
        res['ok'] = False
        res['bad'].append(f'no property theorem reported by {path}')
    res['forbidden'] = forbidden_hits()
    if res['forbidden']:
        res['ok'] = False
        res['bad'].append('forbidden tokens: ' + '; '.join(res['forbidden'][:5]))
    if thorough:
        rc, out = sh(['lake', 'env', 'leanchecker', f'ChumskyModel.Proofs.{prop_module}'], cwd=LEAN, timeout=3000)
        res['leanchecker_rc'] = rc
        if rc != 0:
            res['ok'] = False
            res['bad'].append('leanchecker rejected the module: ' + out[-300:])
    res['wall_s'] = time.time() - t0
    return res


def failed_decls(log):
    return sorted(set(re.findall(r'error: [^\n]*?([A-Za-z0-9_./]+\.lean:\d+:\d+)', log)))[:10]


def build_harness(bins=None):
    lock_src = '/repo/Cargo.lock'
    lock_dst = os.path.join(HARNESS, 'Cargo.lock')
    if not os.path.exists(lock_dst):
        import shutil
        shutil.copy(lock_src, lock_dst)
    env = dict(ENV, RUSTFLAGS='--cfg chumsky_verif ' + os.environ.get('VERIF_HARNESS_RUSTFLAGS_EXTRA', ''))
    if os.environ.get('VERIF_HARNESS_TARGET'):
        env['CARGO_TARGET_DIR'] = HTARGET
    cmd = ['cargo'] + ([os.environ['VERIF_CARGO_TOOLCHAIN']] if os.environ.get('VERIF_CARGO_TOOLCHAIN') else []) + ['build', '--offline', '--quiet']
    for b in (bins or []):
        cmd += ['--bin', b]
    rc, out = sh(cmd, cwd=HARNESS, timeout=6000, env=env)
    return rc == 0, out


# ------------------------------------------------------------------------------------------------
# observations

def parse_M(rest):
    """machine / implementation observation"""
    if rest.startswith('R '):
        parts = rest[2:].split(' ; ')
        out = parts[0]
        errs = parts[1].split('|') if len(parts) > 1 and parts[1] else []
        insp = parts[2][5:] if len(parts) > 2 else ''
        ir = parts[3][3:] if len(parts) > 3 else None
        return {'kind': 'R', 'out': None if out == 'none' else out[3:], 'errs': errs, 'insp': insp, 'ir': ir}
    if rest.startswith('P '):
        return {'kind': 'P', 'site': rest[2:]}
    return {'kind': rest.split(' ')[0]}


def parse_S(rest):
    if rest.startswith('ok '):
        parts = rest[3:].split(' ; ')
        em = parts[1].split('|') if len(parts) > 1 and parts[1] else []
        insp = parts[2][5:] if len(parts) > 2 else ''
        return {'kind': 'ok', 'val': parts[0], 'emits': em, 'insp': insp}
    if rest == 'fail':
        return {'kind': 'fail'}
    if rest.startswith('P '):
        return {'kind': 'P', 'site': rest[2:]}
    return {'kind': rest.split(' ')[0]}


def err_span(e):
    m = re.match(r'\{(\d+)-(\d+);', e)
    return (int(m.group(1)), int(m.group(2))) if m else None


def limit_mem():
    """children (harness workers, driver) get an address-space cap: a runaway recursion must not take the sandbox down"""
    import resource
    cap = 3 * 1024 ** 3
    resource.setrlimit(resource.RLIMIT_AS, (cap, cap))


def run_stream(binary, text, timeout):
    try:
        p = subprocess.run([binary], input=text, stdout=subprocess.PIPE, stderr=subprocess.PIPE, text=True,
                           timeout=timeout, preexec_fn=None if binary == DRIVER else limit_mem)
        return p.returncode, p.stdout, p.stderr
    except subprocess.TimeoutExpired as e:
        return -9, (e.stdout or b'').decode() if isinstance(e.stdout, bytes) else (e.stdout or ''), 'timeout'


def index_obs(text):
    """id.k -> {tag: rest}"""
    d = {}
    for line in text.split('\n'):
        if not line:
            continue
        sp = line.split(' ', 2)
        if len(sp) < 3:
            d.setdefault('__bad__', {}).setdefault('lines', []).append(line)
            continue
        d.setdefault(sp[0], {})[sp[1]] = sp[2]
    return d


def expand_inputs(spec_tokens):
    """inputs of a case line (python mirror of the harness/driver enumeration), lazily indexable"""
    out = []
    i = 0
    t = spec_tokens
    while i < len(t):
        if t[i] == 'all':
            maxlen = int(t[i + 1]); k = int(t[i + 2]); alpha = [int(x) for x in t[i + 3:i + 3 + k]]
            i += 3 + k
            for n in range(maxlen + 1):
                if n == 0:
                    out.append([])
                    continue
                idx = [0] * n
                while True:
                    out.append([alpha[j] for j in idx])
                    p = n
                    carry = True
                    while carry and p > 0:
                        p -= 1
                        idx[p] += 1
                        if idx[p] < len(alpha):
                            carry = False
                        else:
                            idx[p] = 0
                    if carry:
                        break
        elif t[i] == 'lit':
            n = int(t[i + 1])
            out.append([int(x) for x in t[i + 2:i + 2 + n]])
            i += 2 + n
        else:
            raise ValueError('bad input spec ' + t[i])
    return out


def case_with_single_input(line, k):
    """the same case line restricted to its k-th input"""
    head, _, spec = line.partition(' I ')
    inputs = expand_inputs(spec.split())
    toks = inputs[k]
    return head + ' I lit ' + str(len(toks)) + ''.join(' ' + str(x) for x in toks), toks


def _worker(args):
    (wid, lines, prop_name, timeout) = args
    import props
    prop = props.PROPS[prop_name]
    text = '\n'.join(lines) + '\n'
    t0 = time.time()
    groups = {}
    for line in lines:
        h = line.split(' ', 4)
        groups.setdefault((h[2], h[1]), []).append(line)
    rc_i, out_i, err_i = 0, '', ''
    for (kind, ek), ls in groups.items():
        rc, o, e = run_stream(hbin(kind, ek), '\n'.join(ls) + '\n', timeout)
        out_i += o
        if rc != 0:
            rc_i, err_i = rc, e
    t1 = time.time()
    rc_m, out_m, err_m = run_stream(DRIVER, text, timeout)
    t2 = time.time()
    impl = index_obs(out_i)
    model = index_obs(out_m)
    stats = {'pairs': 0, 'corr_disagree': 0, 'pred_fail': 0, 'nontrivial': 0, 'outcomes': {},
             'impl_s': t1 - t0, 'model_s': t2 - t1, 'crash': None, 'samples': []}
    fails = []   # (kind, case line, k, detail)
    if rc_i != 0:
        stats['crash'] = f'harness exited rc={rc_i}: {err_i[-300:]}'
    if rc_m != 0:
        stats['crash'] = f'driver exited rc={rc_m}: {err_m[-300:]}'
    by_id = {}
    for line in lines:
        by_id[line.split(' ', 1)[0]] = line
    prop.check_chunk(by_id, impl, model, stats, fails)
    for bad in impl.get('__bad__', {}).get('lines', []) + model.get('__bad__', {}).get('lines', []):
        fails.append(('bad-line', None, 0, bad))
    for line in out_i.split('\n') + out_m.split('\n'):
        if line.startswith('ERR '):
            fails.append(('bad-line', None, 0, line))
    return stats, fails


def run_cases(prop_name, lines, jobs=16, timeout=600, per_case=False):
    """run all case lines through implementation and model in parallel chunks"""
    if not lines:
        return {'pairs': 0, 'corr_disagree': 0, 'pred_fail': 0, 'nontrivial': 0, 'outcomes': {}, 'samples': [],
                'impl_s': 0, 'model_s': 0, 'crash': None}, []
    import props
    prop = props.PROPS[prop_name]
    n = max(1, len(lines) if per_case else min(jobs * 4, len(lines)))
    chunks = [[] for _ in range(n)]
    gidx = {}
    for line in lines:
        g = prop.group_of(line)
        if g not in gidx:
            gidx[g] = len(gidx) % n
        chunks[gidx[g]].append(line)
    args = [(i, c, prop_name, timeout) for i, c in enumerate(chunks) if c]
    with multiprocessing.Pool(jobs) as pool:
        results = pool.map(_worker, args)
    tot = {'pairs': 0, 'corr_disagree': 0, 'pred_fail': 0, 'outcomes': {}, 'impl_s': 0.0, 'model_s': 0.0,
           'crash': None, 'samples': [], 'nontrivial': 0, 'known': {}}
    fails = []
    for st, fl in results:
        for k in ('pairs', 'corr_disagree', 'pred_fail'):
            tot[k] += st[k]
        tot['impl_s'] += st['impl_s']
        tot['model_s'] += st['model_s']
        for k, v in st['outcomes'].items():
            tot['outcomes'][k] = tot['outcomes'].get(k, 0) + v
        for k, v in st.get('known', {}).items():
            tot['known'][k] = tot['known'].get(k, 0) + v
        tot['nontrivial'] += st['nontrivial']
        if st['crash']:
            tot['crash'] = st['crash']
        if len(tot['samples']) < 5:
            tot['samples'].extend(st['samples'])
        fails.extend(fl)
    return tot, fails
