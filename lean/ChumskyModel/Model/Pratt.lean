/-
  Model/Pratt.lean — `atom.pratt(ops)` (`pratt.rs:465-479, 532-748, 844-978`).

  The Pratt parser is modelled as a function layered on top of the runner (atom and operator parsers are ordinary
  grammars `G`): the machine `prattGo` mirrors `pratt_go` (checkpoints `pre_expr` / `pre_op`, rewinds after every
  operator that matched but whose operand failed, declaration-order iteration, binding powers), the reading `sPratt`
  is the textbook binding-power recursion over `peg` results.
-/
import ChumskyModel.Model.Spec
namespace Chumsky

inductive PrattOp where
  | infix (leftAssoc : Bool) (bp : Nat) (op : G)
  | prefix (bp : Nat) (op : G)
  | postfix (bp : Nat) (op : G)
  deriving Repr, Inhabited

/-- `Associativity::left_power` / `right_power` (`pratt.rs:465-479`) -/
def leftPower (leftAssoc : Bool) (bp : Nat) : Nat := if leftAssoc then 2 * bp else 2 * bp + 1
def rightPower (leftAssoc : Bool) (bp : Nat) : Nat := if leftAssoc then 2 * bp + 1 else 2 * bp

/-- fold callbacks of the harness: build the tree and record the span handed to the callback -/
def foldInfix (lhs op rhs : Val) (sp : Nat × Nat) : Val := .tag 20 (.pair (.pair (.pair lhs op) rhs) (.span sp.1 sp.2))
def foldPrefix (op rhs : Val) (sp : Nat × Nat) : Val := .tag 21 (.pair (.pair op rhs) (.span sp.1 sp.2))
def foldPostfix (lhs op : Val) (sp : Nat × Nat) : Val := .tag 22 (.pair (.pair lhs op) (.span sp.1 sp.2))

/-! ### machine -/

/-- prefix operators in declaration order (`Vec::do_parse_prefix` over `Prefix::do_parse_prefix`):
    `none` = no prefix operator applied (state = after the rewinds of the failed attempts) -/
def prattPrefix (R : Mode → G → St → Out) (rec : Nat → St → Out) (env : Env) (m : Mode) (preExpr : Chk) :
    List PrattOp → St → Sum St Out
  | [], st => .inl st
  | .prefix bp op :: rest, st =>
    match R m op st with
    | .ok opv st1 =>
      (match rec (2 * bp) st1 with
       | .ok rhs st2 =>
         .inr (.ok (match m with | .emit => foldPrefix opv rhs (env.mkSpan preExpr.pos st2.pos) | .check => .unit) st2)
       | .fail st2 => prattPrefix R rec env m preExpr rest (st2.rewind preExpr)
       | .panic w => .inr (.panic w)
       | .oof => .inr .oof)
    | .fail st1 => prattPrefix R rec env m preExpr rest (st1.rewind preExpr)
    | .panic w => .inr (.panic w)
    | .oof => .inr .oof
  | _ :: rest, st => prattPrefix R rec env m preExpr rest st

/-- postfix operators in declaration order: `inr` = one applied, `inl` = none (state after the rewinds) -/
def prattPostfix (R : Mode → G → St → Out) (env : Env) (m : Mode) (preExpr preOp : Chk) (minP : Nat) (lhs : Val) :
    List PrattOp → St → Sum St Out
  | [], st => .inl st
  | .postfix bp op :: rest, st =>
    if 2 * bp + 1 ≥ minP then
      match R m op st with
      | .ok opv st1 =>
        .inr (.ok (match m with | .emit => foldPostfix lhs opv (env.mkSpan preExpr.pos st1.pos) | .check => .unit) st1)
      | .fail st1 => prattPostfix R env m preExpr preOp minP lhs rest (st1.rewind preOp)
      | .panic w => .inr (.panic w)
      | .oof => .inr .oof
    else prattPostfix R env m preExpr preOp minP lhs rest st
  | _ :: rest, st => prattPostfix R env m preExpr preOp minP lhs rest st

/-- infix operators in declaration order -/
def prattInfix (R : Mode → G → St → Out) (rec : Nat → St → Out) (env : Env) (m : Mode) (preExpr preOp : Chk)
    (minP : Nat) (lhs : Val) : List PrattOp → St → Sum St Out
  | [], st => .inl st
  | .infix la bp op :: rest, st =>
    if leftPower la bp ≥ minP then
      match R m op st with
      | .ok opv st1 =>
        (match rec (rightPower la bp) st1 with
         | .ok rhs st2 =>
           .inr (.ok (match m with | .emit => foldInfix lhs opv rhs (env.mkSpan preExpr.pos st2.pos) | .check => .unit) st2)
         | .fail st2 => prattInfix R rec env m preExpr preOp minP lhs rest (st2.rewind preOp)
         | .panic w => .inr (.panic w)
         | .oof => .inr .oof)
      | .fail st1 => prattInfix R rec env m preExpr preOp minP lhs rest (st1.rewind preOp)
      | .panic w => .inr (.panic w)
      | .oof => .inr .oof
    else prattInfix R rec env m preExpr preOp minP lhs rest st
  | _ :: rest, st => prattInfix R rec env m preExpr preOp minP lhs rest st

/-- the operator loop of `pratt_go` -/
def prattLoop (R : Mode → G → St → Out) (rec : Nat → St → Out) (env : Env) (m : Mode) (ops : List PrattOp)
    (preExpr : Chk) (minP : Nat) : Nat → St → Val → Out
  | 0, _, _ => .oof
  | k + 1, st, lhs =>
    let preOp := st.save
    match prattPostfix R env m preExpr preOp minP lhs ops st with
    | .inr (.ok v st1) => prattLoop R rec env m ops preExpr minP k st1 v
    | .inr o => o
    | .inl st1 =>
      match prattInfix R rec env m preExpr preOp minP lhs ops st1 with
      | .inr (.ok v st2) => prattLoop R rec env m ops preExpr minP k st2 v
      | .inr o => o
      | .inl st2 => .ok lhs (st2.rewind preOp)

/-- `Pratt::pratt_go` -/
def prattGo (R : Mode → G → St → Out) (env : Env) (m : Mode) (atom : G) (ops : List PrattOp) : Nat → Nat → St → Out
  | 0, _, _ => .oof
  | fuel + 1, minP, st =>
    let preExpr := st.save
    let rec_ := prattGo R env m atom ops fuel
    match prattPrefix R rec_ env m preExpr ops st with
    | .inr (.ok v st1) => prattLoop R rec_ env m ops preExpr minP fuel st1 v
    | .inr o => o
    | .inl st0 =>
      match R m atom st0 with
      | .ok v st1 => prattLoop R rec_ env m ops preExpr minP fuel st1 v
      | o => o

/-- `atom.pratt(ops)` run as a parser (`min_power = 0`) -/
def runPratt (fuel : Nat) (env : Env) (m : Mode) (atom : G) (ops : List PrattOp) (st : St) : Out :=
  prattGo (fun m g st => run fuel env m g st) env m atom ops fuel 0 st

/-- `Parser::parse` / `check` of `atom.pratt(ops)` (`then_ignore(end())`, pending error pushed on failure) -/
def parseTopPratt (fuel : Nat) (env : Env) (m : Mode) (atom : G) (ops : List PrattOp) : TopOut :=
  match (runPratt fuel env m atom ops St.init).andThen fun v st1 =>
          (run fuel env .check .end_ st1).andThen fun _ st2 => .ok v st2 with
  | .panic w => .panic w
  | .oof => .oof
  | .ok v st => .result ⟨some v, st.errs.map (·.err)⟩ st
  | .fail st =>
    let alt := match st.alt with
      | some a => a.err
      | none => env.ek.expectedFound [] none (env.mkSpan st.pos st.pos)
    .result ⟨none, st.errs.map (·.err) ++ [alt]⟩ st

/-! ### reading: the textbook binding-power algorithm, no state -/

def sPrattPrefix (P : G → SS → SOut) (rec : Nat → SS → SOut) (env : Env) (start : SS) : List PrattOp → Option SOut
  | [] => none
  | .prefix bp op :: rest =>
    match P op start with
    | .ok opv s1 e1 =>
      (match rec (2 * bp) s1 with
       | .ok rhs s2 e2 => some (.ok (foldPrefix opv rhs (env.mkSpan start.pos s2.pos)) s2 (e1 ++ e2))
       | .fail => sPrattPrefix P rec env start rest
       | .panic w => some (.panic w)
       | .oof => some .oof)
    | .fail => sPrattPrefix P rec env start rest
    | .panic w => some (.panic w)
    | .oof => some .oof
  | _ :: rest => sPrattPrefix P rec env start rest

def sPrattPostfix (P : G → SS → SOut) (env : Env) (start : SS) (minP : Nat) (lhs : Val) (s : SS) :
    List PrattOp → Option SOut
  | [] => none
  | .postfix bp op :: rest =>
    if 2 * bp + 1 ≥ minP then
      match P op s with
      | .ok opv s1 e1 => some (.ok (foldPostfix lhs opv (env.mkSpan start.pos s1.pos)) s1 e1)
      | .fail => sPrattPostfix P env start minP lhs s rest
      | .panic w => some (.panic w)
      | .oof => some .oof
    else sPrattPostfix P env start minP lhs s rest
  | _ :: rest => sPrattPostfix P env start minP lhs s rest

def sPrattInfix (P : G → SS → SOut) (rec : Nat → SS → SOut) (env : Env) (start : SS) (minP : Nat) (lhs : Val) (s : SS) :
    List PrattOp → Option SOut
  | [] => none
  | .infix la bp op :: rest =>
    if leftPower la bp ≥ minP then
      match P op s with
      | .ok opv s1 e1 =>
        (match rec (rightPower la bp) s1 with
         | .ok rhs s2 e2 => some (.ok (foldInfix lhs opv rhs (env.mkSpan start.pos s2.pos)) s2 (e1 ++ e2))
         | .fail => sPrattInfix P rec env start minP lhs s rest
         | .panic w => some (.panic w)
         | .oof => some .oof)
      | .fail => sPrattInfix P rec env start minP lhs s rest
      | .panic w => some (.panic w)
      | .oof => some .oof
    else sPrattInfix P rec env start minP lhs s rest
  | _ :: rest => sPrattInfix P rec env start minP lhs s rest

def sPrattLoop (P : G → SS → SOut) (rec : Nat → SS → SOut) (env : Env) (ops : List PrattOp) (start : SS) (minP : Nat) :
    Nat → SS → Val → List Emis → SOut
  | 0, _, _, _ => .oof
  | k + 1, s, lhs, em =>
    match sPrattPostfix P env start minP lhs s ops with
    | some (.ok v s1 e1) => sPrattLoop P rec env ops start minP k s1 v (em ++ e1)
    | some o => o
    | none =>
      match sPrattInfix P rec env start minP lhs s ops with
      | some (.ok v s2 e2) => sPrattLoop P rec env ops start minP k s2 v (em ++ e2)
      | some o => o
      | none => .ok lhs s em

def sPratt (P : G → SS → SOut) (env : Env) (atom : G) (ops : List PrattOp) : Nat → Nat → SS → SOut
  | 0, _, _ => .oof
  | fuel + 1, minP, s =>
    let rec_ := sPratt P env atom ops fuel
    match sPrattPrefix P rec_ env s ops with
    | some (.ok v s1 e1) => sPrattLoop P rec_ env ops s minP fuel s1 v e1
    | some o => o
    | none =>
      match P atom s with
      | .ok v s1 e1 => sPrattLoop P rec_ env ops s minP fuel s1 v e1
      | o => o

def pegPratt (fuel : Nat) (env : Env) (atom : G) (ops : List PrattOp) (s : SS) (ctx : Val) : SOut :=
  sPratt (fun g s => peg fuel env g s ctx) env atom ops fuel 0 s

def pegTopPratt (fuel : Nat) (env : Env) (atom : G) (ops : List PrattOp) : SOut :=
  (pegPratt fuel env atom ops ⟨0, []⟩ .unit).andThen fun v s1 e1 =>
    (peg fuel env .end_ s1 .unit).andThen fun _ s2 e2 => .ok v s2 (e1 ++ e2)

/-! ### recursive expression grammars: `recursive(|e| atom.pratt(ops))`

  The calculator pattern: the Pratt parser is the body of a `recursive` definition and its atom / operator parsers
  refer back to the whole expression (parenthesised sub-expressions, function-call arguments, ternaries …). `G` has no
  constructor for a Pratt parser, so the knot is tied one level up: inside `atom` and the operators of an `XEnv` the
  reference `.call hole` *is* the expression. Everything else is the ordinary machine: `runX` is `step` with itself as
  the open-recursion runner, except at the hole, where it is `pratt_go` (`recursive.rs:146-190` then `pratt.rs:915-978`). -/

structure XEnv where
  hole : Nat
  atom : G
  ops : List PrattOp
  deriving Repr, Inhabited

def XEnv.isHole (x : XEnv) : G → Bool
  | .call k => k == x.hole
  | _ => false

mutual
def runX (x : XEnv) : Nat → Runner
  | 0 => fun _ _ _ _ => .oof
  | n + 1 => fun env m g st =>
    if x.isHole g then prattGo (fun m g st => runX x n env m g st) env m x.atom x.ops n 0 st
    else step (runX x n) (nextX x n) (mkIterX x n) n env m g st
def nextX (x : XEnv) : Nat → NextRunner
  | 0 => fun _ _ _ _ _ => .oof
  | n + 1 => stepNext (runX x n) (nextX x n) (mkIterX x n)
def mkIterX (x : XEnv) : Nat → MkRunner
  | 0 => fun _ _ _ _ => .oof
  | n + 1 => stepMk (runX x n) (mkIterX x n)
end

mutual
def pegX (x : XEnv) : Nat → SRunner
  | 0 => fun _ _ _ _ => .oof
  | n + 1 => fun env g s ctx =>
    if x.isHole g then sPratt (fun g s => pegX x n env g s ctx) env x.atom x.ops n 0 s
    else pegStep (pegX x n) (pegNextX x n) (pegMkX x n) n env g s ctx
def pegNextX (x : XEnv) : Nat → SNextRunner
  | 0 => fun _ _ _ _ _ => .oof
  | n + 1 => pegNext (pegX x n) (pegNextX x n) (pegMkX x n)
def pegMkX (x : XEnv) : Nat → SMkRunner
  | 0 => fun _ _ _ _ => .oof
  | n + 1 => pegMk (pegX x n) (pegMkX x n)
end

/-- `Parser::parse` / `check` of the recursive expression parser -/
def parseTopX (x : XEnv) (fuel : Nat) (env : Env) (m : Mode) : TopOut :=
  match runX x fuel env m (.thenIgnore (.call x.hole) .end_) St.init with
  | .panic w => .panic w
  | .oof => .oof
  | .ok v st => .result ⟨some v, st.errs.map (·.err)⟩ st
  | .fail st =>
    let alt := match st.alt with
      | some a => a.err
      | none => env.ek.expectedFound [] none (env.mkSpan st.pos st.pos)
    .result ⟨none, st.errs.map (·.err) ++ [alt]⟩ st

def pegTopX (x : XEnv) (fuel : Nat) (env : Env) : SOut :=
  pegX x fuel env (.thenIgnore (.call x.hole) .end_) ⟨0, []⟩ .unit

end Chumsky
