/-
  Model/Basic.lean — the object language of the model.

  * tokens are natural numbers (character codes / token codes)
  * `Val`   : universal output value (the harness maps every parser output into the same shape)
  * the closed library of "user closures" (`MapFn`, `PredFn`, `TryFn`, `ValFn`, `SelFn`,
    `CustomFn`, `FoldFn`, `CfgFn`), each implemented twice: here and in `harness/src/build.rs`
  * `G` / `It`: grammar AST (parsers and iterable parsers) — one constructor per chumsky combinator

  No imports: everything here is core Lean so the driver links as a native executable.
-/
namespace Chumsky

/-- Universal output value. Non-nested so that `DecidableEq` derives. -/
inductive Val where
  | unit
  | tok (t : Nat)
  | toks (ts : List Nat)          -- output of `just(seq)`, `collect::<String>()`
  | pair (a b : Val)
  | nil
  | cons (h t : Val)
  | none
  | some (v : Val)
  | tag (k : Nat) (v : Val)
  | span (s e : Nat)
  | slice (s e : Nat)             -- a sub-slice of the caller's buffer, as an offset range
  | nat (n : Nat)
  | insp (seen : List Nat)        -- a snapshot of the inspector (the tokens it has been fed)
  deriving DecidableEq, Repr, Inhabited

namespace Val
/-- list of values → `cons`-list -/
def ofList : List Val → Val
  | [] => .nil
  | v :: vs => .cons v (ofList vs)
end Val

/-- Expected-pattern of an error (`RichPattern`). -/
inductive Pat where
  | tok (t : Nat)
  | label (l : Nat)
  | any
  | somethingElse
  | eoi
  deriving DecidableEq, Repr, Inhabited

/-- `RichReason`. Custom messages are numbered. -/
inductive Reason where
  | ef (expected : List Pat) (found : Option Nat)
  | custom (msg : Nat)
  deriving DecidableEq, Repr, Inhabited

/-- An error value (superset of what the four error types carry; `ErrKind` decides what is kept). -/
structure Err where
  span : Nat × Nat
  reason : Reason
  ctx : List (Pat × (Nat × Nat))
  deriving DecidableEq, Repr, Inhabited

/-- Which error type the parser is instantiated with. -/
inductive ErrKind where
  | rich | simple | cheap | empty
  deriving DecidableEq, Repr, Inhabited

/-- `Located<Cursor, Error>`: error + the priority position it was recorded at (token index). -/
structure Loc where
  pos : Nat
  err : Err
  deriving DecidableEq, Repr, Inhabited

/-! ### closed library of user closures -/

/-- predicates on values (used by `filter`, `try_map`, `validate`) -/
inductive PredFn where
  | always
  | never
  | tokIs (t : Nat)
  | tokNot (t : Nat)
  | isSome
  | isNil
  deriving DecidableEq, Repr, Inhabited

def PredFn.eval : PredFn → Val → Bool
  | .always, _ => true
  | .never, _ => false
  | .tokIs t, v => v == .tok t
  | .tokNot t, v => v != .tok t
  | .isSome, v => match v with | .some _ => true | _ => false
  | .isNil, v => v == .nil

/-- `map` closures -/
inductive MapFn where
  | tag (k : Nat)
  | fst
  | snd
  | dup
  deriving DecidableEq, Repr, Inhabited

def MapFn.eval : MapFn → Val → Val
  | .tag k, v => .tag k v
  | .fst, v => match v with | .pair a _ => a | v => v
  | .snd, v => match v with | .pair _ b => b | v => v
  | .dup, v => .pair v v

/-- `try_map` / `try_map_with` closures: reject (with custom message `msg`) when the predicate holds -/
structure TryFn where
  rejectIf : PredFn
  msg : Nat
  tag : Nat
  deriving DecidableEq, Repr, Inhabited

/-- `validate` closures: emit `count` custom errors `msg` when the predicate holds; output tagged -/
structure ValFn where
  emitIf : PredFn
  msg : Nat
  count : Nat
  deriving DecidableEq, Repr, Inhabited

/-- fold closures -/
inductive FoldFn where
  | pair      -- foldl: (acc, x) ↦ pair acc x ; foldr: (x, acc) ↦ pair x acc
  | count     -- acc ↦ tag 1 acc   (ignores the item)
  deriving DecidableEq, Repr, Inhabited

def FoldFn.evalL : FoldFn → Val → Val → Val
  | .pair, acc, x => .pair acc x
  | .count, acc, _ => .tag 1 acc

def FoldFn.evalR : FoldFn → Val → Val → Val
  | .pair, x, acc => .pair x acc
  | .count, _, acc => .tag 1 acc

/-- `custom` parsers written against the public `InputRef` API -/
inductive CustomFn where
  | next (msg : Nat)          -- consume one token; at end of input fail with `custom msg`
  | take2Fail (msg : Nat)     -- consume up to two tokens, then fail with `custom msg`
  | nothing                   -- succeed without consuming
  | failNow (msg : Nat)       -- fail at once
  deriving DecidableEq, Repr, Inhabited

/-- container kinds for `collect` -/
inductive CollKind where
  | vec | string | count | unit
  deriving DecidableEq, Repr, Inhabited

/-- flavour of `choice(...)` (tuple impl vs slice/Vec/array impl) -/
inductive ChoiceFlavour where
  | tuple | slice
  deriving DecidableEq, Repr, Inhabited

/-- configuration closures: how to derive a config from the context value -/
inductive CfgFn where
  | seqFromCtx            -- just(..).configure(|cfg, ctx| cfg.seq(ctx as token sequence))
  | exactlyFromCtx        -- repeated().configure(|cfg, ctx| cfg.exactly(ctx as nat))
  | atLeastFromCtx
  | atMostFromCtx
  | keep                  -- leave the config untouched
  deriving DecidableEq, Repr, Inhabited

/-- context mapping closures (`map_ctx`) -/
inductive CtxFn where
  | id
  | tag (k : Nat)
  | lenOf            -- ctx ↦ nat (length of the token sequence / list held by ctx)
  deriving DecidableEq, Repr, Inhabited

/-- `try_configure` closure result: Err(custom msg) when ctx is not a nat -/
structure TryCfgFn where
  msg : Nat
  deriving DecidableEq, Repr, Inhabited

mutual
/-- Parsers. -/
inductive G where
  -- primitives
  | end_
  | empty
  | any
  | just (ts : List Nat)
  | oneOf (ts : List Nat)
  | noneOf (ts : List Nat)
  | select (ts : List Nat)              -- select!{ t if t ∈ ts => tag 7 (tok t) }
  | custom (f : CustomFn)
  | todo
  -- sequencing
  | then_ (a b : G)
  | ignoreThen (a b : G)
  | thenIgnore (a b : G)
  | delimitedBy (a l r : G)
  | paddedBy (a p : G)
  | group (gs : List G)                 -- tuple `group((..))`
  | groupArr (gs : List G)              -- array `group([..; N])`
  -- choice / option / lookahead
  | or_ (a b : G)
  | choice (fl : ChoiceFlavour) (gs : List G)
  | orNot (a : G)
  | not_ (a : G)
  | andIs (a b : G)
  | rewind (a : G)
  -- values
  | map (f : MapFn) (a : G)
  | to (v : Val) (a : G)
  | ignored (a : G)
  | filter (p : PredFn) (a : G)
  | tryMap (f : TryFn) (a : G)
  | tryMapWith (f : TryFn) (a : G)
  | toSpan (a : G)
  | toSlice (a : G)
  | mapWithSpan (a : G)                 -- map_with(|v, e| (v, e.span()))
  | mapWithState (a : G)                -- map_with(|v, e| (v, e.state().snapshot()))
  | mapWithCtx (a : G)                  -- map_with(|v, e| (v, e.ctx().clone()))
  | validate (f : ValFn) (a : G)
  -- iteration consumers
  | collect (k : CollKind) (it : It)
  | collectExactly (n : Nat) (it : It)
  | foldl (f : FoldFn) (a : G) (it : It)
  | foldr (f : FoldFn) (it : It) (b : G)
  | foldlWith (a : G) (it : It)         -- foldl_with(|acc, x, e| (acc, x, e.span()))
  | foldrWith (it : It) (b : G)
  | iterP (it : It)                     -- an IterParser used as a plain parser (output `()`)
  -- errors
  | recoverVia (a r : G)                           -- a.recover_with(via_parser(r))
  | recoverSkipUntil (a skip until_ : G) (fb : Val) -- a.recover_with(skip_until(skip, until, || fb))
  | recoverSkipRetry (a skip until_ : G)           -- a.recover_with(skip_then_retry_until(skip, until))
  | labelled (l : Nat) (asCtx : Bool) (a : G)
  | mapErr (k : Nat) (a : G)                       -- map_err(|e| relabel e with label k) (span preserving)
  -- context / state
  | withCtx (c : Val) (a : G)
  | ignoreWithCtx (a b : G)
  | thenWithCtx (a b : G)
  | mapCtx (f : CtxFn) (a : G)
  | configureJust (c : CfgFn) (ts : List Nat)      -- just(ts).configure(c)
  | withState (a : G)                              -- a.with_state(fresh inspector)
  -- memoization / recursion / wrappers
  | memoized (id : Nat) (a : G)
  | call (k : Nat)                                 -- reference to definition k (recursive / declare+define)
  | boxed (a : G)                                  -- .boxed() / Rc / Arc / & : identity in the model
  deriving Repr, Inhabited

/-- Iterable parsers (`IterParser`). -/
inductive It where
  | repeated (a : G) (lo : Nat) (hi : Option Nat)
  | separatedBy (a sep : G) (lo : Nat) (hi : Option Nat) (lead trail : Bool)
  | enumerate (it : It)
  | orNotIt (a : G)
  | intoIter (a : G)                 -- a's output must be a list value
  | thenIt (a b : It)
  | mapIt (f : MapFn) (it : It)
  | configureRep (c : CfgFn) (it : It)    -- repeated().configure(..): `it` must be `repeated`
  | tryConfigureRep (c : TryCfgFn) (it : It)
  deriving Repr, Inhabited
end

end Chumsky
