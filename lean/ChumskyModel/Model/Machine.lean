/-
  Model/Machine.lean — the faithful layer: `InputRef` as a record, its five operations, and one
  branch of `step` per combinator written to read like the Rust `go::<M>`.

  Recursion is open (`R`, `N`, `K` are the runners for sub-parsers / iterator `next` / `make_iter`);
  `run (fuel+1) = step (run fuel) …`, `run 0 = oof`. Loops are fuel-recursive helpers.
-/
import ChumskyModel.Model.Error
namespace Chumsky

inductive Mode where
  | emit | check
  deriving DecidableEq, Repr, Inhabited

/-- How the token sequence is presented (decides span arithmetic). -/
inductive InKind where
  | slice      -- `&[T]`, arrays, `Stream`, `IoInput`: spans are token indices
  | str        -- `&str`: spans are byte offsets (sum of UTF-8 widths)
  | mapped     -- `Input::map` / `IterInput`: every token carries its own span
  deriving DecidableEq, Repr, Inhabited

/-- Everything that is fixed during one parse. -/
structure Env where
  toks : List Nat
  kind : InKind := .slice
  tspans : List (Nat × Nat) := []      -- `mapped`: the span of every token
  eoi : Nat × Nat := (0, 0)            -- `mapped`: the end-of-input span
  ek : ErrKind := .rich
  defs : List G := []
  memoOn : Bool := true               -- `false`: `memoized()` is the identity (grammars without memoized nodes)
  deriving Inhabited

def utf8w (c : Nat) : Nat :=
  if c < 0x80 then 1 else if c < 0x800 then 2 else if c < 0x10000 then 3 else 4

/-- byte offset of token index `i` in a `&str` -/
def strOff : List Nat → Nat → Nat
  | _, 0 => 0
  | [], _ => 0
  | c :: cs, i + 1 => utf8w c + strOff cs i

/-- offset of token index `i` in the input's own offset units -/
def Env.off (env : Env) (i : Nat) : Nat :=
  match env.kind with
  | .slice => i
  | .str => strOff env.toks i
  | .mapped => i

/-- `I::span(start..end)` for cursors at token indices `i ≤ j` (`input.rs`, `stream.rs`). -/
def Env.mkSpan (env : Env) (i j : Nat) : Nat × Nat :=
  match env.kind with
  | .slice => (i, j)
  | .str => (strOff env.toks i, strOff env.toks j)
  | .mapped =>
      -- explicit empty-match branch: just after the previous token, else just before the next one
      if i == j then
        let at_ := if j > 0 then (env.tspans.getD (j - 1) env.eoi).2
                   else match env.tspans[i]? with
                        | some s => s.1
                        | none => env.eoi.2
        (at_, at_)
      else
        match env.tspans[i]? with
        | some s => (s.1, if j > 0 then (env.tspans.getD (j - 1) env.eoi).2 else env.eoi.2)
        | none => (env.eoi.2, env.eoi.2)

/-- The mutable part of `InputRef` (+ the ghost `log`, never read by `step`). -/
structure St where
  pos : Nat
  errs : List Loc := []
  alt : Option Loc := none
  insp : List Nat := []
  ctx : Val := .unit
  memo : List ((Nat × Nat) × Option Loc) := []
  log : List Loc := []
  deriving Repr, Inhabited, DecidableEq

/-- `Checkpoint` -/
structure Chk where
  pos : Nat
  errCount : Nat
  insp : List Nat
  deriving Repr, Inhabited

namespace St

def save (st : St) : Chk := ⟨st.pos, st.errs.length, st.insp⟩

/-- `InputRef::rewind`: truncate the secondary errors, restore inspector and cursor -/
def rewind (st : St) (c : Chk) : St :=
  { st with pos := c.pos, errs := st.errs.take c.errCount, insp := c.insp }

/-- `InputRef::rewind_input`: restore inspector and cursor, keep the secondary errors -/
def rewindInput (st : St) (c : Chk) : St :=
  { st with pos := c.pos, insp := c.insp }

/-- `next_inner` / `next_maybe_inner`: pull one token, advance, feed the inspector -/
def next (env : Env) (st : St) : Option Nat × St :=
  match env.toks[st.pos]? with
  | some t => (some t, { st with pos := st.pos + 1, insp := st.insp ++ [t] })
  | none => (none, st)

def peek (env : Env) (st : St) : Option Nat := env.toks[st.pos]?

/-- `InputRef::emit` -/
def emit (st : St) (at_ : Nat) (e : Err) : St :=
  { st with errs := st.errs ++ [⟨at_, e⟩] }

/-- the priority rule shared by `add_alt` and `add_alt_err` (`input.rs:1760-1792`), without the log -/
def mergeAlt (ek : ErrKind) (alt : Option Loc) (at_ : Nat) (e : Err) : Option Loc :=
  match alt with
  | none => some ⟨at_, e⟩
  | some a =>
    if a.pos == at_ then some ⟨a.pos, ek.merge a.err e⟩
    else if a.pos > at_ then some a
    else some ⟨at_, e⟩

/-- `InputRef::add_alt` at the current cursor -/
def addAlt (env : Env) (st : St) (exp : List Pat) (found : Option Nat) (span : Nat × Nat) : St :=
  let ev : Loc := ⟨st.pos, env.ek.expectedFound exp found span⟩
  match env.ek with
  | .empty => { st with alt := some ev, log := st.log ++ [ev] }
  | ek =>
    let alt' :=
      match st.alt with
      | none => some ev
      | some a =>
        if a.pos == st.pos then some ⟨a.pos, ek.mergeEF a.err exp found span⟩
        else if a.pos > st.pos then some a
        else some ⟨st.pos, ek.replaceEF a.err exp found span⟩
    { st with alt := alt', log := st.log ++ [ev] }

/-- `InputRef::add_alt_err` for a *new* failure (logged) -/
def addAltErr (env : Env) (st : St) (at_ : Nat) (e : Err) : St :=
  match env.ek with
  | .empty => { st with alt := some ⟨at_, e⟩, log := st.log ++ [⟨at_, e⟩] }
  | ek => { st with alt := mergeAlt ek st.alt at_ e, log := st.log ++ [⟨at_, e⟩] }

/-- `InputRef::add_alt_err` used to put back an error that was taken earlier (not a new failure) -/
def readdAlt (env : Env) (st : St) (new : Option Loc) : St :=
  match new with
  | none => st
  | some n =>
    match env.ek with
    | .empty => { st with alt := some n }
    | ek => { st with alt := mergeAlt ek st.alt n.pos n.err }

end St

/-- result of running a parser -/
inductive Out where
  | ok (v : Val) (st : St)
  | fail (st : St)
  | panic (why : Nat)
  | oof
  deriving Repr, Inhabited, DecidableEq

/-- result of `IterParser::next` -/
inductive ItSt where
  | cnt (n : Nat)
  | fin (b : Bool)
  | enum (k : Nat) (s : ItSt)
  | into (vs : List Val)
  | thn (a : ItSt) (b : Option ItSt)
  | cfg (s : ItSt) (lo hi : Option Nat)
  deriving Repr, Inhabited

inductive ItOut where
  | some (v : Val) (st : St) (ist : ItSt)
  | done (st : St) (ist : ItSt)
  | fail (st : St)
  | panic (why : Nat)
  | oof
  deriving Repr, Inhabited

/-- result of `IterParser::make_iter` -/
inductive MkOut where
  | ok (ist : ItSt) (st : St)
  | fail (st : St)
  | panic (why : Nat)
  | oof
  deriving Repr, Inhabited

/-- panic sites (mapped to names by the driver) -/
def pTodo := 1
def pNoProgress := 2          -- the `debug_assert!`s on repetition progress
def pUnwrapRecovery := 3      -- `take_alt().unwrap()` in recovery.rs
def pUnwrapMapErr := 4        -- `take_alt().unwrap()` in MapErrWithState
def pIllTyped := 90           -- a grammar the harness cannot build (never generated)
def pUndefined := 91          -- `call k` out of range / used before definition

/-- `M::bind(|| v)` -/
def Mode.bind (m : Mode) (v : Val) : Val := match m with | .emit => v | .check => .unit

abbrev Runner := Env → Mode → G → St → Out
abbrev NextRunner := Env → Mode → It → St → ItSt → ItOut
abbrev MkRunner := Env → Mode → It → St → MkOut

/-- sequencing helper: run `k` on success, propagate everything else -/
@[inline] def Out.andThen (o : Out) (k : Val → St → Out) : Out :=
  match o with
  | .ok v st => k v st
  | .fail st => .fail st
  | .panic w => .panic w
  | .oof => .oof

/-- elements of a list-shaped value (`IntoIterator` on the harness's `Val`) -/
def Val.elems : Val → List Val
  | .cons h t => h :: t.elems
  | .toks ts => ts.map .tok
  | .some v => [v]
  | _ => []

def Val.asNat? : Val → Option Nat
  | .nat n => Option.some n
  | _ => Option.none

def Val.asToks? : Val → Option (List Nat)
  | .toks ts => Option.some ts
  | _ => Option.none

def CtxFn.eval : CtxFn → Val → Val
  | .id, v => v
  | .tag k, v => .tag k v
  | .lenOf, v => match v with
      | .toks ts => .nat ts.length
      | v => .nat v.elems.length

/-! ### primitives -/

/-- one-token primitives share this shape: pull a token, accept it or report and rewind -/
def tokenPrim (env : Env) (m : Mode) (st : St) (accept : Nat → Option Val) (exp : List Pat) : Out :=
  let c := st.save
  let (t?, st1) := st.next env
  match t?.bind accept with
  | some v => .ok (m.bind v) st1
  | none =>
    let span := env.mkSpan c.pos st1.pos
    let st2 := st1.rewind c
    .fail (st2.addAlt env exp t? span)

/-- `Just::go_cfg` (`primitive.rs:181-205`): element by element, failure stays at the element -/
def justRun (env : Env) : List Nat → St → Sum St St     -- inl = failed (state), inr = matched (state)
  | [], st => .inr st
  | e :: es, st =>
    let c := st.save
    let (t?, st1) := st.next env
    if t? == some e then justRun env es st1
    else
      let span := env.mkSpan c.pos st1.pos
      let st2 := st1.rewind c
      .inl (st2.addAlt env [.tok e] t? span)

def runCustom (env : Env) (m : Mode) (f : CustomFn) (st : St) : Out :=
  let before := st.pos
  match f with
  | .next msg =>
    let (t?, st1) := st.next env
    match t? with
    | some t => .ok (m.bind (.tok t)) st1
    | none => .fail (st1.addAltErr env before (env.ek.userErr (env.mkSpan before st1.pos) msg))
  | .take2Fail msg =>
    let (_, st1) := st.next env
    let (_, st2) := st1.next env
    .fail (st2.addAltErr env before (env.ek.userErr (env.mkSpan before st2.pos) msg))
  | .nothing => .ok (m.bind .unit) st
  | .failNow msg => .fail (st.addAltErr env before (env.ek.userErr (env.mkSpan before st.pos) msg))

/-! ### choice -/

/-- tuple `choice`: one checkpoint, rewind after every failing alternative (`primitive.rs:907-934`) -/
def choiceTuple (R : Runner) (env : Env) (m : Mode) (c : Chk) : List G → St → Out
  | [], st => .fail st
  | g :: gs, st =>
    match R env m g st with
    | .ok v st' => .ok v st'
    | .fail st' => choiceTuple R env m c gs (st'.rewind c)
    | .panic w => .panic w
    | .oof => .oof

/-- slice / `Vec` / array `choice`: rewind *before* each alternative (`primitive.rs:959-976`) -/
def choiceSlice (R : Runner) (env : Env) (m : Mode) (c : Chk) : List G → St → Out
  | [], st => .fail st
  | g :: gs, st =>
    match R env m g (st.rewind c) with
    | .ok v st' => .ok v st'
    | .fail st' => choiceSlice R env m c gs st'
    | .panic w => .panic w
    | .oof => .oof

/-- `group`: run every parser in order -/
def groupLoop (R : Runner) (env : Env) (m : Mode) : List G → St → List Val → Out
  | [], st, acc => .ok (m.bind (Val.ofList acc.reverse)) st
  | g :: gs, st, acc =>
    match R env m g st with
    | .ok v st' => groupLoop R env m gs st' (v :: acc)
    | .fail st' => .fail st'
    | .panic w => .panic w
    | .oof => .oof

/-! ### iteration consumers -/

/-- does the iterator tolerate a non-consuming `next` (`NONCONSUMPTION_IS_OK`) -/
def It.nonconsOk : It → Bool
  | .repeated .. => false
  | .separatedBy .. => false
  | .enumerate it => it.nonconsOk
  | .orNotIt _ => true
  | .intoIter _ => true
  | .thenIt a b => a.nonconsOk && b.nonconsOk
  | .mapIt _ it => it.nonconsOk
  | .configureRep _ it => it.nonconsOk
  | .tryConfigureRep _ it => it.nonconsOk

def collectOut (m : Mode) (k : CollKind) (items : List Val) : Val :=
  m.bind (match k with
    | .vec => Val.ofList items
    | .string => .toks (items.filterMap (fun v => match v with | .tok t => some t | _ => none))
    | .count => .nat items.length
    | .unit => .unit)

/-- `Collect::go` loop (`combinator.rs:2019-2050`). `i` counts iterations for the debug assertion. -/
def collectLoop (N : NextRunner) (env : Env) (m : Mode) (it : It) (k : CollKind) :
    Nat → St → ItSt → List Val → Nat → Out
  | 0, _, _, _, _ => .oof
  | fuel + 1, st, ist, acc, i =>
    match N env m it st ist with
    | .some v st' ist' =>
      if !it.nonconsOk && i ≥ 1 && st'.pos == st.pos then .panic pNoProgress
      else collectLoop N env m it k fuel st' ist' (v :: acc) (i + 1)
    | .done st' _ => .ok (collectOut m k acc.reverse) st'
    | .fail st' => .fail st'
    | .panic w => .panic w
    | .oof => .oof

/-- `CollectExactly::go` (`combinator.rs:2078-2110`): exactly `n` calls of `next`, no progress assertion -/
def collectExactlyLoop (N : NextRunner) (env : Env) (m : Mode) (it : It) :
    Nat → St → ItSt → List Val → Out
  | 0, st, _, acc => .ok (m.bind (Val.ofList acc.reverse)) st
  | n + 1, st, ist, acc =>
    match N env m it st ist with
    | .some v st' ist' => collectExactlyLoop N env m it n st' ist' (v :: acc)
    | .done st' _ =>                      -- the iterator ended early: report it at the current position
      .fail (st'.addAlt env [.somethingElse] (st'.peek env) (env.mkSpan st'.pos st'.pos))
    | .fail st' => .fail st'
    | .panic w => .panic w
    | .oof => .oof

/-- `Foldl::go` / `FoldlWith::go` loop. `withSpan = some start` for `foldl_with`. -/
def foldlLoop (N : NextRunner) (env : Env) (m : Mode) (it : It) (f : Val → Val → St → Val) :
    Nat → St → ItSt → Val → Out
  | 0, _, _, _ => .oof
  | fuel + 1, st, ist, acc =>
    match N env m it st ist with
    | .some v st' ist' =>
      if !it.nonconsOk && st'.pos == st.pos then .panic pNoProgress
      else foldlLoop N env m it f fuel st' ist' (match m with | .emit => f acc v st' | .check => .unit)
    | .done st' _ => .ok acc st'
    | .fail st' => .fail st'
    | .panic w => .panic w
    | .oof => .oof

/-- the collecting phase of `Foldr::go` / `FoldrWith::go`: items with the cursor before each -/
def foldrCollect (N : NextRunner) (env : Env) (m : Mode) (it : It) :
    Nat → St → ItSt → List (Val × Nat) → (Option (List (Val × Nat) × St)) ⊕ Out
  | 0, _, _, _ => .inr .oof
  | fuel + 1, st, ist, acc =>
    match N env m it st ist with
    | .some v st' ist' =>
      if !it.nonconsOk && st'.pos == st.pos then .inr (.panic pNoProgress)
      else foldrCollect N env m it fuel st' ist' ((v, st.pos) :: acc)
    | .done st' _ => .inl (some (acc, st'))          -- `acc` is in reverse input order
    | .fail st' => .inr (.fail st')
    | .panic w => .inr (.panic w)
    | .oof => .inr .oof

/-- plain-parser use of an iterator: `Repeated::go` fast path (unbounded, `at_least == 0`) -/
def repeatFast (R : Runner) (env : Env) (a : G) : Nat → St → Out
  | 0, _ => .oof
  | fuel + 1, st =>
    let c := st.save
    match R env .check a st with
    | .ok _ st' => if st'.pos == st.pos then .panic pNoProgress else repeatFast R env a fuel st'
    | .fail st' => .ok .unit (st'.rewind c)
    | .panic w => .panic w
    | .oof => .oof

/-- counted loop of `Repeated::go`, `SeparatedBy::go` (with progress assertion) and of
    `IterConfigure::go` / `TryIterConfigure::go` (without) -/
def iterLoop (N : NextRunner) (env : Env) (it : It) (assertProgress : Bool) :
    Nat → St → ItSt → Out
  | 0, _, _ => .oof
  | fuel + 1, st, ist =>
    match N env .check it st ist with
    | .some _ st' ist' =>
      if assertProgress && st'.pos == st.pos then .panic pNoProgress
      else iterLoop N env it assertProgress fuel st' ist'
    | .done st' _ => .ok .unit st'
    | .fail st' => .fail st'
    | .panic w => .panic w
    | .oof => .oof

/-! ### recovery strategies (`recovery.rs`) -/

def skipUntilLoop (R : Runner) (env : Env) (m : Mode) (skip until_ : G) (fb : Val) (alt : Loc) :
    Nat → St → Out
  | 0, _ => .oof
  | fuel + 1, st =>
    let c := st.save
    match R env .check until_ st with
    | .ok _ st1 => .ok (m.bind fb) (st1.emit st1.pos alt.err)
    | .panic w => .panic w
    | .oof => .oof
    | .fail st1 =>
      let st2 := st1.rewind c
      match R env .check skip st2 with
      | .ok _ st3 => skipUntilLoop R env m skip until_ fb alt fuel st3
      | .fail st3 => .fail { st3 with alt := some alt }
      | .panic w => .panic w
      | .oof => .oof

def skipRetryLoop (R : Runner) (env : Env) (m : Mode) (a skip until_ : G) (alt : Loc) :
    Nat → St → Out
  | 0, _ => .oof
  | fuel + 1, st =>
    let c := st.save
    match R env .check until_ st with
    | .ok _ st1 => .fail ({ st1 with alt := some alt }.rewind c)
    | .panic w => .panic w
    | .oof => .oof
    | .fail st1 =>
      let st2 := st1.rewind c
      match R env .check skip st2 with
      | .fail st3 => .fail { st3 with alt := some alt }
      | .panic w => .panic w
      | .oof => .oof
      | .ok _ st3 =>
        let c2 := st3.save
        match R env m a st3 with
        | .panic w => .panic w
        | .oof => .oof
        | .ok v st4 =>
          if st4.errs.length ≤ c2.errCount then .ok v (st4.emit st4.pos alt.err)
          else skipRetryLoop R env m a skip until_ alt fuel ({ st4 with alt := none }.rewind c2)
        | .fail st4 =>
          skipRetryLoop R env m a skip until_ alt fuel ({ st4 with alt := none }.rewind c2)

/-! ### the step function -/

def memoFind (memo : List ((Nat × Nat) × Option Loc)) (key : Nat × Nat) : Option (Option Loc) :=
  match memo with
  | [] => none
  | (k, v) :: rest => if k == key then some v else memoFind rest key

def memoInsert (memo : List ((Nat × Nat) × Option Loc)) (key : Nat × Nat) (v : Option Loc) :=
  (key, v) :: memo.filter (fun kv => kv.1 != key)

def memoRemove (memo : List ((Nat × Nat) × Option Loc)) (key : Nat × Nat) :=
  memo.filter (fun kv => kv.1 != key)

/-- restore the caller's context after a `with_ctx` scope -/
def Out.restoreCtx (o : Out) (ctx : Val) : Out :=
  match o with
  | .ok v st => .ok v { st with ctx := ctx }
  | .fail st => .fail { st with ctx := ctx }
  | o => o

def Out.restoreInsp (o : Out) (insp : List Nat) : Out :=
  match o with
  | .ok v st => .ok v { st with insp := insp }
  | .fail st => .fail { st with insp := insp }
  | o => o

/-- secondary errors recorded since `n`, put `in_context` (`label.rs:111-117`) -/
def ctxSecondary (env : Env) (l : Nat) (start n : Nat) (errs : List Loc) : List Loc :=
  errs.take n ++ (errs.drop n).map (fun e => ⟨e.pos, env.ek.inContext e.err l (env.mkSpan start e.pos)⟩)

def step (R : Runner) (N : NextRunner) (K : MkRunner) (L : Nat) : Runner := fun env m g st =>
  match g with
  | .end_ =>
    let c := st.save
    let (t?, st1) := st.next env
    match t? with
    | none => .ok .unit st1
    | some t =>
      let span := env.mkSpan c.pos st1.pos
      .fail ((st1.rewind c).addAlt env [.eoi] (some t) span)
  | .empty => .ok .unit st
  | .any => tokenPrim env m st (fun t => some (.tok t)) [.any]
  | .just ts =>
    match justRun env ts st with
    | .inr st' => .ok (m.bind (.toks ts)) st'
    | .inl st' => .fail st'
  | .oneOf ts => tokenPrim env m st (fun t => if ts.contains t then some (.tok t) else none) (ts.map .tok)
  | .noneOf ts => tokenPrim env m st (fun t => if ts.contains t then none else some (.tok t)) [.somethingElse]
  | .select ts => tokenPrim env m st (fun t => if ts.contains t then some (.tag 7 (.tok t)) else none) [.somethingElse]
  | .custom f => runCustom env m f st
  | .todo => .panic pTodo
  | .then_ a b =>
    (R env m a st).andThen fun va st1 =>
    (R env m b st1).andThen fun vb st2 => .ok (m.bind (.pair va vb)) st2
  | .ignoreThen a b =>
    (R env .check a st).andThen fun _ st1 =>
    (R env m b st1).andThen fun vb st2 => .ok vb st2
  | .thenIgnore a b =>
    (R env m a st).andThen fun va st1 =>
    (R env .check b st1).andThen fun _ st2 => .ok va st2
  | .delimitedBy a l r =>
    (R env .check l st).andThen fun _ st1 =>
    (R env m a st1).andThen fun va st2 =>
    (R env .check r st2).andThen fun _ st3 => .ok va st3
  | .paddedBy a p =>
    (R env .check p st).andThen fun _ st1 =>
    (R env m a st1).andThen fun va st2 =>
    (R env .check p st2).andThen fun _ st3 => .ok va st3
  | .group gs => groupLoop R env m gs st []
  | .groupArr gs => groupLoop R env m gs st []
  | .or_ a b => choiceTuple R env m st.save [a, b] st
  | .choice .tuple gs =>
    match gs with
    | [] => .panic pIllTyped              -- `choice(())` does not exist
    | [g] => R env m g st
    | gs => choiceTuple R env m st.save gs st
  | .choice .slice gs =>
    match gs with
    | [] => .fail (st.addAlt env [] none (env.mkSpan st.pos st.pos))
    | gs => choiceSlice R env m st.save gs st
  | .orNot a =>
    let c := st.save
    match R env m a st with
    | .ok v st' => .ok (match m with | .emit => .some v | .check => .unit) st'
    | .fail st' => .ok (m.bind .none) (st'.rewind c)
    | .panic w => .panic w
    | .oof => .oof
  | .not_ a =>
    let c := st.save
    let alt := st.alt
    match R env .check a { st with alt := none } with
    | .panic w => .panic w
    | .oof => .oof
    | .ok _ st1 =>
      let span := env.mkSpan c.pos st1.pos
      let st2 := { st1.rewind c with alt := alt }
      let (found, st3) := st2.next env
      .fail (st3.addAlt env [.somethingElse] found span)
    | .fail st1 => .ok .unit { st1.rewind c with alt := alt }
  | .andIs a b =>
    let c := st.save
    match R env m a st with
    | .panic w => .panic w
    | .oof => .oof
    | .fail st1 => .fail (st1.rewind c)
    | .ok v st1 =>
      let after := st1.save
      match R env .check b (st1.rewindInput c) with
      | .ok _ st2 => .ok v (st2.rewindInput after)
      | .fail st2 => .fail st2
      | .panic w => .panic w
      | .oof => .oof
  | .rewind a =>
    let c := st.save
    match R env m a st with
    | .ok v st1 => .ok v (st1.rewindInput c)
    | o => o
  | .map f a => (R env m a st).andThen fun v st1 => .ok (match m with | .emit => f.eval v | .check => .unit) st1
  | .to v a => (R env .check a st).andThen fun _ st1 => .ok (m.bind v) st1
  | .ignored a => (R env .check a st).andThen fun _ st1 => .ok .unit st1
  | .filter p a =>
    let c := st.save
    (R env .emit a st).andThen fun v st1 =>
      if p.eval v then .ok (m.bind v) st1
      else
        let span := env.mkSpan c.pos st1.pos
        let st2 := st1.rewind c
        .fail (st2.addAlt env [.somethingElse] (st2.peek env) span)
  | .tryMap f a =>
    let before := st.pos
    let old := st.alt
    match R env .emit a { st with alt := none } with
    | .panic w => .panic w
    | .oof => .oof
    | .fail st1 =>
      let new := st1.alt
      .fail (St.readdAlt env { st1 with alt := old } new)
    | .ok v st1 =>
      let span := env.mkSpan before st1.pos
      let new := st1.alt
      if f.rejectIf.eval v then
        -- "replace the new alt with the mapper error (since it overrides it)": the failures recorded inside the
        -- rejected sub-parse are discarded together with its pending error (ghost log rolled back accordingly)
        .fail (St.addAltErr env { st1 with alt := old, log := st.log } before (env.ek.userErr span f.msg))
      else
        .ok (m.bind (.tag f.tag v)) (St.readdAlt env { st1 with alt := old } new)
  | .tryMapWith f a =>
    let before := st.pos
    (R env .emit a st).andThen fun v st1 =>
      if f.rejectIf.eval v then
        .fail (st1.addAltErr env st1.pos (env.ek.userErr (env.mkSpan before st1.pos) f.msg))
      else .ok (m.bind (.tag f.tag v)) st1
  | .toSpan a =>
    let before := st.pos
    (R env m a st).andThen fun _ st1 =>
      let s := env.mkSpan before st1.pos
      .ok (m.bind (.span s.1 s.2)) st1
  | .toSlice a =>
    let before := st.pos
    (R env .check a st).andThen fun _ st1 => .ok (m.bind (.slice (env.off before) (env.off st1.pos))) st1
  | .mapWithSpan a =>
    let before := st.pos
    (R env m a st).andThen fun v st1 =>
      let s := env.mkSpan before st1.pos
      .ok (m.bind (.pair v (.span s.1 s.2))) st1
  | .mapWithState a =>
    (R env m a st).andThen fun v st1 => .ok (m.bind (.pair v (.insp st1.insp))) st1
  | .mapWithCtx a =>
    (R env m a st).andThen fun v st1 => .ok (m.bind (.pair v st1.ctx)) st1
  | .validate f a =>
    let before := st.pos
    (R env .emit a st).andThen fun v st1 =>
      let e := env.ek.userErr (env.mkSpan before st1.pos) f.msg
      let st2 := if f.emitIf.eval v then { st1 with errs := st1.errs ++ List.replicate f.count ⟨before, e⟩ } else st1
      .ok (m.bind v) st2
  | .collect k it =>
    match K env m it st with
    | .ok ist st1 => collectLoop N env m it k L st1 ist [] 0
    | .fail st1 => .fail st1
    | .panic w => .panic w
    | .oof => .oof
  | .collectExactly n it =>
    match K env m it st with
    | .ok ist st1 => collectExactlyLoop N env m it n st1 ist []
    | .fail st1 => .fail st1
    | .panic w => .panic w
    | .oof => .oof
  | .foldl f a it =>
    (R env m a st).andThen fun va st1 =>
    match K env m it st1 with
    | .ok ist st2 => foldlLoop N env m it (fun acc x _ => f.evalL acc x) L st2 ist va
    | .fail st2 => .fail st2
    | .panic w => .panic w
    | .oof => .oof
  | .foldlWith a it =>
    let beforeAll := st.pos
    (R env m a st).andThen fun va st1 =>
    match K env m it st1 with
    | .ok ist st2 =>
      foldlLoop N env m it (fun acc x st' =>
        let s := env.mkSpan beforeAll st'.pos
        .pair (.pair acc x) (.span s.1 s.2)) L st2 ist va
    | .fail st2 => .fail st2
    | .panic w => .panic w
    | .oof => .oof
  | .foldr f it b =>
    match K env m it st with
    | .fail st1 => .fail st1
    | .panic w => .panic w
    | .oof => .oof
    | .ok ist st1 =>
      match foldrCollect N env m it L st1 ist [] with
      | .inr o => o
      | .inl none => .oof
      | .inl (some (items, st2)) =>
        (R env m b st2).andThen fun vb st3 =>
          .ok (match m with
               | .emit => items.foldl (fun acc (x : Val × Nat) => f.evalR x.1 acc) vb
               | .check => .unit) st3
  | .foldrWith it b =>
    match K env m it st with
    | .fail st1 => .fail st1
    | .panic w => .panic w
    | .oof => .oof
    | .ok ist st1 =>
      match foldrCollect N env m it L st1 ist [] with
      | .inr o => o
      | .inl none => .oof
      | .inl (some (items, st2)) =>
        (R env m b st2).andThen fun vb st3 =>
          .ok (match m with
               | .emit => items.foldl (fun acc (x : Val × Nat) =>
                   let s := env.mkSpan x.2 st3.pos
                   .pair (.pair x.1 acc) (.span s.1 s.2)) vb
               | .check => .unit) st3
  | .iterP it =>
    match it with
    | .repeated a 0 none => repeatFast R env a L st
    | .repeated .. | .separatedBy .. =>
      (match K env .check it st with
       | .ok ist st1 => iterLoop N env it true L st1 ist
       | .fail st1 => .fail st1
       | .panic w => .panic w
       | .oof => .oof)
    | .configureRep .. | .tryConfigureRep .. =>
      (match K env .check it st with
       | .ok ist st1 => iterLoop N env it false L st1 ist
       | .fail st1 => .fail st1
       | .panic w => .panic w
       | .oof => .oof)
    | .intoIter a => (R env .check a st).andThen fun _ st1 => .ok .unit st1
    | _ => .panic pIllTyped
  | .recoverVia a r =>
    let c := st.save
    match R env m a st with
    | .ok v st1 => .ok v st1
    | .panic w => .panic w
    | .oof => .oof
    | .fail st1 =>
      let st2 := st1.rewind c
      match st2.alt with
      | none => .panic pUnwrapRecovery
      | some alt =>
        match R env m r { st2 with alt := none } with
        | .ok v st3 => .ok v (st3.emit st3.pos alt.err)
        | .fail st3 => .fail ({ st3 with alt := some alt }.rewind c)
        | .panic w => .panic w
        | .oof => .oof
  | .recoverSkipUntil a skip until_ fb =>
    let c := st.save
    match R env m a st with
    | .ok v st1 => .ok v st1
    | .panic w => .panic w
    | .oof => .oof
    | .fail st1 =>
      let st2 := st1.rewind c
      match st2.alt with
      | none => .panic pUnwrapRecovery
      | some alt =>
        match skipUntilLoop R env m skip until_ fb alt L { st2 with alt := none } with
        | .ok v st3 => .ok v st3
        | .fail st3 => .fail (st3.rewind c)
        | .panic w => .panic w
        | .oof => .oof
  | .recoverSkipRetry a skip until_ =>
    let c := st.save
    match R env m a st with
    | .ok v st1 => .ok v st1
    | .panic w => .panic w
    | .oof => .oof
    | .fail st1 =>
      let st2 := st1.rewind c
      match st2.alt with
      | none => .panic pUnwrapRecovery
      | some alt =>
        match skipRetryLoop R env m a skip until_ alt L { st2 with alt := none } with
        | .ok v st3 => .ok v st3
        | .fail st3 => .fail (st3.rewind c)
        | .panic w => .panic w
        | .oof => .oof
  | .labelled l asCtx a =>
    let old := st.alt
    let c := st.save
    let finish (st1 : St) : St :=
      let new := st1.alt
      let st2 := { st1 with alt := old }
      let st3 :=
        match new with
        | none => st2
        | some n =>
          let e :=
            if n.pos == c.pos then env.ek.labelWith n.err l
            else if asCtx && n.pos > c.pos then env.ek.inContext n.err l (env.mkSpan c.pos n.pos)
            else n.err
          St.readdAlt env st2 (some ⟨n.pos, e⟩)
      if asCtx then { st3 with errs := ctxSecondary env l c.pos c.errCount st3.errs } else st3
    match R env m a { st with alt := none } with
    | .ok v st1 => .ok v (finish st1)
    | .fail st1 => .fail (finish st1)
    | .panic w => .panic w
    | .oof => .oof
  | .mapErr k a =>
    let old := st.alt
    match R env m a { st with alt := none } with
    | .panic w => .panic w
    | .oof => .oof
    | .fail st1 =>
      match st1.alt with
      | none => .panic pUnwrapMapErr
      | some n => .fail (St.readdAlt env { st1 with alt := old } (some ⟨n.pos, env.ek.labelWith n.err k⟩))
    | .ok v st1 => .ok v (St.readdAlt env { st1 with alt := old } st1.alt)
  | .withCtx cv a => (R env m a { st with ctx := cv }).restoreCtx st.ctx
  | .ignoreWithCtx a b =>
    (R env .emit a st).andThen fun va st1 =>
      (R env m b { st1 with ctx := va }).restoreCtx st.ctx
  | .thenWithCtx a b =>
    (R env .emit a st).andThen fun va st1 =>
      ((R env m b { st1 with ctx := va }).restoreCtx st.ctx).andThen fun vb st2 =>
        .ok (m.bind (.pair va vb)) st2
  | .mapCtx f a => (R env m a { st with ctx := f.eval st.ctx }).restoreCtx st.ctx
  | .configureJust c ts =>
    let seq := match c with
      | .seqFromCtx => (st.ctx.asToks?).getD ts
      | _ => ts
    match justRun env seq st with
    | .inr st' => .ok (m.bind (.toks seq)) st'
    | .inl st' => .fail st'
  | .withState a => (R env m a { st with insp := [] }).restoreInsp st.insp
  | .memoized id a =>
    if !env.memoOn then R env m a st else
    let key := (st.pos, id)
    match memoFind st.memo key with
    | some (some e) => .fail (St.addAltErr env st e.pos e.err)
    | some none => .fail (st.addAlt env [] none (env.mkSpan st.pos st.pos))
    | none =>
      let old := st.alt
      let st0 := { st with memo := memoInsert st.memo key none, alt := none }
      match R env m a st0 with
      | .panic w => .panic w
      | .oof => .oof
      | .ok v st1 =>
        let st2 := St.readdAlt env { st1 with alt := old } st1.alt
        .ok v { st2 with memo := memoRemove st2.memo key }
      | .fail st1 =>
        let new := st1.alt
        let st2 := St.readdAlt env { st1 with alt := old } new
        .fail { st2 with memo := memoInsert st2.memo key new }
  | .call k =>
    match env.defs[k]? with
    | some d => R env m d st
    | none => .panic pUndefined
  | .boxed a => R env m a st

/-- bounds after applying a `RepeatedCfg` -/
def cfgBounds (c : CfgFn) (ctx : Val) : Option Nat × Option Nat :=
  match c, ctx.asNat? with
  | .exactlyFromCtx, some n => (some n, some n)
  | .atLeastFromCtx, some n => (some n, none)
  | .atMostFromCtx, some n => (none, some n)
  | _, _ => (none, none)

/-- `IterParser::make_iter` -/
def stepMk (R : Runner) (K : MkRunner) : MkRunner := fun env m it st =>
  match it with
  | .repeated .. => .ok (.cnt 0) st
  | .separatedBy .. => .ok (.cnt 0) st
  | .enumerate inner =>
    match K env m inner st with
    | .ok s st1 => .ok (.enum 0 s) st1
    | o => o
  | .orNotIt _ => .ok (.fin false) st
  | .intoIter a =>
    match R env .emit a st with
    | .ok v st1 => .ok (.into v.elems) st1
    | .fail st1 => .fail st1
    | .panic w => .panic w
    | .oof => .oof
  | .thenIt a _ =>
    match K env m a st with
    | .ok s st1 => .ok (.thn s none) st1
    | o => o
  | .mapIt _ inner => K env m inner st
  | .configureRep c inner =>
    match K env m inner st with
    | .ok s st1 => let b := cfgBounds c st1.ctx; .ok (.cfg s b.1 b.2) st1
    | o => o
  | .tryConfigureRep c inner =>
    match st.ctx.asNat? with
    | none => .fail (st.addAltErr env st.pos (env.ek.userErr (env.mkSpan st.pos st.pos) c.msg))
    | some n =>
      match K env m inner st with
      | .ok s st1 => .ok (.cfg s (some n) (some n)) st1
      | o => o

/-- `*count as u64 >= self.at_most` (`!0` = no cap) -/
def capReached (hi : Option Nat) (n : Nat) : Bool :=
  match hi with
  | some h => decide (n ≥ h)
  | none => false

/-- `Repeated::next` / `next_cfg` (`combinator.rs:1587-1651`) -/
def repeatedNext (R : Runner) (env : Env) (m : Mode) (a : G) (lo : Nat) (hi : Option Nat)
    (st : St) (n : Nat) (wrap : ItSt → ItSt) : ItOut :=
  if capReached hi n then .done st (wrap (.cnt n))
  else
    let c := st.save
    match R env m a st with
    | .ok v st1 => .some v st1 (wrap (.cnt (n + 1)))
    | .fail st1 =>
      let st2 := st1.rewind c
      if n ≥ lo then .done st2 (wrap (.cnt n)) else .fail st2
    | .panic w => .panic w
    | .oof => .oof

/-- `SeparatedBy::next` (`combinator.rs:1844-1901`) -/
def separatedNext (R : Runner) (env : Env) (m : Mode) (a sep : G) (lo : Nat) (hi : Option Nat)
    (lead trail : Bool) (st : St) (n : Nat) : ItOut :=
  if capReached hi n then .done st (.cnt n)
  else
    let beforeSep := st.save
    let item (st0 : St) : ItOut :=
      let beforeItem := st0.save
      match R env m a st0 with
      | .ok v st1 => .some v st1 (.cnt (n + 1))
      | .fail st1 =>
        if n < lo then .fail (st1.rewind beforeSep)
        else if trail then .done (st1.rewind beforeItem) (.cnt n)
        else .done (st1.rewind beforeSep) (.cnt n)
      | .panic w => .panic w
      | .oof => .oof
    if n == 0 && lead then
      match R env .check sep st with
      | .ok _ st1 => item st1
      | .fail st1 => item (st1.rewind beforeSep)
      | .panic w => .panic w
      | .oof => .oof
    else if n > 0 then
      match R env .check sep st with
      | .ok _ st1 => item st1
      | .fail st1 => if n < lo then .fail (st1.rewind beforeSep) else .done (st1.rewind beforeSep) (.cnt n)
      | .panic w => .panic w
      | .oof => .oof
    else item st

/-- `IterParser::next` -/
def stepNext (R : Runner) (N : NextRunner) (K : MkRunner) : NextRunner := fun env m it st ist =>
  match it, ist with
  | .repeated a lo hi, .cnt n => repeatedNext R env m a lo hi st n id
  | .separatedBy a sep lo hi lead trail, .cnt n => separatedNext R env m a sep lo hi lead trail st n
  | .enumerate inner, .enum k s =>
    match N env m inner st s with
    | .some v st1 s1 => .some (m.bind (.pair (.nat k) v)) st1 (.enum (k + 1) s1)
    | .done st1 s1 => .done st1 (.enum (k + 1) s1)
    | .fail st1 => .fail st1
    | .panic w => .panic w
    | .oof => .oof
  | .orNotIt a, .fin b =>
    if b then .done st (.fin true)
    else
      let c := st.save
      match R env m a st with
      | .ok v st1 => .some v st1 (.fin true)
      | .fail st1 => .done (st1.rewind c) (.fin true)
      | .panic w => .panic w
      | .oof => .oof
  | .intoIter _, .into vs =>
    match vs with
    | [] => .done st (.into [])
    | v :: rest => .some (m.bind v) st (.into rest)
  | .thenIt a b, .thn sa sb? =>
    match sb? with
    | some sb =>
      match N env m b st sb with
      | .some v st1 sb1 => .some v st1 (.thn sa (some sb1))
      | .done st1 sb1 => .done st1 (.thn sa (some sb1))
      | .fail st1 => .fail st1
      | .panic w => .panic w
      | .oof => .oof
    | none =>
      match N env m a st sa with
      | .some v st1 sa1 => .some v st1 (.thn sa1 none)
      | .fail st1 => .fail st1
      | .panic w => .panic w
      | .oof => .oof
      | .done st1 sa1 =>
        match K env m b st1 with
        | .fail st2 => .fail st2
        | .panic w => .panic w
        | .oof => .oof
        | .ok sb st2 =>
          match N env m b st2 sb with
          | .some v st3 sb1 => .some v st3 (.thn sa1 (some sb1))
          | .done st3 sb1 => .done st3 (.thn sa1 (some sb1))
          | .fail st3 => .fail st3
          | .panic w => .panic w
          | .oof => .oof
  | .mapIt f inner, s =>
    match N env m inner st s with
    | .some v st1 s1 => .some (match m with | .emit => f.eval v | .check => .unit) st1 s1
    | o => o
  | .configureRep _ (.repeated a lo hi), .cfg (.cnt n) clo chi =>
    repeatedNext R env m a (clo.getD lo) (match chi with | some h => some h | none => hi) st n
      (fun s => .cfg s clo chi)
  | .tryConfigureRep _ (.repeated a lo hi), .cfg (.cnt n) clo chi =>
    repeatedNext R env m a (clo.getD lo) (match chi with | some h => some h | none => hi) st n
      (fun s => .cfg s clo chi)
  | _, _ => .panic pIllTyped

mutual
def run : Nat → Runner
  | 0 => fun _ _ _ _ => .oof
  | n + 1 => step (run n) (next n) (mkIter n) n
def next : Nat → NextRunner
  | 0 => fun _ _ _ _ _ => .oof
  | n + 1 => stepNext (run n) (next n) (mkIter n)
def mkIter : Nat → MkRunner
  | 0 => fun _ _ _ _ => .oof
  | n + 1 => stepMk (run n) (mkIter n)
end

/-! ### top level (`lib.rs:356-427`) -/

structure ParseResult where
  output : Option Val
  errs : List Err
  deriving Repr, Inhabited, DecidableEq

/-- `ParseResult::into_result` (`lib.rs:258-264`): `Ok(output)` only when there is no error at all -/
def ParseResult.intoResult (r : ParseResult) : Except (List Err) Val :=
  if r.errs.isEmpty then
    match r.output with
    | some v => .ok v
    | none => .error r.errs
  else .error r.errs

def ParseResult.hasOutput (r : ParseResult) : Bool := r.output.isSome
def ParseResult.hasErrors (r : ParseResult) : Bool := !r.errs.isEmpty

inductive TopOut where
  | result (r : ParseResult) (final : St)
  | panic (why : Nat)
  | oof
  deriving Repr, Inhabited, DecidableEq

def St.init : St := { pos := 0 }

/-- `Parser::parse` (`m = emit`) / `Parser::check` (`m = check`) -/
def parseTop (fuel : Nat) (env : Env) (m : Mode) (g : G) : TopOut :=
  match run fuel env m (.thenIgnore g .end_) St.init with
  | .panic w => .panic w
  | .oof => .oof
  | .ok v st =>
    .result ⟨some v, st.errs.map (·.err)⟩ st
  | .fail st =>
    let alt := match st.alt with
      | some a => a.err
      | none => env.ek.expectedFound [] none (env.mkSpan st.pos st.pos)
    .result ⟨none, st.errs.map (·.err) ++ [alt]⟩ st

end Chumsky
