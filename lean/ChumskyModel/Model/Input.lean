/-
  Model/Input.lean — the `Input` implementations as cursor machines (property C10).

  The parser core (`Model/Machine.lean`) reads its input only through `env.toks[pos]?` and computes spans with `Env.mkSpan`:
  it is written once, for an abstract token list. What makes that abstraction legitimate for every input kind is that each
  `Input` implementation — whatever it caches, however it re-synchronises after a rewind — answers `next` at a cursor of
  location `i` with the `i`-th token of the sequence, for ANY order in which previously obtained cursors are used.
  This file models the stateful implementations; `Proofs/C10.lean` proves that statement for each of them.

      Stream            stream.rs:10-131     cache `Vec` + iterator, refilled in batches of 512
      IterInput         stream.rs:133-187    the cursor carries a clone of the iterator
      IoInput           input.rs:1074-1137   `BufReader` + `last_cursor`, relative seek when the cursor moved
      MappedInput       input.rs:583-650     inner cursor + end of the last token
      &str, &[T], [T;N]                      stateless: cursor = byte offset / index

  No imports: the driver replays call schedules through these definitions (correspondence with the real `Input` impls).
-/
namespace Chumsky.Input

/-- one `Input` implementation: `next(cache, cursor)`, `cursor_location(cursor)` -/
structure Impl (Ca Cu : Type) where
  next : Ca → Cu → Option Nat × Ca × Cu
  loc : Cu → Nat

/-- Replay a call schedule: the parser holds on to every cursor it ever obtained (checkpoints) and may call `next` on any
    of them at any time (backtracking). `k :: ks` = "call `next` on the `k mod n`-th of the `n` cursors obtained so far".
    Observation per call: (location asked, token returned). -/
def replay {Ca Cu : Type} (I : Impl Ca Cu) : List Nat → Ca → List Cu → List (Nat × Option Nat)
  | [], _, _ => []
  | k :: ks, ca, cus =>
    match cus[k % cus.length]? with
    | none => []
    | some cu =>
      let r := I.next ca cu
      (I.loc cu, r.1) :: replay I ks r.2.1 (cus ++ [r.2.2])

/-- the cache after the schedule has been replayed (e.g. to read off what a `Stream` has pulled from its iterator) -/
def replayFinal {Ca Cu : Type} (I : Impl Ca Cu) : List Nat → Ca → List Cu → Ca
  | [], ca, _ => ca
  | k :: ks, ca, cus =>
    match cus[k % cus.length]? with
    | none => ca
    | some cu =>
      let r := I.next ca cu
      replayFinal I ks r.2.1 (cus ++ [r.2.2])

/-! ### the reference: a token list indexed by the cursor (`&[T]`, `[T; N]`) -/

def listImpl (toks : List Nat) : Impl Unit Nat where
  next := fun _ cu => match toks[cu]? with
    | some t => (some t, (), cu + 1)
    | none => (none, (), cu)
  loc := id

/-! ### `&str`: the cursor is a byte offset, `next` decodes one character -/

def utf8w (c : Nat) : Nat :=
  if c < 0x80 then 1 else if c < 0x800 then 2 else if c < 0x10000 then 3 else 4

/-- the characters of the text laid out as (byte offset, char) -/
def layout : List Nat → Nat → List (Nat × Nat)
  | [], _ => []
  | c :: cs, off => (off, c) :: layout cs (off + utf8w c)

/-- `&str::next`: the character starting at byte `cu` (the model only ever asks at character starts) -/
def strImpl (toks : List Nat) : Impl Unit Nat where
  next := fun _ cu => match (layout toks 0).find? (fun p => p.1 == cu) with
    | some p => (some p.2, (), cu + utf8w p.2)
    | none => (none, (), cu)
  loc := id     -- `cursor_location` of `&str` is the byte offset

/-! ### `Stream` -/

structure StreamCache where
  cache : List Nat      -- `tokens: Vec<I::Item>`
  rest : List Nat       -- what the iterator will still yield
  pulls : List Nat      -- ghost: every item obtained from the iterator, in the order it was obtained
  deriving Repr, DecidableEq

/-- `Stream::next`: refill (a batch) when the cursor is at the end of the cache, then index the cache -/
def streamNext (batch : Nat) (s : StreamCache) (cu : Nat) : Option Nat × StreamCache × Nat :=
  let s' := if s.cache.length ≤ cu then
              { cache := s.cache ++ s.rest.take batch, rest := s.rest.drop batch, pulls := s.pulls ++ s.rest.take batch }
            else s
  match s'.cache[cu]? with
  | some t => (some t, s', cu + 1)
  | none => (none, s', cu)

def streamImpl (batch : Nat) : Impl StreamCache Nat := { next := streamNext batch, loc := id }

def streamBegin (toks : List Nat) : StreamCache := { cache := [], rest := toks, pulls := [] }

/-! ### `IterInput`: cursor = (iterator clone, index, end of the last token) -/

structure IterCursor where
  rest : List (Nat × (Nat × Nat))     -- the cloned iterator: remaining (token, span) items
  idx : Nat
  lastEnd : Option Nat
  deriving Repr, DecidableEq

def iterNext (_ : Unit) (cu : IterCursor) : Option Nat × Unit × IterCursor :=
  match cu.rest with
  | (t, sp) :: r => (some t, (), { rest := r, idx := cu.idx + 1, lastEnd := some sp.2 })
  | [] => (none, (), cu)

def iterImpl : Impl Unit IterCursor := { next := iterNext, loc := fun cu => cu.idx }

/-- `IterInput::span` (as repaired: explicit empty-match branch) -/
def iterSpan (eoi : Nat × Nat) (a b : IterCursor) : Nat × Nat :=
  let nextStart := a.rest.head?.map (fun p => p.2.1)
  if a.idx == b.idx then
    let at_ := match b.lastEnd with
      | some e => e
      | none => (match nextStart with | some s => s | none => eoi.2)
    (at_, at_)
  else
    match nextStart with
    | some s => (s, match b.lastEnd with | some e => e | none => eoi.2)
    | none => (eoi.2, eoi.2)

/-- schedule replay for `IterInput` that also asks, after every call, for the span from the cursor the call started at and
    from the very first cursor to the cursor the call produced (`span_since` after a match / at a failure), for the empty
    match at that cursor, and again for the (start, end) pair of an OLDER call (a capture computed after the parser has
    looked further ahead and come back) -/
def replayIterSpans (eoi : Nat × Nat) (c0 : IterCursor) :
    List Nat → List IterCursor → List (IterCursor × IterCursor) →
      List (Nat × Option Nat × (Nat × Nat) × (Nat × Nat) × (Nat × Nat) × (Nat × Nat))
  | [], _, _ => []
  | k :: ks, cus, pairs =>
    match cus[k % cus.length]? with
    | none => []
    | some cu =>
      let r := iterNext () cu
      let pairs' := pairs ++ [(cu, r.2.2)]
      let old := pairs'.getD ((k * 7 + 3) % pairs'.length) (cu, r.2.2)
      (cu.idx, r.1, iterSpan eoi cu r.2.2, iterSpan eoi c0 r.2.2, iterSpan eoi r.2.2 r.2.2, iterSpan eoi old.1 old.2) ::
        replayIterSpans eoi c0 ks (cus ++ [r.2.2]) pairs'

/-! ### `IoInput`: a seekable reader that remembers where it last read -/

structure IoCache where
  bytes : List Nat
  rpos : Nat        -- the reader's position (what `BufReader<R>` + `Seek` will read next)
  last : Nat        -- `last_cursor`
  seeks : Nat       -- ghost: number of `seek_relative` calls
  deriving Repr, DecidableEq

/-- `IoInput::next`: `if cursor != last_cursor { seek_relative(cursor - last_cursor); last_cursor = cursor }`, then read one byte -/
def ioNext (s : IoCache) (cu : Nat) : Option Nat × IoCache × Nat :=
  let s1 := if cu ≠ s.last then { s with rpos := s.rpos + cu - s.last, last := cu, seeks := s.seeks + 1 } else s
  match s1.bytes[s1.rpos]? with
  | some b => (some b, { s1 with rpos := s1.rpos + 1, last := s1.last + 1 }, cu + 1)
  | none => (none, s1, cu)

def ioImpl : Impl IoCache Nat := { next := ioNext, loc := id }
def ioBegin (bytes : List Nat) : IoCache := { bytes := bytes, rpos := 0, last := 0, seeks := 0 }

/-! ### `MappedInput` over any implementation: cursor = (inner cursor, end of the last token) -/

def mappedImpl {Ca Cu : Type} (I : Impl Ca Cu) (spanOf : Nat → Nat × Nat) : Impl Ca (Cu × Option Nat) where
  next := fun ca cu =>
    let r := I.next ca cu.1
    match r.1 with
    | some t => (some t, r.2.1, (r.2.2, some (spanOf t).2))
    | none => (none, r.2.1, (r.2.2, cu.2))
  loc := fun cu => I.loc cu.1

/-- `MappedInput::span` peeks the token at the start cursor — one more `next` at an OLD cursor, through the same cache -/
def mappedSpan {Ca Cu : Type} (I : Impl Ca Cu) (spanOf : Nat → Nat × Nat) (eoi : Nat × Nat) (ca : Ca)
    (a b : Cu × Option Nat) : (Nat × Nat) × Ca :=
  let r := I.next ca a.1
  let nextStart := r.1.map (fun t => (spanOf t).1)
  let sp :=
    if I.loc a.1 == I.loc b.1 then
      let at_ := match b.2 with
        | some e => e
        | none => (match nextStart with | some s => s | none => eoi.2)
      (at_, at_)
    else
      match nextStart with
      | some s => (s, match b.2 with | some e => e | none => eoi.2)
      | none => (eoi.2, eoi.2)
  (sp, r.2.1)

end Chumsky.Input
