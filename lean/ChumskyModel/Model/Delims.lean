/-
  Model/Delims.lean — `nested_delimiters(start, end, others, fallback)` (`recovery.rs:234-275`) as the derived grammar the Rust
  function builds: a recursive `block` (definition `K` of the table)

      block  =  ( block.delimited_by(just(start), just(end))
                  .or(block.delimited_by(just(s₁), just(e₁))) … .or(block.delimited_by(just(sₙ), just(eₙ)))
                  .or(any().and_is(none_of([start, end, s₁, e₁, …])).ignored()) ).repeated()

  and the strategy itself `block.delimited_by(just(start), just(end)).map_with(|_, e| fallback(e.span()))`; the harness's
  fallback returns the span it is given.
-/
import ChumskyModel.Model.Spec
namespace Chumsky

/-- `[s₁, e₁, s₂, e₂, …]` → pairs -/
def ndPairs : List Nat → List (Nat × Nat)
  | s :: e :: rest => (s, e) :: ndPairs rest
  | _ => []

def ndDelim (K : Nat) (p : Nat × Nat) : G := .delimitedBy (.call K) (.just [p.1]) (.just [p.2])

/-- the left-nested `or` chain over all delimiter pairs, `(start, end)` first -/
def ndManyBlock (K : Nat) (first : Nat × Nat) (others : List (Nat × Nat)) : G :=
  others.foldl (fun acc p => .or_ acc (ndDelim K p)) (ndDelim K first)

def ndSkip (first : Nat × Nat) (others : List (Nat × Nat)) : List Nat :=
  first.1 :: first.2 :: others.flatMap (fun p => [p.1, p.2])

def ndItem (K : Nat) (first : Nat × Nat) (others : List (Nat × Nat)) : G :=
  .or_ (ndManyBlock K first others) (.ignored (.andIs .any (.noneOf (ndSkip first others))))

/-- the recursive block: definition `K` must be this grammar -/
def ndBlock (K : Nat) (first : Nat × Nat) (others : List (Nat × Nat)) : G :=
  .iterP (.repeated (ndItem K first others) 0 none)

/-- the strategy parser (output: the span handed to the fallback) -/
def ndTop (K : Nat) (first : Nat × Nat) : G :=
  .map .snd (.mapWithSpan (ndDelim K first))

end Chumsky
