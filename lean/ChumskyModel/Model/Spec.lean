/-
  Model/Spec.lean — the reference ("PEG reading") semantics.

  No mutable state, no checkpoints, no rewinding, no pending error, no modes: a parser is a function
  from a position (and the inspector fed so far, and the lexical context) to either failure or
  (value, new position, non-fatal emissions of the surviving path).

  * sequence = left to right; ordered choice = the first alternative that succeeds;
    lookahead = result discarded, position kept; repetition = keep taking items while they match.
  * a recovered error is represented abstractly (`Emis.recovered`): *which* error it is, is the subject
    of C06/C08 (`alt ≈ summ log`), not of the PEG reading.
-/
import ChumskyModel.Model.Machine
namespace Chumsky

/-- a non-fatal error of the surviving path -/
inductive Emis where
  | user (l : Loc)              -- a `validate` emission (content fully determined)
  | recovered (at_ : Nat)       -- the error of a recovered failure (content: see C06/C08)
  deriving Repr, Inhabited

/-- position + what the inspector has been fed -/
structure SS where
  pos : Nat
  insp : List Nat
  deriving Repr, Inhabited, DecidableEq

inductive SOut where
  | ok (v : Val) (s : SS) (em : List Emis)
  | fail
  | panic (why : Nat)
  | oof
  deriving Repr, Inhabited

inductive SItOut where
  | some (v : Val) (s : SS) (ist : ItSt) (em : List Emis)
  | done (s : SS) (ist : ItSt) (em : List Emis)
  | fail
  | panic (why : Nat)
  | oof
  deriving Repr, Inhabited

inductive SMkOut where
  | ok (ist : ItSt) (s : SS) (em : List Emis)
  | fail
  | panic (why : Nat)
  | oof
  deriving Repr, Inhabited

abbrev SRunner := Env → G → SS → Val → SOut
abbrev SNextRunner := Env → It → SS → Val → ItSt → SItOut
abbrev SMkRunner := Env → It → SS → Val → SMkOut

def SS.adv (s : SS) (t : Nat) : SS := ⟨s.pos + 1, s.insp ++ [t]⟩

@[inline] def SOut.andThen (o : SOut) (k : Val → SS → List Emis → SOut) : SOut :=
  match o with
  | .ok v s em => k v s em
  | .fail => .fail
  | .panic w => .panic w
  | .oof => .oof

/-- one-token primitives -/
def sTokenPrim (env : Env) (s : SS) (accept : Nat → Option Val) : SOut :=
  match env.toks[s.pos]? with
  | some t => match accept t with
    | some v => .ok v (s.adv t) []
    | none => .fail
  | none => .fail

/-- `just(seq)`: the sequence, token by token -/
def sJust (env : Env) : List Nat → SS → Option SS
  | [], s => some s
  | e :: es, s =>
    match env.toks[s.pos]? with
    | some t => if t == e then sJust env es (s.adv t) else none
    | none => none

def sCustom (env : Env) (f : CustomFn) (s : SS) : SOut :=
  match f with
  | .next _ => match env.toks[s.pos]? with
    | some t => .ok (.tok t) (s.adv t) []
    | none => .fail
  | .take2Fail _ => .fail
  | .nothing => .ok .unit s []
  | .failNow _ => .fail

/-- ordered choice: the first alternative that succeeds -/
def sChoice (P : SRunner) (env : Env) (ctx : Val) (s : SS) : List G → SOut
  | [] => .fail
  | g :: gs =>
    match P env g s ctx with
    | .ok v s' em => .ok v s' em
    | .fail => sChoice P env ctx s gs
    | .panic w => .panic w
    | .oof => .oof

def sGroup (P : SRunner) (env : Env) (ctx : Val) : List G → SS → List Val → List Emis → SOut
  | [], s, acc, em => .ok (Val.ofList acc.reverse) s em
  | g :: gs, s, acc, em =>
    match P env g s ctx with
    | .ok v s' em' => sGroup P env ctx gs s' (v :: acc) (em ++ em')
    | .fail => .fail
    | .panic w => .panic w
    | .oof => .oof

def sCollectOut (k : CollKind) (items : List Val) : Val := collectOut .emit k items

def sCollectLoop (N : SNextRunner) (env : Env) (ctx : Val) (it : It) (k : CollKind) :
    Nat → SS → ItSt → List Val → Nat → List Emis → SOut
  | 0, _, _, _, _, _ => .oof
  | fuel + 1, s, ist, acc, i, em =>
    match N env it s ctx ist with
    | .some v s' ist' em' =>
      if !it.nonconsOk && i ≥ 1 && s'.pos == s.pos then .panic pNoProgress
      else sCollectLoop N env ctx it k fuel s' ist' (v :: acc) (i + 1) (em ++ em')
    | .done s' _ em' => .ok (sCollectOut k acc.reverse) s' (em ++ em')
    | .fail => .fail
    | .panic w => .panic w
    | .oof => .oof

def sCollectExactlyLoop (N : SNextRunner) (env : Env) (ctx : Val) (it : It) :
    Nat → SS → ItSt → List Val → List Emis → SOut
  | 0, s, _, acc, em => .ok (Val.ofList acc.reverse) s em
  | n + 1, s, ist, acc, em =>
    match N env it s ctx ist with
    | .some v s' ist' em' => sCollectExactlyLoop N env ctx it n s' ist' (v :: acc) (em ++ em')
    | .done .. => .fail
    | .fail => .fail
    | .panic w => .panic w
    | .oof => .oof

def sFoldlLoop (N : SNextRunner) (env : Env) (ctx : Val) (it : It) (f : Val → Val → SS → Val) :
    Nat → SS → ItSt → Val → List Emis → SOut
  | 0, _, _, _, _ => .oof
  | fuel + 1, s, ist, acc, em =>
    match N env it s ctx ist with
    | .some v s' ist' em' =>
      if !it.nonconsOk && s'.pos == s.pos then .panic pNoProgress
      else sFoldlLoop N env ctx it f fuel s' ist' (f acc v s') (em ++ em')
    | .done s' _ em' => .ok acc s' (em ++ em')
    | .fail => .fail
    | .panic w => .panic w
    | .oof => .oof

def sFoldrCollect (N : SNextRunner) (env : Env) (ctx : Val) (it : It) :
    Nat → SS → ItSt → List (Val × Nat) → List Emis → (Option (List (Val × Nat) × SS × List Emis)) ⊕ SOut
  | 0, _, _, _, _ => .inr .oof
  | fuel + 1, s, ist, acc, em =>
    match N env it s ctx ist with
    | .some v s' ist' em' =>
      if !it.nonconsOk && s'.pos == s.pos then .inr (.panic pNoProgress)
      else sFoldrCollect N env ctx it fuel s' ist' ((v, s.pos) :: acc) (em ++ em')
    | .done s' _ em' => .inl (some (acc, s', em ++ em'))
    | .fail => .inr .fail
    | .panic w => .inr (.panic w)
    | .oof => .inr .oof

def sRepeatFast (P : SRunner) (env : Env) (ctx : Val) (a : G) : Nat → SS → List Emis → SOut
  | 0, _, _ => .oof
  | fuel + 1, s, em =>
    match P env a s ctx with
    | .ok _ s' em' => if s'.pos == s.pos then .panic pNoProgress else sRepeatFast P env ctx a fuel s' (em ++ em')
    | .fail => .ok .unit s em
    | .panic w => .panic w
    | .oof => .oof

def sIterLoop (N : SNextRunner) (env : Env) (ctx : Val) (it : It) (assertProgress : Bool) :
    Nat → SS → ItSt → List Emis → SOut
  | 0, _, _, _ => .oof
  | fuel + 1, s, ist, em =>
    match N env it s ctx ist with
    | .some _ s' ist' em' =>
      if assertProgress && s'.pos == s.pos then .panic pNoProgress
      else sIterLoop N env ctx it assertProgress fuel s' ist' (em ++ em')
    | .done s' _ em' => .ok .unit s' (em ++ em')
    | .fail => .fail
    | .panic w => .panic w
    | .oof => .oof

/-- `skip_until`: the least number of skip steps after which `until` matches -/
def sSkipUntil (P : SRunner) (env : Env) (ctx : Val) (skip until_ : G) (fb : Val) :
    Nat → SS → List Emis → SOut
  | 0, _, _ => .oof
  | fuel + 1, s, em =>
    match P env until_ s ctx with
    | .ok _ s1 em1 => .ok fb s1 (em ++ em1 ++ [.recovered s1.pos])
    | .panic w => .panic w
    | .oof => .oof
    | .fail =>
      match P env skip s ctx with
      | .ok _ s2 em2 => sSkipUntil P env ctx skip until_ fb fuel s2 (em ++ em2)
      | .fail => .fail
      | .panic w => .panic w
      | .oof => .oof

/-- `skip_then_retry_until`: give up when `until` matches, else skip one step and retry the parser,
    accepting only a retry that emitted nothing -/
def sSkipRetry (P : SRunner) (env : Env) (ctx : Val) (a skip until_ : G) :
    Nat → SS → List Emis → SOut
  | 0, _, _ => .oof
  | fuel + 1, s, em =>
    match P env until_ s ctx with
    | .ok .. => .fail
    | .panic w => .panic w
    | .oof => .oof
    | .fail =>
      match P env skip s ctx with
      | .fail => .fail
      | .panic w => .panic w
      | .oof => .oof
      | .ok _ s2 em2 =>
        match P env a s2 ctx with
        | .panic w => .panic w
        | .oof => .oof
        | .ok v s3 [] => .ok v s3 (em ++ em2 ++ [.recovered s3.pos])
        | .ok .. => sSkipRetry P env ctx a skip until_ fuel s2 (em ++ em2)
        | .fail => sSkipRetry P env ctx a skip until_ fuel s2 (em ++ em2)

/-- `in_context` on the emissions of a labelled parser -/
def Emis.inCtx (env : Env) (l : Nat) (start : Nat) : Emis → Emis
  | .user e => .user ⟨e.pos, env.ek.inContext e.err l (env.mkSpan start e.pos)⟩
  | .recovered p => .recovered p

def pegStep (P : SRunner) (N : SNextRunner) (K : SMkRunner) (L : Nat) : SRunner := fun env g s ctx =>
  match g with
  | .end_ => match env.toks[s.pos]? with
    | none => .ok .unit s []
    | some _ => .fail
  | .empty => .ok .unit s []
  | .any => sTokenPrim env s (fun t => some (.tok t))
  | .just ts => match sJust env ts s with
    | some s' => .ok (.toks ts) s' []
    | none => .fail
  | .oneOf ts => sTokenPrim env s (fun t => if ts.contains t then some (.tok t) else none)
  | .noneOf ts => sTokenPrim env s (fun t => if ts.contains t then none else some (.tok t))
  | .select ts => sTokenPrim env s (fun t => if ts.contains t then some (.tag 7 (.tok t)) else none)
  | .custom f => sCustom env f s
  | .todo => .panic pTodo
  | .then_ a b =>
    (P env a s ctx).andThen fun va s1 e1 =>
    (P env b s1 ctx).andThen fun vb s2 e2 => .ok (.pair va vb) s2 (e1 ++ e2)
  | .ignoreThen a b =>
    (P env a s ctx).andThen fun _ s1 e1 =>
    (P env b s1 ctx).andThen fun vb s2 e2 => .ok vb s2 (e1 ++ e2)
  | .thenIgnore a b =>
    (P env a s ctx).andThen fun va s1 e1 =>
    (P env b s1 ctx).andThen fun _ s2 e2 => .ok va s2 (e1 ++ e2)
  | .delimitedBy a l r =>
    (P env l s ctx).andThen fun _ s1 e1 =>
    (P env a s1 ctx).andThen fun va s2 e2 =>
    (P env r s2 ctx).andThen fun _ s3 e3 => .ok va s3 (e1 ++ e2 ++ e3)
  | .paddedBy a p =>
    (P env p s ctx).andThen fun _ s1 e1 =>
    (P env a s1 ctx).andThen fun va s2 e2 =>
    (P env p s2 ctx).andThen fun _ s3 e3 => .ok va s3 (e1 ++ e2 ++ e3)
  | .group gs => sGroup P env ctx gs s [] []
  | .groupArr gs => sGroup P env ctx gs s [] []
  | .or_ a b => sChoice P env ctx s [a, b]
  | .choice .tuple [] => .panic pIllTyped
  | .choice _ gs => sChoice P env ctx s gs
  | .orNot a =>
    match P env a s ctx with
    | .ok v s' em => .ok (.some v) s' em
    | .fail => .ok .none s []
    | .panic w => .panic w
    | .oof => .oof
  | .not_ a =>
    match P env a s ctx with
    | .ok .. => .fail
    | .fail => .ok .unit s []
    | .panic w => .panic w
    | .oof => .oof
  | .andIs a b =>
    (P env a s ctx).andThen fun v s1 e1 =>
    (P env b s ctx).andThen fun _ _ e2 => .ok v s1 (e1 ++ e2)
  | .rewind a => (P env a s ctx).andThen fun v _ e1 => .ok v s e1
  | .map f a => (P env a s ctx).andThen fun v s1 e1 => .ok (f.eval v) s1 e1
  | .to v a => (P env a s ctx).andThen fun _ s1 e1 => .ok v s1 e1
  | .ignored a => (P env a s ctx).andThen fun _ s1 e1 => .ok .unit s1 e1
  | .filter p a => (P env a s ctx).andThen fun v s1 e1 => if p.eval v then .ok v s1 e1 else .fail
  | .tryMap f a => (P env a s ctx).andThen fun v s1 e1 =>
      if f.rejectIf.eval v then .fail else .ok (.tag f.tag v) s1 e1
  | .tryMapWith f a => (P env a s ctx).andThen fun v s1 e1 =>
      if f.rejectIf.eval v then .fail else .ok (.tag f.tag v) s1 e1
  | .toSpan a => (P env a s ctx).andThen fun _ s1 e1 =>
      let sp := env.mkSpan s.pos s1.pos; .ok (.span sp.1 sp.2) s1 e1
  | .toSlice a => (P env a s ctx).andThen fun _ s1 e1 => .ok (.slice (env.off s.pos) (env.off s1.pos)) s1 e1
  | .mapWithSpan a => (P env a s ctx).andThen fun v s1 e1 =>
      let sp := env.mkSpan s.pos s1.pos; .ok (.pair v (.span sp.1 sp.2)) s1 e1
  | .mapWithState a => (P env a s ctx).andThen fun v s1 e1 => .ok (.pair v (.insp s1.insp)) s1 e1
  | .mapWithCtx a => (P env a s ctx).andThen fun v s1 e1 => .ok (.pair v ctx) s1 e1
  | .validate f a => (P env a s ctx).andThen fun v s1 e1 =>
      let e := env.ek.userErr (env.mkSpan s.pos s1.pos) f.msg
      .ok v s1 (if f.emitIf.eval v then e1 ++ List.replicate f.count (.user ⟨s.pos, e⟩) else e1)
  | .collect k it =>
    match K env it s ctx with
    | .ok ist s1 em => sCollectLoop N env ctx it k L s1 ist [] 0 em
    | .fail => .fail
    | .panic w => .panic w
    | .oof => .oof
  | .collectExactly n it =>
    match K env it s ctx with
    | .ok ist s1 em => sCollectExactlyLoop N env ctx it n s1 ist [] em
    | .fail => .fail
    | .panic w => .panic w
    | .oof => .oof
  | .foldl f a it =>
    (P env a s ctx).andThen fun va s1 e1 =>
    match K env it s1 ctx with
    | .ok ist s2 e2 => sFoldlLoop N env ctx it (fun acc x _ => f.evalL acc x) L s2 ist va (e1 ++ e2)
    | .fail => .fail
    | .panic w => .panic w
    | .oof => .oof
  | .foldlWith a it =>
    (P env a s ctx).andThen fun va s1 e1 =>
    match K env it s1 ctx with
    | .ok ist s2 e2 =>
      sFoldlLoop N env ctx it (fun acc x s' =>
        let sp := env.mkSpan s.pos s'.pos
        .pair (.pair acc x) (.span sp.1 sp.2)) L s2 ist va (e1 ++ e2)
    | .fail => .fail
    | .panic w => .panic w
    | .oof => .oof
  | .foldr f it b =>
    match K env it s ctx with
    | .fail => .fail
    | .panic w => .panic w
    | .oof => .oof
    | .ok ist s1 e1 =>
      match sFoldrCollect N env ctx it L s1 ist [] e1 with
      | .inr o => o
      | .inl none => .oof
      | .inl (some (items, s2, e2)) =>
        (P env b s2 ctx).andThen fun vb s3 e3 =>
          .ok (items.foldl (fun acc (x : Val × Nat) => f.evalR x.1 acc) vb) s3 (e2 ++ e3)
  | .foldrWith it b =>
    match K env it s ctx with
    | .fail => .fail
    | .panic w => .panic w
    | .oof => .oof
    | .ok ist s1 e1 =>
      match sFoldrCollect N env ctx it L s1 ist [] e1 with
      | .inr o => o
      | .inl none => .oof
      | .inl (some (items, s2, e2)) =>
        (P env b s2 ctx).andThen fun vb s3 e3 =>
          .ok (items.foldl (fun acc (x : Val × Nat) =>
                 let sp := env.mkSpan x.2 s3.pos
                 .pair (.pair x.1 acc) (.span sp.1 sp.2)) vb) s3 (e2 ++ e3)
  | .iterP it =>
    match it with
    | .repeated a 0 none => sRepeatFast P env ctx a L s []
    | .repeated .. | .separatedBy .. =>
      (match K env it s ctx with
       | .ok ist s1 em => sIterLoop N env ctx it true L s1 ist em
       | .fail => .fail
       | .panic w => .panic w
       | .oof => .oof)
    | .configureRep .. | .tryConfigureRep .. =>
      (match K env it s ctx with
       | .ok ist s1 em => sIterLoop N env ctx it false L s1 ist em
       | .fail => .fail
       | .panic w => .panic w
       | .oof => .oof)
    | .intoIter a => (P env a s ctx).andThen fun _ s1 e1 => .ok .unit s1 e1
    | _ => .panic pIllTyped
  | .recoverVia a r =>
    match P env a s ctx with
    | .ok v s1 em => .ok v s1 em
    | .panic w => .panic w
    | .oof => .oof
    | .fail =>
      match P env r s ctx with
      | .ok v s1 em => .ok v s1 (em ++ [.recovered s1.pos])
      | .fail => .fail
      | .panic w => .panic w
      | .oof => .oof
  | .recoverSkipUntil a skip until_ fb =>
    match P env a s ctx with
    | .ok v s1 em => .ok v s1 em
    | .panic w => .panic w
    | .oof => .oof
    | .fail => sSkipUntil P env ctx skip until_ fb L s []
  | .recoverSkipRetry a skip until_ =>
    match P env a s ctx with
    | .ok v s1 em => .ok v s1 em
    | .panic w => .panic w
    | .oof => .oof
    | .fail => sSkipRetry P env ctx a skip until_ L s []
  | .labelled l asCtx a =>
    (P env a s ctx).andThen fun v s1 e1 =>
      .ok v s1 (if asCtx then e1.map (Emis.inCtx env l s.pos) else e1)
  | .mapErr _ a => P env a s ctx
  | .withCtx cv a => P env a s cv
  | .ignoreWithCtx a b =>
    (P env a s ctx).andThen fun va s1 e1 =>
    (P env b s1 va).andThen fun vb s2 e2 => .ok vb s2 (e1 ++ e2)
  | .thenWithCtx a b =>
    (P env a s ctx).andThen fun va s1 e1 =>
    (P env b s1 va).andThen fun vb s2 e2 => .ok (.pair va vb) s2 (e1 ++ e2)
  | .mapCtx f a => P env a s (f.eval ctx)
  | .configureJust c ts =>
    let seq := match c with
      | .seqFromCtx => (ctx.asToks?).getD ts
      | _ => ts
    match sJust env seq s with
    | some s' => .ok (.toks seq) s' []
    | none => .fail
  | .withState a =>
    (P env a ⟨s.pos, []⟩ ctx).andThen fun v s1 e1 => .ok v ⟨s1.pos, s.insp⟩ e1
  | .memoized _ a => P env a s ctx
  | .call k =>
    match env.defs[k]? with
    | some d => P env d s ctx
    | none => .panic pUndefined
  | .boxed a => P env a s ctx

def pegMk (P : SRunner) (K : SMkRunner) : SMkRunner := fun env it s ctx =>
  match it with
  | .repeated .. => .ok (.cnt 0) s []
  | .separatedBy .. => .ok (.cnt 0) s []
  | .enumerate inner =>
    match K env inner s ctx with
    | .ok ist s1 em => .ok (.enum 0 ist) s1 em
    | o => o
  | .orNotIt _ => .ok (.fin false) s []
  | .intoIter a =>
    match P env a s ctx with
    | .ok v s1 em => .ok (.into v.elems) s1 em
    | .fail => .fail
    | .panic w => .panic w
    | .oof => .oof
  | .thenIt a _ =>
    match K env a s ctx with
    | .ok ist s1 em => .ok (.thn ist none) s1 em
    | o => o
  | .mapIt _ inner => K env inner s ctx
  | .configureRep c inner =>
    match K env inner s ctx with
    | .ok ist s1 em => let b := cfgBounds c ctx; .ok (.cfg ist b.1 b.2) s1 em
    | o => o
  | .tryConfigureRep _ inner =>
    match ctx.asNat? with
    | none => .fail
    | some n =>
      match K env inner s ctx with
      | .ok ist s1 em => .ok (.cfg ist (some n) (some n)) s1 em
      | o => o

/-- one more item of `repeated` -/
def sRepeatedNext (P : SRunner) (env : Env) (ctx : Val) (a : G) (lo : Nat) (hi : Option Nat)
    (s : SS) (n : Nat) (wrap : ItSt → ItSt) : SItOut :=
  if capReached hi n then .done s (wrap (.cnt n)) []
  else
    match P env a s ctx with
    | .ok v s1 em => .some v s1 (wrap (.cnt (n + 1))) em
    | .fail => if n ≥ lo then .done s (wrap (.cnt n)) [] else .fail
    | .panic w => .panic w
    | .oof => .oof

/-- one more item of `separated_by` -/
def sSeparatedNext (P : SRunner) (env : Env) (ctx : Val) (a sep : G) (lo : Nat) (hi : Option Nat)
    (lead trail : Bool) (s : SS) (n : Nat) : SItOut :=
  if capReached hi n then .done s (.cnt n) []
  else
    -- `s0`/`e0`: position and emissions after the (optional) separator
    let item (s0 : SS) (e0 : List Emis) : SItOut :=
      match P env a s0 ctx with
      | .ok v s1 em => .some v s1 (.cnt (n + 1)) (e0 ++ em)
      | .fail =>
        if n < lo then .fail
        else if trail then .done s0 (.cnt n) e0
        else .done s (.cnt n) []
      | .panic w => .panic w
      | .oof => .oof
    if n == 0 && lead then
      match P env sep s ctx with
      | .ok _ s1 e1 => item s1 e1
      | .fail => item s []
      | .panic w => .panic w
      | .oof => .oof
    else if n > 0 then
      match P env sep s ctx with
      | .ok _ s1 e1 => item s1 e1
      | .fail => if n < lo then .fail else .done s (.cnt n) []
      | .panic w => .panic w
      | .oof => .oof
    else item s []

def pegNext (P : SRunner) (N : SNextRunner) (K : SMkRunner) : SNextRunner := fun env it s ctx ist =>
  match it, ist with
  | .repeated a lo hi, .cnt n => sRepeatedNext P env ctx a lo hi s n id
  | .separatedBy a sep lo hi lead trail, .cnt n => sSeparatedNext P env ctx a sep lo hi lead trail s n
  | .enumerate inner, .enum k st =>
    match N env inner s ctx st with
    | .some v s1 st1 em => .some (.pair (.nat k) v) s1 (.enum (k + 1) st1) em
    | .done s1 st1 em => .done s1 (.enum (k + 1) st1) em
    | .fail => .fail
    | .panic w => .panic w
    | .oof => .oof
  | .orNotIt a, .fin b =>
    if b then .done s (.fin true) []
    else
      match P env a s ctx with
      | .ok v s1 em => .some v s1 (.fin true) em
      | .fail => .done s (.fin true) []
      | .panic w => .panic w
      | .oof => .oof
  | .intoIter _, .into vs =>
    match vs with
    | [] => .done s (.into []) []
    | v :: rest => .some v s (.into rest) []
  | .thenIt a b, .thn sa sb? =>
    match sb? with
    | some sb =>
      match N env b s ctx sb with
      | .some v s1 sb1 em => .some v s1 (.thn sa (some sb1)) em
      | .done s1 sb1 em => .done s1 (.thn sa (some sb1)) em
      | .fail => .fail
      | .panic w => .panic w
      | .oof => .oof
    | none =>
      match N env a s ctx sa with
      | .some v s1 sa1 em => .some v s1 (.thn sa1 none) em
      | .fail => .fail
      | .panic w => .panic w
      | .oof => .oof
      | .done s1 sa1 e1 =>
        match K env b s1 ctx with
        | .fail => .fail
        | .panic w => .panic w
        | .oof => .oof
        | .ok sb s2 e2 =>
          match N env b s2 ctx sb with
          | .some v s3 sb1 e3 => .some v s3 (.thn sa1 (some sb1)) (e1 ++ e2 ++ e3)
          | .done s3 sb1 e3 => .done s3 (.thn sa1 (some sb1)) (e1 ++ e2 ++ e3)
          | .fail => .fail
          | .panic w => .panic w
          | .oof => .oof
  | .mapIt f inner, st =>
    match N env inner s ctx st with
    | .some v s1 st1 em => .some (f.eval v) s1 st1 em
    | o => o
  | .configureRep _ (.repeated a lo hi), .cfg (.cnt n) clo chi =>
    sRepeatedNext P env ctx a (clo.getD lo) (match chi with | some h => some h | none => hi) s n
      (fun st => .cfg st clo chi)
  | .tryConfigureRep _ (.repeated a lo hi), .cfg (.cnt n) clo chi =>
    sRepeatedNext P env ctx a (clo.getD lo) (match chi with | some h => some h | none => hi) s n
      (fun st => .cfg st clo chi)
  | _, _ => .panic pIllTyped

mutual
def peg : Nat → SRunner
  | 0 => fun _ _ _ _ => .oof
  | n + 1 => pegStep (peg n) (pegNext' n) (pegMk' n) n
def pegNext' : Nat → SNextRunner
  | 0 => fun _ _ _ _ _ => .oof
  | n + 1 => pegNext (peg n) (pegNext' n) (pegMk' n)
def pegMk' : Nat → SMkRunner
  | 0 => fun _ _ _ _ => .oof
  | n + 1 => pegMk (peg n) (pegMk' n)
end

/-- the reading of `Parser::parse`: the grammar followed by end of input, from position 0 -/
def pegTop (fuel : Nat) (env : Env) (g : G) : SOut :=
  peg fuel env (.thenIgnore g .end_) ⟨0, []⟩ .unit

end Chumsky
