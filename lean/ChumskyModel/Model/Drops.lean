/-
  Model/Drops.lean — ownership ledger for the code that opts out of Rust's drop checking (property C19).

  Everywhere else the parser moves output values through ordinary locals, so "dropped exactly once or handed out" is the
  compiler's guarantee. Four places write values into `MaybeUninit` storage, which never drops its contents:

    * `MaybeUninitExt::{uninit_array, array_assume_init}`          private.rs:353-372
    * `Group<[P; N]>::go`                                          primitive.rs:1020-1049
    * `CollectExactly::go`                                         combinator.rs:2095-2138
    * `ContainerExactly for [T; N]` and `for Box<C>`               container.rs:186-226

  They are modelled as a ledger machine. A value is identified by a number (its creation index). The ledger records which
  value sits in which slot of the uninitialised array, every destructor call, what is handed to the caller, and whether an
  operation touched an uninitialised slot (`ub`). Forgetting the array (it goes out of scope as `[MaybeUninit<T>; N]`) runs no
  destructor — that is exactly why a missing `drop_before` is a leak.

  No imports (the driver evaluates these definitions on the correspondence cases).
-/
namespace Chumsky.Drops

/-- what the `idx`-th `next()` of the iterable parser (or the `idx`-th parser of the group) does -/
inductive Next where
  | item (v : Nat)     -- `Ok(Some(v))` / `Ok(v)`: a freshly created value
  | stop               -- `Ok(None)` (iterator exhausted) or `Err(())`
  deriving DecidableEq, Repr, Inhabited

structure Ledger where
  slots : List (Option Nat)      -- the `[MaybeUninit<T>; N]`: which value was written to slot i
  drops : List Nat               -- destructor calls, in order
  out : List Nat                 -- values moved into the result handed to the caller
  ub : Bool                      -- an `assume_init*` touched a slot that was never written
  boxAlloc : Nat                 -- `Box<C>` container: live heap allocations of the uninit storage not yet freed / handed out
  deriving DecidableEq, Repr, Inhabited

def Ledger.init (n : Nat) (boxed : Bool) : Ledger :=
  { slots := List.replicate n none, drops := [], out := [], ub := false, boxAlloc := if boxed then 1 else 0 }

/-- `C::write(c, idx, out)`: `uninit[idx].write(item)` — overwriting never drops the old contents -/
def Ledger.write (l : Ledger) (i v : Nat) : Ledger := { l with slots := l.slots.set i (some v) }

/-- `C::drop_before(c, idx)`: `uninit[..idx].iter_mut().for_each(|o| o.assume_init_drop())` -/
def Ledger.dropBefore (l : Ledger) (i : Nat) : Ledger :=
  { l with drops := l.drops ++ (l.slots.take i).filterMap id, ub := l.ub || (l.slots.take i).any Option.isNone }

/-- `C::take(c)` / `array_assume_init`: read the whole array out as initialised values -/
def Ledger.takeAll (l : Ledger) : Ledger :=
  { l with out := l.out ++ l.slots.filterMap id, ub := l.ub || l.slots.any Option.isNone, boxAlloc := 0 }

/-- the uninit storage goes out of scope on an error path: no element destructor runs; a `Box` frees its allocation -/
def Ledger.forget (l : Ledger) : Ledger := { l with boxAlloc := 0 }

/-- `CollectExactly::go` (Emit mode), `fuel + idx = N`:
      for idx in 0..N { match next() { Ok(Some(out)) => write(idx, out), _ => { drop_before(idx); return Err } } }  Ok(take()) -/
def ceLoop (next : Nat → Next) : Nat → Nat → Ledger → Ledger × Bool
  | 0, _, l => (l.takeAll, true)
  | fuel + 1, idx, l =>
    match next idx with
    | .item v => ceLoop next fuel (idx + 1) (l.write idx v)
    | .stop => ((l.dropBefore idx).forget, false)

def collectExactly (n : Nat) (boxed : Bool) (next : Nat → Next) : Ledger × Bool :=
  ceLoop next n 0 (Ledger.init n boxed)

/-- `Group<[P; N]>::go` as repaired (`fix:` commit for D6): on the failure of the idx-th parser the initialised prefix is dropped -/
def groupArr (n : Nat) (next : Nat → Next) : Ledger × Bool := collectExactly n false next

/-- the pinned code: `try_for_each(|(p, res)| { res.write(p.go(inp)?); Ok(()) })?` — an early return just forgets the array -/
def gaLeakyLoop (next : Nat → Next) : Nat → Nat → Ledger → Ledger × Bool
  | 0, _, l => (l.takeAll, true)
  | fuel + 1, idx, l =>
    match next idx with
    | .item v => gaLeakyLoop next fuel (idx + 1) (l.write idx v)
    | .stop => (l.forget, false)

def groupArrLeaky (n : Nat) (next : Nat → Next) : Ledger × Bool := gaLeakyLoop next n 0 (Ledger.init n false)

/-- the values created before the first `stop`, among the first `n` calls (the iterator is never asked an (n+1)-th time) -/
def created (next : Nat → Next) : Nat → Nat → List Nat
  | 0, _ => []
  | fuel + 1, idx =>
    match next idx with
    | .item v => v :: created next fuel (idx + 1)
    | .stop => []

/-- the run reaches `N` items -/
def complete (next : Nat → Next) : Nat → Nat → Bool
  | 0, _ => true
  | fuel + 1, idx =>
    match next idx with
    | .item _ => complete next fuel (idx + 1)
    | .stop => false

/-- summary printed by the driver and compared with the instrumented run of the real code:
    (values created, destructor calls before `go` returns, values in the result, ub, leaked = created − dropped − returned) -/
def summary (r : Ledger × Bool) (nCreated : Nat) : String :=
  s!"created={nCreated} dropped={r.1.drops.length} returned={r.1.out.length} ok={if r.2 then 1 else 0} ub={if r.1.ub then 1 else 0}"

end Chumsky.Drops
