/-
  Model/Nested.lean — `a.nested_in(b)` (property C16): `combinator.rs:1071-1109`, `input.rs:1386-1423`.

  A two-level language. The leaves are arbitrary grammars of the base language `G`, run by the base machine (`run`) and read by
  the base reading (`peg`) unchanged; the glue is the small set of combinators that may CONTAIN a nested parse (sequence,
  ordered choice, option, span capture), so that a nested parse sits under backtracking sites and at any depth.

  Token trees: a token is a number; `groups` says which tokens are groups and what their children are. `b` must yield
  `Val.tok t` / `tag 7 (tok t)` (the `select!` closure of the harness) for a group token `t`; the inner input is the child
  sequence laid out with the same span discipline as every level of the harness's inputs (token `i` covers
  `[i·(gap+2)+gap, i·(gap+2)+gap+2)`, end-of-input span empty after the last gap).

  The machine mirrors the Rust: `b` runs in `Emit`; the outer pending error is taken; `a.then_ignore(end())` runs in a
  sub-context with fresh secondary errors / pending error / memo table, sharing inspector state and context; afterwards the
  inner secondary errors are appended to the outer list re-homed at the outer cursor, the inner pending error is re-homed
  there too and merged with the outer one by the priority rule; the result (success or failure) is the inner one, the
  outer cursor stays just after `b` — no rewind: callers backtrack over it like over any other failure.
-/
import ChumskyModel.Model.Spec
namespace Chumsky

inductive NGram where
  | lift (g : G)
  | nestedIn (a : NGram) (b : G)
  | then_ (a b : NGram)
  | or_ (a b : NGram)
  | orNot (a : NGram)
  | mapWithSpan (a : NGram)
  deriving Repr, Inhabited

structure NEnv where
  base : Env
  groups : List (Nat × List Nat)
  gap : Nat
  deriving Inhabited

def pNotGroup : Nat := 91      -- `b` produced something that is not a group token (never generated)

/-- the children of the group token carried by `b`'s output -/
def NEnv.kidsOf (ne : NEnv) : Val → Option (List Nat)
  | .tok t => (ne.groups.find? (fun p => p.1 == t)).map (·.2)
  | .tag _ (.tok t) => (ne.groups.find? (fun p => p.1 == t)).map (·.2)
  | _ => none

def layoutSpans (gap : Nat) : Nat → Nat → List (Nat × Nat)
  | 0, _ => []
  | n + 1, i => (i * (gap + 2) + gap, i * (gap + 2) + gap + 2) :: layoutSpans gap n (i + 1)

/-- the environment of the nested parse: the children as a mapped input; error kind, definitions, memo switch unchanged -/
def NEnv.inner (ne : NEnv) (kids : List Nat) : NEnv :=
  { ne with base := { ne.base with toks := kids, kind := .mapped, tspans := layoutSpans ne.gap kids.length 0,
                                   eoi := (kids.length * (ne.gap + 2) + ne.gap, kids.length * (ne.gap + 2) + ne.gap) } }

/-- `Located::at(self.cursor, err.err)` for every inner secondary error -/
def rehome (at_ : Nat) (ls : List Loc) : List Loc := ls.map (fun l => ⟨at_, l.err⟩)

/-- what `with_input` + the tail of `NestedIn::go` leave in the outer state, given the state `st1` after `b`
    and the final inner state `si` -/
def nestedMerge (env : Env) (st1 si : St) : St :=
  let st2 : St := { st1 with errs := st1.errs ++ rehome st1.pos si.errs, insp := si.insp }
  match si.alt with
  | some a => st2.addAltErr env st1.pos a.err
  | none => st2

/-- `a.then_ignore(end())` on the inner input, machine side: `ra` = the run of `a`, `rend` = the run of `end()` -/
def innerThenEndM (ra : Out) (rend : St → Out) : Out :=
  ra.andThen fun va si1 => (rend si1).andThen fun _ si2 => .ok va si2

/-- … and in the reading -/
def innerThenEndS (pa : SOut) (pend : SS → SOut) : SOut :=
  pa.andThen fun va si1 e2 => (pend si1).andThen fun _ si2 e3 => .ok va si2 (e2 ++ e3)

def runN : Nat → NEnv → Mode → NGram → St → Out
  | 0, _, _, _, _ => .oof
  | n + 1, ne, m, .lift g, st => run n ne.base m g st
  | n + 1, ne, m, .then_ a b, st =>
    (runN n ne m a st).andThen fun va st1 =>
    (runN n ne m b st1).andThen fun vb st2 => .ok (m.bind (.pair va vb)) st2
  | n + 1, ne, m, .or_ a b, st =>
    let c := st.save
    match runN n ne m a st with
    | .ok v st' => .ok v st'
    | .fail st' =>
      (match runN n ne m b (st'.rewind c) with
       | .ok v st'' => .ok v st''
       | .fail st'' => .fail (st''.rewind c)
       | .panic w => .panic w
       | .oof => .oof)
    | .panic w => .panic w
    | .oof => .oof
  | n + 1, ne, m, .orNot a, st =>
    let c := st.save
    match runN n ne m a st with
    | .ok v st' => .ok (match m with | .emit => .some v | .check => .unit) st'
    | .fail st' => .ok (m.bind .none) (st'.rewind c)
    | .panic w => .panic w
    | .oof => .oof
  | n + 1, ne, m, .mapWithSpan a, st =>
    let before := st.pos
    (runN n ne m a st).andThen fun v st1 =>
      let s := ne.base.mkSpan before st1.pos
      .ok (m.bind (.pair v (.span s.1 s.2))) st1
  | n + 1, ne, m, .nestedIn a b, st =>
    match run n ne.base .emit b st with
    | .fail st1 => .fail st1
    | .panic w => .panic w
    | .oof => .oof
    | .ok vb st1 =>
      match ne.kidsOf vb with
      | none => .panic pNotGroup
      | some kids =>
        let ni := ne.inner kids
        -- `with_input`: fresh errors and memo table, shared inspector state and context. The outer pending error is taken
        -- before and put back after, then the re-homed inner one is merged into it (`nestedMerge`).
        let inner0 : St := { pos := 0, errs := [], alt := none, insp := st1.insp, ctx := st1.ctx, memo := [], log := [] }
        -- `a.then_ignore(end())`
        match innerThenEndM (runN n ni m a inner0) (fun si1 => run n ni.base .check .end_ si1) with
        | .ok va si => .ok va (nestedMerge ne.base st1 si)
        | .fail si => .fail (nestedMerge ne.base st1 si)
        | .panic w => .panic w
        | .oof => .oof

/-- re-home the reading's emissions at the outer position -/
def rehomeEm (at_ : Nat) : List Emis → List Emis
  | [] => []
  | .user l :: es => .user ⟨at_, l.err⟩ :: rehomeEm at_ es
  | .recovered _ :: es => .recovered at_ :: rehomeEm at_ es

/-- the reading: `b` yields a group and consumes it; `a` must match the children COMPLETELY; the result is `a`'s, the outer
    position is just after `b`; inner emissions follow `b`'s, in order, reported at the outer position -/
def pegN : Nat → NEnv → NGram → SS → Val → SOut
  | 0, _, _, _, _ => .oof
  | n + 1, ne, .lift g, s, ctx => peg n ne.base g s ctx
  | n + 1, ne, .then_ a b, s, ctx =>
    (pegN n ne a s ctx).andThen fun va s1 e1 =>
    (pegN n ne b s1 ctx).andThen fun vb s2 e2 => .ok (.pair va vb) s2 (e1 ++ e2)
  | n + 1, ne, .or_ a b, s, ctx =>
    match pegN n ne a s ctx with
    | .ok v s' em => .ok v s' em
    | .fail => pegN n ne b s ctx
    | .panic w => .panic w
    | .oof => .oof
  | n + 1, ne, .orNot a, s, ctx =>
    match pegN n ne a s ctx with
    | .ok v s' em => .ok (.some v) s' em
    | .fail => .ok .none s []
    | .panic w => .panic w
    | .oof => .oof
  | n + 1, ne, .mapWithSpan a, s, ctx =>
    (pegN n ne a s ctx).andThen fun v s1 e1 =>
      let sp := ne.base.mkSpan s.pos s1.pos
      .ok (.pair v (.span sp.1 sp.2)) s1 e1
  | n + 1, ne, .nestedIn a b, s, ctx =>
    (peg n ne.base b s ctx).andThen fun vb s1 e1 =>
      match ne.kidsOf vb with
      | none => .panic pNotGroup
      | some kids =>
        let ni := ne.inner kids
        match innerThenEndS (pegN n ni a ⟨0, s1.insp⟩ ctx) (fun si1 => peg n ni.base .end_ si1 ctx) with
        | .ok va si e2 => .ok va ⟨s1.pos, si.insp⟩ (e1 ++ rehomeEm s1.pos e2)
        | .fail => .fail
        | .panic w => .panic w
        | .oof => .oof

/-- `parse` / `check` of a two-level grammar -/
def parseTopN (fuel : Nat) (ne : NEnv) (m : Mode) (g : NGram) : TopOut :=
  match (runN fuel ne m g St.init).andThen (fun v st1 =>
          (run fuel ne.base .check .end_ st1).andThen fun _ st2 => .ok v st2) with
  | .panic w => .panic w
  | .oof => .oof
  | .ok v st => .result ⟨some v, st.errs.map (·.err)⟩ st
  | .fail st =>
    let alt := match st.alt with
      | some a => a.err
      | none => ne.base.ek.expectedFound [] none (ne.base.mkSpan st.pos st.pos)
    .result ⟨none, st.errs.map (·.err) ++ [alt]⟩ st

def pegTopN (fuel : Nat) (ne : NEnv) (g : NGram) : SOut :=
  (pegN fuel ne g ⟨0, []⟩ .unit).andThen fun v s1 e1 =>
    (peg fuel ne.base .end_ s1 .unit).andThen fun _ s2 e2 => .ok v s2 (e1 ++ e2)

/-! ### `nested_in` anywhere in a grammar

  The two-level language above puts a nested parse under a handful of glue combinators. The general situation —
  `a.nested_in(b)` at any position of any grammar (inside repetitions, under recovery, labelled, in a recursive definition),
  with `a` itself free to contain nested parses — is obtained as for Pratt parsers: inside `a`, `b` and the surrounding
  grammar the reference `.call hole` *is* `a.nested_in(b)`. `runH` is the ordinary `step` with itself as the open-recursion
  runner and `NestedIn::go` (`nestedStepM`) at the hole; the inner environment replaces the token list and the span
  function, nothing else. -/

structure HEnv where
  hole : Nat
  a : G
  b : G
  groups : List (Nat × List Nat)
  gap : Nat
  deriving Repr, Inhabited

def HEnv.isHole (h : HEnv) : G → Bool
  | .call k => k == h.hole
  | _ => false

def HEnv.ne (h : HEnv) (env : Env) : NEnv := { base := env, groups := h.groups, gap := h.gap }
def HEnv.kidsOf (h : HEnv) (v : Val) : Option (List Nat) := (h.ne default).kidsOf v
def HEnv.innerEnv (h : HEnv) (env : Env) (kids : List Nat) : Env := ((h.ne env).inner kids).base

/-- `NestedIn::go` over an arbitrary runner -/
def nestedStepM (R : Runner) (h : HEnv) (env : Env) (m : Mode) (st : St) : Out :=
  match R env .emit h.b st with
  | .fail st1 => .fail st1
  | .panic w => .panic w
  | .oof => .oof
  | .ok vb st1 =>
    match h.kidsOf vb with
    | none => .panic pNotGroup
    | some kids =>
      let ei := h.innerEnv env kids
      let inner0 : St := { pos := 0, errs := [], alt := none, insp := st1.insp, ctx := st1.ctx, memo := [], log := [] }
      match innerThenEndM (R ei m h.a inner0) (fun si1 => R ei .check .end_ si1) with
      | .ok va si => .ok va (nestedMerge env st1 si)
      | .fail si => .fail (nestedMerge env st1 si)
      | .panic w => .panic w
      | .oof => .oof

/-- its reading over an arbitrary reading of the sub-parsers -/
def nestedStepS (P : SRunner) (h : HEnv) (env : Env) (s : SS) (ctx : Val) : SOut :=
  (P env h.b s ctx).andThen fun vb s1 e1 =>
    match h.kidsOf vb with
    | none => .panic pNotGroup
    | some kids =>
      let ei := h.innerEnv env kids
      match innerThenEndS (P ei h.a ⟨0, s1.insp⟩ ctx) (fun si1 => P ei .end_ si1 ctx) with
      | .ok va si e2 => .ok va ⟨s1.pos, si.insp⟩ (e1 ++ rehomeEm s1.pos e2)
      | .fail => .fail
      | .panic w => .panic w
      | .oof => .oof

mutual
def runH (h : HEnv) : Nat → Runner
  | 0 => fun _ _ _ _ => .oof
  | n + 1 => fun env m g st =>
    if h.isHole g then nestedStepM (runH h n) h env m st
    else step (runH h n) (nextH h n) (mkIterH h n) n env m g st
def nextH (h : HEnv) : Nat → NextRunner
  | 0 => fun _ _ _ _ _ => .oof
  | n + 1 => stepNext (runH h n) (nextH h n) (mkIterH h n)
def mkIterH (h : HEnv) : Nat → MkRunner
  | 0 => fun _ _ _ _ => .oof
  | n + 1 => stepMk (runH h n) (mkIterH h n)
end

mutual
def pegH (h : HEnv) : Nat → SRunner
  | 0 => fun _ _ _ _ => .oof
  | n + 1 => fun env g s ctx =>
    if h.isHole g then nestedStepS (pegH h n) h env s ctx
    else pegStep (pegH h n) (pegNextH h n) (pegMkH h n) n env g s ctx
def pegNextH (h : HEnv) : Nat → SNextRunner
  | 0 => fun _ _ _ _ _ => .oof
  | n + 1 => pegNext (pegH h n) (pegNextH h n) (pegMkH h n)
def pegMkH (h : HEnv) : Nat → SMkRunner
  | 0 => fun _ _ _ _ => .oof
  | n + 1 => pegMk (pegH h n) (pegMkH h n)
end

/-- `parse` / `check` of a grammar `g` that may mention the nested parse -/
def parseTopH (h : HEnv) (fuel : Nat) (env : Env) (m : Mode) (g : G) : TopOut :=
  match runH h fuel env m (.thenIgnore g .end_) St.init with
  | .panic w => .panic w
  | .oof => .oof
  | .ok v st => .result ⟨some v, st.errs.map (·.err)⟩ st
  | .fail st =>
    let alt := match st.alt with
      | some a => a.err
      | none => env.ek.expectedFound [] none (env.mkSpan st.pos st.pos)
    .result ⟨none, st.errs.map (·.err) ++ [alt]⟩ st

def pegTopH (h : HEnv) (fuel : Nat) (env : Env) (g : G) : SOut :=
  pegH h fuel env (.thenIgnore g .end_) ⟨0, []⟩ .unit

end Chumsky
