/-
  Model/Error.lean — the four error types (`EmptyErr`, `Cheap`, `Simple`, `Rich`) as one record
  normalised per kind, with the operations of `error.rs` / `label.rs`:
  `expected_found`, `merge`, `merge_expected_found`, `replace_expected_found`, `label_with`,
  `in_context`, and the user-error constructor the closure library uses.
-/
import ChumskyModel.Model.Basic
namespace Chumsky

/-- push the elements of `new` that are not yet contained (`error.rs:759-764`, `561-565`) -/
def pushNew (acc : List Pat) : List Pat → List Pat
  | [] => acc
  | p :: ps => if acc.contains p then pushNew acc ps else pushNew (acc ++ [p]) ps

/-- `RichReason::flat_merge` (`error.rs:542-572`) -/
def Reason.flatMerge : Reason → Reason → Reason
  | .custom m, _ => .custom m
  | _, .custom m => .custom m
  | .ef ea fa, .ef eb fb =>
      -- the first error's `found` wins; the other's is used when the first has none (as `merge_expected_found` does)
      if eb.length > ea.length then .ef (pushNew eb ea) (fa.or fb) else .ef (pushNew ea eb) (fa.or fb)

namespace ErrKind

/-- `LabelError::expected_found` -/
def expectedFound (k : ErrKind) (exp : List Pat) (found : Option Nat) (span : Nat × Nat) : Err :=
  match k with
  | .rich => ⟨span, .ef exp found, []⟩
  | .simple => ⟨span, .ef [] found, []⟩
  | .cheap => ⟨span, .ef [] none, []⟩
  | .empty => ⟨(0, 0), .ef [] none, []⟩

/-- `Error::merge` (default: keep `self`; Rich: `error.rs:720-727`) -/
def merge (k : ErrKind) (a b : Err) : Err :=
  match k with
  | .rich => ⟨a.span, a.reason.flatMerge b.reason, a.ctx⟩
  | _ => a

/-- `LabelError::merge_expected_found` (default: `self.merge(expected_found(..))`; Rich: `error.rs:752-773`) -/
def mergeEF (k : ErrKind) (a : Err) (exp : List Pat) (found : Option Nat) (_span : Nat × Nat) : Err :=
  match k with
  | .rich =>
    match a.reason with
    | .ef e f => ⟨a.span, .ef (pushNew e exp) (f.or found), a.ctx⟩
    | .custom _ => a
  | _ => a

/-- `LabelError::replace_expected_found` (default: a fresh `expected_found`; Rich: `error.rs:775-798`) -/
def replaceEF (k : ErrKind) (_a : Err) (exp : List Pat) (found : Option Nat) (span : Nat × Nat) : Err :=
  expectedFound k exp found span

/-- `LabelError::label_with` (default: nothing; Rich: `error.rs:800-815`) -/
def labelWith (k : ErrKind) (a : Err) (l : Nat) : Err :=
  match k with
  | .rich =>
    match a.reason with
    | .ef _ f => ⟨a.span, .ef [.label l] f, a.ctx⟩
    | .custom _ => ⟨a.span, .ef [.label l] none, a.ctx⟩
  | _ => a

/-- `LabelError::in_context` (default: nothing; Rich: `error.rs:817-822`) -/
def inContext (k : ErrKind) (a : Err) (l : Nat) (span : Nat × Nat) : Err :=
  match k with
  | .rich =>
    if a.ctx.all (fun c => c.1 != .label l) then ⟨a.span, a.reason, a.ctx ++ [(.label l, span)]⟩ else a
  | _ => a

/-- the error a user closure of the library builds: `Rich::custom(span, msg)`, `Simple::new(None, span)`,
    `Cheap::new(span)`, `EmptyErr::default()` -/
def userErr (k : ErrKind) (span : Nat × Nat) (msg : Nat) : Err :=
  match k with
  | .rich => ⟨span, .custom msg, []⟩
  | .simple => ⟨span, .ef [] none, []⟩
  | .cheap => ⟨span, .ef [] none, []⟩
  | .empty => ⟨(0, 0), .ef [] none, []⟩

end ErrKind
end Chumsky
