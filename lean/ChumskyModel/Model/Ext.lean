/-
  Model/Ext.lean — several extensions at once: a grammar over token trees whose nested parses contain Pratt expressions whose
  atoms contain nested parses … (the usual shape of a real front end: the lexer groups brackets into trees, the parser uses
  `nested_in` for the groups and `pratt` for the expressions inside them).

  `EEnv` lists the extensions; `.call (base + i)` anywhere — in the main grammar, in a definition, inside any extension's own
  parsers — is extension `i`: either `atom.pratt(ops)` or `a.nested_in(b)`. `runE` is the ordinary `step` with itself as the
  open-recursion runner, `pratt_go` / `NestedIn::go` at the extension references. `XEnv` and `HEnv` are the one-extension
  instances.
-/
import ChumskyModel.Model.Pratt
import ChumskyModel.Model.Nested
namespace Chumsky

inductive Ext where
  | pratt (atom : G) (ops : List PrattOp)
  | nested (a b : G)
  deriving Repr, Inhabited

structure EEnv where
  base : Nat
  exts : List Ext
  groups : List (Nat × List Nat) := []
  gap : Nat := 0
  deriving Repr, Inhabited

/-- the extension a grammar node refers to, if any -/
def EEnv.find (e : EEnv) : G → Option Ext
  | .call k => if e.base ≤ k then e.exts[k - e.base]? else none
  | _ => none

/-- the `HEnv` view of a nested extension (the hole index is irrelevant to `nestedStepM`) -/
def EEnv.henv (e : EEnv) (a b : G) : HEnv := { hole := 0, a := a, b := b, groups := e.groups, gap := e.gap }

mutual
def runE (e : EEnv) : Nat → Runner
  | 0 => fun _ _ _ _ => .oof
  | n + 1 => fun env m g st =>
    match e.find g with
    | some (.pratt atom ops) => prattGo (fun m g st => runE e n env m g st) env m atom ops n 0 st
    | some (.nested a b) => nestedStepM (runE e n) (e.henv a b) env m st
    | none => step (runE e n) (nextE e n) (mkIterE e n) n env m g st
def nextE (e : EEnv) : Nat → NextRunner
  | 0 => fun _ _ _ _ _ => .oof
  | n + 1 => stepNext (runE e n) (nextE e n) (mkIterE e n)
def mkIterE (e : EEnv) : Nat → MkRunner
  | 0 => fun _ _ _ _ => .oof
  | n + 1 => stepMk (runE e n) (mkIterE e n)
end

mutual
def pegE (e : EEnv) : Nat → SRunner
  | 0 => fun _ _ _ _ => .oof
  | n + 1 => fun env g s ctx =>
    match e.find g with
    | some (.pratt atom ops) => sPratt (fun g s => pegE e n env g s ctx) env atom ops n 0 s
    | some (.nested a b) => nestedStepS (pegE e n) (e.henv a b) env s ctx
    | none => pegStep (pegE e n) (pegNextE e n) (pegMkE e n) n env g s ctx
def pegNextE (e : EEnv) : Nat → SNextRunner
  | 0 => fun _ _ _ _ _ => .oof
  | n + 1 => pegNext (pegE e n) (pegNextE e n) (pegMkE e n)
def pegMkE (e : EEnv) : Nat → SMkRunner
  | 0 => fun _ _ _ _ => .oof
  | n + 1 => pegMk (pegE e n) (pegMkE e n)
end

def parseTopE (e : EEnv) (fuel : Nat) (env : Env) (m : Mode) (g : G) : TopOut :=
  match runE e fuel env m (.thenIgnore g .end_) St.init with
  | .panic w => .panic w
  | .oof => .oof
  | .ok v st => .result ⟨some v, st.errs.map (·.err)⟩ st
  | .fail st =>
    let alt := match st.alt with
      | some a => a.err
      | none => env.ek.expectedFound [] none (env.mkSpan st.pos st.pos)
    .result ⟨none, st.errs.map (·.err) ++ [alt]⟩ st

def pegTopE (e : EEnv) (fuel : Nat) (env : Env) (g : G) : SOut :=
  pegE e fuel env (.thenIgnore g .end_) ⟨0, []⟩ .unit

end Chumsky
