/-
  Model/Text.lean — the text parsers (`text.rs:254-616, 933-1038`) as derived parsers over a character-class record
  (the `Char` trait), instantiated for `char` and for `u8`.

  The real parsers are compositions of combinators already covered by the generic model (`any().try_map(class)`,
  `then`, `repeated`, `or`, `to_slice`, plus the `custom` code of `newline` and the `skip_while` of `padded`); here they
  are transcribed as position functions `tokens → start → Option end` with the same PEG reading, so that their
  languages can be stated and proved outright. A parser returns the matched slice `[start, end)` of the input.
-/
namespace Chumsky.Text

/-- the `Char` trait -/
structure CC where
  isInlineWs : Nat → Bool
  isWs : Nat → Bool
  isNewline : Nat → Bool
  isDigit : Nat → Nat → Bool          -- radix, character
  isIdentStart : Nat → Bool
  isIdentCont : Nat → Bool
  toAscii : Nat → Option Nat
  digitZero : Nat

/-- `any().try_map(p).repeated()` / `skip_while(p)`: the longest run of characters satisfying `p` -/
def many (p : Nat → Bool) (toks : List Nat) : Nat → Nat → Nat
  | 0, pos => pos
  | fuel + 1, pos =>
    match toks[pos]? with
    | some c => if p c then many p toks fuel (pos + 1) else pos
    | none => pos

def skip (p : Nat → Bool) (toks : List Nat) (pos : Nat) : Nat := many p toks (toks.length - pos + 1) pos

/-- `text::whitespace()` / `inline_whitespace()`: always succeed -/
def whitespace (cc : CC) (toks : List Nat) (pos : Nat) : Option Nat := some (skip cc.isWs toks pos)
def inlineWhitespace (cc : CC) (toks : List Nat) (pos : Nat) : Option Nat := some (skip cc.isInlineWs toks pos)

/-- `whitespace().at_least(lo).at_most(hi)` (the returned `Repeated` counts CHARACTERS): at most `hi` of the run are taken,
    and the parser fails when fewer than `lo` are there -/
def boundedRun (p : Nat → Bool) (lo hi : Nat) (toks : List Nat) (pos : Nat) : Option Nat :=
  let e := many p toks hi pos
  if lo ≤ e - pos then some e else none

def whitespaceB (cc : CC) (lo hi : Nat) := boundedRun cc.isWs lo hi
def inlineWhitespaceB (cc : CC) (lo hi : Nat) := boundedRun cc.isInlineWs lo hi

/-- `text::digits(r)`: one or more radix-`r` digits -/
def digits (cc : CC) (r : Nat) (toks : List Nat) (pos : Nat) : Option Nat :=
  match toks[pos]? with
  | some c => if cc.isDigit r c then some (skip (cc.isDigit r) toks (pos + 1)) else none
  | none => none

/-- `text::int(r)`: a non-zero digit followed by digits, or else a single zero (ordered choice) -/
def int (cc : CC) (r : Nat) (toks : List Nat) (pos : Nat) : Option Nat :=
  match toks[pos]? with
  | some c =>
    if cc.isDigit r c && c != cc.digitZero then some (skip (cc.isDigit r) toks (pos + 1))
    else if c == cc.digitZero then some (pos + 1)
    else none
  | none => none

def asciiAlpha (b : Nat) : Bool := (65 ≤ b && b ≤ 90) || (97 ≤ b && b ≤ 122)
def asciiAlnum (b : Nat) : Bool := asciiAlpha b || (48 ≤ b && b ≤ 57)

def isAsciiIdentStart (cc : CC) (c : Nat) : Bool :=
  match cc.toAscii c with | some b => asciiAlpha b || b == 95 | none => false
def isAsciiIdentCont (cc : CC) (c : Nat) : Bool :=
  match cc.toAscii c with | some b => asciiAlnum b || b == 95 | none => false

/-- `text::ascii::ident()` -/
def asciiIdent (cc : CC) (toks : List Nat) (pos : Nat) : Option Nat :=
  match toks[pos]? with
  | some c => if isAsciiIdentStart cc c then some (skip (isAsciiIdentCont cc) toks (pos + 1)) else none
  | none => none

/-- `text::unicode::ident()` (`text::ident`) -/
def unicodeIdent (cc : CC) (toks : List Nat) (pos : Nat) : Option Nat :=
  match toks[pos]? with
  | some c => if cc.isIdentStart c then some (skip cc.isIdentCont toks (pos + 1)) else none
  | none => none

/-- `keyword(k)`: `ident().try_map(|s| s == k).to_slice()` -/
def keywordOf (ident : List Nat → Nat → Option Nat) (k : List Nat) (toks : List Nat) (pos : Nat) : Option Nat :=
  match ident toks pos with
  | some e => if (toks.drop pos).take (e - pos) == k then some e else none
  | none => none

def asciiKeyword (cc : CC) := keywordOf (asciiIdent cc)
def unicodeKeyword (cc : CC) := keywordOf (unicodeIdent cc)

/-- `text::newline()` (the `custom` body, `text.rs:357-384`) -/
def newline (cc : CC) (toks : List Nat) (pos : Nat) : Option Nat :=
  match toks[pos]? with
  | some c =>
    if cc.toAscii c == some 13 then
      (match toks[pos + 1]? with
       | some d => if cc.toAscii d == some 10 then some (pos + 2) else some (pos + 1)
       | none => some (pos + 1))
    else if cc.isNewline c then some (pos + 1) else none
  | none => none

/-- `p.padded()`: skip whitespace, `p`, skip whitespace; returns (start of p, end of p, end) -/
def padded (cc : CC) (p : List Nat → Nat → Option Nat) (toks : List Nat) (pos : Nat) : Option (Nat × Nat × Nat) :=
  let s := skip cc.isWs toks pos
  match p toks s with
  | some e => some (s, e, skip cc.isWs toks e)
  | none => none

/-! ### the two instances -/

def charDigit (r c : Nat) : Bool :=
  -- `char::is_digit(radix)`: ASCII only
  let v := if 48 ≤ c && c ≤ 57 then some (c - 48)
           else if 97 ≤ c && c ≤ 122 then some (c - 97 + 10)
           else if 65 ≤ c && c ≤ 90 then some (c - 65 + 10) else none
  match v with | some d => decide (d < r) | none => false

/-- `char::is_whitespace` = Unicode `White_Space` -/
def charWs (c : Nat) : Bool :=
  (9 ≤ c && c ≤ 13) || c == 32 || c == 0x85 || c == 0xA0 || c == 0x1680 || (0x2000 ≤ c && c ≤ 0x200A) ||
  c == 0x2028 || c == 0x2029 || c == 0x202F || c == 0x205F || c == 0x3000

/-- XID_Start / XID_Continue restricted to ASCII plus the non-ASCII code points the generator uses
    (the Unicode tables themselves are a parameter: the harness reads them from `unicode-ident`) -/
def xidStartSample : List Nat := [0xAA, 0xB5, 0xBA, 0xC3, 0xE9, 0x3B1, 0x4E2D, 0x0E01]
def xidContinueOnlySample : List Nat := [0xB7, 0x301, 0x0660]
def charXidStart (c : Nat) : Bool := asciiAlpha c || xidStartSample.contains c
def charXidContinue (c : Nat) : Bool := asciiAlnum c || c == 95 || xidStartSample.contains c || xidContinueOnlySample.contains c

def charCC : CC where
  isInlineWs c := c == 32 || c == 9
  isWs := charWs
  isNewline c := c == 10 || c == 13 || c == 11 || c == 12 || c == 0x85 || c == 0x2028 || c == 0x2029
  isDigit := charDigit
  isIdentStart c := charXidStart c || c == 95
  isIdentCont := charXidContinue
  toAscii c := if c < 128 then some c else none
  digitZero := 48

/-- `impl Char for u8` (`text.rs:148-188`) -/
def u8CC : CC where
  isInlineWs c := c == 32 || c == 9
  isWs c := c == 9 || c == 10 || c == 11 || c == 12 || c == 13 || c == 32   -- `is_ascii_whitespace() || 0x0B`
  isNewline c := c == 10 || c == 13 || c == 11 || c == 12
  isDigit := charDigit
  isIdentStart c := charXidStart c || c == 95
  isIdentCont := charXidContinue
  toAscii c := some c
  digitZero := 48

end Chumsky.Text
