/-
  C08 — error recovery is transparent on success, loud on failure, and never silent.
-/
import ChumskyModel.Proofs.Lemmas.ExtResult
import ChumskyModel.Proofs.Lemmas.Top
import ChumskyModel.Proofs.Lemmas.NestedDelims
set_option linter.unusedSimpArgs false
namespace Chumsky

/-- **C08 (refinement).** `recover_with` with each strategy, arbitrarily nested, refines the recovery reading
    (this is the master refinement; restated for the three recovery constructors so it cannot be weakened silently). -/
theorem c08_refines (n : Nat) (env : Env) (m : Mode) (st : St) (hm : env.memoOn = false) (a r skip until_ : G) (fb : Val) :
    Refines m st.errs st.ctx (run n env m (.recoverVia a r) st) (peg n env (.recoverVia a r) st.ss st.ctx) ∧
    Refines m st.errs st.ctx (run n env m (.recoverSkipUntil a skip until_ fb) st)
      (peg n env (.recoverSkipUntil a skip until_ fb) st.ss st.ctx) ∧
    Refines m st.errs st.ctx (run n env m (.recoverSkipRetry a skip until_) st)
      (peg n env (.recoverSkipRetry a skip until_) st.ss st.ctx) :=
  ⟨run_refines n env m _ st hm, run_refines n env m _ st hm, run_refines n env m _ st hm⟩

/-! ### the recovery reading -/

/-- transparent wherever the parser succeeds (all three strategies) -/
theorem c08_transparent (n : Nat) (env : Env) (a r skip until_ : G) (fb : Val) (s : SS) (ctx : Val) {v s' em}
    (h : peg n env a s ctx = .ok v s' em) :
    peg (n + 1) env (.recoverVia a r) s ctx = .ok v s' em ∧
    peg (n + 1) env (.recoverSkipUntil a skip until_ fb) s ctx = .ok v s' em ∧
    peg (n + 1) env (.recoverSkipRetry a skip until_) s ctx = .ok v s' em := by
  simp [peg, pegStep, h]

/-- where the parser fails and the strategy succeeds: the strategy's output, its emissions, plus exactly one
    extra reported error (emitted last, at the position the strategy ended) -/
theorem c08_via_recovers (n : Nat) (env : Env) (a r : G) (s : SS) (ctx : Val) {v s1 em}
    (ha : peg n env a s ctx = .fail) (hr : peg n env r s ctx = .ok v s1 em) :
    peg (n + 1) env (.recoverVia a r) s ctx = .ok v s1 (em ++ [.recovered s1.pos]) := by
  simp [peg, pegStep, ha, hr]

/-- where both fail the combinator fails (and, by `c05_atomic`, the caller's state is restorable) -/
theorem c08_via_both_fail (n : Nat) (env : Env) (a r : G) (s : SS) (ctx : Val)
    (ha : peg n env a s ctx = .fail) (hr : peg n env r s ctx = .fail) :
    peg (n + 1) env (.recoverVia a r) s ctx = .fail := by
  simp [peg, pegStep, ha, hr]

/-- **never silent.** An error-free result contains no recovered output: in the reading of an error-free accepted
    parse no `recovered` emission occurs, i.e. no recovery branch was taken on the surviving path. -/
theorem c08_never_silent (n : Nat) (env : Env) (m : Mode) (g : G) (hm : env.memoOn = false) (r : ParseResult) (f : St)
    (h : parseTop n env m g = .result r f) (v : Val) (ho : r.output = some v) (he : r.errs = []) :
    ∃ v' s, pegTop n env g = .ok v' s [] := by
  have ht := parseTop_refines n env m g hm
  rw [h] at ht
  cases hp : pegTop n env g <;> rw [hp] at ht <;> simp only [TopRefines] at ht
  · rename_i v' s em
    obtain ⟨_, _, h3, h4⟩ := ht
    rw [he] at h4
    have : f.errs = [] := by simpa using h4.symm
    rw [this] at h3
    have hem : em = [] := by
      cases em with
      | nil => rfl
      | cons e es => simp [EmsRel] at h3
    subst hem
    exact ⟨v', s, rfl⟩
  · rw [ho] at ht; simp at ht

/-- `skip_until`, one step: give `until` the first chance; only if it fails skip one step and go on -/
theorem c08_skip_until_step (P : SRunner) (env : Env) (ctx : Val) (skip until_ : G) (fb : Val) (fuel : Nat) (s : SS)
    (em : List Emis) :
    sSkipUntil P env ctx skip until_ fb (fuel + 1) s em =
      match P env until_ s ctx with
      | .ok _ s1 em1 => .ok fb s1 (em ++ em1 ++ [.recovered s1.pos])
      | .panic w => .panic w
      | .oof => .oof
      | .fail =>
        match P env skip s ctx with
        | .ok _ s2 em2 => sSkipUntil P env ctx skip until_ fb fuel s2 (em ++ em2)
        | .fail => .fail
        | .panic w => .panic w
        | .oof => .oof := rfl

/-- `k` successful skip steps, `until` failing before each of them -/
inductive SkipPath (P : SRunner) (env : Env) (ctx : Val) (skip until_ : G) : Nat → SS → SS → Prop
  | zero (s) : SkipPath P env ctx skip until_ 0 s s
  | succ {k s s1 s2 v e} : P env until_ s ctx = .fail → P env skip s ctx = .ok v s1 e →
      SkipPath P env ctx skip until_ k s1 s2 → SkipPath P env ctx skip until_ (k + 1) s s2

/-- **minimality.** `skip_until` consumes the fewest skip steps after which `until` matches: if it succeeds,
    there is a `k` such that `until` failed before each of the first `k` skip steps and matches after them. -/
theorem c08_skip_until_min (P : SRunner) (env : Env) (ctx : Val) (skip until_ : G) (fb : Val) :
    ∀ (fuel : Nat) (s : SS) (em : List Emis) {v s' em'},
      sSkipUntil P env ctx skip until_ fb fuel s em = .ok v s' em' →
      ∃ k s0 vu eu, SkipPath P env ctx skip until_ k s s0 ∧ P env until_ s0 ctx = .ok vu s' eu ∧ v = fb := by
  intro fuel
  induction fuel with
  | zero => intro s em v s' em' h; simp [sSkipUntil] at h
  | succ fuel ih =>
    intro s em v s' em' h
    rw [c08_skip_until_step] at h
    cases hu : P env until_ s ctx <;> rw [hu] at h <;> simp only at h <;> try (simp at h)
    · rename_i vu s1 eu
      obtain ⟨h1, h2, _⟩ := h
      subst h1 h2
      exact ⟨0, s, vu, eu, .zero s, hu, rfl⟩
    · cases hs : P env skip s ctx <;> rw [hs] at h <;> simp only at h <;> try (simp at h)
      rename_i vs s2 es
      obtain ⟨k, s0, vu, eu, hp, hu', hv⟩ := ih s2 _ h
      exact ⟨k + 1, s0, vu, eu, .succ hu hs hp, hu', hv⟩

/-! ### which error is reported (machine level) -/

/-- the one extra error is the pending primary error right after the parser failed — "what the parse would have
    reported had the failure been final" (that this is the furthest/merged failure is C06) -/
theorem c08_recovered_error_is_pending (n : Nat) (env : Env) (m : Mode) (a r : G) (st st1 st3 : St) (e : Loc) (v : Val)
    (ha : run n env m a st = .fail st1) (halt : st1.alt = some e)
    (hr : run n env m r { st1.rewind st.save with alt := none } = .ok v st3) :
    run (n + 1) env m (.recoverVia a r) st = .ok v (st3.emit st3.pos e.err) := by
  simp only [run, step, ha]
  have : (st1.rewind st.save).alt = some e := by simp [halt]
  simp only [this, hr]

/-- where both fail, the pending error is put back and the position is restored -/
theorem c08_both_fail_machine (n : Nat) (env : Env) (m : Mode) (a r : G) (st st1 st3 : St) (e : Loc)
    (ha : run n env m a st = .fail st1) (halt : st1.alt = some e)
    (hr : run n env m r { st1.rewind st.save with alt := none } = .fail st3) :
    run (n + 1) env m (.recoverVia a r) st = .fail ({ st3 with alt := some e }.rewind st.save) := by
  simp only [run, step, ha]
  have : (st1.rewind st.save).alt = some e := by simp [halt]
  simp only [this, hr]

/-! ### nested_delimiters (`Model/Delims.lean`: the grammar `recovery.rs:234-275` builds; lemmas in Lemmas/NestedDelims.lean) -/

/-- **`nested_delimiters` consumes exactly one balanced delimited region** (every table of delimiter pairs, every input,
    position and fuel): what the strategy matches starts with `start`, ends with `end` — the end position is just after that
    closing delimiter — and the tokens between are balanced: plain tokens, none of them a delimiter, and properly nested
    blocks of the declared pairs. Its output is the span of exactly that region. (`hdef`: the strategy's `recursive` block is
    definition `K`.) -/
theorem c08_nested_delimiters_region {env : Env} {ctx : Val} {K : Nat} {first : Nat × Nat} {others : List (Nat × Nat)}
    (hdef : env.defs[K]? = some (ndBlock K first others)) {n s v s' em}
    (h : peg n env (ndTop K first) s ctx = .ok v s' em) :
    ∃ q, env.toks[s.pos]? = some first.1 ∧ env.toks[q]? = some first.2 ∧ s'.pos = q + 1 ∧
      Balanced (ndSkip first others) (first :: others) (env.seg (s.pos + 1) q) ∧
      v = .span (env.mkSpan s.pos s'.pos).1 (env.mkSpan s.pos s'.pos).2 := by
  obtain ⟨⟨q, ho, hb, hc, hr⟩, hv⟩ := peg_ndTop_region hdef h
  exact ⟨q, ho, hc, hr, hb.balanced, hv⟩

/-- as a recovery strategy: where `p` fails and `nested_delimiters` matches, the result is the fallback for that one
    region, the input is left just after it, and exactly one error is added -/
theorem c08_nested_delimiters_recovers {env : Env} {ctx : Val} {K : Nat} {first : Nat × Nat} {others : List (Nat × Nat)}
    (hdef : env.defs[K]? = some (ndBlock K first others)) {n a s v s' em}
    (ha : peg n env a s ctx = .fail) (h : peg (n + 1) env (.recoverVia a (ndTop K first)) s ctx = .ok v s' em) :
    (∃ q, env.toks[s.pos]? = some first.1 ∧ env.toks[q]? = some first.2 ∧ s'.pos = q + 1 ∧
      Balanced (ndSkip first others) (first :: others) (env.seg (s.pos + 1) q)) ∧
    ∃ e0, em = e0 ++ [.recovered s'.pos] := by
  rw [peg_succ] at h
  simp only [pegStep, ha] at h
  cases hr : peg n env (ndTop K first) s ctx <;> simp only [hr, reduceCtorEq] at h
  rename_i v1 s1 e1
  simp only [SOut.ok.injEq] at h
  obtain ⟨_, hs, he⟩ := h
  subst hs
  obtain ⟨q, h1, h2, h3, h4, _⟩ := c08_nested_delimiters_region hdef hr
  exact ⟨⟨q, h1, h2, h3, h4⟩, e1, he.symm⟩

/-- an unbalanced region is not skipped: if the token after a balanced prefix of the inside is neither a plain token, nor an
    opening delimiter of a block that closes, nor the closing delimiter, the strategy fails — stated as the contrapositive
    shape used by the check: success implies the closing delimiter is there -/
theorem c08_nested_delimiters_closes {env : Env} {ctx : Val} {K : Nat} {first : Nat × Nat} {others : List (Nat × Nat)}
    (hdef : env.defs[K]? = some (ndBlock K first others)) {n s v s' em}
    (h : peg n env (ndTop K first) s ctx = .ok v s' em) : 2 ≤ s'.pos - s.pos ∧ env.toks[s'.pos - 1]? = some first.2 := by
  obtain ⟨⟨q, _, hb, hc, hr⟩, _⟩ := peg_ndTop_region hdef h
  have := hb.le
  exact ⟨by omega, by rw [hr]; simpa using hc⟩

/-- non-vacuity: `( a [ b ] ) x` — the strategy takes the six tokens of the region and stops before `x` -/
example :
    (match parseTop 40 { toks := [40, 97, 91, 98, 93, 41, 120], defs := [ndBlock 0 (40, 41) [(91, 93)]], memoOn := false } .emit
        (.then_ (.recoverVia (.just [97]) (ndTop 0 (40, 41))) (.collect .string (.repeated .any 0 none))) with
      | .result r f => (r.output, r.errs.length, f.pos)
      | _ => (none, 99, 0)) = (some (.pair (.span 0 6) (.toks [120])), 1, 7) := by
  decide +kernel

/-- … and an unbalanced region `( [ )` is not accepted by the strategy (both fail) -/
example :
    (match parseTop 40 { toks := [40, 91, 41], defs := [ndBlock 0 (40, 41) [(91, 93)]], memoOn := false } .emit
        (.recoverVia (.just [97]) (ndTop 0 (40, 41))) with
      | .result r _ => (r.output, r.errs.length)
      | _ => (none, 99)) = (none, 1) := by
  decide +kernel

/-- non-vacuity: skip_until skips exactly two tokens before `until` matches, reporting the original failure -/
example :
    (match parseTop 8 { toks := [120, 121, 98], memoOn := false } .emit
        (.recoverSkipUntil (.just [97]) .any (.just [98]) (.nat 7)) with
      | .result r f => (r.output, r.errs, f.pos)
      | _ => (none, [], 0)) = (some (.nat 7), [⟨(0, 1), .ef [.tok 97] (some 120), []⟩], 3) := by
  decide +kernel

/-! ### recovery around (and inside) the extensions — a Pratt expression that does not parse, a group whose inner sequence is
  ill-formed: `recover_with` in a grammar with extensions (`EEnv`) obeys the same three laws, the sub-parsers being read by `pegE`
  (so `a` or the fallback may be, or contain, an extension reference), and the machine refines that reading -/

theorem c08_extensions_refines (e : EEnv) (n : Nat) (env : Env) (m : Mode) (st : St) (hm : env.memoOn = false) (a r : G) :
    Refines m st.errs st.ctx (runE e n env m (.recoverVia a r) st) (pegE e n env (.recoverVia a r) st.ss st.ctx) :=
  runE_refines e n env m _ st hm

theorem c08_extensions_transparent (e : EEnv) (n : Nat) (env : Env) (a r : G) (s : SS) (ctx : Val) {v s' em}
    (h : pegE e n env a s ctx = .ok v s' em) : pegE e (n + 1) env (.recoverVia a r) s ctx = .ok v s' em := by
  simp [pegE, EEnv.find, pegStep, h]

theorem c08_extensions_via_recovers (e : EEnv) (n : Nat) (env : Env) (a r : G) (s : SS) (ctx : Val) {v s1 em}
    (ha : pegE e n env a s ctx = .fail) (hr : pegE e n env r s ctx = .ok v s1 em) :
    pegE e (n + 1) env (.recoverVia a r) s ctx = .ok v s1 (em ++ [.recovered s1.pos]) := by
  simp [pegE, EEnv.find, pegStep, ha, hr]

theorem c08_extensions_via_both_fail (e : EEnv) (n : Nat) (env : Env) (a r : G) (s : SS) (ctx : Val)
    (ha : pegE e n env a s ctx = .fail) (hr : pegE e n env r s ctx = .fail) :
    pegE e (n + 1) env (.recoverVia a r) s ctx = .fail := by
  simp [pegE, EEnv.find, pegStep, ha, hr]

/-- never silent: an accepted, error-free parse of a grammar with extensions is a success of the reading without emissions -/
theorem c08_extensions_never_silent (e : EEnv) (n : Nat) (env : Env) (m : Mode) (g : G) (hm : env.memoOn = false)
    (r : ParseResult) (f : St) (h : parseTopE e n env m g = .result r f) (v : Val) (ho : r.output = some v)
    (he : r.errs = []) : ∃ v' s, pegTopE e n env g = .ok v' s [] := by
  obtain ⟨v', s, h1, _, _⟩ := parseTopE_whole_input e n env m g hm r f h v ho he
  exact ⟨v', s, h1⟩

#print axioms c08_extensions_refines
#print axioms c08_extensions_transparent
#print axioms c08_extensions_via_recovers
#print axioms c08_extensions_via_both_fail
#print axioms c08_extensions_never_silent
#print axioms c08_refines
#print axioms c08_transparent
#print axioms c08_via_recovers
#print axioms c08_via_both_fail
#print axioms c08_never_silent
#print axioms c08_skip_until_min
#print axioms c08_recovered_error_is_pending
#print axioms c08_both_fail_machine
#print axioms c08_nested_delimiters_region
#print axioms c08_nested_delimiters_recovers
#print axioms c08_nested_delimiters_closes
end Chumsky
