import ChumskyModel.Model.Spec
namespace Chumsky
theorem placeholder_C08 : True := trivial
#print axioms placeholder_C08
end Chumsky
