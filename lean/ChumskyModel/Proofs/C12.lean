/-
  C12 — recursive parsers equal their unrolling and nest to any depth.

  `call k` refers to definition `k` of the table `env.defs` (models `recursive(..)`, `Recursive::declare`/`define`,
  mutual recursion). `G.unroll defs d g` expands every reference `d` levels deep (`.boxed` keeps the fuel aligned) and
  puts `todo` below. Lemmas: Proofs/Lemmas/Unroll.lean.
  Runtime parts (depth limited by memory through `stacker`, not by the native stack; the `define`-twice panic of the
  once-cell) are exercised on the real crate by the check (partial, see DESIGN.md).
-/
import ChumskyModel.Proofs.Lemmas.Unroll
import ChumskyModel.Proofs.Lemmas.Guarded
set_option linter.unusedSimpArgs false
namespace Chumsky

/-- **C12 (unrolling).** For every definition table (single or mutually recursive), every grammar, mode, state and
    fuel `n`, and every depth `d ≥ n`: the run with the table equals — same outcome, value and whole state — the run
    of the grammar with every reference expanded `d` levels deep, *without* the table. A returned result therefore
    never reached the `todo` at the bottom: the recursion went exactly as deep as the input required. -/
theorem c12_unroll {n d : Nat} (h : d ≥ n) (env : Env) (m : Mode) (g : G) (st : St) :
    run n env m g st = run n { env with defs := [] } m (g.unroll env.defs d) st :=
  run_unroll h env m g st

theorem c12_unroll_parse (n : Nat) (env : Env) (m : Mode) (g : G) :
    parseTop n env m g = parseTop n { env with defs := [] } m (g.unroll env.defs n) :=
  parseTop_unroll n env m g

/-- when every reference is defined, the unrolled grammar contains no reference at all and can be run with any table -/
theorem c12_unroll_closed {n d : Nat} (h : d ≥ n) (env : Env) (hd : callsBelowL env.defs.length env.defs = true)
    (m : Mode) (g : G) (hg : g.callsBelow env.defs.length = true) (ds : List G) (st : St) :
    (g.unroll env.defs d).callFree = true ∧
      run n env m g st = run n { env with defs := ds } m (g.unroll env.defs d) st :=
  run_unroll_closed h env hd m g hg ds st

/-- a reference to an undefined parser is refused loudly (panic), never silently accepted -/
theorem c12_undefined_panics (n : Nat) (env : Env) (m : Mode) (k : Nat) (st : St) (h : env.defs[k]? = none) :
    run (n + 1) env m (.call k) st = .panic pUndefined := by
  simp [run, step, h]

/-- model of the once-cell behind `Recursive::declare`/`define`: the first definition is kept, a second one panics -/
inductive Cell where
  | empty
  | defined (g : G)

def Cell.define : Cell → G → Except Nat Cell
  | .empty, g => .ok (.defined g)
  | .defined _, _ => .error 77        -- "Parser defined more than once"

theorem c12_define_once (g1 g2 : G) :
    (Cell.empty.define g1).bind (fun c => c.define g2) = .error 77 := rfl

/-- what a program does with ONE `Recursive` handle and its clones (all of them share the cell): define it, parse through it -/
inductive HOp where
  | define (g : G)
  | parse (toks : List Nat)

inductive HOut where
  | defined
  | refused (code : Nat)
  | parsed (r : TopOut)

def Cell.defs : Cell → List G
  | .empty => []
  | .defined g => [g]

def hstep (n : Nat) (env : Env) (m : Mode) (c : Cell) : HOp → Cell × HOut
  | .define g => match c.define g with
    | .ok c' => (c', .defined)
    | .error w => (c, .refused w)
  | .parse toks => (c, .parsed (parseTop n { env with toks := toks, defs := c.defs } m (.call 0)))

def hrun (n : Nat) (env : Env) (m : Mode) : Cell → List HOp → List HOut
  | _, [] => []
  | c, op :: ops => (hstep n env m c op).2 :: hrun n env m (hstep n env m c op).1 ops

/-- **C12 (define-once, histories).** Once a handle is defined, EVERY later history of `define` attempts and parses —
    through the handle or any clone, in any order, any number of times — refuses each attempt and gives each parse the
    result of the FIRST definition: a refused `define` leaves nothing behind. -/
theorem c12_first_definition_wins (n : Nat) (env : Env) (m : Mode) (g : G) (ops : List HOp) :
    hrun n env m (.defined g) ops = ops.map fun
      | .define _ => .refused 77
      | .parse toks => .parsed (parseTop n { env with toks := toks, defs := [g] } m (.call 0)) := by
  induction ops with
  | nil => rfl
  | cons op ops ih => cases op <;> simp [hrun, hstep, Cell.define, Cell.defs, ih]

/-- before the definition every parse through the handle is the loud refusal of an undefined reference, and the
    first `define` is accepted whatever was parsed before it -/
theorem c12_undefined_history (n : Nat) (env : Env) (m : Mode) (inputs : List (List Nat)) (g : G) (ops : List HOp) :
    hrun (n + 2) env m .empty (inputs.map .parse ++ .define g :: ops) =
      inputs.map (fun _ => .parsed (.panic pUndefined)) ++ .defined :: hrun (n + 2) env m (.defined g) ops := by
  induction inputs with
  | nil => simp [hrun, hstep, Cell.define]
  | cons i is ih =>
    simp only [List.map_cons, List.cons_append, hrun, hstep, Cell.defs]
    rw [ih]
    have hp : parseTop (n + 2) { env with toks := i, defs := [] } m (.call 0) = .panic pUndefined := by
      have h := c12_undefined_panics n { env with toks := i, defs := [] } m 0 St.init rfl
      simp only [parseTop]
      rw [show run (n + 2) { env with toks := i, defs := [] } m (.thenIgnore (.call 0) .end_) St.init
            = (run (n + 1) { env with toks := i, defs := [] } m (.call 0) St.init).andThen fun va st1 =>
              (run (n + 1) { env with toks := i, defs := [] } .check .end_ st1).andThen fun _ st2 => .ok va st2 from rfl, h]
      rfl
    rw [hp]

/-- non-vacuity: `expr = '(' expr ')' | 'x'` on "((x))" equals its unrolling -/
example :
    let defs : List G := [.or_ (.delimitedBy (.call 0) (.just [40]) (.just [41])) (.just [120])]
    let env : Env := { toks := [40, 40, 120, 41, 41], defs := defs }
    (match parseTop 12 env .emit (.call 0) with | .result r f => (r.output, f.pos) | _ => (none, 0)) = (some (.toks [120]), 5) ∧
    parseTop 12 env .emit (.call 0) = parseTop 12 { env with defs := [] } .emit ((G.call 0).unroll defs 12) := by
  constructor
  · decide +kernel
  · exact parseTop_unroll 12 _ .emit (.call 0)

/-- **guarded recursion terminates** (every grammar of the whole syntax, single and mutually recursive tables): if a token is
    consumed between the entry of every definition body and each recursive reference in it (`DefsGuarded`, a decidable
    syntactic check built on the "consumes on success" analysis that `c20_consumes_sound` proves sound), `parse`/`check`
    return a result on every input within the explicit fuel `depth g + maxDefDepth · (|input| + 1) + |input| + 2` — fuel
    bounds recursion depth and loop iterations, so the recursion depth a guarded grammar needs is linear in the input. -/
theorem c12_guarded_terminates {cd : Nat → Bool} (n : Nat) (env : Env) (m : Mode) (g : G)
    (hm : env.memoOn = false) (hd : DefsGuarded cd env = true) (hg : g.mainOk cd env.defs.length = true)
    (hn : guardedFuel env g + 1 ≤ n) :
    ∃ r final, parseTop n env m g = .result r final :=
  parseTop_guarded_terminates n env m g hm hd hg hn

/-- the guard is needed: the unguarded `expr = expr 'a' | 'a'` is out of fuel at every fuel (the real crate overflows /
    is cut by the memo marker, see C11) -/
theorem c12_unguarded_left_recursion_diverges (env : Env) (he : env.defs = leftDefs) (hm : env.memoOn = false) (n : Nat)
    (m : Mode) : parseTop n env m (.call 0) = .oof :=
  leftRec_parseTop_oof env he hm n m

/-- non-vacuity: `expr = '(' expr ')' | 'a'` is guarded; every input gets a result with the bound's fuel -/
example (toks : List Nat) (m : Mode) :
    ∃ r final, parseTop (guardedFuel (parenEnv toks) (.call 0) + 1) (parenEnv toks) m (.call 0) = .result r final :=
  paren_terminates toks m

#print axioms c12_unroll
#print axioms c12_unroll_parse
#print axioms c12_unroll_closed
#print axioms c12_undefined_panics
#print axioms c12_define_once
#print axioms c12_first_definition_wins
#print axioms c12_undefined_history
#print axioms c12_guarded_terminates
#print axioms c12_unguarded_left_recursion_diverges
end Chumsky
