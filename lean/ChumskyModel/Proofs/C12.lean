import ChumskyModel.Model.Spec
namespace Chumsky
theorem placeholder_C12 : True := trivial
#print axioms placeholder_C12
end Chumsky
