/-
  C13 — parsers are pure values: reusable, clonable, wrapper- and thread-independent.

  In the model a parser *is* a value (`G`) and `parse` creates all per-parse state itself (`St.init`) and discards
  it (`InputOwn` in the Rust), so the statements below hold by construction: they say what the differential run of
  the check (histories through nine wrappers, threads) validates against the real crate, where memo tables,
  recursive cells and `Rc`/`Arc` sharing are the candidates for leakage.
-/
import ChumskyModel.Model.Machine
namespace Chumsky

/-- the wrappers `&`, `Box`, `Rc`, `Arc`, `boxed()`, `Either`, `Cache` are the identity (`.boxed` in the model) -/
theorem c13_wrapper_identity (n : Nat) (env : Env) (m : Mode) (a : G) (st : St) :
    run (n + 1) env m (.boxed a) st = run n env m a st := rfl

/-- a session: the same parser value used for a history of inputs; nothing survives from one parse to the next -/
def session (n : Nat) (env : Env) (m : Mode) (g : G) (history : List (List Nat)) : List TopOut :=
  history.map fun toks => parseTop n { env with toks := toks } m g

/-- **C13 (histories).** For every history, the k-th result is the result a fresh parser gives on the k-th input:
    independent of what was parsed before, in which order, how often. -/
theorem c13_history_independent (n : Nat) (env : Env) (m : Mode) (g : G) (h1 h2 : List (List Nat)) (toks : List Nat) :
    (session n env m g (h1 ++ [toks] ++ h2))[h1.length]? = some (parseTop n { env with toks := toks } m g) := by
  simp [session]

theorem c13_order_independent (n : Nat) (env : Env) (m : Mode) (g : G) (a b : List Nat) :
    session n env m g [a, b] = (session n env m g [b, a]).reverse := by
  simp [session]

/-- the pending error, secondary errors, inspector, memo table of a parse always start empty -/
theorem c13_fresh_state : St.init.errs = [] ∧ St.init.alt = none ∧ St.init.memo = [] ∧ St.init.insp = [] ∧ St.init.log = [] :=
  ⟨rfl, rfl, rfl, rfl, rfl⟩

/-- threads: `k` parses of the same immutable grammar value, scheduled in any order (a schedule is a permutation of
    the jobs; machines share nothing mutable), give each job the sequential result -/
theorem c13_schedule_independent (n : Nat) (env : Env) (m : Mode) (g : G) (jobs : List (List Nat)) (i : Nat)
    (sched : List (List Nat)) (hs : sched.Perm jobs) (toks : List Nat) (hi : jobs[i]? = some toks) :
    ∃ j : Nat, (session n env m g sched)[j]? = some (parseTop n { env with toks := toks } m g) := by
  have hmem : toks ∈ jobs := List.mem_of_getElem? hi
  have : toks ∈ sched := hs.symm.subset hmem
  obtain ⟨j, hj, hj'⟩ := List.getElem_of_mem this
  exact ⟨j, by simp [session, hj, hj']⟩

#print axioms c13_wrapper_identity
#print axioms c13_history_independent
#print axioms c13_order_independent
#print axioms c13_fresh_state
#print axioms c13_schedule_independent
end Chumsky
