/-
  C09 — Pratt parsing respects binding power and associativity and preserves token order.

  `Model/Pratt.lean`: the machine `prattGo` (checkpoints, rewinds, declaration order; `pratt.rs`) and the reading `sPratt`
  (the textbook binding-power recursion). Tuple, `Vec` and boxed operator tables are one table (a list) in the model;
  that they behave identically is checked on the real crate. Lemmas: Proofs/Lemmas/PrattRefine.lean.
-/
import ChumskyModel.Proofs.Lemmas.ExtAll
import ChumskyModel.Proofs.Lemmas.PrattRefine
import ChumskyModel.Proofs.Lemmas.PrattRec
set_option linter.unusedSimpArgs false
namespace Chumsky

/-- **C09 (refinement).** For every operator table (any parsers as atom and operators, any powers and
    associativities, any order), every input and state: `atom.pratt(ops)` — with its rewinds after operators whose
    operand is missing — has the outcome, tree, end position and emissions of the textbook reading. -/
theorem c09_refines (fuel : Nat) (env : Env) (m : Mode) (atom : G) (ops : List PrattOp) (st : St)
    (hm : env.memoOn = false) :
    Refines m st.errs st.ctx (runPratt fuel env m atom ops st) (pegPratt fuel env atom ops st.ss st.ctx) :=
  runPratt_refines fuel env m atom ops st hm

theorem c09_parse (fuel : Nat) (env : Env) (m : Mode) (atom : G) (ops : List PrattOp) (hm : env.memoOn = false) :
    TopRefines m (parseTopPratt fuel env m atom ops) (pegTopPratt fuel env atom ops) :=
  parseTopPratt_refines fuel env m atom ops hm

/-- binding powers as the code computes them -/
theorem c09_powers (x : Nat) :
    leftPower true x = 2 * x ∧ rightPower true x = 2 * x + 1 ∧
    leftPower false x = 2 * x + 1 ∧ rightPower false x = 2 * x :=
  powers_eq x

/-- equal powers: a left-associative operator is not admitted inside the right operand of itself (groups to the
    left); a right-associative one is (groups to the right) -/
theorem c09_assoc (bp : Nat) :
    ¬ (leftPower true bp ≥ rightPower true bp) ∧ leftPower false bp ≥ rightPower false bp :=
  ⟨leftAssoc_stops bp, rightAssoc_continues bp⟩

/-- different powers: a looser operator never enters the right operand of a tighter one; a tighter one always does -/
theorem c09_precedence {bp1 bp2 : Nat} (h : bp1 < bp2) (la1 la2 : Bool) :
    ¬ (leftPower la1 bp1 ≥ rightPower la2 bp2) ∧ leftPower la2 bp2 ≥ rightPower la1 bp1 :=
  ⟨looser_stops h la1 la2, tighter_continues h la1 la2⟩

/-- **shape.** Every result of the reading is the value of a trace tree that is *power-respecting*: every operator
    applied at the top level of a (sub)expression parsed with `min_power = p` has left power ≥ p, every right operand
    respects the right power of its operator, every prefix operand respects `2·bp` — "an operator captures an
    operand only if the operand's operators bind at least as tightly". -/
theorem c09_shape {P : G → SS → SOut} {env : Env} {atom : G} {ops : List PrattOp} {k minP : Nat} {s : SS} {v : Val}
    {s' : SS} {em : List Emis} (h : sPratt P env atom ops k minP s = .ok v s' em) :
    ∃ t, tPratt P env atom ops k minP s = .ok t s' em ∧ t.val = v ∧ Shape ops minP t :=
  sPratt_shape h

/-- consequences of the shape: no left-associative operator directly right-nested in itself, no looser operator at
    the top of the right operand of a tighter one -/
theorem c09_left_assoc_never_right_nested {ops : List PrattOp} {p bp : Nat} {lhs l2 r2 : PTree} {op o2 : Val}
    {sp sp2 : Nat × Nat} (h : Shape ops p (.inf true bp lhs op (.inf true bp l2 o2 r2 sp2) sp)) : False :=
  h.leftAssoc_not_right_nested

theorem c09_no_looser_in_right_operand {ops : List PrattOp} {p bp1 bp2 : Nat} {la1 la2 : Bool} {lhs l2 r2 : PTree}
    {op o2 : Val} {sp sp2 : Nat × Nat} (hlt : bp1 < bp2)
    (h : Shape ops p (.inf la2 bp2 lhs op (.inf la1 bp1 l2 o2 r2 sp2) sp)) : False :=
  Shape.no_looser_in_rhs hlt h

/-- **maximality / missing operand.** Where the expression ends, no postfix operator of the table matches, and
    every infix operator either does not match or matches but its right operand cannot be parsed — in which case it
    is left unconsumed. -/
theorem c09_maximal {fuel : Nat} {env : Env} {atom : G} {ops : List PrattOp} {s : SS} {ctx v : Val} {s' : SS}
    {em : List Emis} (h : pegPratt fuel env atom ops s ctx = .ok v s' em) :
    (∀ bp op, PrattOp.postfix bp op ∈ ops → peg fuel env op s' ctx = .fail) ∧
    (∀ la bp op, PrattOp.infix la bp op ∈ ops →
      peg fuel env op s' ctx = .fail ∨
      ∃ opv s1 e1, peg fuel env op s' ctx = .ok opv s1 e1 ∧
        sPratt (fun g s => peg fuel env g s ctx) env atom ops (fuel - 1) (rightPower la bp) s1 = .fail) :=
  pegPratt_maximal h

/-- **token order.** For token-level tables, flattening the tree yields exactly the consumed tokens, in order
    (reading, and machine in emit mode). -/
theorem c09_flatten {fuel : Nat} {env : Env} (hm : env.memoOn = false) {atom : G} {ops : List PrattOp}
    (hatom : TokenAtom atom) (hops : ∀ o ∈ ops, TokenOp o) {st : St} {v : Val} {st' : St}
    (h : runPratt fuel env .emit atom ops st = .ok v st') :
    st.pos ≤ st'.pos ∧ flatten v = (env.toks.drop st.pos).take (st'.pos - st.pos) :=
  runPratt_flatten hm hatom hops h

/-- non-vacuity: `-x^y^x + y` with `+` left/1, `^` right/2, prefix `-`/3 -/
example :
    (match parseTopPratt 40 { toks := [45, 120, 94, 121, 94, 120, 43, 121], memoOn := false } .emit (.oneOf [120, 121])
        [.infix true 1 (.just [43]), .infix false 2 (.just [94]), .prefix 3 (.just [45])] with
      | .result r f => (r.output.map flatten, r.errs.length, f.pos)
      | _ => (none, 99, 0)) = (some [45, 120, 94, 121, 94, 120, 43, 121], 0, 8) := by
  decide +kernel

/-! ### recursive expression grammars: `recursive(|e| atom.pratt(ops))`

  `Model/Pratt.lean`, `XEnv`: inside the atom and the operator parsers `.call hole` is the whole expression again
  (parenthesised sub-expressions, call arguments, ternaries). The machine is the ordinary machine with `pratt_go` at the
  hole, the reading is the ordinary PEG reading with the textbook algorithm at the hole. -/

/-- **C09 (refinement, recursive tables).** For every table whose atom and operators are arbitrary grammars that may
    mention the expression itself, at every grammar position, mode, state and fuel: machine ⊑ reading. -/
theorem c09_recursive_refines (x : XEnv) (fuel : Nat) (env : Env) (m : Mode) (g : G) (st : St)
    (hm : env.memoOn = false) :
    Refines m st.errs st.ctx (runX x fuel env m g st) (pegX x fuel env g st.ss st.ctx) :=
  runX_refines x fuel env m g st hm

theorem c09_recursive_parse (x : XEnv) (fuel : Nat) (env : Env) (m : Mode) (hm : env.memoOn = false) :
    TopRefines m (parseTopX x fuel env m) (pegTopX x fuel env) :=
  parseTopX_refines x fuel env m hm

/-- every (sub-)expression of the reading, at whatever parenthesis depth, is the textbook algorithm over the reading
    of its atom / operator parsers, hence a power-respecting tree -/
theorem c09_recursive_shape (x : XEnv) {n : Nat} {env : Env} {s : SS} {ctx v : Val} {s' : SS} {em : List Emis}
    (h : pegX x (n + 1) env (.call x.hole) s ctx = .ok v s' em) :
    ∃ t, tPratt (fun g s => pegX x n env g s ctx) env x.atom x.ops n 0 s = .ok t s' em ∧ t.val = v ∧
      Shape x.ops 0 t :=
  pegX_shape x h

/-- non-vacuity: `(x+y)*-(y)` with `+` left/1, `*` left/2, prefix `-`/3 and a parenthesised atom: accepted, whole input
    consumed, no error; and `(x+y` is rejected with one error -/
example :
    let x : XEnv := { hole := 0, atom := .or_ (.oneOf [120, 121]) (.delimitedBy (.call 0) (.just [40]) (.just [41])),
                      ops := [.infix true 1 (.just [43]), .infix true 2 (.just [42]), .prefix 3 (.just [45])] }
    (match parseTopX x 60 { toks := [40, 120, 43, 121, 41, 42, 45, 40, 121, 41], memoOn := false } .emit with
      | .result r f => (r.output.isSome, r.errs.length, f.pos)
      | _ => (false, 99, 0)) = (true, 0, 10) ∧
    (match parseTopX x 60 { toks := [40, 120, 43, 121], memoOn := false } .emit with
      | .result r _ => (r.output.isSome, r.errs.length)
      | _ => (true, 99)) = (false, 1) := by
  decide +kernel

/-- **Pratt tables among other extensions** (`EEnv`: several tables, nested-input parsers, each referring to the others): at a
    reference to a table the reading IS the textbook binding-power algorithm over atom and operator parsers read by `pegE`
    again — so an atom may be a nested group, an operator may contain another table — and the machine refines it -/
theorem c09_extensions_reading (e : EEnv) (n : Nat) (env : Env) (g atom : G) (ops : List PrattOp)
    (hf : e.find g = some (.pratt atom ops)) (s : SS) (ctx : Val) :
    pegE e (n + 1) env g s ctx = sPratt (fun g s => pegE e n env g s ctx) env atom ops n 0 s := by
  simp only [pegE, hf]

theorem c09_extensions_refines (e : EEnv) (n : Nat) (env : Env) (m : Mode) (g : G) (st : St) (hm : env.memoOn = false) :
    Refines m st.errs st.ctx (runE e n env m g st) (pegE e n env g st.ss st.ctx) :=
  runE_refines e n env m g st hm

#print axioms c09_extensions_reading
#print axioms c09_extensions_refines
#print axioms c09_refines
#print axioms c09_recursive_refines
#print axioms c09_recursive_parse
#print axioms c09_recursive_shape
#print axioms c09_parse
#print axioms c09_powers
#print axioms c09_assoc
#print axioms c09_precedence
#print axioms c09_shape
#print axioms c09_left_assoc_never_right_nested
#print axioms c09_no_looser_in_right_operand
#print axioms c09_maximal
#print axioms c09_flatten
end Chumsky
