import ChumskyModel.Model.Spec
namespace Chumsky
theorem c01_placeholder : True := trivial
#print axioms c01_placeholder
end Chumsky
