/-
  C01 — combinators implement PEG semantics: sequence, ordered choice, option, lookahead.

  Property theorems only. Lemmas: Proofs/Lemmas/{StateOps,Refine,StepRefine,IterRefine,ErrRefine,Master,Top}.lean.
  `env.memoOn = false` means: `memoized()` nodes (not part of the C01 class) are read as the identity; the driver
  sets it for every grammar without `memoized` nodes, so this is exactly the configuration the correspondence runs.
-/
import ChumskyModel.Proofs.Lemmas.ExtAll
import ChumskyModel.Proofs.Lemmas.Top
set_option linter.unusedSimpArgs false
namespace Chumsky

/-- **C01 (refinement).** For every grammar, environment (input, error kind, definitions), mode, state and fuel
    the machine — checkpoints, rewinds, pending-error bookkeeping, modes — and the stateless PEG reading have the
    same outcome; on success the same output value (in `check` mode: erased), the same position and inspector
    (so "how much each sub-parser consumed" agrees, spans and slices being part of the values), the secondary
    errors extended by exactly the reading's emissions; on failure the secondary errors are only extended. -/
theorem c01_refines (n : Nat) (env : Env) (m : Mode) (g : G) (st : St) (hm : env.memoOn = false) :
    Refines m st.errs st.ctx (run n env m g st) (peg n env g st.ss st.ctx) :=
  run_refines n env m g st hm

/-- **C01 (top level).** `parse`/`check` accept exactly when the PEG reading of "grammar then end of input"
    succeeds from position 0, with the same output. -/
theorem c01_parse (n : Nat) (env : Env) (m : Mode) (g : G) (hm : env.memoOn = false) :
    TopRefines m (parseTop n env m g) (pegTop n env g) :=
  parseTop_refines n env m g hm

/-! ### the PEG reading, law by law (statements about the spec; with `c01_refines` they hold of the machine) -/

/-- sequence: left to right, the second parser starts where the first ended -/
theorem c01_then (n : Nat) (env : Env) (a b : G) (s : SS) (ctx : Val) :
    peg (n + 1) env (.then_ a b) s ctx =
      match peg n env a s ctx with
      | .ok va s1 e1 => (match peg n env b s1 ctx with
          | .ok vb s2 e2 => .ok (.pair va vb) s2 (e1 ++ e2)
          | .fail => .fail | .panic w => .panic w | .oof => .oof)
      | .fail => .fail | .panic w => .panic w | .oof => .oof := by
  simp only [peg, pegStep, SOut.andThen]
  cases peg n env a s ctx <;> simp
  rename_i va s1 e1
  cases peg n env b s1 ctx <;> simp

/-- ordered choice commits to the first alternative that succeeds and never revisits it -/
theorem c01_or_first (n : Nat) (env : Env) (a b : G) (s : SS) (ctx : Val) {v s' em}
    (h : peg n env a s ctx = .ok v s' em) : peg (n + 1) env (.or_ a b) s ctx = .ok v s' em := by
  simp [peg, pegStep, sChoice, h]

/-- … and tries the second one, from the same position, only if the first fails -/
theorem c01_or_second (n : Nat) (env : Env) (a b : G) (s : SS) (ctx : Val)
    (h : peg n env a s ctx = .fail) : peg (n + 1) env (.or_ a b) s ctx = peg n env b s ctx := by
  simp only [peg, pegStep, sChoice, h]
  cases peg n env b s ctx <;> rfl

/-- `choice` over a list (tuple or slice flavour): first success -/
theorem c01_choice_cons_ok (n : Nat) (env : Env) (fl : ChoiceFlavour) (g : G) (gs : List G) (s : SS) (ctx : Val)
    {v s' em} (h : peg n env g s ctx = .ok v s' em) :
    peg (n + 1) env (.choice fl (g :: gs)) s ctx = .ok v s' em := by
  cases fl <;> simp [peg, pegStep, sChoice, h]

/-- option: `None` without consuming when the parser fails -/
theorem c01_or_not (n : Nat) (env : Env) (a : G) (s : SS) (ctx : Val) :
    peg (n + 1) env (.orNot a) s ctx =
      match peg n env a s ctx with
      | .ok v s' em => .ok (.some v) s' em
      | .fail => .ok .none s []
      | .panic w => .panic w | .oof => .oof := by
  simp only [peg, pegStep]
  cases peg n env a s ctx <;> rfl

/-- negative lookahead consumes nothing and emits nothing -/
theorem c01_not (n : Nat) (env : Env) (a : G) (s : SS) (ctx : Val) {v s' em}
    (h : peg (n + 1) env (.not_ a) s ctx = .ok v s' em) : s' = s ∧ em = [] ∧ peg n env a s ctx = .fail := by
  simp only [peg, pegStep] at h
  cases ha : peg n env a s ctx <;> simp [ha] at h
  exact ⟨h.2.1.symm, h.2.2, rfl⟩

/-- `rewind` keeps the output and consumes nothing -/
theorem c01_rewind (n : Nat) (env : Env) (a : G) (s : SS) (ctx : Val) {v s' em}
    (h : peg (n + 1) env (.rewind a) s ctx = .ok v s' em) : s' = s ∧ ∃ s1, peg n env a s ctx = .ok v s1 em := by
  simp only [peg, pegStep, SOut.andThen] at h
  cases ha : peg n env a s ctx <;> simp [ha] at h
  exact ⟨h.2.1.symm, _, by rw [h.1, h.2.2]⟩

/-- `and_is`: both must match at the same position; the result (and the position) is the first one's -/
theorem c01_and_is (n : Nat) (env : Env) (a b : G) (s : SS) (ctx : Val) {v s' em}
    (h : peg (n + 1) env (.andIs a b) s ctx = .ok v s' em) :
    ∃ e1 vb sb e2, peg n env a s ctx = .ok v s' e1 ∧ peg n env b s ctx = .ok vb sb e2 ∧ em = e1 ++ e2 := by
  simp only [peg, pegStep, SOut.andThen] at h
  cases ha : peg n env a s ctx <;> simp [ha] at h
  rename_i va s1 e1
  cases hb : peg n env b s ctx <;> simp [hb] at h
  rename_i vb sb e2
  obtain ⟨h1, h2, h3⟩ := h
  subst h1 h2
  exact ⟨e1, vb, sb, e2, rfl, rfl, h3.symm⟩

/-- a rejecting `filter` counts as failure of that sub-parser -/
theorem c01_filter_reject (n : Nat) (env : Env) (p : PredFn) (a : G) (s : SS) (ctx : Val) {v s1 e1}
    (ha : peg n env a s ctx = .ok v s1 e1) (hp : p.eval v = false) :
    peg (n + 1) env (.filter p a) s ctx = .fail := by
  simp [peg, pegStep, SOut.andThen, ha, hp]

/-- a rejecting `try_map` counts as failure of that sub-parser -/
theorem c01_try_map_reject (n : Nat) (env : Env) (f : TryFn) (a : G) (s : SS) (ctx : Val) {v s1 e1}
    (ha : peg n env a s ctx = .ok v s1 e1) (hp : f.rejectIf.eval v = true) :
    peg (n + 1) env (.tryMap f a) s ctx = .fail := by
  simp [peg, pegStep, SOut.andThen, ha, hp]

/-- non-vacuity: a backtracking grammar with lookahead on a multi-byte `&str` input: the machine accepts with
    the output (incl. the byte-offset span) the reading prescribes -/
example :
    (match parseTop 30 { toks := [97, 233], kind := .str, memoOn := false } .emit
        (.or_ (.then_ (.just [97]) (.just [98])) (.then_ (.andIs .any (.not_ (.just [98]))) (.toSpan .any))) with
      | .result r _ => (r.output, r.errs.length)
      | _ => (none, 99)) = (some (.pair (.tok 97) (.span 1 3)), 0) := by
  decide

/-! ### grammars with extensions (`EEnv`: Pratt tables and nested-input parsers containing each other)

  The refinement holds for the extension machine against its reading, and at every node that is not an extension reference the
  reading obeys the same PEG laws (sequence, ordered choice, option, negative lookahead) — the sub-parsers being read by `pegE`
  again, so that a Pratt expression or a nested parse may sit in any of these positions. -/

theorem c01_extensions_refines (e : EEnv) (n : Nat) (env : Env) (m : Mode) (g : G) (st : St) (hm : env.memoOn = false) :
    Refines m st.errs st.ctx (runE e n env m g st) (pegE e n env g st.ss st.ctx) :=
  runE_refines e n env m g st hm

theorem c01_extensions_parse (e : EEnv) (n : Nat) (env : Env) (m : Mode) (g : G) (hm : env.memoOn = false) :
    TopRefines m (parseTopE e n env m g) (pegTopE e n env g) :=
  parseTopE_refines e n env m g hm

theorem c01_extensions_then (e : EEnv) (n : Nat) (env : Env) (a b : G) (s : SS) (ctx : Val) :
    pegE e (n + 1) env (.then_ a b) s ctx =
      match pegE e n env a s ctx with
      | .ok va s1 e1 => (match pegE e n env b s1 ctx with
          | .ok vb s2 e2 => .ok (.pair va vb) s2 (e1 ++ e2)
          | .fail => .fail | .panic w => .panic w | .oof => .oof)
      | .fail => .fail | .panic w => .panic w | .oof => .oof := by
  simp only [pegE, EEnv.find, pegStep, SOut.andThen]
  cases pegE e n env a s ctx <;> simp
  rename_i va s1 e1
  cases pegE e n env b s1 ctx <;> simp

theorem c01_extensions_or_first (e : EEnv) (n : Nat) (env : Env) (a b : G) (s : SS) (ctx : Val) {v s' em}
    (h : pegE e n env a s ctx = .ok v s' em) : pegE e (n + 1) env (.or_ a b) s ctx = .ok v s' em := by
  simp [pegE, EEnv.find, pegStep, sChoice, h]

theorem c01_extensions_or_second (e : EEnv) (n : Nat) (env : Env) (a b : G) (s : SS) (ctx : Val)
    (h : pegE e n env a s ctx = .fail) : pegE e (n + 1) env (.or_ a b) s ctx = pegE e n env b s ctx := by
  simp only [pegE, EEnv.find, pegStep, sChoice, h]
  cases pegE e n env b s ctx <;> rfl

theorem c01_extensions_or_not (e : EEnv) (n : Nat) (env : Env) (a : G) (s : SS) (ctx : Val) :
    pegE e (n + 1) env (.orNot a) s ctx =
      match pegE e n env a s ctx with
      | .ok v s' em => .ok (.some v) s' em
      | .fail => .ok .none s []
      | .panic w => .panic w | .oof => .oof := by
  simp only [pegE, EEnv.find, pegStep]
  cases pegE e n env a s ctx <;> rfl

theorem c01_extensions_not (e : EEnv) (n : Nat) (env : Env) (a : G) (s : SS) (ctx : Val) {v s' em}
    (h : pegE e (n + 1) env (.not_ a) s ctx = .ok v s' em) : s' = s ∧ em = [] ∧ pegE e n env a s ctx = .fail := by
  simp only [pegE, EEnv.find, pegStep] at h
  cases ha : pegE e n env a s ctx <;> simp [ha] at h
  exact ⟨h.2.1.symm, h.2.2, rfl⟩

#print axioms c01_extensions_refines
#print axioms c01_extensions_parse
#print axioms c01_extensions_then
#print axioms c01_extensions_or_first
#print axioms c01_extensions_or_second
#print axioms c01_extensions_or_not
#print axioms c01_extensions_not
#print axioms c01_refines
#print axioms c01_parse
#print axioms c01_then
#print axioms c01_or_first
#print axioms c01_or_second
#print axioms c01_choice_cons_ok
#print axioms c01_or_not
#print axioms c01_not
#print axioms c01_rewind
#print axioms c01_and_is
#print axioms c01_filter_reject
#print axioms c01_try_map_reject
end Chumsky
