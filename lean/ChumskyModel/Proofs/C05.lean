/-
  C05 — backtracking is atomic: abandoned paths leave no trace, kept paths lose nothing.
-/
import ChumskyModel.Proofs.Lemmas.Top
import ChumskyModel.Proofs.Lemmas.ExtAll
set_option linter.unusedSimpArgs false
namespace Chumsky

/-- **C05 (runs).** On success the secondary errors are the caller's, extended by exactly (one for one, in order)
    the emissions of the surviving path of the PEG reading; the inspector is the reading's; on failure the
    caller's secondary errors are still a prefix (so the caller's rewind restores them exactly). -/
theorem c05_atomic (n : Nat) (env : Env) (m : Mode) (g : G) (st : St) (hm : env.memoOn = false) :
    match run n env m g st, peg n env g st.ss st.ctx with
    | .ok _ st', .ok _ s' em => (∃ new, st'.errs = st.errs ++ new ∧ EmsRel new em) ∧ st'.ss = s'
    | .fail st', .fail => st.errs <+: st'.errs
    | .panic w, .panic w' => w = w'
    | .oof, .oof => True
    | _, _ => False := by
  have h := run_refines n env m g st hm
  revert h
  cases run n env m g st <;> cases peg n env g st.ss st.ctx <;> simp [Refines]
  · exact fun h => ⟨h.errs, h.ss⟩
  · exact fun h => h.errs

/-- **C05 (top level).** When the parse produces an output, the reported errors are exactly the non-fatal errors
    emitted along the path that produced it, in order. -/
theorem c05_reported_errors (n : Nat) (env : Env) (m : Mode) (g : G) (hm : env.memoOn = false) (r : ParseResult)
    (f : St) (h : parseTop n env m g = .result r f) (v : Val) (ho : r.output = some v) :
    ∃ v' s em, pegTop n env g = .ok v' s em ∧ EmsRel f.errs em ∧ r.errs = f.errs.map (·.err) ∧ f.ss = s := by
  have ht := parseTop_refines n env m g hm
  rw [h] at ht
  cases hp : pegTop n env g <;> rw [hp] at ht <;> simp only [TopRefines] at ht
  · exact ⟨_, _, _, rfl, ht.2.2.1, ht.2.2.2, ht.2.1⟩
  · rw [ho] at ht; simp at ht

/-- the rewind lemma everything rests on: rewinding to a checkpoint taken in `st` from any state whose secondary
    errors extend `st`'s restores position, secondary errors and inspector exactly -/
theorem c05_rewind_restores (st st' : St) (h : st.errs <+: st'.errs) :
    (st'.rewind st.save).pos = st.pos ∧ (st'.rewind st.save).errs = st.errs ∧ (st'.rewind st.save).insp = st.insp :=
  ⟨rfl, by simp [take_of_prefix h], rfl⟩

/-! ### abandoned paths leave no trace (laws of the reading; they transfer to the machine by `c05_atomic`) -/

/-- an alternative that failed contributes no emission: the result is the next alternative's, from the same position -/
theorem c05_abandoned_alternative (n : Nat) (env : Env) (a b : G) (s : SS) (ctx : Val)
    (h : peg n env a s ctx = .fail) : peg (n + 1) env (.or_ a b) s ctx = peg n env b s ctx := by
  simp only [peg, pegStep, sChoice, h]
  cases peg n env b s ctx <;> rfl

/-- a failed optional contributes nothing -/
theorem c05_abandoned_optional (n : Nat) (env : Env) (a : G) (s : SS) (ctx : Val)
    (h : peg n env a s ctx = .fail) : peg (n + 1) env (.orNot a) s ctx = .ok .none s [] := by
  simp [peg, pegStep, h]

/-- negative lookahead never contributes an emission, whatever happened inside -/
theorem c05_lookahead_silent (n : Nat) (env : Env) (a : G) (s : SS) (ctx : Val) {v s' em}
    (h : peg (n + 1) env (.not_ a) s ctx = .ok v s' em) : em = [] ∧ s' = s := by
  simp only [peg, pegStep] at h
  cases ha : peg n env a s ctx <;> simp [ha] at h
  exact ⟨h.2.2, h.2.1.symm⟩

/-! ### kept paths lose nothing -/

/-- `and_is`: the emissions of both sub-parsers are kept (first the parser's, then the lookahead's) -/
theorem c05_and_is_keeps (n : Nat) (env : Env) (a b : G) (s : SS) (ctx : Val) {va s1 e1 vb sb e2}
    (ha : peg n env a s ctx = .ok va s1 e1) (hb : peg n env b s ctx = .ok vb sb e2) :
    peg (n + 1) env (.andIs a b) s ctx = .ok va s1 (e1 ++ e2) := by
  simp [peg, pegStep, SOut.andThen, ha, hb]

/-- `rewind`: the emissions of the parser whose output is returned are kept -/
theorem c05_rewind_keeps (n : Nat) (env : Env) (a : G) (s : SS) (ctx : Val) {va s1 e1}
    (ha : peg n env a s ctx = .ok va s1 e1) : peg (n + 1) env (.rewind a) s ctx = .ok va s e1 := by
  simp [peg, pegStep, SOut.andThen, ha]

/-- `validate` emits at its own start position, after the emissions of its parser -/
theorem c05_validate_emits (n : Nat) (env : Env) (f : ValFn) (a : G) (s : SS) (ctx : Val) {v s1 e1}
    (ha : peg n env a s ctx = .ok v s1 e1) (hp : f.emitIf.eval v = true) :
    peg (n + 1) env (.validate f a) s ctx =
      .ok v s1 (e1 ++ List.replicate f.count (.user ⟨s.pos, env.ek.userErr (env.mkSpan s.pos s1.pos) f.msg⟩)) := by
  simp [peg, pegStep, SOut.andThen, ha, hp]

/-- a `custom` parser that fails after having consumed tokens is an ordinary failure (nothing of it survives) -/
theorem c05_custom_fail_after_consuming (n : Nat) (env : Env) (msg : Nat) (b : G) (s : SS) (ctx : Val) :
    peg (n + 2) env (.or_ (.custom (.take2Fail msg)) b) s ctx = peg (n + 1) env b s ctx := by
  have : peg (n + 1) env (.custom (.take2Fail msg)) s ctx = .fail := by simp [peg, pegStep, sCustom]
  exact c05_abandoned_alternative (n + 1) env _ b s ctx this

/-- non-vacuity (the witness of the defect repaired by the `fix:` commit on `and_is`/`rewind`): the emission of a
    validator under `and_is` is reported -/
example :
    (match parseTop 30 { toks := [120], memoOn := false } .emit (.andIs (.validate ⟨.always, 5, 1⟩ .any) .any) with
      | .result r _ => (r.output, r.errs)
      | _ => (none, [])) = (some (.tok 120), [⟨(0, 1), .custom 5, []⟩]) := by
  decide

/-! ### grammars with extensions (`EEnv`: Pratt tables and nested-input parsers containing each other)

  The same two statements for the extension machine `runE` against its reading `pegE`: through every operator rewind of
  `pratt_go` and through the sub-context of every nested parse (whose secondary errors are appended to the outer list only
  when the nested parse returns), the caller's secondary errors are extended by exactly the emissions of the surviving path,
  and a failure leaves them a prefix. -/

theorem c05_extensions_atomic (e : EEnv) (n : Nat) (env : Env) (m : Mode) (g : G) (st : St) (hm : env.memoOn = false) :
    match runE e n env m g st, pegE e n env g st.ss st.ctx with
    | .ok _ st', .ok _ s' em => (∃ new, st'.errs = st.errs ++ new ∧ EmsRel new em) ∧ st'.ss = s'
    | .fail st', .fail => st.errs <+: st'.errs
    | .panic w, .panic w' => w = w'
    | .oof, .oof => True
    | _, _ => False := by
  have h := runE_refines e n env m g st hm
  revert h
  cases runE e n env m g st <;> cases pegE e n env g st.ss st.ctx <;> simp [Refines]
  · exact fun h => ⟨h.errs, h.ss⟩
  · exact fun h => h.errs

theorem c05_extensions_reported_errors (e : EEnv) (n : Nat) (env : Env) (m : Mode) (g : G) (hm : env.memoOn = false)
    (r : ParseResult) (f : St) (h : parseTopE e n env m g = .result r f) (v : Val) (ho : r.output = some v) :
    ∃ v' s em, pegTopE e n env g = .ok v' s em ∧ EmsRel f.errs em ∧ r.errs = f.errs.map (·.err) ∧ f.ss = s := by
  have ht := parseTopE_refines e n env m g hm
  rw [h] at ht
  cases hp : pegTopE e n env g <;> rw [hp] at ht <;> simp only [TopRefines] at ht
  · exact ⟨_, _, _, rfl, ht.2.2.1, ht.2.2.2, ht.2.1⟩
  · rw [ho] at ht; simp at ht

#print axioms c05_extensions_atomic
#print axioms c05_extensions_reported_errors
#print axioms c05_atomic
#print axioms c05_reported_errors
#print axioms c05_rewind_restores
#print axioms c05_abandoned_alternative
#print axioms c05_abandoned_optional
#print axioms c05_lookahead_silent
#print axioms c05_and_is_keeps
#print axioms c05_rewind_keeps
#print axioms c05_validate_emits
#print axioms c05_custom_fail_after_consuming
end Chumsky
