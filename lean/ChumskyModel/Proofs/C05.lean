import ChumskyModel.Model.Spec
namespace Chumsky
theorem placeholder_C05 : True := trivial
#print axioms placeholder_C05
end Chumsky
