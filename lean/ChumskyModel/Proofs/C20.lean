import ChumskyModel.Model.Spec
namespace Chumsky
theorem placeholder_C20 : True := trivial
#print axioms placeholder_C20
end Chumsky
