/-
  C20 — parsing is total: every input yields a result, never a panic, hang or crash.

  What a model can carry: (1) the "can't fail" `unwrap()`s on the pending error never fire and a failure is always
  reported through the error list; (2) well-formed grammars never panic (the progress `debug_assert!`s never fire);
  (3) non-recursive well-formed grammars terminate within an explicit fuel bound (fuel bounds recursion depth and loop
  iterations). Native stack exhaustion, out-of-bounds and mid-character accesses are runtime facts: the check runs the
  real crate under `catch_unwind` + watchdog on every stream and on malformed inputs (partial, see DESIGN.md).
  Lemmas: Proofs/Lemmas/Total.lean (+ Master, SpecInv).
-/
import ChumskyModel.Proofs.Lemmas.Total
import ChumskyModel.Proofs.Lemmas.Top
import ChumskyModel.Proofs.Lemmas.Guarded
import ChumskyModel.Proofs.Lemmas.PrattTotal
import ChumskyModel.Proofs.Lemmas.PrattTerm
import ChumskyModel.Proofs.Lemmas.ExtTotal
set_option linter.unusedSimpArgs false
namespace Chumsky

/-- **the "can't fail" unwraps never fire** (every grammar, every input, wrapped in `recover_with`, `map_err`,
    `labelled` however deep): `parse`/`check` never panic at `take_alt().unwrap()`. -/
theorem c20_unwraps_never_fire (n : Nat) (env : Env) (m : Mode) (g : G) (hm : env.memoOn = false) :
    parseTop n env m g ≠ .panic pUnwrapRecovery ∧ parseTop n env m g ≠ .panic pUnwrapMapErr :=
  parseTop_no_unwrap_panic n env m g hm

/-- the invariant behind it: a failing run always leaves a pending error (for every error type, the zero-sized one
    included) -/
theorem c20_failure_leaves_pending_error (n : Nat) (env : Env) (m : Mode) (g : G) (st st' : St) (hm : env.memoOn = false)
    (h : run n env m g st = .fail st') : st'.alt.isSome = true := by
  have hr := run_refines n env m g st hm
  rw [h] at hr
  cases hp : peg n env g st.ss st.ctx <;> rw [hp] at hr <;> simp only [Refines] at hr
  exact hr.alt

/-- **failure is always reported through the error list** (every grammar, no hypothesis) -/
theorem c20_failure_reported (n : Nat) (env : Env) (m : Mode) (g : G) (r : ParseResult) (f : St)
    (h : parseTop n env m g = .result r f) (ho : r.output = none) : r.errs ≠ [] := by
  unfold parseTop at h
  cases hr : run n env m (.thenIgnore g .end_) St.init <;> simp [hr] at h
  · obtain ⟨h1, _⟩ := h; subst h1; simp at ho
  · obtain ⟨h1, _⟩ := h; subst h1; simp

/-- **well-formed grammars never panic** (`G.wf`: no `todo`, non-empty tuple choice, well-typed iterator use, every
    loop over an iterator that can yield an item without consuming is one that tolerates it — i.e. repetition items
    consume input; recursion allowed, definitions well-formed) -/
theorem c20_wf_no_panic {cd : Nat → Bool} (n : Nat) (env : Env) (m : Mode) (g : G) (hm : env.memoOn = false)
    (hg : g.wf cd env.defs.length = true) (hd : DefsWf cd env) (w : Nat) : parseTop n env m g ≠ .panic w :=
  parseTop_wf_no_panic n env m g hm hg hd w

/-- the syntactic "consumes at least one token" analysis used by `wf` is sound for the reading -/
theorem c20_consumes_sound {cd : Nat → Bool} (n : Nat) (env : Env) (hcd : CDefs cd env) (g : G) (s : SS) (ctx : Val)
    {v s' em} (hc : g.consumes cd = true) (h : peg n env g s ctx = .ok v s' em) : s.pos < s'.pos :=
  peg_consumes n env hcd g s ctx hc h

/-- **termination, non-recursive well-formed grammars** (`G.wfTerm`: additionally the recovery `skip` parsers consume
    and looped iterators advance): fuel `depth(g) + |input| + 2` always suffices — `parse`/`check` return a result. -/
theorem c20_terminates (n : Nat) (env : Env) (m : Mode) (g : G) (hm : env.memoOn = false)
    (hg : g.wfTerm = true) (hn : g.depth + env.toks.length + 2 ≤ n) :
    ∃ r final, parseTop n env m g = .result r final :=
  parseTop_terminates n env m g hm hg hn

/-- **termination, guarded recursive grammars** (the whole syntax): neither out of fuel nor a panic, from every state, within
    `guardedFuel env g = depth g + maxDefDepth · (|input| + 1) + |input| + 1` — the class the property calls "recursion
    guarded, repeated items consume input" (`DefsGuarded`, `G.mainOk`: well-formed, loops advance, every recursive reference
    behind a consumed token) -/
theorem c20_guarded_terminates {cd : Nat → Bool} (n : Nat) (env : Env) (m : Mode) (g : G) (st : St)
    (hm : env.memoOn = false) (hd : DefsGuarded cd env = true) (hg : g.mainOk cd env.defs.length = true)
    (hn : guardedFuel env g ≤ n) :
    run n env m g st ≠ .oof ∧ ∀ w, run n env m g st ≠ .panic w :=
  run_guarded_terminates n env m g st hm hd hg hn

/-- why `wfTerm` asks the recovery `skip` parser to consume: `skip_until(empty(), ..)` never terminates (the real
    loop in `recovery.rs` has no progress check either) — a hypothesis of the property ("repeated items consume
    input") that has to be read as covering recovery skip parsers -/
theorem c20_nonconsuming_skip_hangs (env : Env) (he : env.toks = []) (hm : env.memoOn = false) (n : Nat) (m : Mode) :
    parseTop n env m hangSkipUntil = .oof :=
  hangSkipUntil_parseTop env he hm n m

/-- **finding (known_findings.json, D15).** `Then` of two iterable parsers asserts progress unless *both* sides
    tolerate non-consumption, so `any().repeated().then(empty().to(x).or_not()).collect()` trips the debug assertion
    on a one-token input although every repeated item consumes and the iteration is finite -/
theorem c20_then_iter_assertion_witness :
    peg 6 { toks := [5] } thenMix ⟨0, []⟩ .unit = .panic pNoProgress :=
  thenMix_panics

/-! ### Pratt parsers (feature `pratt`; `Model/Pratt.lean`) -/

/-- `pratt_go` adds no panic site: a panic of `atom.pratt(ops)` is a panic of its atom or of an operator parser at one of
    the reference semantics' sites (`todo!()`, a progress assertion, an ill-typed or undefined reference) — in particular
    never an `unwrap()` of the pending error — for every table, input, state and fuel -/
theorem c20_pratt_panic_sites (fuel : Nat) (env : Env) (m : Mode) (atom : G) (ops : List PrattOp) (st : St)
    (hm : env.memoOn = false) {w : Nat} (h : runPratt fuel env m atom ops st = .panic w) :
    w = pTodo ∨ w = pNoProgress ∨ w = pIllTyped ∨ w = pUndefined :=
  runPratt_panic_sites fuel env m atom ops st hm h

/-- a failing Pratt parse always leaves a pending error (so `recover_with` / `map_err` / the top level around it find
    one) -/
theorem c20_pratt_failure_leaves_pending_error (fuel : Nat) (env : Env) (m : Mode) (atom : G) (ops : List PrattOp)
    (st st' : St) (hm : env.memoOn = false) (h : runPratt fuel env m atom ops st = .fail st') :
    st'.alt.isSome = true :=
  runPratt_fail_alt fuel env m atom ops st st' hm h

/-- **termination of `atom.pratt(ops)`**: if the atom and every operator parser are call-free, well-formed, terminating
    (`wfTerm`) and consume input when they succeed (`G.prattOk`), then with fuel `d + |input| + 2` (`d` ≥ the depth of those
    parsers) the Pratt parser returns a result from every position inside the input — every recursion into an operand
    happens after an operator consumed a token, every iteration of the operator loop consumes one. An operator that can
    succeed on nothing makes the real `pratt_go` loop; that is the Pratt counterpart of a nullable repetition item. -/
theorem c20_pratt_terminates (n d : Nat) (env : Env) (m : Mode) (hm : env.memoOn = false) (atom : G) (ops : List PrattOp)
    (hatom : atom.prattOk = true ∧ atom.depth ≤ d) (hops : ∀ o ∈ ops, o.parser.prattOk = true ∧ o.parser.depth ≤ d)
    (hn : d + env.toks.length + 2 ≤ n) (st : St) (hs : st.pos ≤ env.toks.length) :
    runPratt n env m atom ops st ≠ .oof ∧ ∀ w, runPratt n env m atom ops st ≠ .panic w :=
  runPratt_terminates n d env m hm atom ops hatom hops hn st hs

/-- non-vacuity: the table `x | y` with `+` left/1, `*` right/2, prefix `-`/3, postfix `!`/4 meets the hypotheses with d = 2 -/
example :
    let atom : G := .oneOf [120, 121]
    let ops : List PrattOp := [.infix true 1 (.just [43]), .infix false 2 (.just [42]), .prefix 3 (.just [45]),
      .postfix 4 (.just [33])]
    (atom.prattOk = true ∧ atom.depth ≤ 2) ∧ (ops.all fun o => o.parser.prattOk && decide (o.parser.depth ≤ 2)) = true := by
  decide

/-- the same two facts for recursive expression grammars `recursive(|e| atom.pratt(ops))`, at every grammar position -/
theorem c20_recursive_pratt_panic_sites (x : XEnv) (n : Nat) (env : Env) (m : Mode) (g : G) (st : St)
    (hm : env.memoOn = false) {w : Nat} (h : runX x n env m g st = .panic w) :
    w = pTodo ∨ w = pNoProgress ∨ w = pIllTyped ∨ w = pUndefined :=
  runX_panic_sites x n env m g st hm h

theorem c20_recursive_pratt_failure_leaves_pending_error (x : XEnv) (n : Nat) (env : Env) (m : Mode) (g : G)
    (st st' : St) (hm : env.memoOn = false) (h : runX x n env m g st = .fail st') : st'.alt.isSome = true :=
  runX_fail_alt x n env m g st st' hm h

/-- … and for grammars with any number of extensions containing each other — `a.nested_in(b)` at any position, Pratt
    expressions inside nested parses inside Pratt atoms (`EEnv`): `NestedIn::go` and `pratt_go` add no panic site (the model's
    "`b` did not yield a group" code is the undefined-reference site; the Rust types rule it out), and a failing parse leaves
    a pending error -/
theorem c20_extensions_panic_sites (e : EEnv) (n : Nat) (env : Env) (m : Mode) (g : G) (st : St)
    (hm : env.memoOn = false) {w : Nat} (h : runE e n env m g st = .panic w) :
    w = pTodo ∨ w = pNoProgress ∨ w = pIllTyped ∨ w = pUndefined :=
  runE_panic_sites e n env m g st hm h

theorem c20_extensions_failure_leaves_pending_error (e : EEnv) (n : Nat) (env : Env) (m : Mode) (g : G)
    (st st' : St) (hm : env.memoOn = false) (h : runE e n env m g st = .fail st') : st'.alt.isSome = true :=
  runE_fail_alt e n env m g st st' hm h

/-- non-vacuity: the premise of `c20_extensions_panic_sites` is met — a `todo()` inside a nested parse inside a Pratt atom panics
    (site `pTodo`); and the premise of `…failure_leaves_pending_error` — the group holds a token the expression cannot start with -/
example :
    let e : EEnv := { base := 100, gap := 1, groups := [(1000, [120, 43, 7])],
                      exts := [.pratt (.or_ (.oneOf [120, 121]) (.or_ (.call 101) (.ignoreThen (.just [7]) .todo))) [.infix true 1 (.just [43])],
                               .nested (.call 100) (.select [1000])] }
    let env : Env := { toks := [120, 43, 1000], kind := .mapped, tspans := layoutSpans 1 3 0, eoi := (10, 10), memoOn := false }
    runE e 60 env .emit (.call 100) St.init = .panic pTodo := by
  decide +kernel

example :
    let e : EEnv := { base := 100, gap := 1, groups := [(1000, [43])],
                      exts := [.pratt (.or_ (.oneOf [120, 121]) (.call 101)) [.infix true 1 (.just [43])],
                               .nested (.call 100) (.select [1000])] }
    let env : Env := { toks := [1000], kind := .mapped, tspans := layoutSpans 1 1 0, eoi := (4, 4), memoOn := false }
    (match runE e 60 env .emit (.call 100) St.init with
      | .fail st' => st'.alt.isSome
      | _ => false) = true := by
  decide +kernel

#print axioms c20_extensions_panic_sites
#print axioms c20_extensions_failure_leaves_pending_error
#print axioms c20_unwraps_never_fire
#print axioms c20_pratt_panic_sites
#print axioms c20_pratt_failure_leaves_pending_error
#print axioms c20_pratt_terminates
#print axioms c20_recursive_pratt_panic_sites
#print axioms c20_recursive_pratt_failure_leaves_pending_error
#print axioms c20_failure_leaves_pending_error
#print axioms c20_failure_reported
#print axioms c20_wf_no_panic
#print axioms c20_consumes_sound
#print axioms c20_terminates
#print axioms c20_guarded_terminates
#print axioms c20_nonconsuming_skip_hangs
#print axioms c20_then_iter_assertion_witness
end Chumsky
