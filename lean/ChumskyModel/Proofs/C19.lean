/-
  Proofs/C19.lean — property C19: every produced value is dropped exactly once or handed to the caller.

  Scope of the theorems: the code that bypasses the drop checker (`MaybeUninit` arrays of `group([..; N])` and
  `collect_exactly`, `ContainerExactly for [T; N] / Box<C>`), modelled by the ledger machine of `Model/Drops.lean`, for
  EVERY array length `N` and EVERY point `k ≤ N` at which the element stream stops. For all other combinators output
  values live in ordinary locals and safe Rust's ownership discipline is the guarantee (trusted, measured by the
  instrumented correspondence run, not re-proved).
-/
import ChumskyModel.Model.Drops

namespace Chumsky
open Drops

/-- slots after `idx` successful writes: the created values, then untouched storage -/
theorem ceLoop_spec (next : Nat → Next) :
    ∀ (fuel idx : Nat) (l : Ledger) (pre : List Nat),
      l.slots = pre.map some ++ List.replicate fuel none → pre.length = idx →
      (ceLoop next fuel idx l) =
        (if complete next fuel idx then
          ({ l with out := l.out ++ pre ++ created next fuel idx, boxAlloc := 0,
                    slots := (pre ++ created next fuel idx).map some } , true)
         else
          ({ l with drops := l.drops ++ pre ++ created next fuel idx, boxAlloc := 0,
                    slots := (pre ++ created next fuel idx).map some ++
                             List.replicate (fuel - (created next fuel idx).length) none }, false)) := by
  intro fuel
  induction fuel with
  | zero =>
    intro idx l pre hs hlen
    simp only [ceLoop, complete, created, if_true, Ledger.takeAll, List.append_nil, List.replicate_zero] at *
    have h1 : l.slots.filterMap id = pre := by rw [hs]; simp [List.filterMap_map]
    have h2 : l.slots.any Option.isNone = false := by rw [hs]; simp
    simp only [h1, h2, Bool.or_false]
    simp [hs]
  | succ n ih =>
    intro idx l pre hs hlen
    simp only [ceLoop, complete, created]
    have hcase : next idx = .stop ∨ ∃ v, next idx = .item v := by
      cases next idx with
      | stop => exact Or.inl rfl
      | item v => exact Or.inr ⟨v, rfl⟩
    rcases hcase with hn | ⟨v, hn⟩
    · simp only [hn]
      simp only [Bool.false_eq_true, if_false, List.append_nil, List.length_nil, Nat.sub_zero, Ledger.dropBefore,
        Ledger.forget]
      have ht : l.slots.take idx = pre.map some := by
        rw [hs, ← hlen]; simp
      have h1 : (l.slots.take idx).filterMap id = pre := by rw [ht]; simp [List.filterMap_map]
      have h2 : (l.slots.take idx).any Option.isNone = false := by rw [ht]; simp
      simp only [h1, h2, Bool.or_false]
      simp [hs]
    · simp only [hn]
      have hs' : (l.write idx v).slots = (pre ++ [v]).map some ++ List.replicate n none := by
        simp only [Ledger.write, hs]
        rw [← hlen]
        simp [List.replicate_succ]
      have := ih (idx + 1) (l.write idx v) (pre ++ [v]) hs' (by simp [hlen])
      rw [this]
      by_cases hc : complete next n (idx + 1)
      · simp [hc, Ledger.write, List.append_assoc]
      · simp only [hc, Bool.false_eq_true, if_false, Ledger.write, List.append_assoc, List.cons_append, List.nil_append,
          List.length_cons, Nat.succ_sub_succ]

theorem created_length_le (next : Nat → Next) : ∀ fuel idx, (created next fuel idx).length ≤ fuel := by
  intro fuel
  induction fuel with
  | zero => intro idx; simp [created]
  | succ n ih => intro idx; simp only [created]; split <;> simp; exact ih _

theorem complete_iff (next : Nat → Next) : ∀ fuel idx, complete next fuel idx = true ↔ (created next fuel idx).length = fuel := by
  intro fuel
  induction fuel with
  | zero => intro idx; simp [complete, created]
  | succ n ih =>
    intro idx
    simp only [complete, created]
    split
    · simp [ih]
    · simp

/-- **collect_exactly, success path**: all `N` created values are moved into the result, in order; no destructor runs, no
    uninitialised slot is read, the `Box` storage (if any) is handed over -/
theorem c19_collect_exactly_ok (n : Nat) (boxed : Bool) (next : Nat → Next) (h : complete next n 0 = true) :
    let r := collectExactly n boxed next
    r.2 = true ∧ r.1.out = created next n 0 ∧ r.1.drops = [] ∧ r.1.ub = false ∧ r.1.boxAlloc = 0 ∧
      (created next n 0).length = n := by
  have := ceLoop_spec next n 0 (Ledger.init n boxed) [] (by simp [Ledger.init]) rfl
  simp only [collectExactly]
  rw [this]
  simp [h, Ledger.init, (complete_iff next n 0).mp h]

/-- **collect_exactly, failure path** (the element stream stops after `k < N` values, for any reason): exactly the `k`
    created values are dropped, each once, in order; nothing is returned, no uninitialised slot is touched, a boxed
    container's storage is freed -/
theorem c19_collect_exactly_fail (n : Nat) (boxed : Bool) (next : Nat → Next) (h : complete next n 0 = false) :
    let r := collectExactly n boxed next
    r.2 = false ∧ r.1.out = [] ∧ r.1.drops = created next n 0 ∧ r.1.ub = false ∧ r.1.boxAlloc = 0 ∧
      (created next n 0).length < n := by
  have := ceLoop_spec next n 0 (Ledger.init n boxed) [] (by simp [Ledger.init]) rfl
  simp only [collectExactly]
  rw [this]
  have hlt : (created next n 0).length < n := by
    have h1 := created_length_le next n 0
    have h2 : ¬ (created next n 0).length = n := by
      intro he; have := (complete_iff next n 0).mpr he; simp [h] at this
    omega
  simp [h, hlt, Ledger.init]

/-- **balance** (both paths, any `N`, any stopping point): every created value occurs exactly once among
    (destructor calls ++ returned values) — never leaked, never dropped twice, never both dropped and returned — provided the
    values are distinct objects -/
theorem c19_collect_exactly_balanced (n : Nat) (boxed : Bool) (next : Nat → Next) :
    let r := collectExactly n boxed next
    r.1.drops ++ r.1.out = created next n 0 ∧ r.1.ub = false ∧ r.1.boxAlloc = 0 := by
  cases h : complete next n 0 with
  | true =>
    have := c19_collect_exactly_ok n boxed next h
    simp only at this ⊢
    simp [this.2.1, this.2.2.1, this.2.2.2.1, this.2.2.2.2.1]
  | false =>
    have := c19_collect_exactly_fail n boxed next h
    simp only at this ⊢
    simp [this.2.1, this.2.2.1, this.2.2.2.1, this.2.2.2.2.1]

theorem c19_each_exactly_once (n : Nat) (boxed : Bool) (next : Nat → Next) (hd : (created next n 0).Nodup) (v : Nat)
    (hv : v ∈ created next n 0) :
    let r := collectExactly n boxed next
    (r.1.drops ++ r.1.out).count v = 1 := by
  have := (c19_collect_exactly_balanced n boxed next).1
  simp only at this ⊢
  rw [this, hd.count]; simp [hv]

/-- **group([..; N])** (as repaired): the same ledger, hence the same balance -/
theorem c19_group_array_balanced (n : Nat) (next : Nat → Next) :
    let r := groupArr n next
    r.1.drops ++ r.1.out = created next n 0 ∧ r.1.ub = false :=
  ⟨(c19_collect_exactly_balanced n false next).1, (c19_collect_exactly_balanced n false next).2.1⟩

/-- the pinned code of `group([..; N])` leaked: with two parsers, the first succeeding and the second failing, the value
    created by the first is neither dropped nor returned (defect D6, repaired by a `fix:` commit; kept as a witness) -/
theorem c19_group_array_leak_witness :
    let next : Nat → Next := fun i => if i = 0 then .item 7 else .stop
    let r := groupArrLeaky 2 next
    created next 2 0 = [7] ∧ r.1.drops ++ r.1.out = [] := by decide

/-- the iterator is never asked for more than `N` items: values the stream could still produce are not created -/
theorem c19_no_overrun (n : Nat) (next : Nat → Next) : (created next n 0).length ≤ n := created_length_le next n 0

/-! non-vacuity: concrete runs evaluated by the kernel -/
example : (collectExactly 3 false (fun i => if i < 2 then .item (10 + i) else .stop)).1.drops = [10, 11] := by decide
example : (collectExactly 3 true (fun i => .item (10 + i))).1.out = [10, 11, 12] := by decide
example : (collectExactly 0 false (fun _ => .stop)).2 = true := by decide

#print axioms c19_collect_exactly_ok
#print axioms c19_collect_exactly_fail
#print axioms c19_collect_exactly_balanced
#print axioms c19_each_exactly_once
#print axioms c19_group_array_balanced
#print axioms c19_group_array_leak_witness
#print axioms c19_no_overrun

end Chumsky
