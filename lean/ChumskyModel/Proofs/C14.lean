/-
  Proofs/C14.lean — property C14: the text parsers recognise exactly their documented languages.

  The text parsers are transcribed in `Model/Text.lean` as position functions over the `Char` class record (`CC`), one per
  parser of `text.rs`; the correspondence check of C14 runs those functions against the real parsers on every string of the
  generator. The theorems below are about those functions, for EVERY token list (no length bound), every radix and every
  class record unless an instance is named.

  "accepts s" = the parser, started at position 0 of `s`, ends at `s.length` (what `parse` demands: the parser followed
  by end-of-input).  The documented languages are stated as plain list predicates.
-/
import ChumskyModel.Proofs.Lemmas.TextLang

namespace Chumsky
open Text

/-! ### the documented languages -/

/-- one or more radix-`r` digits -/
def DigitsLang (cc : CC) (r : Nat) (s : List Nat) : Prop := s ≠ [] ∧ s.all (cc.isDigit r) = true
/-- a single zero, or a non-empty digit string whose first digit is not zero -/
def IntLang (cc : CC) (r : Nat) (s : List Nat) : Prop :=
  s = [cc.digitZero] ∨ (∃ c cs, s = c :: cs ∧ c ≠ cc.digitZero ∧ cc.isDigit r c = true ∧ cs.all (cc.isDigit r) = true)
/-- `start cont*` -/
def IdentLang (start cont : Nat → Bool) (s : List Nat) : Prop := ∃ c cs, s = c :: cs ∧ start c = true ∧ cs.all cont = true

/-! ### whitespace -/

/-- `whitespace()` / `inline_whitespace()` never fail, consume a run of (inline) whitespace and stop at the first other character -/
theorem c14_whitespace_run (cc : CC) (toks : List Nat) (pos : Nat) :
    ∃ e, whitespace cc toks pos = some e ∧ pos ≤ e ∧
      ((toks.drop pos).take (e - pos)).all cc.isWs = true ∧ (∀ c, toks[e]? = some c → pos ≤ toks.length → cc.isWs c = false) := by
  refine ⟨_, rfl, skip_ge _ _ _, ?_, ?_⟩
  · rw [skip_eq]; simp only [Nat.add_sub_cancel_left]; exact runLen_all _ _
  · intro c hc hp
    rw [skip_eq] at hc
    apply runLen_stop cc.isWs (toks.drop pos) c
    rw [List.getElem?_drop]; exact hc

theorem c14_whitespace_accepts (cc : CC) (s : List Nat) :
    whitespace cc s 0 = some s.length ↔ s.all cc.isWs = true := by
  simp only [whitespace, skip_eq, List.drop_zero, Nat.zero_add, Option.some.injEq]
  exact runLen_eq_length_iff _ _

theorem c14_inline_whitespace_accepts (cc : CC) (s : List Nat) :
    inlineWhitespace cc s 0 = some s.length ↔ s.all cc.isInlineWs = true := by
  simp only [inlineWhitespace, skip_eq, List.drop_zero, Nat.zero_add, Option.some.injEq]
  exact runLen_eq_length_iff _ _

/-! ### digits / int -/

theorem c14_digits_accepts (cc : CC) (r : Nat) (s : List Nat) :
    digits cc r s 0 = some s.length ↔ DigitsLang cc r s := by
  unfold DigitsLang digits
  cases s with
  | nil => simp
  | cons c cs =>
    simp only [List.getElem?_cons_zero, List.length_cons, ne_eq, reduceCtorEq, not_false_eq_true, true_and,
      List.all_cons, Bool.and_eq_true]
    by_cases hd : cc.isDigit r c
    · simp only [hd, if_true, Option.some.injEq, true_and, skip_eq, List.drop_succ_cons, List.drop_zero]
      rw [← runLen_eq_length_iff]; omega
    · simp [hd]

theorem c14_int_accepts (cc : CC) (r : Nat) (s : List Nat) :
    int cc r s 0 = some s.length ↔ IntLang cc r s := by
  unfold IntLang int
  cases s with
  | nil => simp
  | cons c cs =>
    simp only [List.getElem?_cons_zero, List.length_cons]
    by_cases hz : c = cc.digitZero
    · subst hz
      simp only [bne_self_eq_false, Bool.and_false, Bool.false_eq_true, if_false, beq_self_eq_true, if_true,
        Option.some.injEq, Nat.zero_add]
      constructor
      · intro h; left
        have : cs = [] := by cases cs with | nil => rfl | cons _ _ => simp at h
        rw [this]
      · rintro (h | ⟨c', cs', h1, h2, _⟩)
        · have : cs = [] := by simpa using h
          simp [this]
        · simp only [List.cons.injEq] at h1; exact absurd h1.1.symm h2
    · have hne : (c != cc.digitZero) = true := by simpa using hz
      have hbeq : (c == cc.digitZero) = false := by simpa using hz
      by_cases hd : cc.isDigit r c
      · simp only [hd, hne, Bool.and_self, if_true, Option.some.injEq, skip_eq, List.drop_succ_cons, List.drop_zero]
        constructor
        · intro h; right
          refine ⟨c, cs, rfl, hz, hd, ?_⟩
          rw [← runLen_eq_length_iff]; omega
        · rintro (h | ⟨c', cs', h1, _, _, h4⟩)
          · simp only [List.cons.injEq] at h; exact absurd h.1 hz
          · simp only [List.cons.injEq] at h1
            rw [← h1.2] at h4
            rw [(runLen_eq_length_iff _ _).mpr h4]; omega
      · simp only [hd, Bool.false_and, Bool.false_eq_true, if_false, hbeq]
        constructor
        · intro h; simp at h
        · rintro (h | ⟨c', cs', h1, _, h3, _⟩)
          · simp only [List.cons.injEq] at h; exact absurd h.1 hz
          · simp only [List.cons.injEq] at h1; rw [← h1.1] at h3; exact absurd h3 hd

/-- no superfluous leading zero: after a leading zero `int` stops at once, so `"0d…"` is never accepted -/
theorem c14_int_leading_zero (cc : CC) (r : Nat) (pos : Nat) (toks : List Nat)
    (h : toks[pos]? = some cc.digitZero) : int cc r toks pos = some (pos + 1) := by
  simp [int, h]

/-- `int` and `digits` are greedy: they stop only at a non-digit -/
theorem c14_digits_maximal (cc : CC) (r : Nat) (toks : List Nat) (pos e c : Nat)
    (h : digits cc r toks pos = some e) (hc : toks[e]? = some c) : cc.isDigit r c = false := by
  unfold digits at h
  cases hg : toks[pos]? with
  | none => simp [hg] at h
  | some d =>
    simp only [hg] at h
    by_cases hd : cc.isDigit r d
    · simp only [hd, if_true, Option.some.injEq] at h
      rw [skip_eq] at h
      apply runLen_stop (cc.isDigit r) (toks.drop (pos + 1)) c
      rw [List.getElem?_drop, h]; exact hc
    · simp [hd] at h

/-! ### identifiers and keywords -/

theorem identLike_accepts (start cont : Nat → Bool) (s : List Nat) :
    (match s[0]? with
     | some c => if start c then some (skip cont s (0 + 1)) else none
     | none => none) = some s.length ↔ IdentLang start cont s := by
  unfold IdentLang
  cases s with
  | nil => simp
  | cons c cs =>
    simp only [List.getElem?_cons_zero, List.length_cons, List.cons.injEq]
    by_cases hs : start c
    · simp only [hs, if_true, Option.some.injEq, skip_eq, Nat.zero_add, List.drop_succ_cons, List.drop_zero]
      constructor
      · intro h; exact ⟨c, cs, ⟨rfl, rfl⟩, hs, (runLen_eq_length_iff _ _).mp (by omega)⟩
      · rintro ⟨c', cs', ⟨_, h2⟩, _, h4⟩
        rw [← h2] at h4; rw [(runLen_eq_length_iff _ _).mpr h4]; omega
    · simp only [hs, Bool.false_eq_true, if_false, reduceCtorEq, false_iff]
      rintro ⟨c', cs', ⟨h1, _⟩, h3, _⟩
      rw [← h1] at h3; exact absurd h3 hs

/-- `ascii::ident` accepts exactly `[A-Za-z_][A-Za-z0-9_]*` -/
theorem c14_ascii_ident_accepts (cc : CC) (s : List Nat) :
    asciiIdent cc s 0 = some s.length ↔ IdentLang (isAsciiIdentStart cc) (isAsciiIdentCont cc) s :=
  identLike_accepts _ _ s

/-- `unicode::ident` accepts exactly `(XID_Start | _) XID_Continue*` -/
theorem c14_unicode_ident_accepts (cc : CC) (s : List Nat) :
    unicodeIdent cc s 0 = some s.length ↔ IdentLang cc.isIdentStart cc.isIdentCont s :=
  identLike_accepts _ _ s

/-- for `char` the ASCII identifier classes are literally `[A-Za-z_]` and `[A-Za-z0-9_]` -/
theorem c14_ascii_classes_char (c : Nat) :
    isAsciiIdentStart charCC c = (decide (c < 128) && (asciiAlpha c || c == 95)) ∧
    isAsciiIdentCont charCC c = (decide (c < 128) && (asciiAlnum c || c == 95)) := by
  unfold isAsciiIdentStart isAsciiIdentCont charCC
  by_cases h : c < 128 <;> simp [h]

/-- identifiers are matched greedily (maximal munch): the character after an identifier is not an identifier character -/
theorem identLike_maximal (start cont : Nat → Bool) (toks : List Nat) (pos e c : Nat)
    (h : (match toks[pos]? with
          | some c => if start c then some (skip cont toks (pos + 1)) else none
          | none => none) = some e) (hc : toks[e]? = some c) : cont c = false := by
  cases hg : toks[pos]? with
  | none => simp [hg] at h
  | some d =>
    simp only [hg] at h
    by_cases hd : start d
    · simp only [hd, if_true, Option.some.injEq] at h
      rw [skip_eq] at h
      apply runLen_stop cont (toks.drop (pos + 1)) c
      rw [List.getElem?_drop, h]; exact hc
    · simp [hd] at h

/-- `keyword(k)`: the identifier found at the position IS `k` — so a keyword is never accepted as a proper prefix of a
    longer identifier (the character after the match cannot continue an identifier), and the match has `k`'s length -/
theorem c14_keyword_exact (cc : CC) (k toks : List Nat) (pos e : Nat)
    (h : asciiKeyword cc k toks pos = some e) :
    asciiIdent cc toks pos = some e ∧ (toks.drop pos).take (e - pos) = k ∧
      (∀ c, toks[e]? = some c → isAsciiIdentCont cc c = false) := by
  unfold asciiKeyword keywordOf at h
  cases hi : asciiIdent cc toks pos with
  | none => simp [hi] at h
  | some e' =>
    simp only [hi] at h
    by_cases hk : (toks.drop pos).take (e' - pos) == k
    · simp only [hk, if_true, Option.some.injEq] at h
      subst h
      refine ⟨rfl, by simpa using hk, fun c hc => ?_⟩
      exact identLike_maximal _ _ toks pos e' c hi hc
    · simp [hk] at h

theorem c14_unicode_keyword_exact (cc : CC) (k toks : List Nat) (pos e : Nat)
    (h : unicodeKeyword cc k toks pos = some e) :
    unicodeIdent cc toks pos = some e ∧ (toks.drop pos).take (e - pos) = k ∧
      (∀ c, toks[e]? = some c → cc.isIdentCont c = false) := by
  unfold unicodeKeyword keywordOf at h
  cases hi : unicodeIdent cc toks pos with
  | none => simp [hi] at h
  | some e' =>
    simp only [hi] at h
    by_cases hk : (toks.drop pos).take (e' - pos) == k
    · simp only [hk, if_true, Option.some.injEq] at h
      subst h
      refine ⟨rfl, by simpa using hk, fun c hc => ?_⟩
      exact identLike_maximal _ _ toks pos e' c hi hc
    · simp [hk] at h

/-- `keyword(k)` accepts a whole string iff the string is `k` and `k` is an identifier -/
theorem c14_keyword_accepts (cc : CC) (k s : List Nat) :
    asciiKeyword cc k s 0 = some s.length ↔ s = k ∧ IdentLang (isAsciiIdentStart cc) (isAsciiIdentCont cc) s := by
  rw [← c14_ascii_ident_accepts]
  unfold asciiKeyword keywordOf
  cases hi : asciiIdent cc s 0 with
  | none => simp
  | some e =>
    simp only [List.drop_zero, Nat.sub_zero, Option.some.injEq]
    by_cases hk : (s.take e == k)
    · simp only [hk, if_true, Option.some.injEq]
      constructor
      · intro h; subst h; simp at hk; exact ⟨hk, rfl⟩
      · rintro ⟨_, h⟩; exact h
    · simp only [hk, Bool.false_eq_true, if_false, reduceCtorEq, false_iff]
      rintro ⟨h1, h2⟩; subst h2; simp at hk; exact hk h1

theorem c14_unicode_keyword_accepts (cc : CC) (k s : List Nat) :
    unicodeKeyword cc k s 0 = some s.length ↔ s = k ∧ IdentLang cc.isIdentStart cc.isIdentCont s := by
  rw [← c14_unicode_ident_accepts]
  unfold unicodeKeyword keywordOf
  cases hi : unicodeIdent cc s 0 with
  | none => simp
  | some e =>
    simp only [List.drop_zero, Nat.sub_zero, Option.some.injEq]
    by_cases hk : (s.take e == k)
    · simp only [hk, if_true, Option.some.injEq]
      constructor
      · intro h; subst h; simp at hk; exact ⟨hk, rfl⟩
      · rintro ⟨_, h⟩; exact h
    · simp only [hk, Bool.false_eq_true, if_false, reduceCtorEq, false_iff]
      rintro ⟨h1, h2⟩; subst h2; simp at hk; exact hk h1

/-! ### newline -/

/-- `newline` on `&str` accepts exactly the eight documented terminators (CR LF as one unit) -/
theorem c14_newline_accepts (s : List Nat) :
    newline charCC s 0 = some s.length ↔
      s ∈ [[13, 10], [10], [13], [11], [12], [0x85], [0x2028], [0x2029]] := by
  unfold newline
  match s with
  | [] => simp
  | [c] =>
    simp only [List.getElem?_cons_zero, List.length_cons, List.length_nil, Nat.zero_add]
    by_cases h13 : c = 13
    · subst h13; simp [charCC]
    · have : (charCC.toAscii c == some 13) = false := by
        unfold charCC; by_cases hlt : c < 128 <;> simp [hlt, h13]
      simp only [this, Bool.false_eq_true, if_false]
      by_cases hn : charCC.isNewline c
      · simp only [hn, if_true, true_iff]
        simp only [charCC, Bool.or_eq_true, beq_iff_eq] at hn
        simp only [List.mem_cons, List.cons.injEq, and_true, List.not_mem_nil, or_false]
        omega
      · simp only [hn, Bool.false_eq_true, if_false, reduceCtorEq, false_iff]
        simp only [charCC, Bool.or_eq_true, beq_iff_eq] at hn
        simp only [List.mem_cons, List.cons.injEq, and_true, List.not_mem_nil, or_false, reduceCtorEq]
        omega
  | c :: d :: rest =>
    simp only [List.getElem?_cons_zero, List.length_cons, Nat.zero_add, List.getElem?_cons_succ]
    by_cases h13 : c = 13
    · subst h13
      by_cases h10 : d = 10
      · subst h10
        cases rest with
        | nil => simp [charCC]
        | cons x xs => simp [charCC]
      · have : (charCC.toAscii d == some 10) = false := by
          unfold charCC; by_cases hlt : d < 128 <;> simp [hlt, h10]
        simp [charCC, h10]
    · have : (charCC.toAscii c == some 13) = false := by
        unfold charCC; by_cases hlt : c < 128 <;> simp [hlt, h13]
      simp only [this, Bool.false_eq_true, if_false]
      have hlen : ¬ (0 + 1 = rest.length + 1 + 1) := by omega
      by_cases hn : charCC.isNewline c
      · simp [hn, h13]
      · simp [hn, h13]

/-- CR LF is one line terminator, on both instances -/
theorem c14_crlf_one_unit (cc : CC) (h13 : cc.toAscii 13 = some 13) (h10 : cc.toAscii 10 = some 10) (rest : List Nat) :
    newline cc (13 :: 10 :: rest) 0 = some 2 := by
  simp [newline, h13, h10]

/-! ### padded -/

/-- `p.padded()` skips whitespace only: what it skips before and after `p` are runs of whitespace, `p` starts exactly where the
    leading run ends, and the trailing run is maximal -/
theorem c14_padded (cc : CC) (p : List Nat → Nat → Option Nat) (toks : List Nat) (pos s e f : Nat)
    (h : padded cc p toks pos = some (s, e, f)) :
    s = skip cc.isWs toks pos ∧ p toks s = some e ∧ f = skip cc.isWs toks e ∧
      ((toks.drop pos).take (s - pos)).all cc.isWs = true ∧ ((toks.drop e).take (f - e)).all cc.isWs = true := by
  unfold padded at h
  simp only at h
  cases hp : p toks (skip cc.isWs toks pos) with
  | none => simp [hp] at h
  | some e' =>
    simp only [hp, Option.some.injEq, Prod.mk.injEq] at h
    obtain ⟨h1, h2, h3⟩ := h
    subst h1 h2 h3
    refine ⟨rfl, hp, rfl, ?_, ?_⟩
    · rw [skip_eq]; simp only [Nat.add_sub_cancel_left]; exact runLen_all _ _
    · rw [skip_eq]; simp only [Nat.add_sub_cancel_left]; exact runLen_all _ _

/-- conversely `ws* m ws*` is accepted whenever `p` matches `m` there and `m` does not begin with whitespace -/
theorem c14_padded_accepts (cc : CC) (p : List Nat → Nat → Option Nat) (w1 m w2 : List Nat)
    (hw1 : w1.all cc.isWs = true) (hw2 : w2.all cc.isWs = true)
    (hm : ∀ c, (m ++ w2)[0]? = some c → m ≠ [] ∧ cc.isWs c = false)
    (hp : p (w1 ++ m ++ w2) w1.length = some (w1.length + m.length)) :
    padded cc p (w1 ++ m ++ w2) 0 = some (w1.length, w1.length + m.length, (w1 ++ m ++ w2).length) := by
  have hs : skip cc.isWs (w1 ++ m ++ w2) 0 = w1.length := by
    rw [skip_eq, List.drop_zero, List.append_assoc, runLen_append_of_all _ _ _ hw1]
    have : runLen cc.isWs (m ++ w2) = 0 := by
      cases hmw : m ++ w2 with
      | nil => rfl
      | cons c cs =>
        have := (hm c (by simp [hmw])).2
        simp [runLen, this]
    omega
  have he : skip cc.isWs (w1 ++ m ++ w2) (w1.length + m.length) = (w1 ++ m ++ w2).length := by
    rw [skip_eq]
    have : (w1 ++ m ++ w2).drop (w1.length + m.length) = w2 := by
      rw [← List.length_append]; simp
    rw [this, (runLen_eq_length_iff _ _).mpr hw2]; simp; omega
  unfold padded
  simp only [hs, hp, he]

/-! ### the slice returned is the matched range; agreement of the two instances on ASCII text -/

/-- every text parser returns an end position at or after its start (the slice `[start, end)` is well formed) -/
theorem c14_end_ge_start (cc : CC) (r : Nat) (toks : List Nat) (pos e : Nat) :
    (int cc r toks pos = some e → pos < e) ∧ (digits cc r toks pos = some e → pos < e) ∧
    (asciiIdent cc toks pos = some e → pos < e) ∧ (unicodeIdent cc toks pos = some e → pos < e) ∧
    (newline cc toks pos = some e → pos < e) := by
  refine ⟨?_, ?_, ?_, ?_, ?_⟩
  · unfold int; cases toks[pos]? with
    | none => simp
    | some c =>
      simp only
      split
      · intro h; have := skip_ge (cc.isDigit r) toks (pos + 1); simp at h; omega
      · split <;> simp <;> omega
  · unfold digits; cases toks[pos]? with
    | none => simp
    | some c =>
      simp only; split
      · intro h; have := skip_ge (cc.isDigit r) toks (pos + 1); simp at h; omega
      · simp
  · unfold asciiIdent; cases toks[pos]? with
    | none => simp
    | some c =>
      simp only; split
      · intro h; have := skip_ge (isAsciiIdentCont cc) toks (pos + 1); simp at h; omega
      · simp
  · unfold unicodeIdent; cases toks[pos]? with
    | none => simp
    | some c =>
      simp only; split
      · intro h; have := skip_ge cc.isIdentCont toks (pos + 1); simp at h; omega
      · simp
  · unfold newline; cases toks[pos]? with
    | none => simp
    | some c =>
      simp only
      split
      · cases toks[pos + 1]? with
        | none => simp; omega
        | some d => simp only; split <;> simp <;> omega
      · split <;> simp <;> omega

/-- the class records of `char` and `u8` agree on every ASCII code point (decided over all 128, every radix) -/
theorem c14_classes_agree_on_ascii (c : Nat) (hc : c < 128) :
    charCC.isWs c = u8CC.isWs c ∧ charCC.isInlineWs c = u8CC.isInlineWs c ∧ charCC.isNewline c = u8CC.isNewline c ∧
    (∀ r, charCC.isDigit r c = u8CC.isDigit r c) ∧ charCC.isIdentStart c = u8CC.isIdentStart c ∧
    charCC.isIdentCont c = u8CC.isIdentCont c ∧ charCC.toAscii c = u8CC.toAscii c ∧ charCC.digitZero = u8CC.digitZero := by
  refine ⟨?_, rfl, ?_, fun _ => rfl, rfl, rfl, by simp [charCC, u8CC, hc], rfl⟩
  · have : ∀ c : Fin 128, charCC.isWs c.val = u8CC.isWs c.val := by decide +kernel
    exact this ⟨c, hc⟩
  · have : ∀ c : Fin 128, charCC.isNewline c.val = u8CC.isNewline c.val := by decide +kernel
    exact this ⟨c, hc⟩

/-- hence on ASCII text every text parser gives the same result on `&str` and on `&[u8]` -/
theorem c14_ascii_agree (toks : List Nat) (hascii : ∀ c ∈ toks, c < 128) (r pos : Nat) (k : List Nat) :
    whitespace charCC toks pos = whitespace u8CC toks pos ∧
    inlineWhitespace charCC toks pos = inlineWhitespace u8CC toks pos ∧
    digits charCC r toks pos = digits u8CC r toks pos ∧
    int charCC r toks pos = int u8CC r toks pos ∧
    asciiIdent charCC toks pos = asciiIdent u8CC toks pos ∧
    unicodeIdent charCC toks pos = unicodeIdent u8CC toks pos ∧
    asciiKeyword charCC k toks pos = asciiKeyword u8CC k toks pos ∧
    unicodeKeyword charCC k toks pos = unicodeKeyword u8CC k toks pos ∧
    newline charCC toks pos = newline u8CC toks pos ∧
    padded charCC (int charCC r) toks pos = padded u8CC (int u8CC r) toks pos := by
  have hws : ∀ p, skip charCC.isWs toks p = skip u8CC.isWs toks p :=
    fun p => skip_congr _ _ toks p (fun c hc => (c14_classes_agree_on_ascii c (hascii c hc)).1)
  have hasc : ∀ c ∈ toks, charCC.toAscii c = u8CC.toAscii c :=
    fun c hc => (c14_classes_agree_on_ascii c (hascii c hc)).2.2.2.2.2.2.1
  have hcont : ∀ p, skip (isAsciiIdentCont charCC) toks p = skip (isAsciiIdentCont u8CC) toks p :=
    fun p => skip_congr _ _ toks p (fun c hc => by unfold isAsciiIdentCont; rw [hasc c hc])
  have hai : asciiIdent charCC toks pos = asciiIdent u8CC toks pos := by
    unfold asciiIdent
    cases hg : toks[pos]? with
    | none => rfl
    | some c =>
      have hm : c ∈ toks := List.mem_of_getElem? hg
      simp only [isAsciiIdentStart, hasc c hm, hcont]
      all_goals rfl
  have hint : ∀ p, int charCC r toks p = int u8CC r toks p := fun p => rfl
  refine ⟨by simp [whitespace, hws], rfl, rfl, rfl, hai, rfl, ?_, rfl, ?_, ?_⟩
  · unfold asciiKeyword keywordOf; rw [hai]
  · unfold newline
    cases hg : toks[pos]? with
    | none => rfl
    | some c =>
      have hm : c ∈ toks := List.mem_of_getElem? hg
      simp only [hasc c hm, (c14_classes_agree_on_ascii c (hascii c hm)).2.2.1]
      cases hg2 : toks[pos + 1]? with
      | none => rfl
      | some d => simp only [hasc d (List.mem_of_getElem? hg2)]
  · unfold padded; simp only [hws, hint]

/-! ### non-vacuity: concrete members and non-members, evaluated by the kernel -/

example : int charCC 10 [49, 52, 53, 50] 0 = some 4 := by decide
example : int charCC 10 [48, 52] 0 = some 1 := by decide                 -- "04": stops after the zero, so `parse` rejects
example : IntLang charCC 16 [50, 65] := Or.inr ⟨50, [65], rfl, by decide, by decide, by decide⟩
example : asciiKeyword charCC [105, 102] [105, 102, 120] 0 = none := by decide   -- "if" is not accepted in "ifx"
example : newline charCC [13, 10, 97] 0 = some 2 := by decide
example : padded charCC (int charCC 10) [32, 49, 50, 32, 10] 0 = some (1, 3, 5) := by decide
example : whitespace u8CC [11, 32] 0 = some 2 := by decide               -- vertical tab (the repaired D11)

/-- **bounded whitespace counts characters** (`whitespace()` / `inline_whitespace()` return a `Repeated`, so `.at_least(lo)`,
    `.at_most(hi)`, `.exactly(n)` apply to single characters): the match takes `min hi (length of the run)` characters and
    exists iff that is at least `lo` — a run is never treated as one item -/
theorem c14_whitespace_bounded (cc : CC) (lo hi : Nat) (toks : List Nat) (pos : Nat) :
    whitespaceB cc lo hi toks pos =
      if lo ≤ min hi (runLen cc.isWs (toks.drop pos)) then some (pos + min hi (runLen cc.isWs (toks.drop pos))) else none :=
  boundedRun_eq cc.isWs lo hi toks pos

theorem c14_inline_whitespace_bounded (cc : CC) (lo hi : Nat) (toks : List Nat) (pos : Nat) :
    inlineWhitespaceB cc lo hi toks pos =
      if lo ≤ min hi (runLen cc.isInlineWs (toks.drop pos)) then some (pos + min hi (runLen cc.isInlineWs (toks.drop pos)))
      else none :=
  boundedRun_eq cc.isInlineWs lo hi toks pos

/-- e.g. `whitespace().at_least(2)` accepts two spaces, `whitespace().exactly(3)` takes three of four -/
example : whitespaceB charCC 2 1000 [32, 32] 0 = some 2 ∧ whitespaceB charCC 3 3 [32, 9, 32, 32] 0 = some 3 ∧
    whitespaceB charCC 2 1000 [32, 97] 0 = none := by decide

#print axioms c14_whitespace_bounded
#print axioms c14_inline_whitespace_bounded
#print axioms c14_whitespace_run
#print axioms c14_whitespace_accepts
#print axioms c14_inline_whitespace_accepts
#print axioms c14_digits_accepts
#print axioms c14_int_accepts
#print axioms c14_int_leading_zero
#print axioms c14_digits_maximal
#print axioms c14_ascii_ident_accepts
#print axioms c14_unicode_ident_accepts
#print axioms c14_ascii_classes_char
#print axioms c14_keyword_exact
#print axioms c14_unicode_keyword_exact
#print axioms c14_keyword_accepts
#print axioms c14_unicode_keyword_accepts
#print axioms c14_newline_accepts
#print axioms c14_crlf_one_unit
#print axioms c14_padded
#print axioms c14_padded_accepts
#print axioms c14_end_ge_start
#print axioms c14_classes_agree_on_ascii
#print axioms c14_ascii_agree

end Chumsky
