import ChumskyModel.Model.Text
namespace Chumsky
theorem placeholder_C14 : True := trivial
#print axioms placeholder_C14
end Chumsky
