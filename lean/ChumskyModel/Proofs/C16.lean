/-
  C16 — nested inputs are parsed completely, in isolation, and report back faithfully.

  Model: `Model/Nested.lean` (two-level language: arbitrary base grammars at the leaves; sequence, ordered choice, option and
  span capture may contain `nested_in`, to any depth). Theorems are for every two-level grammar, every token tree (the group
  table is arbitrary), every mode, state and fuel.
-/
import ChumskyModel.Proofs.Lemmas.NestedOk
import ChumskyModel.Proofs.Lemmas.NestedRefine
import ChumskyModel.Proofs.Lemmas.NestedHole
import ChumskyModel.Proofs.Lemmas.NestedMode
import ChumskyModel.Proofs.Lemmas.NestedAlt
import ChumskyModel.Proofs.Lemmas.ExtAll
set_option linter.unusedSimpArgs false
namespace Chumsky

/-- **C16 (refinement).** The machine — `b` in `Emit`, pending error taken and restored, sub-context with fresh error list and
    memo table, inner errors re-homed at the outer cursor, no rewind of its own — refines the reading below, wherever the
    nested parse sits (under choices, options, sequences, other nested parses). -/
theorem c16_refines (n : Nat) (ne : NEnv) (m : Mode) (g : NGram) (st : St) (hm : ne.base.memoOn = false) :
    Refines m st.errs st.ctx (runN n ne m g st) (pegN n ne g st.ss st.ctx) :=
  runN_refines n ne m g st hm

/-- **runs `a` on exactly the inner input produced by `b`, completely; advances the outer input by exactly what `b` consumed;
    inner emissions surface after `b`'s, in order, at the outer position.** -/
theorem c16_success (n : Nat) (ne : NEnv) (a : NGram) (b : G) (s : SS) (ctx : Val) {v s' em}
    (h : pegN (n + 1) ne (.nestedIn a b) s ctx = .ok v s' em) :
    ∃ vb s1 e1 kids si e2 e3,
      peg n ne.base b s ctx = .ok vb s1 e1 ∧ ne.kidsOf vb = some kids ∧
      pegN n (ne.inner kids) a ⟨0, s1.insp⟩ ctx = .ok v si e2 ∧
      (ne.inner kids).base.toks = kids ∧
      peg n (ne.inner kids).base .end_ si ctx = .ok .unit ⟨si.pos, s'.insp⟩ e3 ∧
      s'.pos = s1.pos ∧ em = e1 ++ rehomeEm s1.pos (e2 ++ e3) := by
  simp only [pegN, SOut.andThen] at h
  cases hb : peg n ne.base b s ctx <;> simp [hb] at h
  rename_i vb s1 e1
  cases hk : ne.kidsOf vb <;> simp [hk] at h
  rename_i kids
  simp only [innerThenEndS, SOut.andThen] at h
  cases ha : pegN n (ne.inner kids) a ⟨0, s1.insp⟩ ctx <;> simp [ha] at h
  rename_i va si e2
  cases he : peg n (ne.inner kids).base .end_ si ctx <;> simp [he] at h
  rename_i ve se e3
  obtain ⟨h1, h2, h3⟩ := h
  subst h1
  -- `end()` returns unit and does not move
  have hend : ve = .unit ∧ se = si := by
    cases n with
    | zero => simp [peg] at he
    | succ k =>
      simp only [peg, pegStep] at he
      cases ht : (ne.inner kids).base.toks[si.pos]? <;> simp [ht] at he
      exact ⟨he.1.symm, he.2.1.symm⟩
  obtain ⟨hv, hs⟩ := hend
  subst hv hs
  refine ⟨vb, s1, e1, kids, se, e2, e3, rfl, hk, ha, rfl, ?_, by rw [← h2], h3.symm⟩
  rw [← h2]; exact he

/-- the inner parse is complete: after `a` nothing of the inner input is left -/
theorem c16_complete (n : Nat) (env : Env) (si : SS) (ctx : Val) {v s2 e3}
    (h : peg (n + 1) env .end_ si ctx = .ok v s2 e3) : env.toks.length ≤ si.pos := by
  simp only [peg, pegStep] at h
  cases ht : env.toks[si.pos]? <;> simp [ht] at h
  simpa using ht

/-- **succeeds only if `a` matches the inner input completely**: a leftover inner token makes the nested parse fail -/
theorem c16_leftover_fails (n : Nat) (ne : NEnv) (a : NGram) (b : G) (s : SS) (ctx : Val) {vb s1 e1 kids va si e2 t}
    (hb : peg (n + 1) ne.base b s ctx = .ok vb s1 e1) (hk : ne.kidsOf vb = some kids)
    (ha : pegN (n + 1) (ne.inner kids) a ⟨0, s1.insp⟩ ctx = .ok va si e2) (hleft : kids[si.pos]? = some t) :
    pegN (n + 2) ne (.nestedIn a b) s ctx = .fail := by
  have hend : peg (n + 1) (ne.inner kids).base .end_ si ctx = .fail := by
    simp only [peg, pegStep]
    have : (ne.inner kids).base.toks[si.pos]? = some t := hleft
    simp [this]
  simp [pegN, SOut.andThen, hb, hk, innerThenEndS, ha, hend]

/-- … and a failing `a` makes it fail -/
theorem c16_inner_failure_fails (n : Nat) (ne : NEnv) (a : NGram) (b : G) (s : SS) (ctx : Val) {vb s1 e1 kids}
    (hb : peg n ne.base b s ctx = .ok vb s1 e1) (hk : ne.kidsOf vb = some kids)
    (ha : pegN n (ne.inner kids) a ⟨0, s1.insp⟩ ctx = .fail) :
    pegN (n + 1) ne (.nestedIn a b) s ctx = .fail := by
  simp [pegN, SOut.andThen, hb, hk, innerThenEndS, ha]

/-- **the outer grammar backtracks over a failed nested parse like over any other failure**: ordered choice tries the next
    alternative from the same position, option yields `None` there -/
theorem c16_backtrack_or (n : Nat) (ne : NEnv) (a : NGram) (b : G) (c : NGram) (s : SS) (ctx : Val)
    (h : pegN n ne (.nestedIn a b) s ctx = .fail) :
    pegN (n + 1) ne (.or_ (.nestedIn a b) c) s ctx = pegN n ne c s ctx := by
  simp only [pegN, h]

theorem c16_backtrack_or_not (n : Nat) (ne : NEnv) (a : NGram) (b : G) (s : SS) (ctx : Val)
    (h : pegN n ne (.nestedIn a b) s ctx = .fail) :
    pegN (n + 1) ne (.orNot (.nestedIn a b)) s ctx = .ok .none s [] := by
  simp only [pegN, h]

/-- **the inner failure surfaces**: when the nested parse fails the machine leaves the outer position just after `b`, appends the
    inner non-fatal errors (re-homed) to the outer list, and the pending error is the priority-merge of what was pending with
    the inner failure placed at the outer cursor -/
theorem c16_failure_reported (env : Env) (st1 si : St) (a : Loc) (hek : env.ek ≠ .empty) (ha : si.alt = some a) :
    (nestedMerge env st1 si).pos = st1.pos ∧
    (nestedMerge env st1 si).errs = st1.errs ++ rehome st1.pos si.errs ∧
    (nestedMerge env st1 si).alt = St.mergeAlt env.ek st1.alt st1.pos a.err := by
  refine ⟨by simp, by simp, ?_⟩
  unfold nestedMerge
  simp only [ha, St.addAltErr]

/-- isolation: the nested parse starts with no errors, no pending error and an empty memo table of its own, whatever the
    outer state holds (definitional; stated so that a change of the model shows up here) -/
theorem c16_isolated (n : Nat) (ne : NEnv) (m : Mode) (a : NGram) (b : G) (st st1 : St) (vb : Val) (kids : List Nat)
    (hb : run n ne.base .emit b st = .ok vb st1) (hk : ne.kidsOf vb = some kids) :
    runN (n + 1) ne m (.nestedIn a b) st =
      match innerThenEndM
          (runN n (ne.inner kids) m a { pos := 0, errs := [], alt := none, insp := st1.insp, ctx := st1.ctx, memo := [], log := [] })
          (fun si1 => run n (ne.inner kids).base .check .end_ si1) with
      | .ok va si => .ok va (nestedMerge ne.base st1 si)
      | .fail si => .fail (nestedMerge ne.base st1 si)
      | .panic w => .panic w
      | .oof => .oof := by
  simp only [runN, hb, hk]
  rfl

/-! ### non-vacuity: a token tree of depth 2, evaluated by the kernel -/

/-- tokens: `a`=97, `b`=98, group 1000 = [a, group 1001], group 1001 = [b]. Grammar: `x (G(a G(b)))?` … -/
def exNE : NEnv :=
  { base := { toks := [97, 1000], kind := .mapped, tspans := layoutSpans 1 2 0, eoi := (7, 7), memoOn := false },
    groups := [(1000, [97, 1001]), (1001, [98])], gap := 1 }

def grp : G := .select [1000, 1001]

example :
    (match parseTopN 40 exNE .emit
        (.then_ (.lift (.just [97]))
          (.nestedIn (.then_ (.lift .any) (.nestedIn (.mapWithSpan (.lift (.just [98]))) grp)) grp)) with
      | .result r _ => (r.output, r.errs.length)
      | _ => (none, 99)) =
    (some (.pair (.toks [97]) (.pair (.tok 97) (.pair (.toks [98]) (.span 1 3)))), 0) := by
  decide

/-- the inner sequence is one token too long for `a`: the nested parse fails and the choice takes its second alternative -/
example :
    (match parseTopN 40 exNE .emit
        (.then_ (.lift (.just [97]))
          (.or_ (.nestedIn (.lift .any) grp) (.lift (.to (.nat 5) .any)))) with
      | .result r _ => (r.output, r.errs.length)
      | _ => (none, 99)) = (some (.pair (.toks [97]) (.nat 5)), 0) := by
  decide

/-! ### the general form: `a.nested_in(b)` at any position of any grammar (`HEnv` / `runH` / `pegH`)

  Inside `a`, `b` and the surrounding grammar `.call hole` is `a.nested_in(b)`: nested parses under repetitions, separated
  lists, recovery, labels, lookahead, folds, in recursive definitions, and token trees parsed recursively (`a` mentions the
  hole). The machine is the ordinary `step` with `NestedIn::go` at the hole. -/

/-- **C16, general refinement.** Every grammar position, mode, state, fuel, token tree. -/
theorem c16_general_refines (h : HEnv) (n : Nat) (env : Env) (m : Mode) (g : G) (st : St) (hm : env.memoOn = false) :
    Refines m st.errs st.ctx (runH h n env m g st) (pegH h n env g st.ss st.ctx) :=
  runH_refines h n env m g st hm

theorem c16_general_parse (h : HEnv) (n : Nat) (env : Env) (m : Mode) (g : G) (hm : env.memoOn = false) :
    TopRefines m (parseTopH h n env m g) (pegTopH h n env g) :=
  parseTopH_refines h n env m g hm

/-- what the reading says at the hole: `b` yields a group token and consumes it; `a` followed by end-of-input must match the
    children — completely, from a fresh error state, sharing only inspector and context; the result is `a`'s, the outer
    position is just after `b`, inner emissions are reported at that position after `b`'s -/
theorem c16_general_hole (h : HEnv) (n : Nat) (env : Env) (s : SS) (ctx : Val) :
    pegH h (n + 1) env (.call h.hole) s ctx = nestedStepS (pegH h n) h env s ctx :=
  pegH_hole h n env s ctx

/-- check mode through nested inputs (C04): same outcome, identical final state -/
theorem c16_general_check_eq_emit (h : HEnv) (n : Nat) (env : Env) (g : G) (st : St) :
    runH h n env .check g st = (runH h n env .emit g st).erase :=
  (runH_modeSim h n).1 env g st

/-- an inner failure is reported faithfully (C06 / C20 through nested inputs): a failing run leaves a pending error, and
    when `parse` fails the last reported error is (≈) the summary of all failure events of the outer parse, each nested parse
    that left an error contributing one event just after its group token -/
theorem c16_general_failure_reported (h : HEnv) (n : Nat) (env : Env) (hek : env.ek ≠ .empty)
    (hdefs : ∀ d ∈ env.defs, d.c06 = true) (ha : h.a.c06 = true) (hb : h.b.c06 = true) (m : Mode) (g : G)
    (hg : g.c06 = true) (r : ParseResult) (f : St) (hp : parseTopH h n env m g = .result r f) (ho : r.output = none) :
    ∃ l l', f.alt = some l ∧ summ env.ek f.log = some l' ∧ l.equiv l' ∧ r.errs = f.errs.map (·.err) ++ [l.err] ∧
      (∀ ev ∈ f.log, ev.pos ≤ l.pos) :=
  parseTopH_primary_error h n env hek hdefs ha hb m g hg r f hp ho

/-- non-vacuity: a tree parsed recursively — group 1000 = [a, 1001, b], group 1001 = [b, b]; `a = (hole | a | b)*`; the
    outer grammar is a separated list of trees `hole (',' hole)*` -/
example :
    let h : HEnv := { hole := 0, a := .collect .vec (.repeated (.or_ (.call 0) (.oneOf [97, 98])) 0 none),
                      b := .select [1000, 1001], groups := [(1000, [97, 1001, 98]), (1001, [98, 98])], gap := 1 }
    (match parseTopH h 60 { toks := [1000, 44, 1001], kind := .mapped, tspans := layoutSpans 1 3 0, eoi := (10, 10),
                            memoOn := false } .emit
        (.collect .vec (.separatedBy (.call 0) (.just [44]) 1 none false false)) with
      | .result r f => (r.output.isSome, r.errs.length, f.pos)
      | _ => (false, 99, 0)) = (true, 0, 3) := by
  decide +kernel

/-! ### nested inputs and Pratt expressions together (`Model/Ext.lean`)

  The usual front end: brackets grouped into token trees by the lexer, `nested_in` for the groups, `pratt` for the expressions
  inside them, each referring to the other. `EEnv` lists any number of such extensions; `.call (base + i)` is extension `i`
  everywhere. -/

/-- machine ⊑ reading, every grammar position, mode, state, fuel, token tree, operator table -/
theorem c16_with_pratt_refines (e : EEnv) (n : Nat) (env : Env) (m : Mode) (g : G) (st : St) (hm : env.memoOn = false) :
    Refines m st.errs st.ctx (runE e n env m g st) (pegE e n env g st.ss st.ctx) :=
  runE_refines e n env m g st hm

theorem c16_with_pratt_parse (e : EEnv) (n : Nat) (env : Env) (m : Mode) (g : G) (hm : env.memoOn = false) :
    TopRefines m (parseTopE e n env m g) (pegTopE e n env g) :=
  parseTopE_refines e n env m g hm

theorem c16_with_pratt_check_eq_emit (e : EEnv) (n : Nat) (env : Env) (g : G) (st : St) :
    runE e n env .check g st = (runE e n env .emit g st).erase :=
  (runE_modeSim e n).1 env g st

theorem c16_with_pratt_failure_reported (e : EEnv) (n : Nat) (env : Env) (hek : env.ek ≠ .empty)
    (hdefs : ∀ d ∈ env.defs, d.c06 = true) (hx : ∀ x ∈ e.exts, x.c06 = true) (m : Mode) (g : G) (hg : g.c06 = true)
    (r : ParseResult) (f : St) (hp : parseTopE e n env m g = .result r f) (ho : r.output = none) :
    ∃ l l', f.alt = some l ∧ summ env.ek f.log = some l' ∧ l.equiv l' ∧ r.errs = f.errs.map (·.err) ++ [l.err] ∧
      (∀ ev ∈ f.log, ev.pos ≤ l.pos) :=
  parseTopE_primary_error e n env hek hdefs hx m g hg r f hp ho

/-- non-vacuity: `x * G` where the group `G` = `[x, +, y]` is itself an expression: extension 0 is the Pratt parser (its atom
    is a name or a group parsed by extension 1), extension 1 is `expr.nested_in(select G)`. Accepted, whole input consumed. -/
example :
    let e : EEnv := { base := 100, gap := 1, groups := [(1000, [120, 43, 121])],
                      exts := [.pratt (.or_ (.oneOf [120, 121]) (.call 101)) [.infix true 1 (.just [43]), .infix true 2 (.just [42])],
                               .nested (.call 100) (.select [1000])] }
    (match parseTopE e 60 { toks := [120, 42, 1000], kind := .mapped, tspans := layoutSpans 1 3 0, eoi := (10, 10),
                            memoOn := false } .emit (.call 100) with
      | .result r f => (r.output.isSome, r.errs.length, f.pos)
      | _ => (false, 99, 0)) = (true, 0, 3) := by
  decide +kernel

/-- **C16, anatomy of a successful nested parse in a grammar with extensions** (reading): extension `k` being `a.nested_in(b)`,
    a success means — `b` succeeded at the outer position and yielded a group token; `a` (read by `pegE` again: it may contain
    Pratt expressions and further nested parses) succeeded on the children from inner position 0 and ended where the inner
    input ends (it matched the inner input COMPLETELY); the outer input advanced by exactly what `b` consumed; the emissions
    are `b`'s followed by the inner ones, re-homed just after the group -/
theorem c16_extensions_anatomy (e : EEnv) (n : Nat) (env : Env) (g a b : G) (hf : e.find g = some (.nested a b)) (s : SS)
    (ctx : Val) {v s' em} (hok : pegE e (n + 2) env g s ctx = .ok v s' em) :
    ∃ (vb : Val) (s1 : SS) (e1 : List Emis) (kids : List Nat) (si1 : SS) (e2 : List Emis) (si : SS) (e3 : List Emis),
      pegE e (n + 1) env b s ctx = .ok vb s1 e1 ∧ (e.henv a b).kidsOf vb = some kids ∧
      pegE e (n + 1) ((e.henv a b).innerEnv env kids) a ⟨0, s1.insp⟩ ctx = .ok v si1 e2 ∧
      ((e.henv a b).innerEnv env kids).toks[si1.pos]? = none ∧
      s' = ⟨s1.pos, si.insp⟩ ∧ si.insp = si1.insp ∧ em = e1 ++ rehomeEm s1.pos (e2 ++ e3) := by
  simp only [pegE, hf] at hok
  obtain ⟨vb, s1, e1, kids, si, e2', hb, hk, hi, hs, he⟩ := nestedStepS_ok _ _ _ _ _ hok
  obtain ⟨si1, e2, ve, e3, ha, hend, hee⟩ := innerThenEndS_ok hi
  refine ⟨vb, s1, e1, kids, si1, e2, si, e3, hb, hk, ha, ?_, hs, ?_, by rw [he, hee]⟩
  · simp only [EEnv.find, pegStep] at hend
    cases ht : ((e.henv a b).innerEnv env kids).toks[si1.pos]? with
    | none => rfl
    | some t => rw [ht] at hend; simp at hend
  · simp only [EEnv.find, pegStep] at hend
    cases ht : ((e.henv a b).innerEnv env kids).toks[si1.pos]? with
    | none => rw [ht] at hend; simp at hend; rw [← hend.2.1]
    | some t => rw [ht] at hend; simp at hend

#print axioms c16_extensions_anatomy
#print axioms c16_with_pratt_refines
#print axioms c16_with_pratt_parse
#print axioms c16_with_pratt_check_eq_emit
#print axioms c16_with_pratt_failure_reported
#print axioms c16_general_refines
#print axioms c16_general_parse
#print axioms c16_general_hole
#print axioms c16_general_check_eq_emit
#print axioms c16_general_failure_reported
#print axioms c16_refines
#print axioms c16_success
#print axioms c16_complete
#print axioms c16_leftover_fails
#print axioms c16_inner_failure_fails
#print axioms c16_backtrack_or
#print axioms c16_backtrack_or_not
#print axioms c16_failure_reported
#print axioms c16_isolated
end Chumsky
