/-
  C16 — nested inputs are parsed completely, in isolation, and report back faithfully.

  Model: `Model/Nested.lean` (two-level language: arbitrary base grammars at the leaves; sequence, ordered choice, option and
  span capture may contain `nested_in`, to any depth). Theorems are for every two-level grammar, every token tree (the group
  table is arbitrary), every mode, state and fuel.
-/
import ChumskyModel.Proofs.Lemmas.NestedRefine
set_option linter.unusedSimpArgs false
namespace Chumsky

/-- **C16 (refinement).** The machine — `b` in `Emit`, pending error taken and restored, sub-context with fresh error list and
    memo table, inner errors re-homed at the outer cursor, no rewind of its own — refines the reading below, wherever the
    nested parse sits (under choices, options, sequences, other nested parses). -/
theorem c16_refines (n : Nat) (ne : NEnv) (m : Mode) (g : NGram) (st : St) (hm : ne.base.memoOn = false) :
    Refines m st.errs st.ctx (runN n ne m g st) (pegN n ne g st.ss st.ctx) :=
  runN_refines n ne m g st hm

/-- **runs `a` on exactly the inner input produced by `b`, completely; advances the outer input by exactly what `b` consumed;
    inner emissions surface after `b`'s, in order, at the outer position.** -/
theorem c16_success (n : Nat) (ne : NEnv) (a : NGram) (b : G) (s : SS) (ctx : Val) {v s' em}
    (h : pegN (n + 1) ne (.nestedIn a b) s ctx = .ok v s' em) :
    ∃ vb s1 e1 kids si e2 e3,
      peg n ne.base b s ctx = .ok vb s1 e1 ∧ ne.kidsOf vb = some kids ∧
      pegN n (ne.inner kids) a ⟨0, s1.insp⟩ ctx = .ok v si e2 ∧
      (ne.inner kids).base.toks = kids ∧
      peg n (ne.inner kids).base .end_ si ctx = .ok .unit ⟨si.pos, s'.insp⟩ e3 ∧
      s'.pos = s1.pos ∧ em = e1 ++ rehomeEm s1.pos (e2 ++ e3) := by
  simp only [pegN, SOut.andThen] at h
  cases hb : peg n ne.base b s ctx <;> simp [hb] at h
  rename_i vb s1 e1
  cases hk : ne.kidsOf vb <;> simp [hk] at h
  rename_i kids
  simp only [innerThenEndS, SOut.andThen] at h
  cases ha : pegN n (ne.inner kids) a ⟨0, s1.insp⟩ ctx <;> simp [ha] at h
  rename_i va si e2
  cases he : peg n (ne.inner kids).base .end_ si ctx <;> simp [he] at h
  rename_i ve se e3
  obtain ⟨h1, h2, h3⟩ := h
  subst h1
  -- `end()` returns unit and does not move
  have hend : ve = .unit ∧ se = si := by
    cases n with
    | zero => simp [peg] at he
    | succ k =>
      simp only [peg, pegStep] at he
      cases ht : (ne.inner kids).base.toks[si.pos]? <;> simp [ht] at he
      exact ⟨he.1.symm, he.2.1.symm⟩
  obtain ⟨hv, hs⟩ := hend
  subst hv hs
  refine ⟨vb, s1, e1, kids, se, e2, e3, rfl, hk, ha, rfl, ?_, by rw [← h2], h3.symm⟩
  rw [← h2]; exact he

/-- the inner parse is complete: after `a` nothing of the inner input is left -/
theorem c16_complete (n : Nat) (env : Env) (si : SS) (ctx : Val) {v s2 e3}
    (h : peg (n + 1) env .end_ si ctx = .ok v s2 e3) : env.toks.length ≤ si.pos := by
  simp only [peg, pegStep] at h
  cases ht : env.toks[si.pos]? <;> simp [ht] at h
  simpa using ht

/-- **succeeds only if `a` matches the inner input completely**: a leftover inner token makes the nested parse fail -/
theorem c16_leftover_fails (n : Nat) (ne : NEnv) (a : NGram) (b : G) (s : SS) (ctx : Val) {vb s1 e1 kids va si e2 t}
    (hb : peg (n + 1) ne.base b s ctx = .ok vb s1 e1) (hk : ne.kidsOf vb = some kids)
    (ha : pegN (n + 1) (ne.inner kids) a ⟨0, s1.insp⟩ ctx = .ok va si e2) (hleft : kids[si.pos]? = some t) :
    pegN (n + 2) ne (.nestedIn a b) s ctx = .fail := by
  have hend : peg (n + 1) (ne.inner kids).base .end_ si ctx = .fail := by
    simp only [peg, pegStep]
    have : (ne.inner kids).base.toks[si.pos]? = some t := hleft
    simp [this]
  simp [pegN, SOut.andThen, hb, hk, innerThenEndS, ha, hend]

/-- … and a failing `a` makes it fail -/
theorem c16_inner_failure_fails (n : Nat) (ne : NEnv) (a : NGram) (b : G) (s : SS) (ctx : Val) {vb s1 e1 kids}
    (hb : peg n ne.base b s ctx = .ok vb s1 e1) (hk : ne.kidsOf vb = some kids)
    (ha : pegN n (ne.inner kids) a ⟨0, s1.insp⟩ ctx = .fail) :
    pegN (n + 1) ne (.nestedIn a b) s ctx = .fail := by
  simp [pegN, SOut.andThen, hb, hk, innerThenEndS, ha]

/-- **the outer grammar backtracks over a failed nested parse like over any other failure**: ordered choice tries the next
    alternative from the same position, option yields `None` there -/
theorem c16_backtrack_or (n : Nat) (ne : NEnv) (a : NGram) (b : G) (c : NGram) (s : SS) (ctx : Val)
    (h : pegN n ne (.nestedIn a b) s ctx = .fail) :
    pegN (n + 1) ne (.or_ (.nestedIn a b) c) s ctx = pegN n ne c s ctx := by
  simp only [pegN, h]

theorem c16_backtrack_or_not (n : Nat) (ne : NEnv) (a : NGram) (b : G) (s : SS) (ctx : Val)
    (h : pegN n ne (.nestedIn a b) s ctx = .fail) :
    pegN (n + 1) ne (.orNot (.nestedIn a b)) s ctx = .ok .none s [] := by
  simp only [pegN, h]

/-- **the inner failure surfaces**: when the nested parse fails the machine leaves the outer position just after `b`, appends the
    inner non-fatal errors (re-homed) to the outer list, and the pending error is the priority-merge of what was pending with
    the inner failure placed at the outer cursor -/
theorem c16_failure_reported (env : Env) (st1 si : St) (a : Loc) (hek : env.ek ≠ .empty) (ha : si.alt = some a) :
    (nestedMerge env st1 si).pos = st1.pos ∧
    (nestedMerge env st1 si).errs = st1.errs ++ rehome st1.pos si.errs ∧
    (nestedMerge env st1 si).alt = St.mergeAlt env.ek st1.alt st1.pos a.err := by
  refine ⟨by simp, by simp, ?_⟩
  unfold nestedMerge
  simp only [ha, St.addAltErr]

/-- isolation: the nested parse starts with no errors, no pending error and an empty memo table of its own, whatever the
    outer state holds (definitional; stated so that a change of the model shows up here) -/
theorem c16_isolated (n : Nat) (ne : NEnv) (m : Mode) (a : NGram) (b : G) (st st1 : St) (vb : Val) (kids : List Nat)
    (hb : run n ne.base .emit b st = .ok vb st1) (hk : ne.kidsOf vb = some kids) :
    runN (n + 1) ne m (.nestedIn a b) st =
      match innerThenEndM
          (runN n (ne.inner kids) m a { pos := 0, errs := [], alt := none, insp := st1.insp, ctx := st1.ctx, memo := [], log := [] })
          (fun si1 => run n (ne.inner kids).base .check .end_ si1) with
      | .ok va si => .ok va (nestedMerge ne.base st1 si)
      | .fail si => .fail (nestedMerge ne.base st1 si)
      | .panic w => .panic w
      | .oof => .oof := by
  simp only [runN, hb, hk]
  rfl

/-! ### non-vacuity: a token tree of depth 2, evaluated by the kernel -/

/-- tokens: `a`=97, `b`=98, group 1000 = [a, group 1001], group 1001 = [b]. Grammar: `x (G(a G(b)))?` … -/
def exNE : NEnv :=
  { base := { toks := [97, 1000], kind := .mapped, tspans := layoutSpans 1 2 0, eoi := (7, 7), memoOn := false },
    groups := [(1000, [97, 1001]), (1001, [98])], gap := 1 }

def grp : G := .select [1000, 1001]

example :
    (match parseTopN 40 exNE .emit
        (.then_ (.lift (.just [97]))
          (.nestedIn (.then_ (.lift .any) (.nestedIn (.mapWithSpan (.lift (.just [98]))) grp)) grp)) with
      | .result r _ => (r.output, r.errs.length)
      | _ => (none, 99)) =
    (some (.pair (.toks [97]) (.pair (.tok 97) (.pair (.toks [98]) (.span 1 3)))), 0) := by
  decide

/-- the inner sequence is one token too long for `a`: the nested parse fails and the choice takes its second alternative -/
example :
    (match parseTopN 40 exNE .emit
        (.then_ (.lift (.just [97]))
          (.or_ (.nestedIn (.lift .any) grp) (.lift (.to (.nat 5) .any)))) with
      | .result r _ => (r.output, r.errs.length)
      | _ => (none, 99)) = (some (.pair (.toks [97]) (.nat 5)), 0) := by
  decide

#print axioms c16_refines
#print axioms c16_success
#print axioms c16_complete
#print axioms c16_leftover_fails
#print axioms c16_inner_failure_fails
#print axioms c16_backtrack_or
#print axioms c16_backtrack_or_not
#print axioms c16_failure_reported
#print axioms c16_isolated
end Chumsky
