import ChumskyModel.Model.Spec
namespace Chumsky
theorem placeholder_C18 : True := trivial
#print axioms placeholder_C18
end Chumsky
