/-
  C18 — user state and inspectors see a history consistent with the parse.

  The inspector of the model is the list of tokens it has been fed (the harness keeps `(count, hash)`, a function
  of that list); its checkpoint is a snapshot.
-/
import ChumskyModel.Proofs.Lemmas.ExtAll
import ChumskyModel.Proofs.Lemmas.Top
import ChumskyModel.Proofs.Lemmas.SpecInv
import ChumskyModel.Proofs.Lemmas.PrattInv
set_option linter.unusedSimpArgs false
namespace Chumsky

/-- **C18 (machine = reading).** However much backtracking, lookahead or recovery happened, after a successful run
    the machine's inspector is the one of the PEG reading (which never rewinds anything). -/
theorem c18_machine_inspector (n : Nat) (env : Env) (m : Mode) (g : G) (st : St) (hm : env.memoOn = false) :
    match run n env m g st, peg n env g st.ss st.ctx with
    | .ok _ st', .ok _ s' _ => st'.insp = s'.insp ∧ st'.pos = s'.pos
    | .ok _ _, _ => False
    | _, _ => True := by
  have h := run_refines n env m g st hm
  revert h
  cases run n env m g st <;> cases peg n env g st.ss st.ctx <;> simp [Refines]
  intro h
  have := h.ss
  simp [St.ss] at this
  cases this
  exact ⟨rfl, rfl⟩

/-- **C18 (invariant).** Outside `with_state` scopes the inspector of the reading equals the state obtained by
    feeding it exactly the tokens before the current position: a successful sub-parse from `s` to `s'` feeds exactly
    the tokens between the two positions — every observation (`map_with`, fold callbacks, `select`) reads this state. -/
theorem c18_fed (n : Nat) (env : Env) (hdefs : ∀ d ∈ env.defs, d.noStateScope = true) (g : G)
    (hg : g.noStateScope = true) (s : SS) (ctx : Val) {v s' em} (h : peg n env g s ctx = .ok v s' em) :
    s.pos ≤ s'.pos ∧ s'.insp = s.insp ++ (env.toks.drop s.pos).take (s'.pos - s.pos) :=
  peg_fed' n env hdefs g hg s ctx h

theorem c18_prefix_invariant (n : Nat) (env : Env) (hdefs : ∀ d ∈ env.defs, d.noStateScope = true) (g : G)
    (hg : g.noStateScope = true) (ctx : Val) {s : SS} {v s' em} (hs : s.pos ≤ env.toks.length)
    (hi : s.insp = env.toks.take s.pos) (h : peg n env g s ctx = .ok v s' em) :
    s'.insp = env.toks.take s'.pos :=
  peg_insp_prefix n env hdefs g hg ctx hs hi h

/-- what an observation node reads: the inspector at its own end position -/
theorem c18_observation (n : Nat) (env : Env) (a : G) (s : SS) (ctx : Val) {v s1 e1}
    (ha : peg n env a s ctx = .ok v s1 e1) :
    peg (n + 1) env (.mapWithState a) s ctx = .ok (.pair v (.insp s1.insp)) s1 e1 := by
  simp [peg, pegStep, SOut.andThen, ha]

/-- **after a successful parse the state has seen exactly the whole input** (machine level, any mode) -/
theorem c18_final_state (n : Nat) (env : Env) (m : Mode) (g : G) (hm : env.memoOn = false)
    (hg : g.noStateScope = true) (hdefs : ∀ d ∈ env.defs, d.noStateScope = true) (r : ParseResult) (f : St)
    (h : parseTop n env m g = .result r f) (v : Val) (ho : r.output = some v) :
    f.insp = env.toks ∧ f.pos = env.toks.length := by
  have ht := parseTop_refines n env m g hm
  rw [h] at ht
  cases hp : pegTop n env g <;> rw [hp] at ht <;> simp only [TopRefines] at ht
  · rename_i v' s em
    have := pegTop_insp n env g hp hg hdefs
    have hs := ht.2.1
    simp [St.ss] at hs
    cases hs
    exact this
  · rw [ho] at ht; simp at ht

/-- `with_state` gives its sub-parser a fresh copy of the given state on every invocation and leaves the outer
    state untouched -/
theorem c18_with_state (n : Nat) (env : Env) (a : G) (s : SS) (ctx : Val) :
    peg (n + 1) env (.withState a) s ctx =
      match peg n env a ⟨s.pos, []⟩ ctx with
      | .ok v s1 e1 => .ok v ⟨s1.pos, s.insp⟩ e1
      | o => o :=
  peg_withState n env a s ctx

theorem c18_with_state_outer_untouched (n : Nat) (env : Env) (a : G) (s : SS) (ctx : Val) {v s' em}
    (h : peg n env (.withState a) s ctx = .ok v s' em) : s'.insp = s.insp :=
  peg_withState_insp n env a s ctx h

theorem c18_with_state_inner_fresh (n : Nat) (env : Env) (hdefs : ∀ d ∈ env.defs, d.noStateScope = true) (a : G)
    (ha : a.noStateScope = true) (s : SS) (ctx : Val) {v s1 e1} (h : peg n env a ⟨s.pos, []⟩ ctx = .ok v s1 e1) :
    s.pos ≤ s1.pos ∧ s1.insp = (env.toks.drop s.pos).take (s1.pos - s.pos) :=
  peg_withState_inner n env hdefs a ha s ctx h

/-- non-vacuity: observation after backtracking over a consumed token and a lookahead -/
example :
    (match parseTop 12 { toks := [97, 98], memoOn := false } .emit
        (.or_ (.then_ (.just [97]) (.just [97]))
              (.then_ (.andIs .any (.not_ (.just [98]))) (.mapWithState .any))) with
      | .result r f => (r.output, f.insp)
      | _ => (none, [])) = (some (.pair (.tok 97) (.pair (.tok 98) (.insp [97, 98]))), [97, 98]) := by
  decide +kernel

/-! ### Pratt parsers (the property's class includes C09) -/

/-- **C18 for `atom.pratt(ops)`.** A successful Pratt parse from `s` to `s'` has fed the inspector exactly the tokens
    between the two positions — whatever operators matched and were rewound because their operand was missing. -/
theorem c18_pratt_fed (fuel : Nat) (env : Env) (hdefs : ∀ d ∈ env.defs, d.noStateScope = true) (atom : G)
    (hatom : atom.noStateScope = true) (ops : List PrattOp) (hops : ∀ o ∈ ops, o.parser.noStateScope = true)
    (s : SS) (ctx : Val) {v s' em} (h : pegPratt fuel env atom ops s ctx = .ok v s' em) :
    s.pos ≤ s'.pos ∧ s'.insp = s.insp ++ (env.toks.drop s.pos).take (s'.pos - s.pos) :=
  pegPratt_fed fuel env hdefs atom hatom ops hops s ctx h

/-- after a successful `parse` / `check` of a Pratt parser the state has seen exactly the whole input (machine level) -/
theorem c18_pratt_final_state (fuel : Nat) (env : Env) (m : Mode) (hm : env.memoOn = false)
    (hdefs : ∀ d ∈ env.defs, d.noStateScope = true) (atom : G) (hatom : atom.noStateScope = true) (ops : List PrattOp)
    (hops : ∀ o ∈ ops, o.parser.noStateScope = true) (r : ParseResult) (f : St)
    (h : parseTopPratt fuel env m atom ops = .result r f) (v : Val) (ho : r.output = some v) :
    f.insp = env.toks ∧ f.pos = env.toks.length :=
  parseTopPratt_final_state fuel env m hm hdefs atom hatom ops hops r f h v ho

/-- recursive expression grammars `recursive(|e| atom.pratt(ops))`: the same at every grammar position, through any depth
    of parentheses -/
theorem c18_recursive_pratt_fed (x : XEnv) (n : Nat) (env : Env) (hdefs : ∀ d ∈ env.defs, d.noStateScope = true)
    (hatom : x.atom.noStateScope = true) (hops : ∀ o ∈ x.ops, o.parser.noStateScope = true) (g : G)
    (hg : g.noStateScope = true) (s : SS) (ctx : Val) {v s' em} (h : pegX x n env g s ctx = .ok v s' em) :
    s.pos ≤ s'.pos ∧ s'.insp = s.insp ++ (env.toks.drop s.pos).take (s'.pos - s.pos) :=
  pegX_fed x n env hdefs hatom hops g hg s ctx h

/-- **machine = reading in grammars with extensions** (`EEnv`: Pratt tables and nested-input parsers containing each other): after
    a successful run the machine's inspector is the one of the reading — which never rewinds: through the operator rewinds of
    `pratt_go` and across nested inputs (the inner parse continues the SAME inspector, `with_input` shares it, and what the inner
    parse fed stays fed in the outer one) nothing an abandoned path fed survives and nothing the surviving path fed is lost -/
theorem c18_extensions_machine_inspector (e : EEnv) (n : Nat) (env : Env) (m : Mode) (g : G) (st : St)
    (hm : env.memoOn = false) :
    match runE e n env m g st, pegE e n env g st.ss st.ctx with
    | .ok _ st', .ok _ s' _ => st'.insp = s'.insp ∧ st'.pos = s'.pos
    | .ok _ _, _ => False
    | _, _ => True := by
  have h := runE_refines e n env m g st hm
  revert h
  cases runE e n env m g st <;> cases pegE e n env g st.ss st.ctx <;> simp [Refines]
  intro h
  have := h.ss
  simp [St.ss] at this
  cases this
  exact ⟨rfl, rfl⟩

/-- the reading of a nested parse: the inner parse starts from the inspector state left by `b` and what it leaves is the
    state after the nested parse — the inspector sees the group token and then the inner tokens the surviving inner path
    consumed, in that order -/
theorem c18_nested_inspector_threaded (P : SRunner) (h : HEnv) (env : Env) (s : SS) (ctx : Val) {v s' em}
    (hok : nestedStepS P h env s ctx = .ok v s' em) :
    ∃ vb s1 e1 kids si, P env h.b s ctx = .ok vb s1 e1 ∧ h.kidsOf vb = some kids ∧
      (∃ e2, innerThenEndS (P (h.innerEnv env kids) h.a ⟨0, s1.insp⟩ ctx) (fun si1 => P (h.innerEnv env kids) .end_ si1 ctx)
        = .ok v si e2) ∧ s' = ⟨s1.pos, si.insp⟩ := by
  unfold nestedStepS at hok
  cases hb : P env h.b s ctx with
  | ok vb s1 e1 =>
    rw [hb] at hok
    simp only [SOut.andThen] at hok
    cases hk : h.kidsOf vb with
    | none => rw [hk] at hok; cases hok
    | some kids =>
      rw [hk] at hok
      dsimp only at hok
      generalize hi : innerThenEndS (P (h.innerEnv env kids) h.a ⟨0, s1.insp⟩ ctx)
        (fun si1 => P (h.innerEnv env kids) .end_ si1 ctx) = o at hok
      cases o with
      | ok va si e2 =>
        simp only [SOut.ok.injEq] at hok
        obtain ⟨hv, hs, _⟩ := hok
        subst hv
        exact ⟨vb, s1, e1, kids, si, rfl, hk, ⟨e2, hi⟩, hs.symm⟩
      | fail => cases hok
      | panic w => cases hok
      | oof => cases hok
  | fail => rw [hb] at hok; simp [SOut.andThen] at hok
  | panic w => rw [hb] at hok; simp [SOut.andThen] at hok
  | oof => rw [hb] at hok; simp [SOut.andThen] at hok

#print axioms c18_extensions_machine_inspector
#print axioms c18_nested_inspector_threaded
#print axioms c18_pratt_fed
#print axioms c18_pratt_final_state
#print axioms c18_recursive_pratt_fed
#print axioms c18_machine_inspector
#print axioms c18_fed
#print axioms c18_prefix_invariant
#print axioms c18_observation
#print axioms c18_final_state
#print axioms c18_with_state
#print axioms c18_with_state_outer_untouched
#print axioms c18_with_state_inner_fresh
end Chumsky
