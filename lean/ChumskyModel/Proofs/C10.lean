/-
  C10 — the result does not depend on how the input is represented.

  The parser core of the model is written once over a token list (`env.toks[pos]?`). The theorems here justify that for the
  stateful `Input` implementations: for EVERY schedule of `next` calls on previously obtained cursors (arbitrary
  backtracking, including the extra peek that `MappedInput::span` performs at an old cursor), each implementation returns
  exactly what indexing the token list returns, and its cursor locations advance in lock-step. Consequences proved on the
  way: a `Stream` pulls each item from its iterator at most once and in order; `IoInput` reads `bytes[c]` at cursor `c`
  whatever its reader position was before.
  Spans: the three span disciplines and their re-basing are `Env.mkSpan` (theorems in `Proofs/C07.lean`).

  The parser core itself (last section, lemmas in `Proofs/Lemmas/KindSim.lean`): the machine touches the input kind only
  through `Env.mkSpan` / `Env.off`, and the run under ANY kind is the run under the index-based kind with every span and
  slice offset re-based afterwards — for every grammar, mode, fuel and error type (`c10_kind_invariant`).
-/
import ChumskyModel.Proofs.Lemmas.ExtKind
import ChumskyModel.Model.Input
import ChumskyModel.Proofs.Lemmas.KindSim
import ChumskyModel.Proofs.Lemmas.PrattKind

namespace Chumsky
open Input

/-- simulation of the list reference by an implementation: `Good ca cu` = "cursor `cu` is usable with cache `ca`",
    `idx cu` = the token index the cursor denotes -/
structure Sim {Ca Cu : Type} (toks : List Nat) (I : Impl Ca Cu) (Good : Ca → Cu → Prop) (idx : Cu → Nat) : Prop where
  tok : ∀ ca cu, Good ca cu → (I.next ca cu).1 = toks[idx cu]?
  good : ∀ ca cu, Good ca cu → Good (I.next ca cu).2.1 (I.next ca cu).2.2
  adv : ∀ ca cu, Good ca cu → idx (I.next ca cu).2.2 = idx cu + (if (I.next ca cu).1.isSome then 1 else 0)
  stable : ∀ ca cu cu0, Good ca cu → Good ca cu0 → Good (I.next ca cu).2.1 cu0

/-- **any schedule**: the tokens an implementation returns along any schedule of calls on saved cursors are those of the list
    reference along the same schedule -/
theorem replay_agrees {Ca Cu : Type} {toks : List Nat} {I : Impl Ca Cu} {Good : Ca → Cu → Prop} {idx : Cu → Nat}
    (h : Sim toks I Good idx) :
    ∀ (sched : List Nat) (ca : Ca) (cus : List Cu), (∀ cu ∈ cus, Good ca cu) →
      (replay I sched ca cus).map Prod.snd = (replay (listImpl toks) sched () (cus.map idx)).map Prod.snd := by
  intro sched
  induction sched with
  | nil => intro ca cus _; simp [replay]
  | cons k ks ih =>
    intro ca cus hg
    simp only [replay, List.length_map, List.getElem?_map]
    cases hc : cus[k % cus.length]? with
    | none => simp
    | some cu =>
      have hmem : cu ∈ cus := List.mem_of_getElem? hc
      have hgood := hg cu hmem
      have ht := h.tok ca cu hgood
      have ha := h.adv ca cu hgood
      simp only [Option.map_some, List.map_cons]
      have hl : ((listImpl toks).next () (idx cu)).1 = toks[idx cu]? := by
        simp only [listImpl]; cases toks[idx cu]? <;> rfl
      have hl2 : ((listImpl toks).next () (idx cu)).2.2 = idx cu + (if (toks[idx cu]?).isSome then 1 else 0) := by
        simp only [listImpl]; cases toks[idx cu]? <;> simp
      have hl3 : ((listImpl toks).next () (idx cu)).2.1 = () := rfl
      rw [hl, ht, hl3]
      congr 1
      have := ih (I.next ca cu).2.1 (cus ++ [(I.next ca cu).2.2]) (by
        intro c hcm
        rcases List.mem_append.mp hcm with h1 | h1
        · exact h.stable ca cu c hgood (hg c h1)
        · simp at h1; subst h1; exact h.good ca cu hgood)
      rw [this]
      simp only [List.map_append, List.map_cons, List.map_nil, ha, hl2, ht]

/-- … and the locations the implementation reports are the token indices of the reference -/
theorem replay_locs {Ca Cu : Type} {toks : List Nat} {I : Impl Ca Cu} {Good : Ca → Cu → Prop} {idx : Cu → Nat}
    (h : Sim toks I Good idx) (hloc : ∀ cu, I.loc cu = idx cu) :
    ∀ (sched : List Nat) (ca : Ca) (cus : List Cu), (∀ cu ∈ cus, Good ca cu) →
      replay I sched ca cus = replay (listImpl toks) sched () (cus.map idx) := by
  intro sched
  induction sched with
  | nil => intro ca cus _; simp [replay]
  | cons k ks ih =>
    intro ca cus hg
    simp only [replay, List.length_map, List.getElem?_map]
    cases hc : cus[k % cus.length]? with
    | none => simp
    | some cu =>
      have hmem : cu ∈ cus := List.mem_of_getElem? hc
      have hgood := hg cu hmem
      have ht := h.tok ca cu hgood
      have ha := h.adv ca cu hgood
      simp only [Option.map_some]
      have hl : ((listImpl toks).next () (idx cu)).1 = toks[idx cu]? := by
        simp only [listImpl]; cases toks[idx cu]? <;> rfl
      have hl2 : ((listImpl toks).next () (idx cu)).2.2 = idx cu + (if (toks[idx cu]?).isSome then 1 else 0) := by
        simp only [listImpl]; cases toks[idx cu]? <;> simp
      have hl3 : ((listImpl toks).next () (idx cu)).2.1 = () := rfl
      have hl4 : (listImpl toks).loc (idx cu) = idx cu := rfl
      rw [hl, ht, hl3, hl4, hloc]
      congr 1
      have := ih (I.next ca cu).2.1 (cus ++ [(I.next ca cu).2.2]) (by
        intro c hcm
        rcases List.mem_append.mp hcm with h1 | h1
        · exact h.stable ca cu c hgood (hg c h1)
        · simp at h1; subst h1; exact h.good ca cu hgood)
      rw [this]
      simp only [List.map_append, List.map_cons, List.map_nil, ha, hl2, ht]

/-! ### Stream -/

/-- the cache is a prefix of the source, nothing was pulled that is not cached, the cursor lies within the cache -/
def StreamGood (toks : List Nat) (s : StreamCache) (cu : Nat) : Prop :=
  s.cache ++ s.rest = toks ∧ cu ≤ s.cache.length ∧ s.pulls = s.cache

theorem stream_sim (toks : List Nat) (batch : Nat) (hb : 0 < batch) :
    Sim toks (streamImpl batch) (StreamGood toks) id := by
  have key : ∀ (s : StreamCache) (cu : Nat), StreamGood toks s cu →
      (streamNext batch s cu).1 = toks[cu]? ∧
      StreamGood toks (streamNext batch s cu).2.1 (streamNext batch s cu).2.2 ∧
      (streamNext batch s cu).2.2 = cu + (if (streamNext batch s cu).1.isSome then 1 else 0) ∧
      (∀ cu0, StreamGood toks s cu0 → StreamGood toks (streamNext batch s cu).2.1 cu0) := by
    intro s cu ⟨h1, h2, h3⟩
    unfold streamNext
    by_cases hle : s.cache.length ≤ cu
    · have hcu : cu = s.cache.length := by omega
      simp only [hle, if_true]
      have hpre : (s.cache ++ List.take batch s.rest) ++ List.drop batch s.rest = toks := by
        rw [List.append_assoc, List.take_append_drop]; exact h1
      cases hr : s.rest with
      | nil =>
        have hc : s.cache = toks := by rw [← h1, hr]; simp
        have ht : toks[cu]? = none := by
          rw [← hc, hcu]; simp
        have hget : (s.cache ++ List.take batch ([] : List Nat))[cu]? = none := by
          rw [hcu]; simp
        simp only [hget, ht, Option.isSome_none, Bool.false_eq_true, if_false, Nat.add_zero, true_and]
        refine ⟨⟨by simpa using hc, by simp [hcu], by simp [h3]⟩, ?_⟩
        intro cu0 ⟨_, g2, _⟩
        exact ⟨by simpa using hc, by simpa using g2, by simp [h3]⟩
      | cons r rs =>
        obtain ⟨b, hbb⟩ : ∃ b, batch = b + 1 := ⟨batch - 1, by omega⟩
        have hget : (s.cache ++ List.take batch (r :: rs))[cu]? = some r := by
          rw [hbb, List.take_succ_cons, hcu]; simp
        have ht : toks[cu]? = some r := by
          rw [← h1, hr, hcu]; simp
        simp only [hget, ht, Option.isSome_some, if_true, true_and]
        refine ⟨⟨by rw [← hr]; exact hpre, ?_, ?_⟩, ?_⟩
        · simp [hbb, hcu]
        · simp [h3]
        · intro cu0 ⟨_, g2, _⟩
          exact ⟨by rw [← hr]; exact hpre, by simp; omega, by simp [h3]⟩
    · have hlt : cu < s.cache.length := by omega
      simp only [hle, if_false]
      have hget : s.cache[cu]? = toks[cu]? := by
        rw [← h1, List.getElem?_append_left hlt]
      rw [hget]
      have hsome : ∃ t, toks[cu]? = some t := by
        rw [← hget]; exact ⟨s.cache[cu], List.getElem?_eq_getElem hlt⟩
      obtain ⟨t, ht⟩ := hsome
      simp only [ht, Option.isSome_some, if_true, true_and]
      exact ⟨⟨h1, by omega, h3⟩, fun cu0 g => g⟩
  exact ⟨fun s cu g => (key s cu g).1, fun s cu g => (key s cu g).2.1, fun s cu g => (key s cu g).2.2.1,
         fun s cu cu0 g g0 => (key s cu g).2.2.2 cu0 g0⟩

/-- **a Stream pulls every item at most once and in order, however the parser backtracks**: after any call at a usable
    cursor, what has been pulled so far is a prefix of the source and extends what had been pulled before -/
theorem c10_stream_pulls_once (toks : List Nat) (batch : Nat) (hb : 0 < batch) (s : StreamCache) (cu : Nat)
    (h : StreamGood toks s cu) :
    (streamNext batch s cu).2.1.pulls <+: toks ∧ s.pulls <+: (streamNext batch s cu).2.1.pulls := by
  have g : StreamGood toks (streamNext batch s cu).2.1 (streamNext batch s cu).2.2 := (stream_sim toks batch hb).good s cu h
  obtain ⟨g1, _, g3⟩ := g
  refine ⟨by rw [g3, ← g1]; exact List.prefix_append _ _, ?_⟩
  unfold streamNext
  by_cases hle : s.cache.length ≤ cu
  · simp only [hle, if_true]
    split <;> exact List.prefix_append _ _
  · simp only [hle, if_false]
    split <;> exact List.prefix_refl _

/-- any schedule of calls on a fresh Stream returns the tokens of the list -/
theorem c10_stream_any_schedule (toks : List Nat) (batch : Nat) (hb : 0 < batch) (sched : List Nat) :
    replay (streamImpl batch) sched (streamBegin toks) [0] = replay (listImpl toks) sched () [0] :=
  replay_locs (stream_sim toks batch hb) (fun _ => rfl) sched (streamBegin toks) [0]
    (by intro cu h; simp at h; subst h; exact ⟨by simp [streamBegin], by simp [streamBegin], rfl⟩)

/-! ### IoInput -/

/-- the reader stands where `last_cursor` says (cursors themselves are unconstrained: any position may be asked) -/
def IoGood (toks : List Nat) (s : IoCache) (_ : Nat) : Prop := s.bytes = toks ∧ s.rpos = s.last

theorem io_sim (toks : List Nat) : Sim toks ioImpl (IoGood toks) id := by
  have key : ∀ (s : IoCache) (cu : Nat), IoGood toks s cu →
      (ioNext s cu).1 = toks[cu]? ∧ (∀ c0, IoGood toks (ioNext s cu).2.1 c0) ∧
      (ioNext s cu).2.2 = cu + (if (ioNext s cu).1.isSome then 1 else 0) := by
    intro s cu ⟨h1, h2⟩
    unfold ioNext
    by_cases hne : cu ≠ s.last
    · have hr : s.rpos + cu - s.last = cu := by omega
      simp only [hne, ne_eq, not_false_eq_true, if_true, hr, h1]
      cases ht : toks[cu]? <;> simp [IoGood, h1]
    · have he : cu = s.last := by simpa using hne
      have hr : s.rpos = cu := by omega
      simp only [he, ne_eq, not_true_eq_false, if_false, h1]
      rw [show s.rpos = s.last by omega]
      cases ht : toks[s.last]? <;> simp [IoGood, h1, h2]
  exact ⟨fun s cu g => (key s cu g).1, fun s cu g => (key s cu g).2.1 _, fun s cu g => (key s cu g).2.2,
         fun s cu cu0 g _ => (key s cu g).2.1 cu0⟩

/-- **IoInput seek-on-rewind**: `next` at cursor `c` returns `bytes[c]` whatever `last_cursor` was, backwards or forwards -/
theorem c10_io_reads_at_cursor (bytes : List Nat) (s : IoCache) (cu : Nat) (h : s.bytes = bytes ∧ s.rpos = s.last) :
    (ioNext s cu).1 = bytes[cu]? := (io_sim bytes).tok s cu h

theorem c10_io_any_schedule (bytes : List Nat) (sched : List Nat) :
    replay ioImpl sched (ioBegin bytes) [0] = replay (listImpl bytes) sched () [0] :=
  replay_locs (io_sim bytes) (fun _ => rfl) sched (ioBegin bytes) [0]
    (by intro cu _; exact ⟨rfl, rfl⟩)

/-! ### IterInput -/

def IterGood (src : List (Nat × (Nat × Nat))) (_ : Unit) (cu : IterCursor) : Prop := cu.rest = src.drop cu.idx

theorem iter_sim (src : List (Nat × (Nat × Nat))) :
    Sim (src.map Prod.fst) iterImpl (IterGood src) (fun cu => cu.idx) := by
  have key : ∀ (cu : IterCursor), IterGood src () cu →
      (iterNext () cu).1 = (src.map Prod.fst)[cu.idx]? ∧ IterGood src () (iterNext () cu).2.2 ∧
      (iterNext () cu).2.2.idx = cu.idx + (if (iterNext () cu).1.isSome then 1 else 0) := by
    intro cu h
    unfold IterGood at h
    unfold iterNext
    cases hr : cu.rest with
    | nil =>
      have hlen : src.length ≤ cu.idx := by
        rw [hr] at h; exact List.drop_eq_nil_iff.mp h.symm
      simp only [IterGood, hr]
      refine ⟨?_, h ▸ hr ▸ rfl, by simp⟩
      simp [List.getElem?_eq_none hlen]
    | cons p r =>
      obtain ⟨t, sp⟩ := p
      rw [hr] at h
      have hlt : cu.idx < src.length := by
        apply Nat.lt_of_not_le
        intro hc
        have : src.drop cu.idx = [] := List.drop_eq_nil_iff.mpr hc
        rw [this] at h; cases h
      have hd : src.drop cu.idx = src[cu.idx] :: src.drop (cu.idx + 1) := List.drop_eq_getElem_cons hlt
      rw [hd] at h
      injection h with h1 h2
      simp only [IterGood]
      refine ⟨?_, h2, by simp⟩
      simp [List.getElem?_eq_getElem hlt, ← h1]
  exact ⟨fun _ cu g => (key cu g).1, fun _ cu g => (key cu g).2.1, fun _ cu g => (key cu g).2.2,
         fun _ _ _ _ g0 => g0⟩

theorem c10_iter_any_schedule (src : List (Nat × (Nat × Nat))) (sched : List Nat) :
    replay iterImpl sched () [{ rest := src, idx := 0, lastEnd := none }] =
      replay (listImpl (src.map Prod.fst)) sched () [0] :=
  replay_locs (iter_sim src) (fun _ => rfl) sched () [{ rest := src, idx := 0, lastEnd := none }]
    (by intro cu h; simp at h; subst h; simp [IterGood])

/-! ### MappedInput over any implementation -/

theorem mapped_next_fst {Ca Cu : Type} (I : Impl Ca Cu) (spanOf : Nat → Nat × Nat) (ca : Ca) (cu : Cu × Option Nat) :
    ((mappedImpl I spanOf).next ca cu).1 = (I.next ca cu.1).1 := by
  simp only [mappedImpl]; cases (I.next ca cu.1).1 <;> rfl

theorem mapped_next_cache {Ca Cu : Type} (I : Impl Ca Cu) (spanOf : Nat → Nat × Nat) (ca : Ca) (cu : Cu × Option Nat) :
    ((mappedImpl I spanOf).next ca cu).2.1 = (I.next ca cu.1).2.1 := by
  simp only [mappedImpl]; cases (I.next ca cu.1).1 <;> rfl

theorem mapped_next_cur {Ca Cu : Type} (I : Impl Ca Cu) (spanOf : Nat → Nat × Nat) (ca : Ca) (cu : Cu × Option Nat) :
    ((mappedImpl I spanOf).next ca cu).2.2.1 = (I.next ca cu.1).2.2 := by
  simp only [mappedImpl]; cases (I.next ca cu.1).1 <;> rfl

theorem mapped_sim {Ca Cu : Type} {toks : List Nat} {I : Impl Ca Cu} {Good : Ca → Cu → Prop} {idx : Cu → Nat}
    (h : Sim toks I Good idx) (spanOf : Nat → Nat × Nat) :
    Sim toks (mappedImpl I spanOf) (fun ca cu => Good ca cu.1) (fun cu => idx cu.1) := by
  refine ⟨?_, ?_, ?_, ?_⟩
  · intro ca cu g
    rw [mapped_next_fst]; exact h.tok ca cu.1 g
  · intro ca cu g
    show Good _ _
    rw [mapped_next_cache, mapped_next_cur]; exact h.good ca cu.1 g
  · intro ca cu g
    show idx _ = _
    rw [mapped_next_cur, mapped_next_fst]; exact h.adv ca cu.1 g
  · intro ca cu cu0 g g0
    show Good _ _
    rw [mapped_next_cache]; exact h.stable ca cu.1 cu0.1 g g0

/-- the peek inside `MappedInput::span` leaves every saved cursor usable (it is one more `next` at an old cursor) -/
theorem c10_mapped_span_peek_harmless {Ca Cu : Type} {toks : List Nat} {I : Impl Ca Cu} {Good : Ca → Cu → Prop}
    {idx : Cu → Nat} (h : Sim toks I Good idx) (spanOf : Nat → Nat × Nat) (eoi : Nat × Nat) (ca : Ca)
    (a b c0 : Cu × Option Nat) (ha : Good ca a.1) (h0 : Good ca c0.1) :
    Good (mappedSpan I spanOf eoi ca a b).2 c0.1 := by
  simp only [mappedSpan]; exact h.stable ca a.1 c0.1 ha h0

/-- mapped over an IoInput (the reader is re-positioned by the peek, then must seek forward again): any schedule agrees -/
theorem c10_mapped_io_any_schedule (bytes : List Nat) (spanOf : Nat → Nat × Nat) (sched : List Nat) :
    (replay (mappedImpl ioImpl spanOf) sched (ioBegin bytes) [(0, none)]).map Prod.snd =
      (replay (listImpl bytes) sched () [0]).map Prod.snd :=
  replay_agrees (mapped_sim (io_sim bytes) spanOf) sched (ioBegin bytes) [(0, none)]
    (by intro cu _; exact ⟨rfl, rfl⟩)

/-! ### non-vacuity: schedules with backtracking, evaluated by the kernel -/

-- batch of 2, cursors reused out of order (0,0,1,2,1,3): reads a b a b c? …
example : replay (streamImpl 2) [0, 0, 1, 2, 1, 3, 5] (streamBegin [97, 98, 99]) [0] =
          [(0, some 97), (0, some 97), (1, some 98), (1, some 98), (1, some 98), (2, some 99), (2, some 99)] := by decide
example : replay ioImpl [0, 1, 0, 2, 3, 1] (ioBegin [7, 8, 9]) [0] =
          replay (listImpl [7, 8, 9]) [0, 1, 0, 2, 3, 1] () [0] := by decide

/-! ### the parser core: any kind = the index-based kind, re-based -/

/-- **C10 (parser core).** `env` presents the tokens index-based (`&[T]`); `env'` presents the same tokens under any other
    kind (`&str` byte offsets, `Input::map` with arbitrary per-token spans `ts` and end-of-input span `e`). For every grammar
    (`constOk`: its literal constants `to(v)` / `with_ctx(v)` / fallback values contain no span — a span-valued constant is
    returned unchanged under every kind, which is the one thing re-basing would move), every mode, fuel and error type:
    `parse`/`check` under `env'` is the index-based result with every span (in values and in errors) mapped through
    `env'.mkSpan` and every slice offset through `env'.off` — the documented re-basing and nothing else. -/
theorem c10_kind_invariant (env : Env) (hs : env.kind = .slice) (k : InKind) (ts : List (Nat × Nat)) (e : Nat × Nat)
    (hd : constOkL env.defs = true) (n : Nat) (m : Mode) (g : G) (hg : g.constOk = true) :
    let env' : Env := { env with kind := k, tspans := ts, eoi := e }
    parseTop n env' m g = (parseTop n env m g).mapSp env'.rebase :=
  parseTop_kindSim_partial' env hs k ts e hd n m g hg

/-- … from every start state, for the machine itself -/
theorem c10_kind_invariant_run (env : Env) (hs : env.kind = .slice) (k : InKind) (ts : List (Nat × Nat)) (e : Nat × Nat)
    (hd : constOkL env.defs = true) (n : Nat) (m : Mode) (g : G) (hg : g.constOk = true) (st : St) :
    let env' : Env := { env with kind := k, tspans := ts, eoi := e }
    run n env' m g (st.mapSp env'.rebase) = (run n env m g st).mapSp env'.rebase :=
  run_kindSim_partial' env hs k ts e hd n m g hg st

/-- consequently acceptance and the number of reported errors do not depend on the representation -/
theorem c10_same_acceptance (env : Env) (hs : env.kind = .slice) (k : InKind) (ts : List (Nat × Nat)) (e : Nat × Nat)
    (hd : constOkL env.defs = true) (n : Nat) (m : Mode) (g : G) (hg : g.constOk = true) :
    let env' : Env := { env with kind := k, tspans := ts, eoi := e }
    (match parseTop n env' m g, parseTop n env m g with
      | .result r' _, .result r _ => r'.output.isSome = r.output.isSome ∧ r'.errs.length = r.errs.length
      | .panic w', .panic w => w' = w
      | .oof, .oof => True
      | _, _ => False) := by
  intro env'
  have h := c10_kind_invariant env hs k ts e hd n m g hg
  simp only at h
  rw [h]
  cases parseTop n env m g with
  | result r f => simp [TopOut.mapSp]
  | panic w => simp [TopOut.mapSp]
  | oof => simp [TopOut.mapSp]

/-- the `constOk` proviso is needed: a span-valued constant is not re-based by the real parsers either -/
example : (G.to (.span 0 1) .empty).constOk = false := by decide

/-- **C10 for Pratt parsers** (`Model/Pratt.lean`; C09's class is built from the C01 class): `atom.pratt(ops)` under any
    representation of the same tokens is the index-based run with every span — those handed to the fold callbacks of the
    operators, those inside errors — re-based, and nothing else -/
theorem c10_pratt_kind_invariant (env : Env) (hs : env.kind = .slice) (k : InKind) (ts : List (Nat × Nat))
    (e : Nat × Nat) (hd : constOkL env.defs = true) (fuel : Nat) (m : Mode) (atom : G) (hatom : atom.constOk = true)
    (ops : List PrattOp)
    (hops : ∀ o ∈ ops, (match o with | .infix _ _ g => g | .prefix _ g => g | .postfix _ g => g).constOk = true)
    (st : St) :
    let env' : Env := { env with kind := k, tspans := ts, eoi := e }
    runPratt fuel env' m atom ops (st.mapSp env'.rebase) = (runPratt fuel env m atom ops st).mapSp env'.rebase :=
  runPratt_kindSim env hs k ts e hd fuel m atom hatom ops hops st

/-- … and for recursive expression grammars `recursive(|e| atom.pratt(ops))`, at every grammar position -/
theorem c10_recursive_pratt_kind_invariant (x : XEnv) (env : Env) (hs : env.kind = .slice) (k : InKind)
    (ts : List (Nat × Nat)) (e : Nat × Nat) (hd : constOkL env.defs = true) (hatom : x.atom.constOk = true)
    (hops : ∀ o ∈ x.ops, (match o with | .infix _ _ g => g | .prefix _ g => g | .postfix _ g => g).constOk = true)
    (n : Nat) (m : Mode) (g : G) (hg : g.constOk = true) (st : St) :
    let env' : Env := { env with kind := k, tspans := ts, eoi := e }
    runX x n env' m g (st.mapSp env'.rebase) = (runX x n env m g st).mapSp env'.rebase := by
  intro env'
  have := (runX_kind_all x (kindRel_of_slice env hs k ts e hd) hatom hops n).1 m g st
  rwa [G.mapConst_of_constOk _ g hg] at this

/-- … and for any number of Pratt tables referring to each other (statement-level and expression-level tables, a table inside
    the operator parsers of another: `EEnv` without nested-input extensions), at every grammar position -/
theorem c10_pratt_tables_kind_invariant (ee : EEnv) (hp : ee.PrattOnly) (env : Env) (hs : env.kind = .slice) (k : InKind)
    (ts : List (Nat × Nat)) (e : Nat × Nat) (hd : constOkL env.defs = true)
    (n : Nat) (m : Mode) (g : G) (hg : g.constOk = true) (st : St) :
    let env' : Env := { env with kind := k, tspans := ts, eoi := e }
    runE ee n env' m g (st.mapSp env'.rebase) = (runE ee n env m g st).mapSp env'.rebase := by
  intro env'
  have := (runE_kind_all ee (kindRel_of_slice env hs k ts e hd) hp n).1 m g st
  rwa [G.mapConst_of_constOk _ g hg] at this

#print axioms c10_pratt_tables_kind_invariant
#print axioms c10_recursive_pratt_kind_invariant
#print axioms c10_pratt_kind_invariant
#print axioms replay_agrees
#print axioms replay_locs
#print axioms stream_sim
#print axioms c10_stream_pulls_once
#print axioms c10_stream_any_schedule
#print axioms io_sim
#print axioms c10_io_reads_at_cursor
#print axioms c10_io_any_schedule
#print axioms iter_sim
#print axioms c10_iter_any_schedule
#print axioms mapped_sim
#print axioms c10_mapped_span_peek_harmless
#print axioms c10_mapped_io_any_schedule
#print axioms c10_kind_invariant
#print axioms c10_kind_invariant_run
#print axioms c10_same_acceptance
end Chumsky
