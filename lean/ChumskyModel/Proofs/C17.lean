/-
  C17 — labels and map_err change how a failure is described, never whether or where.

  `G.eraseDeco` replaces every `labelled(l)` / `labelled(l).as_context()` / `map_err(f)` node by the identity wrapper
  `.boxed` (which keeps the model's fuel aligned). Lemmas: Proofs/Lemmas/DescSim.lean.
-/
import ChumskyModel.Proofs.Lemmas.DescSim
import ChumskyModel.Proofs.Lemmas.ExtDeco
import ChumskyModel.Proofs.Lemmas.ExtDecoS
set_option linter.unusedSimpArgs false
namespace Chumsky

/-- **C17 (class of the property: no recovery strategy under a decoration).** Adding `labelled`, `as_context` or a
    span-preserving `map_err` anywhere never changes acceptance, the output, the final position/inspector/context,
    the number of errors, or any error span (secondary and primary): the decorated and the undecorated parse are
    equal up to the *descriptions* of the errors. -/
theorem c17_erasure (n : Nat) (env : Env) (hm : env.memoOn = false) (hek : env.ek ≠ .empty) (dr : Bool)
    (hd : DecoSafeDefs dr env) (m : Mode) (g : G) (hg : g.decoSafe dr = true) :
    TopSim (parseTop n env m g) (parseTop n { env with defs := env.defs.map G.eraseDeco } m g.eraseDeco) :=
  parseTop_decoSim n env hm hek dr hd m g hg

/-- the same at the level of runs, from related states (so it composes under any context) -/
theorem c17_erasure_run (n : Nat) (env : Env) (hm : env.memoOn = false) (hek : env.ek ≠ .empty) (dr : Bool)
    (hd : DecoSafeDefs dr env) (m : Mode) (g : G) (hg : g.decoSafe dr = true) (st1 st2 : St) (hs : StSim st1 st2) :
    OutSim (run n env m g st1) (run n { env with defs := env.defs.map G.eraseDeco } m g.eraseDeco st2) :=
  run_decoSim n env hm hek dr hd m g hg st1 st2 hs

/-- **every grammar** (recovery under decorations included): decorations never change whether a parse fails, the
    output, the cursor, the inspector, the context, or the number of errors -/
theorem c17_erasure_any_grammar (n : Nat) (env : Env) (hm : env.memoOn = false) (hek : env.ek ≠ .empty) (m : Mode) (g : G) :
    TopSimW (parseTop n env m g) (parseTop n { env with defs := env.defs.map G.eraseDeco } m g.eraseDeco) :=
  parseTop_decoSim_weak n env hm hek m g

/-- the label clause, at the decorated node (machine level): when the labelled parser's pending error sits at the
    parser's very first token the error lists the label in place of its own expectations … -/
theorem c17_label_at_start (env : Env) (e : Err) (l : Nat) (exp : List Pat) (fo : Option Nat)
    (hek : env.ek = .rich) (he : e.reason = .ef exp fo) :
    (env.ek.labelWith e l).reason = .ef [.label l] fo ∧ (env.ek.labelWith e l).span = e.span := by
  simp [ErrKind.labelWith, hek, he]

/-- … when it sits further in, the inner expectations are kept and `as_context` adds (label, span from the labelled
    parser's start to the failure) — once -/
theorem c17_context_added (env : Env) (e : Err) (l : Nat) (sp : Nat × Nat) (hek : env.ek = .rich)
    (hfresh : e.ctx.all (fun c => c.1 != .label l) = true) :
    (env.ek.inContext e l sp).reason = e.reason ∧ (env.ek.inContext e l sp).span = e.span ∧
      (env.ek.inContext e l sp).ctx = e.ctx ++ [(.label l, sp)] := by
  simp [ErrKind.inContext, hek, hfresh]

theorem c17_context_once (env : Env) (e : Err) (l : Nat) (sp : Nat × Nat) (hek : env.ek = .rich)
    (hdup : e.ctx.all (fun c => c.1 != .label l) = false) : env.ek.inContext e l sp = e := by
  simp [ErrKind.inContext, hek, hdup]

/-- `map_err`'s function is applied to exactly the error produced by a failure of its parser (what is pending when
    the inner run, started from an empty pending error, fails), and to nothing when it succeeds -/
theorem c17_map_err_on_failure (n : Nat) (env : Env) (m : Mode) (k : Nat) (a : G) (st st1 : St) (e : Loc)
    (ha : run n env m a { st with alt := none } = .fail st1) (he : st1.alt = some e) :
    run (n + 1) env m (.mapErr k a) st =
      .fail (St.readdAlt env { st1 with alt := st.alt } (some ⟨e.pos, env.ek.labelWith e.err k⟩)) := by
  simp only [run, step, ha, he]

theorem c17_map_err_on_success (n : Nat) (env : Env) (m : Mode) (k : Nat) (a : G) (st st1 : St) (v : Val)
    (ha : run n env m a { st with alt := none } = .ok v st1) :
    run (n + 1) env m (.mapErr k a) st = .ok v (St.readdAlt env { st1 with alt := st.alt } st1.alt) := by
  simp only [run, step, ha]

/-- **observation outside the property's class** (recorded in DESIGN.md): a label over `recover_with` does change
    which error the recovery reports (the decorated run shelters the pending error, so the strategy's
    `take_alt()` sees only the inner failure) — kernel-checked witnesses -/
theorem c17_label_over_recovery_witness :
    (parseTop 10 decoCexEnv .emit (decoCexG (.then_ .any .any))).spans = some (true, [(0, 1)]) ∧
    (parseTop 10 { decoCexEnv with defs := decoCexEnv.defs.map G.eraseDeco } .emit
      (decoCexG (.then_ .any .any)).eraseDeco).spans = some (true, [(1, 2)]) :=
  decoCex_secondary

/-- non-vacuity: a labelled, context-giving grammar of the class on a rejected input -/
example :
    let g : G := .then_ (.just [97]) (.labelled 2 true (.then_ (.just [98]) (.mapErr 3 (.just [99]))))
    g.decoSafe false = true ∧
    (match parseTop 12 { toks := [97, 98, 120], memoOn := false } .emit g with
      | .result r _ => (r.output, r.errs)
      | _ => (none, [])) = (none, [⟨(2, 3), .ef [.label 3] (some 120), [(.label 2, (1, 2))]⟩]) := by
  decide +kernel

/-- **every grammar with extensions** (`EEnv`: any number of Pratt tables and nested-input parsers containing each other): erasing
    the decorations everywhere — main grammar, definitions, atom and operator parsers of every table, both parsers of every nested
    parse — never changes acceptance, the output (incl. every span handed to an operator callback), the cursor, the inspector,
    the context, or the number of errors. Proof: `pratt_go` preserves the simulation of its atom / operator parsers through all
    its rewinds (`prattGo_sim`, for the strong and the weak relation alike); `NestedIn::go` preserves the weak one across the
    sub-context (`nestedStep_simW`); one induction ties the knot (`runE_simW`). -/
theorem c17_extensions_erasure_any_grammar (e : EEnv) (n : Nat) (env : Env) (hm : env.memoOn = false) (hek : env.ek ≠ .empty)
    (m : Mode) (g : G) :
    TopSimW (parseTopE e n env m g)
      (parseTopE (e.erase true) n { env with defs := env.defs.map G.eraseDeco } m g.eraseDeco) :=
  parseTopE_decoSim_weak e n env hm hek m g

/-- at the level of runs, from related states -/
theorem c17_extensions_erasure_run (e : EEnv) (n : Nat) (env : Env) (hm : env.memoOn = false) (hek : env.ek ≠ .empty) (m : Mode)
    (g : G) (st1 st2 : St) (hs : StSimW st1 st2) :
    OutSimW (runE e n env m g st1)
      (runE (e.erase true) n { env with defs := env.defs.map G.eraseDeco } m g.eraseDeco st2) :=
  runE_decoSim_weak e n env hm hek m g st1 st2 hs

/-- non-vacuity: a labelled Pratt table inside a labelled nested parse — `x * G` with `G = [x, +, y]`; decorated and erased
    parses both accept and end at the same position -/
example :
    let e : EEnv := { base := 100, gap := 1, groups := [(1000, [120, 43, 121])],
                      exts := [.pratt (.labelled 1 true (.or_ (.oneOf [120, 121]) (.call 101)))
                                 [.infix true 1 (.labelled 2 false (.just [43])), .infix true 2 (.mapErr 3 (.just [42]))],
                               .nested (.labelled 4 true (.call 100)) (.select [1000])] }
    let env : Env := { toks := [120, 42, 1000], kind := .mapped, tspans := layoutSpans 1 3 0, eoi := (10, 10), memoOn := false }
    ((match parseTopE e 60 env .emit (.labelled 5 false (.call 100)) with
      | .result r f => (r.output.isSome, r.errs.length, f.pos) | _ => (false, 99, 0)),
     (match parseTopE (e.erase true) 60 { env with defs := env.defs.map G.eraseDeco } .emit (G.labelled 5 false (.call 100)).eraseDeco with
      | .result r f => (r.output.isSome, r.errs.length, f.pos) | _ => (false, 99, 0))) = ((true, 0, 3), (true, 0, 3)) := by
  decide +kernel

/-- **the class of the property, with extensions**: no recovery strategy under a decoration — in the grammar, in the definitions and
    in the parsers of the extensions (`EEnv.Adm`: an extension may be referenced anywhere outside decorations, and under one only
    if `dr`, in which case its parsers are recovery free): the decorated and the undecorated parse agree on acceptance, output,
    final position / inspector / context, the number of errors AND ALL THEIR SPANS (secondary and primary) — through the operator
    rewinds of `pratt_go` and across the sub-contexts of nested parses (`nestedStep_simS`: the inner run starts with nothing
    sheltered, and what it leaves is re-homed and merged alike in both runs). -/
theorem c17_extensions_erasure (e : EEnv) (n : Nat) (env : Env) (hm : env.memoOn = false) (hek : env.ek ≠ .empty) (dr : Bool)
    (hd : DecoSafeDefs dr env) (hx : e.Adm true dr) (m : Mode) (g : G) (hg : g.decoSafe dr = true) :
    TopSim (parseTopE e n env m g)
      (parseTopE (e.erase true) n { env with defs := env.defs.map G.eraseDeco } m g.eraseDeco) :=
  parseTopE_decoSim e n env hm hek dr hd hx m g hg

/-- non-vacuity: the labelled front end of the example above meets the hypotheses with `dr = true` (its extensions are
    recovery free, so they may be referenced under the labels) -/
example :
    let e : EEnv := { base := 100, gap := 1, groups := [(1000, [120, 43, 121])],
                      exts := [.pratt (.labelled 1 true (.or_ (.oneOf [120, 121]) (.call 101)))
                                 [.infix true 1 (.labelled 2 false (.just [43])), .infix true 2 (.mapErr 3 (.just [42]))],
                               .nested (.labelled 4 true (.call 100)) (.select [1000])] }
    e.Adm true true ∧ (G.labelled 5 false (.call 100)).decoSafe true = true := by
  refine ⟨?_, by decide⟩
  intro x hx u _
  simp only [List.mem_cons, List.mem_nil_iff, or_false] at hx
  rcases hx with rfl | rfl <;> cases u <;> decide

#print axioms c17_extensions_erasure
#print axioms c17_extensions_erasure_any_grammar
#print axioms c17_extensions_erasure_run
#print axioms c17_erasure
#print axioms c17_erasure_run
#print axioms c17_erasure_any_grammar
#print axioms c17_label_at_start
#print axioms c17_context_added
#print axioms c17_context_once
#print axioms c17_map_err_on_failure
#print axioms c17_map_err_on_success
#print axioms c17_label_over_recovery_witness
end Chumsky
