import ChumskyModel.Model.Spec
namespace Chumsky
theorem placeholder_C17 : True := trivial
#print axioms placeholder_C17
end Chumsky
