import ChumskyModel.Model.Spec
namespace Chumsky
theorem placeholder_C11 : True := trivial
#print axioms placeholder_C11
end Chumsky
