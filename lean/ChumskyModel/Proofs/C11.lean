/-
  C11 — memoization is transparent and makes left recursion terminate.

  STATEMENT: for grammars of the C01/C02 classes (context-free of `ctx`) without left recursion, with pairwise distinct
  memoized parsers, inserting `memoized()` at any subset of nodes leaves outcome, value, position, errors and the pending
  error (up to the order of `expected`) unchanged; a left-recursive grammar whose recursive step is memoized terminates.

  PROVED (Lemmas/MemoFull.lean, 2 400 lines, on top of MemoSim/MemoOff/Summ/AltInv): the full transparency theorem by
  induction on fuel and cases on EVERY constructor of the syntactic class `G.memoSafe` — all primitives, sequencing, tuple and
  slice choice, `or_not`, `not`, `and_is`, `rewind`, value maps, `filter`, `try_map(_with)`, span/slice captures, `validate`,
  every iteration consumer over every iterable parser, `labelled`/`as_context`, `map_err`, `boxed`, `with_state`, and
  `memoized` at any node — for an ARBITRARY sheltered pending error (the offset relation `MRel`), preserving the table
  invariant. Hypotheses: `memoSafe`, pairwise distinct ids (`memoIds.Nodup`). Outside the class, each with a kernel-checked
  counterexample or reason: context readers (`cex_ctx`: the key is (position, parser)), recovery strategies under
  `memoized` (`cex_recovery`: they read the pending error that `memoized` shelters), `call` (a hit saves fuel, so ON and OFF
  cannot be compared at equal fuel: `cex_fuel`; left recursion is `c11_left_recursion_witness`), and the four context
  providers (harmless, not done).
  REMAINING GAP (named `…_partial` below): for grammars that contain `validate`, on a FAILED parse only the primary error is
  related, not the whole secondary list (the `validate`-free class gets the full list).
  The model's memo semantics is the one of the repaired code (shelter the pending error, memoize only the parser's own
  contribution, replay at its own position, key = per-parser id); the check compares memoized and plain grammars on the real
  crate and the model with the real crate.
-/
import ChumskyModel.Proofs.Lemmas.MemoSim
import ChumskyModel.Proofs.Lemmas.MemoOff
import ChumskyModel.Proofs.Lemmas.MemoFull
set_option linter.unusedSimpArgs false
namespace Chumsky

/-- **C11 (transparency), full statement for the `validate`-free class.** For every grammar of the class with pairwise
    distinct memoized parsers, every input, mode and fuel: `parse`/`check` of the grammar with its `memoized()` nodes equals
    `parse`/`check` of the same grammar with every `memoized()` removed — same acceptance, same output, and the whole error
    list pointwise equal up to the order of `expected` (`Err.equiv`). -/
theorem c11_transparent (N : Nat) (env : Env) (hon : env.memoOn = true) (g : G) (hg : g.memoSafe true = true)
    (hnd : g.memoIds.Nodup) (m : Mode) :
    TopMemoRelFull (parseTop N env m g)
      (parseTop N { env with memoOn := true, defs := stripMemoL env.defs } m g.stripMemo) :=
  parseTop_memo_vs_plain_full N env hon g hg hnd m

/-- **C11 (transparency) with `validate` in the class — partial in one clause.** Same acceptance and output; when there is
    an output the error lists are EQUAL (all emitted errors, in order); when there is none, the primary error is equal up
    to `Err.equiv` — missing: equality of the secondary errors that precede it on a failed parse. -/
theorem c11_transparent_with_validate_partial (N : Nat) (env : Env) (hon : env.memoOn = true) (g : G)
    (hg : g.memoSafe false = true) (hnd : g.memoIds.Nodup) (m : Mode) :
    TopMemoRel (parseTop N env m g)
      (parseTop N { env with memoOn := true, defs := stripMemoL env.defs } m g.stripMemo) :=
  parseTop_memo_vs_plain N env hon g hg hnd m

/-- the machine-level statement behind both: from any state with an empty table, the memoized and the unmemoized run
    agree on outcome, value, position, secondary errors, inspector, context and (up to ≈) the pending error -/
theorem c11_run_transparent (N : Nat) (env : Env) (hon : env.memoOn = true) (g : G) (hg : g.memoSafe false = true)
    (hnd : g.memoIds.Nodup) (m : Mode) (s : St) (hs : s.memo = []) :
    match run N env m g s, run N (env.withMemo false) m g s with
    | .ok v s1, .ok v' t1 => v = v' ∧ s1.pos = t1.pos ∧ s1.errs = t1.errs ∧ s1.insp = t1.insp ∧ s1.ctx = t1.ctx ∧
        OptLoc.equiv s1.alt t1.alt
    | .fail s1, .fail t1 => OptLoc.equiv s1.alt t1.alt ∧ s1.alt.isSome = true ∧ s.errs <+: s1.errs ∧ s.errs <+: t1.errs ∧
        s1.ctx = s.ctx ∧ t1.ctx = s.ctx
    | .panic w, .panic w' => w = w'
    | .oof, .oof => True
    | _, _ => False :=
  run_memo_transparent_empty N env hon g hg hnd m s hs

/-- non-vacuity: two memoized nodes, one of them under a repetition and around a `validate` -/
example : memoExample.memoSafe false = true ∧ memoExample.memoIds.Nodup := by decide

/-- **C11 (one node), partial.** See the header. `MRel`/`MOutRel`: equal position, secondary errors, inspector,
    context, values; pending errors equal up to `OptLoc.equiv` modulo the error the ON run has sheltered. -/
theorem c11_node_transparent_partial {R R' : Runner} {N N' : NextRunner} {K K' : MkRunner} (L : Nat)
    {env : Env} (hon : env.memoOn = true) {B : Nat → G → Prop} {Rof : Nat → Runner} {id : Nat} {a : G}
    (hRof : Rof id = R') (hB : B id a) (hB1 : ∀ a', B id a' → a' = a) (ids : Nat → Prop) (hid : ¬ ids id)
    (hPD : PosDetermined R' (env.withMemo false) a) (m : Mode)
    (hBody : ∀ (o : Option Loc) (s t : St), MRel env.ek o s t → TableInv B Rof (env.withMemo false) s.memo →
        (∀ p i, ids i → memoFind s.memo (p, i) ≠ some none) →
        MOutRel env.ek (TableOK B Rof (env.withMemo false) s.memo) o s.errs s.ctx
          (R env m a s) (R' (env.withMemo false) m a t))
    {o : Option Loc} {st t : St} (hrel : MRel env.ek o st t)
    (hTI : TableInv B Rof (env.withMemo false) st.memo)
    (hNoProg : ∀ p, memoFind st.memo (p, id) ≠ some none)
    (hNoProgA : ∀ p i, ids i → memoFind st.memo (p, i) ≠ some none) :
    MOutRel env.ek (TableOK B Rof (env.withMemo false) st.memo) o st.errs st.ctx
      (step R N K L env m (.memoized id a) st)
      (step R' N' K' L (env.withMemo false) m (.memoized id a) t) :=
  step_memoized_transparent L hon hRof hB hB1 ids hid hPD m hBody hrel hTI hNoProg hNoProgA

/-- a memo hit replays exactly what re-running the parser would contribute -/
theorem c11_hit_replays {R' : Runner} {env : Env} {a : G} {o : Option Loc} {st t : St} {e : Loc} (m : Mode)
    (hrel : MRel env.ek o st t) (hc : Contribution R' (env.withMemo false) a st.pos e) :
    ∃ t1, R' (env.withMemo false) m a t = .fail t1 ∧
      FRel env.ek o st.errs st.ctx (St.addAltErr env st e.pos e.err) t1 :=
  hit_replays m hrel hc

/-- memoization off = the grammar without its `memoized` nodes -/
theorem c11_memo_off_is_plain (n : Nat) (env : Env) (hoff : env.memoOn = false) (b : Bool) (m : Mode) (g : G) :
    parseTop n env m g = parseTop n { env with memoOn := b, defs := stripMemoL env.defs } m g.stripMemo :=
  parseTop_stripMemo n env hoff b m g

/-- left recursion: with the recursive step memoized the parse terminates (the in-progress marker cuts the second
    entry at the same position) where the unmemoized grammar does not — witness `expr = (expr 1).memoized | 2` -/
theorem c11_left_recursion_witness :
    let defs : List G := [.memoized 1 (.or_ (.then_ (.call 0) (.just [1])) (.just [2]))]
    (parseTop 30 { toks := [2], defs := defs, memoOn := true } .emit (.call 0)).accepted = some true ∧
    parseTop 30 { toks := [2], defs := defs, memoOn := false } .emit (.call 0) = .oof :=
  cex_leftRec

/-- necessity of "context-free": the memo key is (position, parser), so a memoized parser that reads its context
    gives a stale answer when re-used under another context at the same position (outside the property's class) -/
theorem c11_context_dependence_witness :
    let defs : List G := [.memoized 1 (.configureJust .seqFromCtx [])]
    let g : G := .choice .tuple [.withCtx (.toks [1]) (.call 0), .withCtx (.toks [2]) (.call 0)]
    (parseTop 20 { toks := [2], defs := defs, memoOn := true } .emit g).accepted = some false ∧
    (parseTop 20 { toks := [2], defs := defs, memoOn := false } .emit g).accepted = some true :=
  cex_ctx

/-- **the partial clause is tight** (kernel-checked witness, reproduced on the real crate — DESIGN §0.1, observations): a
    memoized parser that fails AFTER emitting (`validate`), shared through a definition and revisited at the same position
    under a slice-flavoured choice, is answered from the table without re-emitting, so the failed parse reports the primary
    error only, while the unmemoized grammar reports the emission too. Emitters are outside C11's C01/C02 class. -/
theorem c11_failed_emission_witness :
    let d : G := .then_ (.validate ⟨.always, 5, 1⟩ .any) (.just [122])
    let main : G := .choice .slice [.then_ (.call 0) (.just [120]), .then_ (.call 0) (.just [121])]
    (match parseTop 30 { toks := [97, 98], defs := [.memoized 1 d], memoOn := true } .emit main,
           parseTop 30 { toks := [97, 98], defs := [d], memoOn := true } .emit main with
      | .result r _, .result r' _ => (r.output, r.errs.length, r'.output, r'.errs.length)
      | _, _ => (none, 0, none, 0)) = (none, 1, none, 2) := by
  decide +kernel

#print axioms c11_failed_emission_witness
#print axioms c11_transparent
#print axioms c11_transparent_with_validate_partial
#print axioms c11_run_transparent
#print axioms c11_node_transparent_partial
#print axioms c11_hit_replays
#print axioms c11_memo_off_is_plain
#print axioms c11_left_recursion_witness
#print axioms c11_context_dependence_witness
end Chumsky
