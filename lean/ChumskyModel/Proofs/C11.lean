/-
  C11 — memoization is transparent and makes left recursion terminate.

  FULL STATEMENT (the goal): for grammars of the C01/C02 classes (context-free of `ctx`) without left recursion, with
  pairwise distinct memoized parsers, inserting `memoized()` at any subset of nodes leaves outcome, value, position,
  errors and the pending error (up to the order of `expected`) unchanged; a left-recursive grammar whose recursive
  step is memoized terminates on every input.

  PROVED HERE (partial — the induction through *all other* constructors in the offset relation `MRel` is not done):
   * the node itself: `memoized id a` with the table on simulates `a`, given the simulation of its body, in the
     miss/success, miss/failure (entry stored) and hit (stored failure replayed at its own position) cases, and
     re-establishes the table invariant "every stored error is exactly what that parser contributes at that position";
   * with memoization off a grammar equals the grammar with its `memoized` nodes stripped (so every memo-free theorem
     applies to it);
   * the hypotheses are necessary: kernel-checked counterexamples for a context-dependent body, a shared id, left
     recursion (where ON terminates and OFF does not) and a recovery strategy under `memoized`.
  The model's memo semantics is the one of the repaired code (shelter the pending error, memoize only the parser's own
  contribution, replay at its own position, key = per-parser id); the check compares memoized and plain grammars on
  the real crate (all results identical on ≈ 8·10⁶ cases) and the model with the real crate.
  Lemmas: Proofs/Lemmas/{MemoSim,MemoOff}.lean.
-/
import ChumskyModel.Proofs.Lemmas.MemoSim
import ChumskyModel.Proofs.Lemmas.MemoOff
set_option linter.unusedSimpArgs false
namespace Chumsky

/-- **C11 (one node), partial.** See the header. `MRel`/`MOutRel`: equal position, secondary errors, inspector,
    context, values; pending errors equal up to `OptLoc.equiv` modulo the error the ON run has sheltered. -/
theorem c11_node_transparent_partial {R R' : Runner} {N N' : NextRunner} {K K' : MkRunner} (L : Nat)
    {env : Env} (hon : env.memoOn = true) {B : Nat → G → Prop} {Rof : Nat → Runner} {id : Nat} {a : G}
    (hRof : Rof id = R') (hB : B id a) (hB1 : ∀ a', B id a' → a' = a) (ids : Nat → Prop) (hid : ¬ ids id)
    (hPD : PosDetermined R' (env.withMemo false) a) (m : Mode)
    (hBody : ∀ (o : Option Loc) (s t : St), MRel env.ek o s t → TableInv B Rof (env.withMemo false) s.memo →
        (∀ p i, ids i → memoFind s.memo (p, i) ≠ some none) →
        MOutRel env.ek (TableOK B Rof (env.withMemo false) s.memo) o s.errs s.ctx
          (R env m a s) (R' (env.withMemo false) m a t))
    {o : Option Loc} {st t : St} (hrel : MRel env.ek o st t)
    (hTI : TableInv B Rof (env.withMemo false) st.memo)
    (hNoProg : ∀ p, memoFind st.memo (p, id) ≠ some none)
    (hNoProgA : ∀ p i, ids i → memoFind st.memo (p, i) ≠ some none) :
    MOutRel env.ek (TableOK B Rof (env.withMemo false) st.memo) o st.errs st.ctx
      (step R N K L env m (.memoized id a) st)
      (step R' N' K' L (env.withMemo false) m (.memoized id a) t) :=
  step_memoized_transparent L hon hRof hB hB1 ids hid hPD m hBody hrel hTI hNoProg hNoProgA

/-- a memo hit replays exactly what re-running the parser would contribute -/
theorem c11_hit_replays {R' : Runner} {env : Env} {a : G} {o : Option Loc} {st t : St} {e : Loc} (m : Mode)
    (hrel : MRel env.ek o st t) (hc : Contribution R' (env.withMemo false) a st.pos e) :
    ∃ t1, R' (env.withMemo false) m a t = .fail t1 ∧
      FRel env.ek o st.errs st.ctx (St.addAltErr env st e.pos e.err) t1 :=
  hit_replays m hrel hc

/-- memoization off = the grammar without its `memoized` nodes -/
theorem c11_memo_off_is_plain (n : Nat) (env : Env) (hoff : env.memoOn = false) (b : Bool) (m : Mode) (g : G) :
    parseTop n env m g = parseTop n { env with memoOn := b, defs := stripMemoL env.defs } m g.stripMemo :=
  parseTop_stripMemo n env hoff b m g

/-- left recursion: with the recursive step memoized the parse terminates (the in-progress marker cuts the second
    entry at the same position) where the unmemoized grammar does not — witness `expr = (expr 1).memoized | 2` -/
theorem c11_left_recursion_witness :
    let defs : List G := [.memoized 1 (.or_ (.then_ (.call 0) (.just [1])) (.just [2]))]
    (parseTop 30 { toks := [2], defs := defs, memoOn := true } .emit (.call 0)).accepted = some true ∧
    parseTop 30 { toks := [2], defs := defs, memoOn := false } .emit (.call 0) = .oof :=
  cex_leftRec

/-- necessity of "context-free": the memo key is (position, parser), so a memoized parser that reads its context
    gives a stale answer when re-used under another context at the same position (outside the property's class) -/
theorem c11_context_dependence_witness :
    let defs : List G := [.memoized 1 (.configureJust .seqFromCtx [])]
    let g : G := .choice .tuple [.withCtx (.toks [1]) (.call 0), .withCtx (.toks [2]) (.call 0)]
    (parseTop 20 { toks := [2], defs := defs, memoOn := true } .emit g).accepted = some false ∧
    (parseTop 20 { toks := [2], defs := defs, memoOn := false } .emit g).accepted = some true :=
  cex_ctx

#print axioms c11_node_transparent_partial
#print axioms c11_hit_replays
#print axioms c11_memo_off_is_plain
#print axioms c11_left_recursion_witness
#print axioms c11_context_dependence_witness
end Chumsky
