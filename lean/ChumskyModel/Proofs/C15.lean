/-
  C15 — context-sensitive parsing delivers the nearest context and honours configuration.
-/
import ChumskyModel.Proofs.Lemmas.ExtAll
import ChumskyModel.Proofs.Lemmas.Top
set_option linter.unusedSimpArgs false
namespace Chumsky

/-- **C15 (refinement).** The machine swaps a context reference in and out (`with_ctx`); the reading threads the
    context lexically. The master refinement relates the two for every grammar, and in particular the machine
    always hands the caller's context back, on success and on failure — inside repetitions, choices, recursion
    and after backtracking (all of these are cases of the same induction). -/
theorem c15_ctx_restored (n : Nat) (env : Env) (m : Mode) (g : G) (st : St) (hm : env.memoOn = false) :
    match run n env m g st with
    | .ok _ st' => st'.ctx = st.ctx
    | .fail st' => st'.ctx = st.ctx
    | _ => True := by
  have h := run_refines n env m g st hm
  revert h
  cases run n env m g st <;> cases peg n env g st.ss st.ctx <;> simp [Refines]
  · exact fun h => h.ctx
  · exact fun h => h.ctx

/-! ### the lexical reading -/

/-- a reader sees the context of the reading at its own node -/
theorem c15_reader (n : Nat) (env : Env) (a : G) (s : SS) (ctx : Val) {v s1 e1}
    (ha : peg n env a s ctx = .ok v s1 e1) :
    peg (n + 1) env (.mapWithCtx a) s ctx = .ok (.pair v ctx) s1 e1 := by
  simp [peg, pegStep, SOut.andThen, ha]

/-- `with_ctx(c)`: the sub-parser is read under `c` … -/
theorem c15_with_ctx (n : Nat) (env : Env) (c : Val) (a : G) (s : SS) (ctx : Val) :
    peg (n + 1) env (.withCtx c a) s ctx = peg n env a s c := by
  simp [peg, pegStep]

/-- … and what follows the scope is read under the outer context again (nearest enclosing provider) -/
theorem c15_scope_ends (n : Nat) (env : Env) (c : Val) (a b : G) (s : SS) (ctx : Val) {va s1 e1}
    (ha : peg n env a s c = .ok va s1 e1) :
    peg (n + 2) env (.then_ (.withCtx c a) b) s ctx =
      (peg (n + 1) env b s1 ctx).andThen fun vb s2 e2 => .ok (.pair va vb) s2 (e1 ++ e2) := by
  have e : peg (n + 2) env (.then_ (.withCtx c a) b) s ctx =
      (peg (n + 1) env (.withCtx c a) s ctx).andThen fun va s1 e1 =>
        (peg (n + 1) env b s1 ctx).andThen fun vb s2 e2 => .ok (.pair va vb) s2 (e1 ++ e2) := rfl
  rw [e, c15_with_ctx, ha]
  rfl

/-- `ignore_with_ctx` / `then_with_ctx`: the right-hand parser is read under the output of the left-hand parser
    *of this very attempt* -/
theorem c15_ignore_with_ctx (n : Nat) (env : Env) (a b : G) (s : SS) (ctx : Val) {va s1 e1}
    (ha : peg n env a s ctx = .ok va s1 e1) :
    peg (n + 1) env (.ignoreWithCtx a b) s ctx =
      (peg n env b s1 va).andThen fun vb s2 e2 => .ok vb s2 (e1 ++ e2) := by
  simp [peg, pegStep, SOut.andThen, ha]

theorem c15_then_with_ctx (n : Nat) (env : Env) (a b : G) (s : SS) (ctx : Val) {va s1 e1}
    (ha : peg n env a s ctx = .ok va s1 e1) :
    peg (n + 1) env (.thenWithCtx a b) s ctx =
      (peg n env b s1 va).andThen fun vb s2 e2 => .ok (.pair va vb) s2 (e1 ++ e2) := by
  simp [peg, pegStep, SOut.andThen, ha]

theorem c15_map_ctx (n : Nat) (env : Env) (f : CtxFn) (a : G) (s : SS) (ctx : Val) :
    peg (n + 1) env (.mapCtx f a) s ctx = peg n env a s (f.eval ctx) := by
  simp [peg, pegStep]

/-! ### configuration -/

/-- `just(..).configure(|cfg, ctx| cfg.seq(ctx))` matches exactly as `just(seq)` -/
theorem c15_configure_just (n : Nat) (env : Env) (ts ts' : List Nat) (s : SS) (ctx' : Val) :
    peg (n + 1) env (.configureJust .seqFromCtx ts) s (.toks ts') = peg (n + 1) env (.just ts') s ctx' := by
  simp [peg, pegStep, Val.asToks?]

/-- … and leaves the parser alone when the closure does not touch the configuration -/
theorem c15_configure_keep (n : Nat) (env : Env) (ts : List Nat) (s : SS) (ctx : Val) :
    peg (n + 1) env (.configureJust .keep ts) s ctx = peg (n + 1) env (.just ts) s ctx := by
  simp [peg, pegStep]

/-- rename the iterator state of a protocol result -/
def SItOut.mapIst (f : ItSt → ItSt) : SItOut → SItOut
  | .some v s ist em => .some v s (f ist) em
  | .done s ist em => .done s (f ist) em
  | o => o

/-- `repeated().configure(..)`: every `next` behaves as that of the statically configured `repeated()` with the
    bounds the closure computed (`exactly(n)`, `at_least(n)`, `at_most(n)` from the context) -/
theorem c15_configure_rep_next (P : SRunner) (N : SNextRunner) (K : SMkRunner) (env : Env) (c : CfgFn) (a : G)
    (lo : Nat) (hi : Option Nat) (s : SS) (ctx : Val) (k : Nat) (clo chi : Option Nat) :
    pegNext P N K env (.configureRep c (.repeated a lo hi)) s ctx (.cfg (.cnt k) clo chi) =
      (pegNext P N K env (.repeated a (clo.getD lo) (match chi with | some h => some h | none => hi)) s ctx (.cnt k)).mapIst
        (fun st => .cfg st clo chi) := by
  have key : ∀ hi' : Option Nat,
      sRepeatedNext P env ctx a (clo.getD lo) hi' s k (fun st => .cfg st clo chi) =
        (sRepeatedNext P env ctx a (clo.getD lo) hi' s k id).mapIst (fun st => .cfg st clo chi) := by
    intro hi'
    unfold sRepeatedNext
    by_cases hc : capReached hi' k = true
    · simp [hc, SItOut.mapIst]
    · simp only [hc, Bool.false_eq_true, if_false]
      cases P env a s ctx <;> simp [SItOut.mapIst]
      split <;> rfl
  simp only [pegNext]
  exact key _

/-- the bounds come from the context value: `exactly(n)` -/
theorem c15_configure_rep_bounds (n : Nat) : cfgBounds .exactlyFromCtx (.nat n) = (some n, some n) ∧
    cfgBounds .atLeastFromCtx (.nat n) = (some n, none) ∧ cfgBounds .atMostFromCtx (.nat n) = (none, some n) :=
  ⟨rfl, rfl, rfl⟩

/-- a `try_configure` closure returning `Err` is a failure of the parser (at the current position) -/
theorem c15_try_configure_err (P : SRunner) (K : SMkRunner) (env : Env) (c : TryCfgFn) (it : It) (s : SS) (ctx : Val)
    (h : ctx.asNat? = none) : pegMk P K env (.tryConfigureRep c it) s ctx = .fail := by
  simp [pegMk, h]

/-- non-vacuity: a length-prefixed repetition — the count read by the left parser configures the repetition -/
example :
    (match parseTop 12 { toks := [50, 97, 97], memoOn := false } .emit
        (.ignoreWithCtx (.to (.nat 2) (.just [50]))
          (.collect .vec (.configureRep .exactlyFromCtx (.repeated (.just [97]) 0 none)))) with
      | .result r _ => (r.output, r.errs.length)
      | _ => (none, 99)) = (some (.cons (.toks [97]) (.cons (.toks [97]) .nil)), 0) := by
  decide +kernel

/-- … and in grammars with extensions (`EEnv`): a Pratt parser hands the context to its atom and operator parsers, a nested
    parse carries it into the inner input (`with_input` shares the context reference), and both hand the caller's context back -/
theorem c15_extensions_ctx_restored (e : EEnv) (n : Nat) (env : Env) (m : Mode) (g : G) (st : St) (hm : env.memoOn = false) :
    match runE e n env m g st with
    | .ok _ st' => st'.ctx = st.ctx
    | .fail st' => st'.ctx = st.ctx
    | _ => True := by
  have h := runE_refines e n env m g st hm
  revert h
  cases runE e n env m g st <;> cases pegE e n env g st.ss st.ctx <;> simp [Refines]
  · exact fun h => h.ctx
  · exact fun h => h.ctx

#print axioms c15_extensions_ctx_restored
#print axioms c15_ctx_restored
#print axioms c15_reader
#print axioms c15_with_ctx
#print axioms c15_scope_ends
#print axioms c15_ignore_with_ctx
#print axioms c15_then_with_ctx
#print axioms c15_map_ctx
#print axioms c15_configure_just
#print axioms c15_configure_keep
#print axioms c15_configure_rep_next
#print axioms c15_configure_rep_bounds
#print axioms c15_try_configure_err
end Chumsky
