import ChumskyModel.Model.Spec
namespace Chumsky
theorem placeholder_C15 : True := trivial
#print axioms placeholder_C15
end Chumsky
