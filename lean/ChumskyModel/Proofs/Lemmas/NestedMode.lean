/-
  C04 / C20 for `nested_in` at any position of any grammar (`HEnv` / `runH`): check = erase ∘ emit through `NestedIn::go`
  (the token parser `b` runs in emit mode under both, the inner parse in the caller's mode), and a failing run leaves a
  pending error.
-/
import ChumskyModel.Model.Nested
import ChumskyModel.Proofs.Lemmas.ModeSim
import ChumskyModel.Proofs.Lemmas.NestedHole
set_option linter.unusedSimpArgs false
set_option linter.unusedVariables false
namespace Chumsky

theorem innerThenEndM_erase (ra : Out) (rend : St → Out) :
    innerThenEndM ra.erase rend = (innerThenEndM ra rend).erase := by
  unfold innerThenEndM
  cases ra with
  | ok va si1 =>
    simp only [Out.erase_ok, Out.andThen]
    cases rend si1 <;> simp [Out.andThen]
  | fail st => simp [Out.andThen]
  | panic w => simp [Out.andThen]
  | oof => simp [Out.andThen]

/-- `NestedIn::go`: check = erase ∘ emit, over any runner with that property -/
theorem nestedStep_modeSim {R : Runner} (hR : ModeSimR R) (h : HEnv) (env : Env) (st : St) :
    nestedStepM R h env .check st = (nestedStepM R h env .emit st).erase := by
  simp only [nestedStepM]
  cases R env .emit h.b st with
  | fail st1 => rfl
  | panic w => rfl
  | oof => rfl
  | ok vb st1 =>
    simp only
    cases h.kidsOf vb with
    | none => rfl
    | some kids =>
      simp only [hR (h.innerEnv env kids) h.a, innerThenEndM_erase]
      cases innerThenEndM (R (h.innerEnv env kids) .emit h.a
          { pos := 0, errs := [], alt := none, insp := st1.insp, ctx := st1.ctx, memo := [], log := [] })
          (fun si1 => R (h.innerEnv env kids) .check .end_ si1) <;> rfl

theorem runH_modeSim (h : HEnv) (n : Nat) : ModeSimR (runH h n) ∧ ModeSimN (nextH h n) ∧ ModeSimK (mkIterH h n) := by
  induction n with
  | zero => exact ⟨fun _ _ _ => rfl, fun _ _ _ _ => rfl, fun _ _ _ => rfl⟩
  | succ n ih =>
    obtain ⟨hR, hN, hK⟩ := ih
    refine ⟨?_, ?_, ?_⟩
    · intro env g st
      simp only [runH]
      by_cases hh : h.isHole g = true
      · simp only [hh, if_true]
        exact nestedStep_modeSim hR h env st
      · simp only [hh]
        exact step_modeSim hR hN hK n env g st
    · simp only [nextH]; exact stepNext_modeSim hR hN hK
    · simp only [mkIterH]; exact stepMk_modeSim hR hK

/-- a failing run — the nested parse itself, or anything around it — leaves a pending error -/
theorem runH_fail_alt (h : HEnv) (n : Nat) (env : Env) (m : Mode) (g : G) (st st' : St) (hm : env.memoOn = false)
    (hf : runH h n env m g st = .fail st') : st'.alt.isSome = true := by
  have hr := runH_refines h n env m g st hm
  rw [hf] at hr
  cases hp : pegH h n env g st.ss st.ctx <;> rw [hp] at hr <;> simp only [Refines] at hr
  exact hr.alt

end Chumsky
