/-
  Proofs/Lemmas/TextLang.lean — the run function of the text parsers (`Text.many` / `Text.skip`) is the longest run of
  characters satisfying the class, and the consequences used by the language theorems of C14.
-/
import ChumskyModel.Model.Text

namespace Chumsky.Text

/-- length of the longest prefix of `l` whose members satisfy `p` -/
def runLen (p : Nat → Bool) : List Nat → Nat
  | [] => 0
  | c :: cs => if p c then runLen p cs + 1 else 0

theorem runLen_le (p : Nat → Bool) (l : List Nat) : runLen p l ≤ l.length := by
  induction l with
  | nil => simp [runLen]
  | cons c cs ih => simp only [runLen]; split <;> simp <;> omega

theorem many_eq (p : Nat → Bool) (toks : List Nat) :
    ∀ fuel pos, toks.length - pos < fuel → many p toks fuel pos = pos + runLen p (toks.drop pos) := by
  intro fuel
  induction fuel with
  | zero => intro pos h; omega
  | succ n ih =>
    intro pos h
    simp only [many]
    cases hg : toks[pos]? with
    | none =>
      have : toks.length ≤ pos := by simpa using hg
      simp [List.drop_eq_nil_of_le this, runLen]
    | some c =>
      have hlt : pos < toks.length := by
        rcases List.getElem?_eq_some_iff.mp hg with ⟨h, _⟩; exact h
      have hd : toks.drop pos = c :: toks.drop (pos + 1) := by
        rw [List.drop_eq_getElem_cons hlt]
        congr 1
        rcases List.getElem?_eq_some_iff.mp hg with ⟨_, h2⟩; exact h2
      simp only [hd, runLen]
      by_cases hp : p c
      · simp only [hp, if_true]
        rw [ih (pos + 1) (by omega)]; omega
      · simp [hp]

/-- with a budget of `n` characters `many` takes `min n (run length)` of them -/
theorem many_capped (p : Nat → Bool) (toks : List Nat) :
    ∀ n pos, many p toks n pos = pos + min n (runLen p (toks.drop pos)) := by
  intro n
  induction n with
  | zero => intro pos; simp [many]
  | succ n ih =>
    intro pos
    simp only [many]
    cases hg : toks[pos]? with
    | none =>
      have : toks.length ≤ pos := by simpa using hg
      simp [List.drop_eq_nil_of_le this, runLen]
    | some c =>
      have hlt : pos < toks.length := by
        rcases List.getElem?_eq_some_iff.mp hg with ⟨h, _⟩; exact h
      have hd : toks.drop pos = c :: toks.drop (pos + 1) := by
        rw [List.drop_eq_getElem_cons hlt]
        congr 1
        rcases List.getElem?_eq_some_iff.mp hg with ⟨_, h2⟩; exact h2
      simp only [hd, runLen]
      by_cases hp : p c
      · simp only [hp, if_true]
        rw [ih (pos + 1)]; omega
      · simp [hp]

/-- **bounded whitespace counts characters**: the match ends after `min hi (run length)` characters and exists iff that is
    at least `lo` -/
theorem boundedRun_eq (p : Nat → Bool) (lo hi : Nat) (toks : List Nat) (pos : Nat) :
    boundedRun p lo hi toks pos =
      if lo ≤ min hi (runLen p (toks.drop pos)) then some (pos + min hi (runLen p (toks.drop pos))) else none := by
  simp only [boundedRun, many_capped]
  have : pos + min hi (runLen p (toks.drop pos)) - pos = min hi (runLen p (toks.drop pos)) := by omega
  rw [this]

theorem skip_eq (p : Nat → Bool) (toks : List Nat) (pos : Nat) :
    skip p toks pos = pos + runLen p (toks.drop pos) := by
  unfold skip; exact many_eq p toks _ pos (by omega)

theorem skip_ge (p : Nat → Bool) (toks : List Nat) (pos : Nat) : pos ≤ skip p toks pos := by
  rw [skip_eq]; omega

theorem skip_le (p : Nat → Bool) (toks : List Nat) (pos : Nat) (h : pos ≤ toks.length) :
    skip p toks pos ≤ toks.length := by
  rw [skip_eq]
  have := runLen_le p (toks.drop pos)
  simp at this; omega

/-- the run is a run: every character in it satisfies the class -/
theorem runLen_all (p : Nat → Bool) (l : List Nat) : (l.take (runLen p l)).all p = true := by
  induction l with
  | nil => simp [runLen]
  | cons c cs ih =>
    simp only [runLen]
    by_cases hp : p c
    · simp only [hp, if_true, List.take_succ_cons, List.all_cons, Bool.true_and]; exact ih
    · simp [hp]

/-- the run is maximal: the character after it (if any) does not satisfy the class -/
theorem runLen_stop (p : Nat → Bool) (l : List Nat) (c : Nat) (h : l[runLen p l]? = some c) : p c = false := by
  induction l with
  | nil => simp [runLen] at h
  | cons d ds ih =>
    simp only [runLen] at h
    by_cases hp : p d
    · simp only [hp, if_true, List.getElem?_cons_succ] at h; exact ih h
    · simp only [hp] at h
      simp at h; subst h; simpa using hp

theorem runLen_eq_length_iff (p : Nat → Bool) (l : List Nat) : runLen p l = l.length ↔ l.all p = true := by
  induction l with
  | nil => simp [runLen]
  | cons c cs ih =>
    simp only [runLen, List.length_cons, List.all_cons, Bool.and_eq_true]
    by_cases hp : p c
    · simp only [hp, if_true, true_and]; rw [← ih]; omega
    · simp [hp]

/-- two classes that agree on every member of the list give the same run -/
theorem runLen_congr (p q : Nat → Bool) (l : List Nat) (h : ∀ c ∈ l, p c = q c) : runLen p l = runLen q l := by
  induction l with
  | nil => rfl
  | cons c cs ih =>
    simp only [runLen]
    rw [h c (by simp), ih (fun d hd => h d (by simp [hd]))]

theorem skip_congr (p q : Nat → Bool) (toks : List Nat) (pos : Nat) (h : ∀ c ∈ toks, p c = q c) :
    skip p toks pos = skip q toks pos := by
  rw [skip_eq, skip_eq, runLen_congr p q _ (fun c hc => h c (List.mem_of_mem_drop hc))]

theorem runLen_append_of_all (p : Nat → Bool) (a b : List Nat) (h : a.all p = true) :
    runLen p (a ++ b) = a.length + runLen p b := by
  induction a with
  | nil => simp
  | cons c cs ih =>
    simp only [List.all_cons, Bool.and_eq_true] at h
    simp only [List.cons_append, runLen, h.1, if_true, List.length_cons]
    rw [ih h.2]; omega

end Chumsky.Text
