/-
  C20 for Pratt parsers: the only panics of `atom.pratt(ops)` are those of its atom / operator parsers (`pratt_go` adds no
  panic site of its own and never unwraps the pending error), and a failing Pratt parse always leaves a pending error —
  for plain tables and for recursive expression grammars (`XEnv`).
-/
import ChumskyModel.Proofs.Lemmas.PrattRec
import ChumskyModel.Proofs.Lemmas.Total
set_option linter.unusedSimpArgs false
set_option linter.unusedVariables false
namespace Chumsky

section
variable {P : G → SS → SOut} {rec : Nat → SS → SOut} {env : Env}

def OptPS : Option SOut → Prop
  | none => True
  | some o => o.PS

theorem sPrattPrefix_ps (hP : ∀ g s, (P g s).PS) (hrec : ∀ p s, (rec p s).PS) (start : SS) :
    ∀ ops, OptPS (sPrattPrefix P rec env start ops)
  | [] => trivial
  | .prefix bp op :: rest => by
    simp only [sPrattPrefix]
    have h1 := hP op start
    cases h : P op start with
    | ok opv s1 e1 =>
      have h2 := hrec (2 * bp) s1
      dsimp only
      generalize rec (2 * bp) s1 = r at h2 ⊢
      cases r with
      | ok _ _ _ => trivial
      | fail => exact sPrattPrefix_ps hP hrec start rest
      | panic w => exact h2
      | oof => trivial
    | fail => exact sPrattPrefix_ps hP hrec start rest
    | panic w => rw [h] at h1; exact h1
    | oof => trivial
  | .infix _ _ _ :: rest => by simp only [sPrattPrefix]; exact sPrattPrefix_ps hP hrec start rest
  | .postfix _ _ :: rest => by simp only [sPrattPrefix]; exact sPrattPrefix_ps hP hrec start rest

theorem sPrattPostfix_ps (hP : ∀ g s, (P g s).PS) (start : SS) (minP : Nat) (lhs : Val) (s : SS) :
    ∀ ops, OptPS (sPrattPostfix P env start minP lhs s ops)
  | [] => trivial
  | .postfix bp op :: rest => by
    simp only [sPrattPostfix]
    split
    · have h1 := hP op s
      cases h : P op s with
      | ok opv s1 e1 => trivial
      | fail => exact sPrattPostfix_ps hP start minP lhs s rest
      | panic w => rw [h] at h1; exact h1
      | oof => trivial
    · exact sPrattPostfix_ps hP start minP lhs s rest
  | .infix _ _ _ :: rest => by simp only [sPrattPostfix]; exact sPrattPostfix_ps hP start minP lhs s rest
  | .prefix _ _ :: rest => by simp only [sPrattPostfix]; exact sPrattPostfix_ps hP start minP lhs s rest

theorem sPrattInfix_ps (hP : ∀ g s, (P g s).PS) (hrec : ∀ p s, (rec p s).PS) (start : SS) (minP : Nat) (lhs : Val)
    (s : SS) : ∀ ops, OptPS (sPrattInfix P rec env start minP lhs s ops)
  | [] => trivial
  | .infix la bp op :: rest => by
    simp only [sPrattInfix]
    split
    · have h1 := hP op s
      cases h : P op s with
      | ok opv s1 e1 =>
        have h2 := hrec (rightPower la bp) s1
        dsimp only
        generalize rec (rightPower la bp) s1 = r at h2 ⊢
        cases r with
        | ok _ _ _ => trivial
        | fail => exact sPrattInfix_ps hP hrec start minP lhs s rest
        | panic w => exact h2
        | oof => trivial
      | fail => exact sPrattInfix_ps hP hrec start minP lhs s rest
      | panic w => rw [h] at h1; exact h1
      | oof => trivial
    · exact sPrattInfix_ps hP hrec start minP lhs s rest
  | .postfix _ _ :: rest => by simp only [sPrattInfix]; exact sPrattInfix_ps hP hrec start minP lhs s rest
  | .prefix _ _ :: rest => by simp only [sPrattInfix]; exact sPrattInfix_ps hP hrec start minP lhs s rest

theorem sPrattLoop_ps (hP : ∀ g s, (P g s).PS) (hrec : ∀ p s, (rec p s).PS) (ops : List PrattOp) (start : SS)
    (minP : Nat) : ∀ (k : Nat) (s : SS) (lhs : Val) (em : List Emis), (sPrattLoop P rec env ops start minP k s lhs em).PS
  | 0, _, _, _ => trivial
  | k + 1, s, lhs, em => by
    simp only [sPrattLoop]
    have hp := sPrattPostfix_ps (env := env) hP start minP lhs s ops
    cases h : sPrattPostfix P env start minP lhs s ops with
    | some o =>
      rw [h] at hp
      cases o with
      | ok v s1 e1 => exact sPrattLoop_ps hP hrec ops start minP k s1 v _
      | fail => trivial
      | panic w => exact hp
      | oof => trivial
    | none =>
      have hi := sPrattInfix_ps (env := env) hP hrec start minP lhs s ops
      cases h2 : sPrattInfix P rec env start minP lhs s ops with
      | some o =>
        rw [h2] at hi
        cases o with
        | ok v s2 e2 => exact sPrattLoop_ps hP hrec ops start minP k s2 v _
        | fail => trivial
        | panic w => exact hi
        | oof => trivial
      | none => trivial

/-- the textbook algorithm adds no panic of its own -/
theorem sPratt_ps (hP : ∀ g s, (P g s).PS) (atom : G) (ops : List PrattOp) :
    ∀ (k minP : Nat) (s : SS), (sPratt P env atom ops k minP s).PS := by
  intro k
  induction k with
  | zero => intro _ _; trivial
  | succ k ih =>
    intro minP s
    simp only [sPratt]
    have hrec : ∀ p s, (sPratt P env atom ops k p s).PS := fun p s => ih p s
    have hp := sPrattPrefix_ps (env := env) hP hrec s ops
    cases h : sPrattPrefix P (sPratt P env atom ops k) env s ops with
    | some o =>
      rw [h] at hp
      cases o with
      | ok v s1 e1 => exact sPrattLoop_ps hP hrec ops s minP k s1 v e1
      | fail => trivial
      | panic w => exact hp
      | oof => trivial
    | none =>
      have ha := hP atom s
      cases h2 : P atom s with
      | ok v s1 e1 => exact sPrattLoop_ps hP hrec ops s minP k s1 v e1
      | fail => trivial
      | panic w => rw [h2] at ha; exact ha
      | oof => trivial
end

/-- **C20 for `atom.pratt(ops)`**: a panic, if any, is one of the reference semantics' panic sites reached inside the atom
    or an operator parser — never an `unwrap()` of the pending error -/
theorem runPratt_panic_sites (fuel : Nat) (env : Env) (m : Mode) (atom : G) (ops : List PrattOp) (st : St)
    (hm : env.memoOn = false) {w : Nat} (h : runPratt fuel env m atom ops st = .panic w) : SpecPanic w := by
  have hr := runPratt_refines fuel env m atom ops st hm
  rw [h] at hr
  have hps : (pegPratt fuel env atom ops st.ss st.ctx).PS :=
    sPratt_ps (fun g s => (peg_ps_all env fuel).1 g s st.ctx) atom ops fuel 0 st.ss
  cases hp : pegPratt fuel env atom ops st.ss st.ctx <;> rw [hp] at hr <;> simp only [Refines] at hr
  subst hr
  rw [hp] at hps
  exact hps

theorem runPratt_fail_alt (fuel : Nat) (env : Env) (m : Mode) (atom : G) (ops : List PrattOp) (st st' : St)
    (hm : env.memoOn = false) (h : runPratt fuel env m atom ops st = .fail st') : st'.alt.isSome = true := by
  have hr := runPratt_refines fuel env m atom ops st hm
  rw [h] at hr
  cases hp : pegPratt fuel env atom ops st.ss st.ctx <;> rw [hp] at hr <;> simp only [Refines] at hr
  exact hr.alt

/-! ### recursive expression grammars -/

theorem pegX_ps_all (x : XEnv) (env : Env) (n : Nat) :
    PPS (pegX x n) env ∧ NPS (pegNextX x n) env ∧ KPS (pegMkX x n) env := by
  induction n with
  | zero =>
    refine ⟨?_, ?_, ?_⟩
    · intro g s ctx; simp [pegX]
    · intro it s ctx ist; simp [pegNextX]
    · intro it s ctx; simp [pegMkX]
  | succ n ih =>
    obtain ⟨hP, hN, hK⟩ := ih
    refine ⟨?_, ?_, ?_⟩
    · intro g s ctx
      simp only [pegX]
      by_cases hh : x.isHole g = true
      · simp only [hh, if_true]
        exact sPratt_ps (fun g s => hP g s ctx) x.atom x.ops n 0 s
      · simp only [hh]
        exact pegStep_ps hP hN hK n g s ctx
    · simp only [pegNextX]; exact pegNext_ps hP hN hK
    · simp only [pegMkX]; exact pegMk_ps hP hK

theorem runX_panic_sites (x : XEnv) (n : Nat) (env : Env) (m : Mode) (g : G) (st : St) (hm : env.memoOn = false)
    {w : Nat} (h : runX x n env m g st = .panic w) : SpecPanic w := by
  have hr := runX_refines x n env m g st hm
  rw [h] at hr
  have hps := (pegX_ps_all x env n).1 g st.ss st.ctx
  cases hp : pegX x n env g st.ss st.ctx <;> rw [hp] at hr <;> simp only [Refines] at hr
  subst hr
  rw [hp] at hps
  exact hps

theorem runX_fail_alt (x : XEnv) (n : Nat) (env : Env) (m : Mode) (g : G) (st st' : St) (hm : env.memoOn = false)
    (h : runX x n env m g st = .fail st') : st'.alt.isSome = true := by
  have hr := runX_refines x n env m g st hm
  rw [h] at hr
  cases hp : pegX x n env g st.ss st.ctx <;> rw [hp] at hr <;> simp only [Refines] at hr
  exact hr.alt

end Chumsky
