/-
  C20 for `nested_in` anywhere in a grammar (`HEnv`) and for several extensions at once (`EEnv`: Pratt expressions inside
  nested parses inside Pratt atoms …): `NestedIn::go` adds no panic site of its own — a panic, if any, is one of the reference
  semantics' panic sites reached inside `a`, `b` or the surrounding grammar. (`pNotGroup`, the model's "`b` did not yield a
  group" artefact, is numerically the "undefined reference" site: the Rust types rule it out, the harness never generates it.)
-/
import ChumskyModel.Proofs.Lemmas.ExtAll
import ChumskyModel.Proofs.Lemmas.PrattTotal
set_option linter.unusedSimpArgs false
set_option linter.unusedVariables false
namespace Chumsky

theorem specPanic_notGroup : SpecPanic pNotGroup := Or.inr (Or.inr (Or.inr rfl))

theorem innerThenEndS_ps {pa : SOut} {pend : SS → SOut} (ha : pa.PS) (he : ∀ s, (pend s).PS) :
    (innerThenEndS pa pend).PS := by
  unfold innerThenEndS
  exact ha.andThen fun va si1 e2 => (he si1).andThen fun _ si2 e3 => trivial

/-- `NestedIn::go` over any reading whose panics are panic sites of the reference semantics — in EVERY environment (the
    nested parse runs in another one) -/
theorem nestedStepS_ps {P : SRunner} (hP : ∀ env, PPS P env) (h : HEnv) (env : Env) (s : SS) (ctx : Val) :
    (nestedStepS P h env s ctx).PS := by
  unfold nestedStepS
  refine (hP env h.b s ctx).andThen fun vb s1 e1 => ?_
  cases hk : h.kidsOf vb with
  | none => exact specPanic_notGroup
  | some kids =>
    dsimp only
    have hi := innerThenEndS_ps (pa := P (h.innerEnv env kids) h.a ⟨0, s1.insp⟩ ctx)
      (pend := fun si1 => P (h.innerEnv env kids) .end_ si1 ctx) (hP _ h.a _ ctx) (fun si1 => hP _ .end_ si1 ctx)
    generalize innerThenEndS (P (h.innerEnv env kids) h.a ⟨0, s1.insp⟩ ctx)
      (fun si1 => P (h.innerEnv env kids) .end_ si1 ctx) = o at hi ⊢
    cases o with
    | ok _ _ _ => trivial
    | fail => trivial
    | panic w => exact hi
    | oof => trivial

theorem pegH_ps_all (h : HEnv) (n : Nat) :
    ∀ env, PPS (pegH h n) env ∧ NPS (pegNextH h n) env ∧ KPS (pegMkH h n) env := by
  induction n with
  | zero =>
    intro env
    refine ⟨?_, ?_, ?_⟩
    · intro g s ctx; simp [pegH]
    · intro it s ctx ist; simp [pegNextH]
    · intro it s ctx; simp [pegMkH]
  | succ n ih =>
    intro env
    obtain ⟨hP, hN, hK⟩ := ih env
    refine ⟨?_, ?_, ?_⟩
    · intro g s ctx
      simp only [pegH]
      by_cases hh : h.isHole g = true
      · simp only [hh, if_true]
        exact nestedStepS_ps (fun env => (ih env).1) h env s ctx
      · simp only [hh]
        exact pegStep_ps hP hN hK n g s ctx
    · simp only [pegNextH]; exact pegNext_ps hP hN hK
    · simp only [pegMkH]; exact pegMk_ps hP hK

/-- **C20 for `a.nested_in(b)` anywhere**: a panic is one of the reference semantics' panic sites -/
theorem runH_panic_sites (h : HEnv) (n : Nat) (env : Env) (m : Mode) (g : G) (st : St) (hm : env.memoOn = false)
    {w : Nat} (hp : runH h n env m g st = .panic w) : SpecPanic w := by
  have hr := runH_refines h n env m g st hm
  rw [hp] at hr
  have hps := (pegH_ps_all h n env).1 g st.ss st.ctx
  cases hq : pegH h n env g st.ss st.ctx <;> rw [hq] at hr <;> simp only [Refines] at hr
  subst hr
  rw [hq] at hps
  exact hps

theorem pegE_ps_all (e : EEnv) (n : Nat) :
    ∀ env, PPS (pegE e n) env ∧ NPS (pegNextE e n) env ∧ KPS (pegMkE e n) env := by
  induction n with
  | zero =>
    intro env
    refine ⟨?_, ?_, ?_⟩
    · intro g s ctx; simp [pegE]
    · intro it s ctx ist; simp [pegNextE]
    · intro it s ctx; simp [pegMkE]
  | succ n ih =>
    intro env
    obtain ⟨hP, hN, hK⟩ := ih env
    refine ⟨?_, ?_, ?_⟩
    · intro g s ctx
      simp only [pegE]
      cases hf : e.find g with
      | none => exact pegStep_ps hP hN hK n g s ctx
      | some x =>
        cases x with
        | pratt atom ops => exact sPratt_ps (fun g s => hP g s ctx) atom ops n 0 s
        | nested a b => exact nestedStepS_ps (fun env => (ih env).1) (e.henv a b) env s ctx
    · simp only [pegNextE]; exact pegNext_ps hP hN hK
    · simp only [pegMkE]; exact pegMk_ps hP hK

/-- **C20 for grammars with several extensions** (Pratt expressions and nested parses containing each other) -/
theorem runE_panic_sites (e : EEnv) (n : Nat) (env : Env) (m : Mode) (g : G) (st : St) (hm : env.memoOn = false)
    {w : Nat} (hp : runE e n env m g st = .panic w) : SpecPanic w := by
  have hr := runE_refines e n env m g st hm
  rw [hp] at hr
  have hps := (pegE_ps_all e n env).1 g st.ss st.ctx
  cases hq : pegE e n env g st.ss st.ctx <;> rw [hq] at hr <;> simp only [Refines] at hr
  subst hr
  rw [hq] at hps
  exact hps

end Chumsky
