/-
  The unified extension machine (`Model/Ext.lean`): any number of Pratt tables and nested-input parsers, referring to each
  other and to the main grammar freely. Each simulation is one induction on the fuel with three cases at a grammar node —
  a Pratt reference (the parametric Pratt lemma), a nested reference (the parametric `NestedIn::go` lemma), anything else
  (the step lemma of the simulation).
-/
import ChumskyModel.Model.Ext
import ChumskyModel.Proofs.Lemmas.PrattRec
import ChumskyModel.Proofs.Lemmas.PrattMode
import ChumskyModel.Proofs.Lemmas.PrattAlt
import ChumskyModel.Proofs.Lemmas.NestedHole
import ChumskyModel.Proofs.Lemmas.NestedMode
import ChumskyModel.Proofs.Lemmas.NestedAlt
set_option linter.unusedSimpArgs false
set_option linter.unusedVariables false
namespace Chumsky

/-! ### I1: machine ⊑ reading -/

theorem runE_refines_all (e : EEnv) (n : Nat) :
    RunnerRefines (runE e n) (pegE e n) ∧ NextRefines (nextE e n) (pegNextE e n) ∧
      MkRefines (mkIterE e n) (pegMkE e n) := by
  induction n with
  | zero =>
    refine ⟨?_, ?_, ?_⟩
    · intro env m g st _; simp [runE, pegE, Refines]
    · intro env m it st ist _; simp [nextE, pegNextE, RefinesIt]
    · intro env m it st _; simp [mkIterE, pegMkE, RefinesMk]
  | succ n ih =>
    obtain ⟨hR, hN, hK⟩ := ih
    refine ⟨?_, ?_, ?_⟩
    · intro env m g st hm
      simp only [runE, pegE]
      cases hf : e.find g with
      | none => exact step_refines hR hN hK n env m g st hm
      | some x =>
        cases x with
        | pratt atom ops =>
          have hP : PRefines (fun m g st => runE e n env m g st) (fun g s => pegE e n env g s st.ctx) st.ctx := by
            intro m' g' st' hc
            have := hR env m' g' st' hm
            rw [hc] at this
            exact this
          exact prattGo_refines hP env m atom ops n 0 st rfl
        | nested a b => exact nestedStep_refines hR (e.henv a b) env m st hm
    · simp only [nextE, pegNextE]; exact stepNext_refines hR hN hK
    · simp only [mkIterE, pegMkE]; exact stepMk_refines hR hK

theorem runE_refines (e : EEnv) (n : Nat) (env : Env) (m : Mode) (g : G) (st : St) (hm : env.memoOn = false) :
    Refines m st.errs st.ctx (runE e n env m g st) (pegE e n env g st.ss st.ctx) :=
  (runE_refines_all e n).1 env m g st hm

theorem parseTopE_refines (e : EEnv) (n : Nat) (env : Env) (m : Mode) (g : G) (hm : env.memoOn = false) :
    TopRefines m (parseTopE e n env m g) (pegTopE e n env g) := by
  unfold parseTopE pegTopE
  have hh := runE_refines e n env m (.thenIgnore g .end_) St.init hm
  have e1 : St.init.ss = ⟨0, []⟩ := rfl
  have e2 : St.init.ctx = .unit := rfl
  have e3 : St.init.errs = [] := rfl
  rw [e1, e2, e3] at hh
  revert hh
  cases runE e n env m (.thenIgnore g .end_) St.init <;>
    cases pegE e n env (.thenIgnore g .end_) ⟨0, []⟩ .unit <;> simp [Refines, TopRefines]
  · intro hh
    obtain ⟨new, he, hr⟩ := hh.errs
    simp at he
    exact ⟨hh.val, hh.ss, by rw [he]; exact hr⟩

/-- a failing run leaves a pending error (C20) -/
theorem runE_fail_alt (e : EEnv) (n : Nat) (env : Env) (m : Mode) (g : G) (st st' : St) (hm : env.memoOn = false)
    (hf : runE e n env m g st = .fail st') : st'.alt.isSome = true := by
  have hr := runE_refines e n env m g st hm
  rw [hf] at hr
  cases hp : pegE e n env g st.ss st.ctx <;> rw [hp] at hr <;> simp only [Refines] at hr
  exact hr.alt

/-! ### I2: check = erase ∘ emit -/

theorem runE_modeSim (e : EEnv) (n : Nat) : ModeSimR (runE e n) ∧ ModeSimN (nextE e n) ∧ ModeSimK (mkIterE e n) := by
  induction n with
  | zero => exact ⟨fun _ _ _ => rfl, fun _ _ _ _ => rfl, fun _ _ _ => rfl⟩
  | succ n ih =>
    obtain ⟨hR, hN, hK⟩ := ih
    refine ⟨?_, ?_, ?_⟩
    · intro env g st
      simp only [runE]
      cases hf : e.find g with
      | none => exact step_modeSim hR hN hK n env g st
      | some x =>
        cases x with
        | pratt atom ops => exact prattGo_modeSim (fun g st => hR env g st) env atom ops n 0 st
        | nested a b => exact nestedStep_modeSim hR (e.henv a b) env st
    · simp only [nextE]; exact stepNext_modeSim hR hN hK
    · simp only [mkIterE]; exact stepMk_modeSim hR hK

/-! ### I3: the pending error ≈ summary of the failure log -/

def Ext.c06 : Ext → Bool
  | .pratt atom ops => atom.c06 && opsC06 ops
  | .nested a b => a.c06 && b.c06

theorem runE_AR_all (e : EEnv) (ek : ErrKind) (hek : ek ≠ .empty) (defs : List G) (hdefs : ∀ d ∈ defs, d.c06 = true)
    (hx : ∀ x ∈ e.exts, x.c06 = true) (n : Nat) :
    ∀ env, env.ek = ek → env.defs = defs → ARR env (runE e n) ∧ ARN env (nextE e n) ∧ ARK env (mkIterE e n) := by
  induction n with
  | zero => intro env _ _; exact ⟨fun _ _ _ _ => trivial, fun _ _ _ _ _ => trivial, fun _ _ _ _ => trivial⟩
  | succ n ih =>
    intro env he hd
    have hek' : env.ek ≠ .empty := by rw [he]; exact hek
    have hdefs' : ∀ d ∈ env.defs, d.c06 = true := by rw [hd]; exact hdefs
    obtain ⟨hR, hN, hK⟩ := ih env he hd
    refine ⟨?_, ?_, ?_⟩
    · intro m g st hg
      simp only [runE]
      cases hf : e.find g with
      | none => exact step_AR hek' hdefs' hR hN hK n m g st hg
      | some x =>
        have hmem : x ∈ e.exts := by
          cases g <;> simp only [EEnv.find] at hf <;> try (cases hf)
          split at hf
          · exact List.mem_of_getElem? hf
          · cases hf
        have hxc := hx x hmem
        cases x with
        | pratt atom ops =>
          simp only [Ext.c06, Bool.and_eq_true] at hxc
          exact prattGo_AR (fun m g st hg => hR m g st hg) env m atom hxc.1 ops hxc.2 n 0 st
        | nested a b =>
          simp only [Ext.c06, Bool.and_eq_true] at hxc
          exact nestedStep_AR (e.henv a b) env hek' (fun env' he' hd' => (ih env' (he'.trans he) (hd'.trans hd)).1)
            hxc.1 hxc.2 m st
    · simp only [nextE]; exact stepNext_AR hR hN hK
    · simp only [mkIterE]; exact stepMk_AR hek' hR hK

/-- **C06 across all extensions**: the last error of a failed parse is (≈) the summary of all failure events of the outer
    parse, at the furthest of them -/
theorem parseTopE_primary_error (e : EEnv) (n : Nat) (env : Env) (hek : env.ek ≠ .empty)
    (hdefs : ∀ d ∈ env.defs, d.c06 = true) (hx : ∀ x ∈ e.exts, x.c06 = true) (m : Mode) (g : G) (hg : g.c06 = true)
    (r : ParseResult) (f : St) (hp : parseTopE e n env m g = .result r f) (ho : r.output = none) :
    ∃ l l', f.alt = some l ∧ summ env.ek f.log = some l' ∧ l.equiv l' ∧ r.errs = f.errs.map (·.err) ++ [l.err] ∧
      (∀ ev ∈ f.log, ev.pos ≤ l.pos) := by
  have hAR := (runE_AR_all e env.ek hek env.defs hdefs hx n env rfl rfl).1 m (.thenIgnore g .end_) St.init
    (by simp [G.c06, hg])
  simp only [parseTopE] at hp
  generalize runE e n env m (.thenIgnore g .end_) St.init = o at hp hAR
  cases o with
  | ok v st =>
    simp only [TopOut.result.injEq] at hp
    obtain ⟨h1, h2⟩ := hp
    subst h1
    simp at ho
  | fail st =>
    simp only [TopOut.result.injEq] at hp
    obtain ⟨h1, h2⟩ := hp
    subst h1 h2
    obtain ⟨l, l', hl, hs, he⟩ := AltRelF.init hAR
    refine ⟨l, l', hl, hs, he, by simp [hl], ?_⟩
    intro ev hev
    rw [he.1]
    exact (foldAlt_pos_ge hs).1 ev hev
  | panic w => cases hp
  | oof => cases hp

end Chumsky
