/-
  Proofs/Lemmas/SpecInv.lean — invariants of the reference semantics (`peg`) alone.

  (A) `peg_adv`      : the position never moves backwards and never passes the end of the input.
  (B) `peg_fed`      : outside `with_state` scopes, the inspector has been fed exactly the consumed tokens.
  (C) `peg_withState`: `with_state` runs its parser with a fresh inspector and restores the outer one.

  Method: every state the spec returns is either the start state, a one-token advance of a reachable
  state, or the result of a sub-run from a reachable state (`with_state` being the single exception).
  So ANY preorder on `SS` that contains the one-token step (`RelOK`) is an invariant: `pegStep_inv`,
  `pegNext_inv`, `pegMk_inv` (open recursion), closed by induction on the fuel in `peg_inv_all`.
  (A) and (B) are the two instances `Adv` and `Fed`.
-/
import ChumskyModel.Model.Spec
set_option linter.unusedSimpArgs false
set_option linter.unusedVariables false
namespace Chumsky

/-! ### the syntactic side condition of (B) -/

mutual
/-- `false` exactly when a `.withState` node occurs anywhere inside (definitions are checked separately) -/
def G.noStateScope : G → Bool
  | .end_ => true
  | .empty => true
  | .any => true
  | .just _ => true
  | .oneOf _ => true
  | .noneOf _ => true
  | .select _ => true
  | .custom _ => true
  | .todo => true
  | .then_ a b => a.noStateScope && b.noStateScope
  | .ignoreThen a b => a.noStateScope && b.noStateScope
  | .thenIgnore a b => a.noStateScope && b.noStateScope
  | .delimitedBy a l r => a.noStateScope && (l.noStateScope && r.noStateScope)
  | .paddedBy a p => a.noStateScope && p.noStateScope
  | .group gs => noStateScopeL gs
  | .groupArr gs => noStateScopeL gs
  | .or_ a b => a.noStateScope && b.noStateScope
  | .choice _ gs => noStateScopeL gs
  | .orNot a => a.noStateScope
  | .not_ a => a.noStateScope
  | .andIs a b => a.noStateScope && b.noStateScope
  | .rewind a => a.noStateScope
  | .map _ a => a.noStateScope
  | .to _ a => a.noStateScope
  | .ignored a => a.noStateScope
  | .filter _ a => a.noStateScope
  | .tryMap _ a => a.noStateScope
  | .tryMapWith _ a => a.noStateScope
  | .toSpan a => a.noStateScope
  | .toSlice a => a.noStateScope
  | .mapWithSpan a => a.noStateScope
  | .mapWithState a => a.noStateScope
  | .mapWithCtx a => a.noStateScope
  | .validate _ a => a.noStateScope
  | .collect _ it => it.noStateScope
  | .collectExactly _ it => it.noStateScope
  | .foldl _ a it => a.noStateScope && it.noStateScope
  | .foldr _ it b => it.noStateScope && b.noStateScope
  | .foldlWith a it => a.noStateScope && it.noStateScope
  | .foldrWith it b => it.noStateScope && b.noStateScope
  | .iterP it => it.noStateScope
  | .recoverVia a r => a.noStateScope && r.noStateScope
  | .recoverSkipUntil a skip until_ _ => a.noStateScope && (skip.noStateScope && until_.noStateScope)
  | .recoverSkipRetry a skip until_ => a.noStateScope && (skip.noStateScope && until_.noStateScope)
  | .labelled _ _ a => a.noStateScope
  | .mapErr _ a => a.noStateScope
  | .withCtx _ a => a.noStateScope
  | .ignoreWithCtx a b => a.noStateScope && b.noStateScope
  | .thenWithCtx a b => a.noStateScope && b.noStateScope
  | .mapCtx _ a => a.noStateScope
  | .configureJust _ _ => true
  | .withState _ => false
  | .memoized _ a => a.noStateScope
  | .call _ => true
  | .boxed a => a.noStateScope
def It.noStateScope : It → Bool
  | .repeated a _ _ => a.noStateScope
  | .separatedBy a sep _ _ _ _ => a.noStateScope && sep.noStateScope
  | .enumerate it => it.noStateScope
  | .orNotIt a => a.noStateScope
  | .intoIter a => a.noStateScope
  | .thenIt a b => a.noStateScope && b.noStateScope
  | .mapIt _ it => it.noStateScope
  | .configureRep _ it => it.noStateScope
  | .tryConfigureRep _ it => it.noStateScope
def noStateScopeL : List G → Bool
  | [] => true
  | g :: gs => g.noStateScope && noStateScopeL gs
end

/-! ### result predicates -/

/-- every successful result satisfies `Q` -/
def SOut.Sat (o : SOut) (Q : SS → Prop) : Prop :=
  match o with
  | .ok _ s' _ => Q s'
  | _ => True

def SItOut.Sat (o : SItOut) (Q : SS → Prop) : Prop :=
  match o with
  | .some _ s' _ _ => Q s'
  | .done s' _ _ => Q s'
  | _ => True

def SMkOut.Sat (o : SMkOut) (Q : SS → Prop) : Prop :=
  match o with
  | .ok _ s' _ => Q s'
  | _ => True

@[simp] theorem SOut.sat_ok {v s em} {Q : SS → Prop} : (SOut.ok v s em).Sat Q ↔ Q s := Iff.rfl
@[simp] theorem SOut.sat_fail {Q : SS → Prop} : SOut.fail.Sat Q ↔ True := Iff.rfl
@[simp] theorem SOut.sat_panic {w} {Q : SS → Prop} : (SOut.panic w).Sat Q ↔ True := Iff.rfl
@[simp] theorem SOut.sat_oof {Q : SS → Prop} : SOut.oof.Sat Q ↔ True := Iff.rfl
@[simp] theorem SItOut.sat_some {v s i em} {Q : SS → Prop} : (SItOut.some v s i em).Sat Q ↔ Q s := Iff.rfl
@[simp] theorem SItOut.sat_done {s i em} {Q : SS → Prop} : (SItOut.done s i em).Sat Q ↔ Q s := Iff.rfl
@[simp] theorem SItOut.sat_fail {Q : SS → Prop} : SItOut.fail.Sat Q ↔ True := Iff.rfl
@[simp] theorem SItOut.sat_panic {w} {Q : SS → Prop} : (SItOut.panic w).Sat Q ↔ True := Iff.rfl
@[simp] theorem SItOut.sat_oof {Q : SS → Prop} : SItOut.oof.Sat Q ↔ True := Iff.rfl
@[simp] theorem SMkOut.sat_ok {i s em} {Q : SS → Prop} : (SMkOut.ok i s em).Sat Q ↔ Q s := Iff.rfl
@[simp] theorem SMkOut.sat_fail {Q : SS → Prop} : SMkOut.fail.Sat Q ↔ True := Iff.rfl
@[simp] theorem SMkOut.sat_panic {w} {Q : SS → Prop} : (SMkOut.panic w).Sat Q ↔ True := Iff.rfl
@[simp] theorem SMkOut.sat_oof {Q : SS → Prop} : SMkOut.oof.Sat Q ↔ True := Iff.rfl

theorem SOut.Sat.mono {o : SOut} {Q Q' : SS → Prop} (h : o.Sat Q) (hq : ∀ s, Q s → Q' s) : o.Sat Q' := by
  cases o <;> simp_all

theorem SOut.Sat.andThen {o : SOut} {k} {Q Q' : SS → Prop} (h : o.Sat Q)
    (hk : ∀ v s em, Q s → (k v s em).Sat Q') : (o.andThen k).Sat Q' := by
  cases o <;> simp_all [SOut.andThen]

theorem SOut.sat_iff {o : SOut} {Q : SS → Prop} : o.Sat Q ↔ ∀ v s' em, o = .ok v s' em → Q s' := by
  cases o <;> simp

/-! ### the abstract invariant -/

/-- a preorder on spec states containing the one-token step; `W` says whether `with_state` scopes are allowed
    (and then the relation must be insensitive to the inspector swap) -/
structure RelOK (env : Env) (W : Prop) (R : SS → SS → Prop) : Prop where
  refl : ∀ s, R s s
  trans : ∀ {a b c}, R a b → R b c → R a c
  tok : ∀ {s t}, env.toks[s.pos]? = some t → R s (s.adv t)
  ws : W → ∀ {s s1 : SS}, R ⟨s.pos, []⟩ s1 → R s ⟨s1.pos, s.insp⟩

/-- admissible syntax: anything when `W`, else no `with_state` inside -/
def OKG (W : Prop) (g : G) : Prop := W ∨ g.noStateScope = true
def OKI (W : Prop) (it : It) : Prop := W ∨ it.noStateScope = true
def OKL (W : Prop) (gs : List G) : Prop := W ∨ noStateScopeL gs = true

def PInv (W : Prop) (R : SS → SS → Prop) (P : SRunner) (env : Env) : Prop :=
  ∀ g s ctx, OKG W g → (P env g s ctx).Sat (R s)
def NInv (W : Prop) (R : SS → SS → Prop) (N : SNextRunner) (env : Env) : Prop :=
  ∀ it s ctx ist, OKI W it → (N env it s ctx ist).Sat (R s)
def KInv (W : Prop) (R : SS → SS → Prop) (K : SMkRunner) (env : Env) : Prop :=
  ∀ it s ctx, OKI W it → (K env it s ctx).Sat (R s)

/-- sub-term admissibility: `sub h` proves `OKG W a` / `OKI W it` / `OKL W gs` for a child of the node in `h` -/
macro "sub " h:ident : tactic => `(tactic| (
  rcases $h:ident with hw | hw
  · exact Or.inl hw
  · simp only [G.noStateScope, It.noStateScope, noStateScopeL, Bool.and_eq_true] at hw
    exact Or.inr (by simp [noStateScopeL, hw])))

/-- normalise `Sat` of constructor results -/
macro "sat_simp" : tactic => `(tactic| simp only [SItOut.sat_some, SItOut.sat_done, SItOut.sat_fail, SItOut.sat_panic,
  SItOut.sat_oof, SOut.sat_ok, SOut.sat_fail, SOut.sat_panic, SOut.sat_oof, SMkOut.sat_ok, SMkOut.sat_fail,
  SMkOut.sat_panic, SMkOut.sat_oof, imp_self, implies_true])

section
variable {env : Env} {W : Prop} {R : SS → SS → Prop} {P : SRunner} {N : SNextRunner} {K : SMkRunner}

theorem PInv.at (hR : RelOK env W R) (hP : PInv W R P env) {g : G} (hg : OKG W g) {s0 s : SS} (ctx : Val)
    (h0 : R s0 s) : (P env g s ctx).Sat (R s0) :=
  (hP g s ctx hg).mono fun _ h => hR.trans h0 h

theorem SItOut.Sat.mono {o : SItOut} {Q Q' : SS → Prop} (h : o.Sat Q) (hq : ∀ s, Q s → Q' s) : o.Sat Q' := by
  cases o <;> simp_all

theorem SMkOut.Sat.mono {o : SMkOut} {Q Q' : SS → Prop} (h : o.Sat Q) (hq : ∀ s, Q s → Q' s) : o.Sat Q' := by
  cases o <;> simp_all

theorem NInv.at (hR : RelOK env W R) (hN : NInv W R N env) {it : It} (hi : OKI W it) {s0 s : SS} (ctx : Val) (ist : ItSt)
    (h0 : R s0 s) : (N env it s ctx ist).Sat (R s0) :=
  (hN it s ctx ist hi).mono fun _ h => hR.trans h0 h

theorem KInv.at (hR : RelOK env W R) (hK : KInv W R K env) {it : It} (hi : OKI W it) {s0 s : SS} (ctx : Val)
    (h0 : R s0 s) : (K env it s ctx).Sat (R s0) :=
  (hK it s ctx hi).mono fun _ h => hR.trans h0 h

/-! ### primitives -/

theorem sTokenPrim_inv (hR : RelOK env W R) (s : SS) (accept : Nat → Option Val) :
    (sTokenPrim env s accept).Sat (R s) := by
  unfold sTokenPrim
  cases h : env.toks[s.pos]? with
  | none => simp
  | some t =>
    simp only []
    cases accept t <;> simp [hR.tok h]

theorem sJust_inv (hR : RelOK env W R) : ∀ (ts : List Nat) (s0 s s' : SS), R s0 s → sJust env ts s = some s' → R s0 s' := by
  intro ts
  induction ts with
  | nil => intro s0 s s' h0 h; simp [sJust] at h; subst h; exact h0
  | cons e es ih =>
    intro s0 s s' h0 h
    simp only [sJust] at h
    cases ht : env.toks[s.pos]? with
    | none => simp [ht] at h
    | some t =>
      simp only [ht] at h
      split at h
      · exact ih s0 _ s' (hR.trans h0 (hR.tok ht)) h
      · cases h

theorem sJust_sat (hR : RelOK env W R) (ts : List Nat) (v : Val) (s : SS) :
    (match sJust env ts s with
      | some s' => SOut.ok v s' []
      | none => .fail).Sat (R s) := by
  cases h : sJust env ts s with
  | none => simp
  | some s' => simpa using sJust_inv hR ts s s s' (hR.refl s) h

theorem sCustom_inv (hR : RelOK env W R) (f : CustomFn) (s : SS) : (sCustom env f s).Sat (R s) := by
  cases f <;> simp only [sCustom, SOut.sat_fail, SOut.sat_ok, hR.refl]
  case next =>
    cases h : env.toks[s.pos]? with
    | none => simp
    | some t => simp [hR.tok h]

/-! ### the loops -/

theorem sChoice_inv (hR : RelOK env W R) (hP : PInv W R P env) (ctx : Val) (s : SS) :
    ∀ gs, OKL W gs → (sChoice P env ctx s gs).Sat (R s) := by
  intro gs
  induction gs with
  | nil => intro _; simp [sChoice]
  | cons g gs ih =>
    intro hl
    have hg : OKG W g := by sub hl
    have hgs : OKL W gs := by sub hl
    have h1 := hP g s ctx hg
    simp only [sChoice]
    revert h1
    cases P env g s ctx <;> sat_simp
    intro _; exact ih hgs

theorem sGroup_inv (hR : RelOK env W R) (hP : PInv W R P env) (ctx : Val) (s0 : SS) :
    ∀ gs s acc em, OKL W gs → R s0 s → (sGroup P env ctx gs s acc em).Sat (R s0) := by
  intro gs
  induction gs with
  | nil => intro s acc em _ h0; simpa [sGroup] using h0
  | cons g gs ih =>
    intro s acc em hl h0
    have hg : OKG W g := by sub hl
    have hgs : OKL W gs := by sub hl
    have h1 := hP.at hR hg ctx h0
    simp only [sGroup]
    revert h1
    cases P env g s ctx <;> sat_simp
    intro h1
    exact ih _ _ _ hgs h1

theorem sCollectLoop_inv (hR : RelOK env W R) (hN : NInv W R N env) (ctx : Val) (it : It) (k : CollKind)
    (hi : OKI W it) (s0 : SS) :
    ∀ fuel s ist acc i em, R s0 s → (sCollectLoop N env ctx it k fuel s ist acc i em).Sat (R s0) := by
  intro fuel
  induction fuel with
  | zero => intros; simp [sCollectLoop]
  | succ fuel ih =>
    intro s ist acc i em h0
    have h1 := hN.at hR hi ctx ist h0
    simp only [sCollectLoop]
    revert h1
    cases N env it s ctx ist <;> sat_simp
    intro h1
    split
    · simp
    · exact ih _ _ _ _ _ h1

theorem sCollectExactlyLoop_inv (hR : RelOK env W R) (hN : NInv W R N env) (ctx : Val) (it : It)
    (hi : OKI W it) (s0 : SS) :
    ∀ n s ist acc em, R s0 s → (sCollectExactlyLoop N env ctx it n s ist acc em).Sat (R s0) := by
  intro n
  induction n with
  | zero => intro s ist acc em h0; simpa [sCollectExactlyLoop] using h0
  | succ n ih =>
    intro s ist acc em h0
    have h1 := hN.at hR hi ctx ist h0
    simp only [sCollectExactlyLoop]
    revert h1
    cases N env it s ctx ist <;> sat_simp
    intro h1
    exact ih _ _ _ _ h1

theorem sFoldlLoop_inv (hR : RelOK env W R) (hN : NInv W R N env) (ctx : Val) (it : It) (f : Val → Val → SS → Val)
    (hi : OKI W it) (s0 : SS) :
    ∀ fuel s ist acc em, R s0 s → (sFoldlLoop N env ctx it f fuel s ist acc em).Sat (R s0) := by
  intro fuel
  induction fuel with
  | zero => intros; simp [sFoldlLoop]
  | succ fuel ih =>
    intro s ist acc em h0
    have h1 := hN.at hR hi ctx ist h0
    simp only [sFoldlLoop]
    revert h1
    cases N env it s ctx ist <;> sat_simp
    intro h1
    split
    · simp
    · exact ih _ _ _ _ h1

/-- what `sFoldrCollect` returns -/
def FoldrSat (r : (Option (List (Val × Nat) × SS × List Emis)) ⊕ SOut) (Q : SS → Prop) : Prop :=
  match r with
  | .inl (some (_, s', _)) => Q s'
  | .inl none => True
  | .inr o => o.Sat Q

@[simp] theorem FoldrSat.inl_some {a s' e} {Q : SS → Prop} : FoldrSat (.inl (some (a, s', e))) Q ↔ Q s' := Iff.rfl
@[simp] theorem FoldrSat.inr {o} {Q : SS → Prop} : FoldrSat (.inr o) Q ↔ o.Sat Q := Iff.rfl

theorem sFoldrCollect_inv (hR : RelOK env W R) (hN : NInv W R N env) (ctx : Val) (it : It)
    (hi : OKI W it) (s0 : SS) :
    ∀ fuel s ist acc em, R s0 s → FoldrSat (sFoldrCollect N env ctx it fuel s ist acc em) (R s0) := by
  intro fuel
  induction fuel with
  | zero => intros; simp [sFoldrCollect, FoldrSat]
  | succ fuel ih =>
    intro s ist acc em h0
    have h1 := hN.at hR hi ctx ist h0
    simp only [sFoldrCollect]
    revert h1
    cases N env it s ctx ist <;> (simp only [FoldrSat.inl_some, FoldrSat.inr]; sat_simp)
    intro h1
    split
    · simp
    · exact ih _ _ _ _ h1

theorem sRepeatFast_inv (hR : RelOK env W R) (hP : PInv W R P env) (ctx : Val) (a : G) (ha : OKG W a) (s0 : SS) :
    ∀ fuel s em, R s0 s → (sRepeatFast P env ctx a fuel s em).Sat (R s0) := by
  intro fuel
  induction fuel with
  | zero => intros; simp [sRepeatFast]
  | succ fuel ih =>
    intro s em h0
    have h1 := hP.at hR ha ctx h0
    simp only [sRepeatFast]
    revert h1
    cases P env a s ctx <;> sat_simp
    · intro h1
      split
      · simp
      · exact ih _ _ h1
    · intro _; exact h0

theorem sIterLoop_inv (hR : RelOK env W R) (hN : NInv W R N env) (ctx : Val) (it : It) (ap : Bool)
    (hi : OKI W it) (s0 : SS) :
    ∀ fuel s ist em, R s0 s → (sIterLoop N env ctx it ap fuel s ist em).Sat (R s0) := by
  intro fuel
  induction fuel with
  | zero => intros; simp [sIterLoop]
  | succ fuel ih =>
    intro s ist em h0
    have h1 := hN.at hR hi ctx ist h0
    simp only [sIterLoop]
    revert h1
    cases N env it s ctx ist <;> sat_simp
    intro h1
    split
    · simp
    · exact ih _ _ _ h1

theorem sSkipUntil_inv (hR : RelOK env W R) (hP : PInv W R P env) (ctx : Val) (skip until_ : G) (fb : Val)
    (hs : OKG W skip) (hu : OKG W until_) (s0 : SS) :
    ∀ fuel s em, R s0 s → (sSkipUntil P env ctx skip until_ fb fuel s em).Sat (R s0) := by
  intro fuel
  induction fuel with
  | zero => intros; simp [sSkipUntil]
  | succ fuel ih =>
    intro s em h0
    have h1 := hP.at hR hu ctx h0
    have h2 := hP.at hR hs ctx h0
    simp only [sSkipUntil]
    revert h1
    cases P env until_ s ctx <;> sat_simp
    intro _
    revert h2
    cases P env skip s ctx <;> sat_simp
    intro h2
    exact ih _ _ h2

theorem sSkipRetry_inv (hR : RelOK env W R) (hP : PInv W R P env) (ctx : Val) (a skip until_ : G)
    (ha : OKG W a) (hs : OKG W skip) (hu : OKG W until_) (s0 : SS) :
    ∀ fuel s em, R s0 s → (sSkipRetry P env ctx a skip until_ fuel s em).Sat (R s0) := by
  intro fuel
  induction fuel with
  | zero => intros; simp [sSkipRetry]
  | succ fuel ih =>
    intro s em h0
    have h2 := hP.at hR hs ctx h0
    simp only [sSkipRetry]
    cases P env until_ s ctx <;> sat_simp
    revert h2
    cases P env skip s ctx <;> sat_simp
    rename_i v2 s2 em2
    intro h2
    have h3 := hP.at hR ha ctx h2
    revert h3
    cases P env a s2 ctx <;> sat_simp
    · rename_i v3 s3 em3
      intro h3
      cases em3 with
      | nil => simpa using h3
      | cons e es => exact ih _ _ h2
    · intro _; exact ih _ _ h2

/-! ### one step of the grammar interpreter -/

theorem pegStep_inv (hR : RelOK env W R) (hdefs : ∀ d ∈ env.defs, OKG W d)
    (hP : PInv W R P env) (hN : NInv W R N env) (hK : KInv W R K env) (L : Nat) :
    PInv W R (pegStep P N K L) env := by
  intro g s ctx hg
  cases g
  all_goals try simp only [pegStep]
  case end_ => cases env.toks[s.pos]? <;> simp [hR.refl]
  case empty => simp [hR.refl]
  case any => exact sTokenPrim_inv hR s _
  case just ts => exact sJust_sat hR ts _ s
  case oneOf ts => exact sTokenPrim_inv hR s _
  case noneOf ts => exact sTokenPrim_inv hR s _
  case select ts => exact sTokenPrim_inv hR s _
  case custom f => exact sCustom_inv hR f s
  case todo => simp
  case then_ a b =>
    refine (hP a s ctx (by sub hg)).andThen fun va s1 e1 h1 => ?_
    exact (hP.at hR (by sub hg) ctx h1).andThen fun vb s2 e2 h2 => by simpa using h2
  case ignoreThen a b =>
    refine (hP a s ctx (by sub hg)).andThen fun va s1 e1 h1 => ?_
    exact (hP.at hR (by sub hg) ctx h1).andThen fun vb s2 e2 h2 => by simpa using h2
  case thenIgnore a b =>
    refine (hP a s ctx (by sub hg)).andThen fun va s1 e1 h1 => ?_
    exact (hP.at hR (by sub hg) ctx h1).andThen fun vb s2 e2 h2 => by simpa using h2
  case delimitedBy a l r =>
    refine (hP l s ctx (by sub hg)).andThen fun _ s1 e1 h1 => ?_
    refine (hP.at hR (g := a) (by sub hg) ctx h1).andThen fun va s2 e2 h2 => ?_
    exact (hP.at hR (by sub hg) ctx h2).andThen fun _ s3 e3 h3 => by simpa using h3
  case paddedBy a p =>
    refine (hP p s ctx (by sub hg)).andThen fun _ s1 e1 h1 => ?_
    refine (hP.at hR (g := a) (by sub hg) ctx h1).andThen fun va s2 e2 h2 => ?_
    exact (hP.at hR (by sub hg) ctx h2).andThen fun _ s3 e3 h3 => by simpa using h3
  case group gs => exact sGroup_inv hR hP ctx s gs s [] [] (by sub hg) (hR.refl s)
  case groupArr gs => exact sGroup_inv hR hP ctx s gs s [] [] (by sub hg) (hR.refl s)
  case or_ a b => exact sChoice_inv hR hP ctx s [a, b] (by sub hg)
  case choice fl gs =>
    cases fl
    · cases gs
      · simp [pegStep]
      · simp only [pegStep]; exact sChoice_inv hR hP ctx s _ (by sub hg)
    · simp only [pegStep]; exact sChoice_inv hR hP ctx s _ (by sub hg)
  case orNot a =>
    have h1 := hP a s ctx (by sub hg)
    revert h1
    cases P env a s ctx <;> sat_simp
    intro _; exact hR.refl s
  case not_ a =>
    cases P env a s ctx <;> sat_simp
    exact hR.refl s
  case andIs a b =>
    refine (hP a s ctx (by sub hg)).andThen fun v s1 e1 h1 => ?_
    cases P env b s ctx <;> simp [SOut.andThen, h1]
  case rewind a =>
    cases P env a s ctx <;> simp [SOut.andThen, hR.refl]
  case map f a => exact (hP a s ctx (by sub hg)).andThen fun v s1 e1 h => by simpa using h
  case to v a => exact (hP a s ctx (by sub hg)).andThen fun v s1 e1 h => by simpa using h
  case ignored a => exact (hP a s ctx (by sub hg)).andThen fun v s1 e1 h => by simpa using h
  case filter p a => exact (hP a s ctx (by sub hg)).andThen fun v s1 e1 h => by split <;> simp [h]
  case tryMap f a => exact (hP a s ctx (by sub hg)).andThen fun v s1 e1 h => by split <;> simp [h]
  case tryMapWith f a => exact (hP a s ctx (by sub hg)).andThen fun v s1 e1 h => by split <;> simp [h]
  case toSpan a => exact (hP a s ctx (by sub hg)).andThen fun v s1 e1 h => by simpa using h
  case toSlice a => exact (hP a s ctx (by sub hg)).andThen fun v s1 e1 h => by simpa using h
  case mapWithSpan a => exact (hP a s ctx (by sub hg)).andThen fun v s1 e1 h => by simpa using h
  case mapWithState a => exact (hP a s ctx (by sub hg)).andThen fun v s1 e1 h => by simpa using h
  case mapWithCtx a => exact (hP a s ctx (by sub hg)).andThen fun v s1 e1 h => by simpa using h
  case validate f a => exact (hP a s ctx (by sub hg)).andThen fun v s1 e1 h => by simpa using h
  case collect k it =>
    have hk := hK it s ctx (by sub hg)
    revert hk
    cases K env it s ctx <;> sat_simp
    intro hk
    exact sCollectLoop_inv hR hN ctx it k (by sub hg) s L _ _ _ _ _ hk
  case collectExactly n it =>
    have hk := hK it s ctx (by sub hg)
    revert hk
    cases K env it s ctx <;> sat_simp
    intro hk
    exact sCollectExactlyLoop_inv hR hN ctx it (by sub hg) s n _ _ _ _ hk
  case foldl f a it =>
    refine (hP a s ctx (by sub hg)).andThen fun va s1 e1 h1 => ?_
    have hk := hK.at hR (it := it) (by sub hg) ctx h1
    revert hk
    cases K env it s1 ctx <;> sat_simp
    intro hk
    exact sFoldlLoop_inv hR hN ctx it _ (by sub hg) s L _ _ _ _ hk
  case foldlWith a it =>
    refine (hP a s ctx (by sub hg)).andThen fun va s1 e1 h1 => ?_
    have hk := hK.at hR (it := it) (by sub hg) ctx h1
    revert hk
    cases K env it s1 ctx <;> sat_simp
    intro hk
    exact sFoldlLoop_inv hR hN ctx it _ (by sub hg) s L _ _ _ _ hk
  case foldr f it b =>
    have hk := hK it s ctx (by sub hg)
    revert hk
    cases K env it s ctx <;> sat_simp
    rename_i ist s1 e1
    intro hk
    have hf := sFoldrCollect_inv hR hN ctx it (by sub hg) s L s1 ist [] e1 hk
    revert hf
    cases sFoldrCollect N env ctx it L s1 ist [] e1 with
    | inr o => exact id
    | inl x =>
      cases x with
      | none => simp
      | some t =>
        obtain ⟨items, s2, e2⟩ := t
        intro h2
        exact (hP.at hR (by sub hg) ctx (FoldrSat.inl_some.1 h2)).andThen fun vb s3 e3 h3 => by simpa using h3
  case foldrWith it b =>
    have hk := hK it s ctx (by sub hg)
    revert hk
    cases K env it s ctx <;> sat_simp
    rename_i ist s1 e1
    intro hk
    have hf := sFoldrCollect_inv hR hN ctx it (by sub hg) s L s1 ist [] e1 hk
    revert hf
    cases sFoldrCollect N env ctx it L s1 ist [] e1 with
    | inr o => exact id
    | inl x =>
      cases x with
      | none => simp
      | some t =>
        obtain ⟨items, s2, e2⟩ := t
        intro h2
        exact (hP.at hR (by sub hg) ctx (FoldrSat.inl_some.1 h2)).andThen fun vb s3 e3 h3 => by simpa using h3
  case iterP it =>
    have hi : OKI W it := by sub hg
    have loop : ∀ ap, (match K env it s ctx with
        | .ok ist s1 em => sIterLoop N env ctx it ap L s1 ist em
        | .fail => .fail
        | .panic w => .panic w
        | .oof => .oof).Sat (R s) := by
      intro ap
      have hk := hK it s ctx hi
      revert hk
      cases K env it s ctx <;> sat_simp
      intro hk
      exact sIterLoop_inv hR hN ctx it ap hi s L _ _ _ hk
    cases it
    case repeated a lo hi' =>
      cases lo
      · cases hi'
        · simp only [pegStep]; exact sRepeatFast_inv hR hP ctx a (by sub hi) s L s [] (hR.refl s)
        · simp only [pegStep]; exact loop true
      · simp only [pegStep]; exact loop true
    case separatedBy => simp only [pegStep]; exact loop true
    case configureRep => simp only [pegStep]; exact loop false
    case tryConfigureRep => simp only [pegStep]; exact loop false
    case intoIter a => simp only [pegStep]; exact (hP a s ctx (by sub hi)).andThen fun v s1 e1 h => by simpa using h
    all_goals simp [pegStep]
  case recoverVia a r =>
    have h1 := hP a s ctx (by sub hg)
    have h2 := hP r s ctx (by sub hg)
    revert h1
    cases P env a s ctx <;> sat_simp
    intro _
    revert h2
    cases P env r s ctx <;> sat_simp
  case recoverSkipUntil a skip until_ fb =>
    have h1 := hP a s ctx (by sub hg)
    revert h1
    cases P env a s ctx <;> sat_simp
    intro _
    exact sSkipUntil_inv hR hP ctx skip until_ fb (by sub hg) (by sub hg) s L s [] (hR.refl s)
  case recoverSkipRetry a skip until_ =>
    have h1 := hP a s ctx (by sub hg)
    revert h1
    cases P env a s ctx <;> sat_simp
    intro _
    exact sSkipRetry_inv hR hP ctx a skip until_ (by sub hg) (by sub hg) (by sub hg) s L s [] (hR.refl s)
  case labelled l asCtx a => exact (hP a s ctx (by sub hg)).andThen fun v s1 e1 h => by simpa using h
  case mapErr k a => exact hP a s ctx (by sub hg)
  case withCtx cv a => exact hP a s cv (by sub hg)
  case ignoreWithCtx a b =>
    refine (hP a s ctx (by sub hg)).andThen fun va s1 e1 h1 => ?_
    exact (hP.at hR (by sub hg) va h1).andThen fun vb s2 e2 h2 => by simpa using h2
  case thenWithCtx a b =>
    refine (hP a s ctx (by sub hg)).andThen fun va s1 e1 h1 => ?_
    exact (hP.at hR (by sub hg) va h1).andThen fun vb s2 e2 h2 => by simpa using h2
  case mapCtx f a => exact hP a s _ (by sub hg)
  case configureJust c ts => exact sJust_sat hR _ _ s
  case withState a =>
    rcases hg with hw | hw
    · exact (hP a ⟨s.pos, []⟩ ctx (Or.inl hw)).andThen fun v s1 e1 h => by simpa using hR.ws hw h
    · simp [G.noStateScope] at hw
  case memoized id a => exact hP a s ctx (by sub hg)
  case call k =>
    cases h : env.defs[k]? with
    | none => simp
    | some d => exact hP d s ctx (hdefs d (List.mem_of_getElem? h))
  case boxed a => exact hP a s ctx (by sub hg)

/-! ### the iterator protocol -/

theorem pegMk_inv (hR : RelOK env W R) (hP : PInv W R P env) (hK : KInv W R K env) :
    KInv W R (pegMk P K) env := by
  intro it s ctx hi
  cases it
  all_goals simp only [pegMk]
  case repeated => simp [hR.refl]
  case separatedBy => simp [hR.refl]
  case orNotIt => simp [hR.refl]
  case enumerate inner =>
    have hk := hK inner s ctx (by sub hi)
    revert hk
    cases K env inner s ctx <;> sat_simp
  case intoIter a =>
    have h1 := hP a s ctx (by sub hi)
    revert h1
    cases P env a s ctx <;> sat_simp
  case thenIt a b =>
    have hk := hK a s ctx (by sub hi)
    revert hk
    cases K env a s ctx <;> sat_simp
  case mapIt f inner => exact hK inner s ctx (by sub hi)
  case configureRep c inner =>
    have hk := hK inner s ctx (by sub hi)
    revert hk
    cases K env inner s ctx <;> sat_simp
  case tryConfigureRep c inner =>
    cases ctx.asNat? with
    | none => simp
    | some n =>
      have hk := hK inner s ctx (by sub hi)
      revert hk
      cases K env inner s ctx <;> sat_simp

theorem sRepeatedNext_inv (hR : RelOK env W R) (hP : PInv W R P env) (ctx : Val) (a : G) (ha : OKG W a)
    (lo : Nat) (hi : Option Nat) (s : SS) (n : Nat) (wrap : ItSt → ItSt) :
    (sRepeatedNext P env ctx a lo hi s n wrap).Sat (R s) := by
  unfold sRepeatedNext
  split
  · simp [hR.refl]
  · have h1 := hP a s ctx ha
    revert h1
    cases P env a s ctx <;> sat_simp
    intro _
    split <;> simp [hR.refl]

theorem sSeparatedNext_inv (hR : RelOK env W R) (hP : PInv W R P env) (ctx : Val) (a sep : G)
    (ha : OKG W a) (hs : OKG W sep) (lo : Nat) (hi : Option Nat) (lead trail : Bool) (s : SS) (n : Nat) :
    (sSeparatedNext P env ctx a sep lo hi lead trail s n).Sat (R s) := by
  have item : ∀ (s0 : SS) (e0 : List Emis), R s s0 →
      (match P env a s0 ctx with
        | .ok v s1 em => SItOut.some v s1 (.cnt (n + 1)) (e0 ++ em)
        | .fail =>
          if n < lo then .fail
          else if trail then .done s0 (.cnt n) e0
          else .done s (.cnt n) []
        | .panic w => .panic w
        | .oof => .oof).Sat (R s) := by
    intro s0 e0 h0
    have h1 := hP.at hR ha ctx h0
    revert h1
    cases P env a s0 ctx <;> sat_simp
    intro _
    split
    · simp
    · split <;> simp [h0, hR.refl]
  have hsep := hP sep s ctx hs
  unfold sSeparatedNext
  split
  · simp [hR.refl]
  · simp only []
    split
    · revert hsep
      cases P env sep s ctx <;> sat_simp
      · intro h1; exact item _ _ h1
      · intro _; exact item _ _ (hR.refl s)
    · split
      · revert hsep
        cases P env sep s ctx <;> sat_simp
        · intro h1; exact item _ _ h1
        · intro _; split <;> simp [hR.refl]
      · exact item _ _ (hR.refl s)

theorem pegNext_inv (hR : RelOK env W R) (hP : PInv W R P env) (hN : NInv W R N env) (hK : KInv W R K env) :
    NInv W R (pegNext P N K) env := by
  intro it s ctx ist hi
  unfold pegNext
  split
  · exact sRepeatedNext_inv hR hP ctx _ (by sub hi) _ _ s _ _
  · exact sSeparatedNext_inv hR hP ctx _ _ (by sub hi) (by sub hi) _ _ _ _ s _
  · -- enumerate
    rename_i inner k st
    have h1 := hN inner s ctx st (by sub hi)
    revert h1
    cases N env inner s ctx st <;> sat_simp
  · -- orNotIt
    rename_i a b
    split
    · simp [hR.refl]
    · have h1 := hP a s ctx (by sub hi)
      revert h1
      cases P env a s ctx <;> sat_simp
      intro _; exact hR.refl s
  · -- intoIter
    split <;> simp [hR.refl]
  · -- thenIt
    rename_i a b sa sb?
    have ha : OKI W a := by sub hi
    have hb : OKI W b := by sub hi
    split
    · rename_i sb
      have h1 := hN b s ctx sb hb
      revert h1
      cases N env b s ctx sb <;> sat_simp
    · have h1 := hN a s ctx sa ha
      revert h1
      cases N env a s ctx sa <;> sat_simp
      rename_i s1 sa1 e1
      intro h1
      have h2 := hK.at hR hb ctx h1
      revert h2
      cases K env b s1 ctx <;> sat_simp
      rename_i sb s2 e2
      intro h2
      have h3 := hN.at hR hb ctx sb h2
      revert h3
      cases N env b s2 ctx sb <;> sat_simp
  · -- mapIt
    rename_i _ f inner
    have h1 := hN inner s ctx ist (by sub hi)
    revert h1
    cases N env inner s ctx ist <;> sat_simp
  · exact sRepeatedNext_inv hR hP ctx _ (by sub hi) _ _ s _ _
  · exact sRepeatedNext_inv hR hP ctx _ (by sub hi) _ _ s _ _
  · simp

/-! ### closing the recursion -/

theorem peg_inv_all (hR : RelOK env W R) (hdefs : ∀ d ∈ env.defs, OKG W d) (n : Nat) :
    PInv W R (peg n) env ∧ NInv W R (pegNext' n) env ∧ KInv W R (pegMk' n) env := by
  induction n with
  | zero =>
    refine ⟨?_, ?_, ?_⟩
    · intro g s ctx _; simp [peg]
    · intro it s ctx ist _; simp [pegNext']
    · intro it s ctx _; simp [pegMk']
  | succ n ih =>
    obtain ⟨hP, hN, hK⟩ := ih
    exact ⟨pegStep_inv hR hdefs hP hN hK n, pegNext_inv hR hP hN hK, pegMk_inv hR hP hK⟩

end

/-! ## (A) monotone, bounded position -/

/-- a spec result `s'` reachable from `s` -/
structure Adv (env : Env) (s s' : SS) : Prop where
  mono : s.pos ≤ s'.pos
  bound : s.pos ≤ env.toks.length → s'.pos ≤ env.toks.length

theorem adv_relOK (env : Env) : RelOK env True (Adv env) where
  refl s := ⟨Nat.le_refl _, id⟩
  trans h1 h2 := ⟨Nat.le_trans h1.mono h2.mono, fun h => h2.bound (h1.bound h)⟩
  tok := by
    intro s t h
    obtain ⟨hlt, _⟩ := List.getElem?_eq_some_iff.1 h
    exact ⟨Nat.le_succ _, fun _ => hlt⟩
  ws _ := by
    intro s s1 h
    exact ⟨h.mono, h.bound⟩

theorem adv_all (n : Nat) (env : Env) :
    PInv True (Adv env) (peg n) env ∧ NInv True (Adv env) (pegNext' n) env ∧ KInv True (Adv env) (pegMk' n) env :=
  peg_inv_all (adv_relOK env) (fun _ _ => Or.inl trivial) n

theorem peg_adv (n : Nat) (env : Env) (g : G) (s : SS) (ctx : Val) {v s' em} :
    peg n env g s ctx = .ok v s' em → Adv env s s' := by
  intro h
  have := (adv_all n env).1 g s ctx (Or.inl trivial)
  rwa [h] at this

theorem pegNext'_adv_some (n : Nat) (env : Env) (it : It) (s : SS) (ctx : Val) (ist : ItSt) {v s' ist' em} :
    pegNext' n env it s ctx ist = .some v s' ist' em → Adv env s s' := by
  intro h
  have := (adv_all n env).2.1 it s ctx ist (Or.inl trivial)
  rwa [h] at this

theorem pegNext'_adv_done (n : Nat) (env : Env) (it : It) (s : SS) (ctx : Val) (ist : ItSt) {s' ist' em} :
    pegNext' n env it s ctx ist = .done s' ist' em → Adv env s s' := by
  intro h
  have := (adv_all n env).2.1 it s ctx ist (Or.inl trivial)
  rwa [h] at this

theorem pegMk'_adv (n : Nat) (env : Env) (it : It) (s : SS) (ctx : Val) {ist s' em} :
    pegMk' n env it s ctx = .ok ist s' em → Adv env s s' := by
  intro h
  have := (adv_all n env).2.2 it s ctx (Or.inl trivial)
  rwa [h] at this

/-! ## (B) the inspector reflects exactly the consumed tokens (outside `with_state` scopes) -/

/-- `s'` extends `s` by exactly the tokens between the two positions -/
def Fed (env : Env) (s s' : SS) : Prop :=
  s.pos ≤ s'.pos ∧ s'.insp = s.insp ++ (env.toks.drop s.pos).take (s'.pos - s.pos)

theorem take_drop_chain (l : List Nat) {a b c : Nat} (hab : a ≤ b) (hbc : b ≤ c) :
    (l.drop a).take (b - a) ++ (l.drop b).take (c - b) = (l.drop a).take (c - a) := by
  have h1 : c - a = (b - a) + (c - b) := by omega
  have h2 : l.drop b = (l.drop a).drop (b - a) := by
    rw [List.drop_drop]; congr 1; omega
  rw [h1, h2, List.take_add]

theorem fed_relOK (env : Env) : RelOK env False (Fed env) where
  refl s := ⟨Nat.le_refl _, by simp⟩
  trans := by
    intro a b c h1 h2
    refine ⟨Nat.le_trans h1.1 h2.1, ?_⟩
    rw [h2.2, h1.2, List.append_assoc, take_drop_chain _ h1.1 h2.1]
  tok := by
    intro s t h
    refine ⟨Nat.le_succ _, ?_⟩
    have h1 : (s.adv t).pos - s.pos = 1 := by simp [SS.adv]
    rw [h1]
    simp [SS.adv, List.take_one, h]
  ws := fun h => h.elim

theorem fed_all (n : Nat) (env : Env) (hdefs : ∀ d ∈ env.defs, d.noStateScope = true) :
    PInv False (Fed env) (peg n) env ∧ NInv False (Fed env) (pegNext' n) env ∧ KInv False (Fed env) (pegMk' n) env :=
  peg_inv_all (fed_relOK env) (fun d hd => Or.inr (hdefs d hd)) n

/-- (B), without the (unneeded) bound on the start position -/
theorem peg_fed' (n : Nat) (env : Env) (hdefs : ∀ d ∈ env.defs, d.noStateScope = true) (g : G)
    (hg : g.noStateScope = true) (s : SS) (ctx : Val) {v s' em} :
    peg n env g s ctx = .ok v s' em → Fed env s s' := by
  intro h
  have := (fed_all n env hdefs).1 g s ctx (Or.inr hg)
  rwa [h] at this

theorem peg_fed (n : Nat) (env : Env) (hdefs : ∀ d ∈ env.defs, d.noStateScope = true) (g : G)
    (hg : g.noStateScope = true) (s : SS) (ctx : Val) (hs : s.pos ≤ env.toks.length) {v s' em} :
    peg n env g s ctx = .ok v s' em → Fed env s s' :=
  peg_fed' n env hdefs g hg s ctx

theorem pegNext'_fed_some (n : Nat) (env : Env) (hdefs : ∀ d ∈ env.defs, d.noStateScope = true) (it : It)
    (hi : it.noStateScope = true) (s : SS) (ctx : Val) (ist : ItSt) {v s' ist' em} :
    pegNext' n env it s ctx ist = .some v s' ist' em → Fed env s s' := by
  intro h
  have := (fed_all n env hdefs).2.1 it s ctx ist (Or.inr hi)
  rwa [h] at this

theorem pegNext'_fed_done (n : Nat) (env : Env) (hdefs : ∀ d ∈ env.defs, d.noStateScope = true) (it : It)
    (hi : it.noStateScope = true) (s : SS) (ctx : Val) (ist : ItSt) {s' ist' em} :
    pegNext' n env it s ctx ist = .done s' ist' em → Fed env s s' := by
  intro h
  have := (fed_all n env hdefs).2.1 it s ctx ist (Or.inr hi)
  rwa [h] at this

theorem pegMk'_fed (n : Nat) (env : Env) (hdefs : ∀ d ∈ env.defs, d.noStateScope = true) (it : It)
    (hi : it.noStateScope = true) (s : SS) (ctx : Val) {ist s' em} :
    pegMk' n env it s ctx = .ok ist s' em → Fed env s s' := by
  intro h
  have := (fed_all n env hdefs).2.2 it s ctx (Or.inr hi)
  rwa [h] at this

/-- if the inspector has seen exactly the input before the start position, it has seen exactly the input
    before the end position -/
theorem peg_insp_prefix (n : Nat) (env : Env) (hdefs : ∀ d ∈ env.defs, d.noStateScope = true) (g : G)
    (hg : g.noStateScope = true) (ctx : Val) {s : SS} {v s' em} (hs : s.pos ≤ env.toks.length)
    (hi : s.insp = env.toks.take s.pos) :
    peg n env g s ctx = .ok v s' em → s'.insp = env.toks.take s'.pos := by
  intro h
  obtain ⟨h1, h2⟩ := peg_fed' n env hdefs g hg s ctx h
  have h3 : s'.pos = s.pos + (s'.pos - s.pos) := by omega
  rw [h2, hi, h3, List.take_add]
  congr 2
  omega

/-- a successful `a.then_ignore(end())` stops where there is no token -/
theorem peg_thenIgnore_end (n : Nat) (env : Env) (g : G) (s : SS) (ctx : Val) {v s' em} :
    peg n env (.thenIgnore g .end_) s ctx = .ok v s' em → env.toks[s'.pos]? = none := by
  cases n with
  | zero => simp [peg]
  | succ n =>
    simp only [peg, pegStep]
    cases peg n env g s ctx with
    | ok va s1 e1 =>
      simp only [SOut.andThen]
      cases n with
      | zero => simp [peg]
      | succ n =>
        simp only [peg, pegStep]
        cases h : env.toks[s1.pos]? with
        | none =>
          simp only [SOut.ok.injEq]
          rintro ⟨_, rfl, _⟩
          exact h
        | some t => simp
    | _ => simp [SOut.andThen]

/-- top level: a successful parse has consumed the whole input and the inspector has seen all of it -/
theorem pegTop_insp (n : Nat) (env : Env) (g : G) {v s' em} (h : pegTop n env g = .ok v s' em)
    (hg : g.noStateScope = true) (hdefs : ∀ d ∈ env.defs, d.noStateScope = true) :
    s'.insp = env.toks ∧ s'.pos = env.toks.length := by
  unfold pegTop at h
  have hg' : (G.thenIgnore g .end_).noStateScope = true := by simp [G.noStateScope, hg]
  have h1 := peg_insp_prefix n env hdefs _ hg' .unit (s := ⟨0, []⟩) (Nat.zero_le _) (by simp) h
  have h2 := (peg_adv n env _ _ _ h).bound (Nat.zero_le _)
  have h3 := peg_thenIgnore_end n env g _ _ h
  have h4 : env.toks.length ≤ s'.pos := by simpa using h3
  have h5 : s'.pos = env.toks.length := Nat.le_antisymm h2 h4
  exact ⟨by rw [h1, h5, List.take_length], h5⟩

/-- top level, position only: no syntactic hypothesis needed -/
theorem pegTop_pos (n : Nat) (env : Env) (g : G) {v s' em} (h : pegTop n env g = .ok v s' em) :
    s'.pos = env.toks.length := by
  unfold pegTop at h
  have h2 := (peg_adv n env _ _ _ h).bound (Nat.zero_le _)
  have h4 : env.toks.length ≤ s'.pos := by simpa using peg_thenIgnore_end n env g _ _ h
  exact Nat.le_antisymm h2 h4

/-! ## (C) `with_state`: fresh inspector inside, outer inspector untouched -/

theorem peg_withState (n : Nat) (env : Env) (a : G) (s : SS) (ctx : Val) :
    peg (n + 1) env (.withState a) s ctx =
      match peg n env a ⟨s.pos, []⟩ ctx with
      | .ok v s1 e1 => .ok v ⟨s1.pos, s.insp⟩ e1
      | o => o := by
  simp only [peg, pegStep]
  cases peg n env a ⟨s.pos, []⟩ ctx <;> rfl

/-- the outer inspector is unchanged by a `with_state` scope (whatever happens inside) -/
theorem peg_withState_insp (n : Nat) (env : Env) (a : G) (s : SS) (ctx : Val) {v s' em} :
    peg n env (.withState a) s ctx = .ok v s' em → s'.insp = s.insp := by
  cases n with
  | zero => simp [peg]
  | succ n =>
    rw [peg_withState]
    cases peg n env a ⟨s.pos, []⟩ ctx <;> simp
    rintro _ rfl _
    rfl

/-- inside the scope (no nested scope), the fresh inspector sees exactly the tokens consumed in the scope -/
theorem peg_withState_inner (n : Nat) (env : Env) (hdefs : ∀ d ∈ env.defs, d.noStateScope = true) (a : G)
    (ha : a.noStateScope = true) (s : SS) (ctx : Val) {v s1 e1} :
    peg n env a ⟨s.pos, []⟩ ctx = .ok v s1 e1 →
      s.pos ≤ s1.pos ∧ s1.insp = (env.toks.drop s.pos).take (s1.pos - s.pos) := by
  intro h
  simpa [Fed] using peg_fed' n env hdefs a ha ⟨s.pos, []⟩ ctx h

/-! ## any grammar (with or without `with_state`): the inspector only grows -/

theorem inspExt_relOK (env : Env) : RelOK env True (fun s s' => s.insp <+: s'.insp) where
  refl s := List.prefix_refl _
  trans h1 h2 := List.IsPrefix.trans h1 h2
  tok := by intro s t _; exact List.prefix_append _ _
  ws _ := by intro s s1 _; exact List.prefix_refl _

theorem peg_insp_ext (n : Nat) (env : Env) (g : G) (s : SS) (ctx : Val) {v s' em} :
    peg n env g s ctx = .ok v s' em → s.insp <+: s'.insp := by
  intro h
  have := (peg_inv_all (inspExt_relOK env) (fun _ _ => Or.inl trivial) n).1 g s ctx (Or.inl trivial)
  rwa [h] at this

#print axioms peg_adv
#print axioms pegNext'_adv_some
#print axioms pegNext'_adv_done
#print axioms pegMk'_adv
#print axioms peg_fed
#print axioms peg_insp_prefix
#print axioms pegTop_insp
#print axioms pegTop_pos
#print axioms peg_withState
#print axioms peg_withState_insp
#print axioms peg_withState_inner
#print axioms peg_insp_ext

end Chumsky
