import ChumskyModel.Proofs.Lemmas.Refine
set_option linter.unusedSimpArgs false
set_option linter.unusedVariables false
namespace Chumsky

variable {R : Runner} {P : SRunner}

theorem ok_refl {m base ctx v st} : OkRel m base ctx (m.bind v) st v st.ss [] ↔
    (st.errs = base ∧ st.ctx = ctx) := by
  constructor
  · intro h
    obtain ⟨new, he, hr⟩ := h.errs
    have := EmsRel.nil_right hr
    subst this
    exact ⟨by simpa using he, h.ctx⟩
  · intro ⟨h1, h2⟩
    exact ⟨rfl, rfl, ⟨[], by simp [h1]⟩, h2⟩

@[simp] theorem failRel_iff {base ctx st'} : Refines m base ctx (.fail st') .fail ↔ FailRel base ctx st' := Iff.rfl
@[simp] theorem okRel_iff {m base ctx v st' v' s' em} :
    Refines m base ctx (.ok v st') (.ok v' s' em) ↔ OkRel m base ctx v st' v' s' em := Iff.rfl
@[simp] theorem refines_ok_fail {m base ctx v st'} : Refines m base ctx (.ok v st') .fail ↔ False := Iff.rfl
@[simp] theorem refines_fail_ok {m base ctx st' v' s' em} : Refines m base ctx (.fail st') (.ok v' s' em) ↔ False := Iff.rfl

/-- a failure reported after rewinding to a checkpoint taken at `st` -/
theorem fail_after_rewind' {env : Env} (st : St) {st1 : St} {base : List Loc} {ctx : Val}
    (hp : st.errs <+: st1.errs) (hc : st1.ctx = ctx) (hb : st.errs = base) (e f s) :
    FailRel base ctx (St.addAlt env (st1.rewind st.save) e f s) :=
  ⟨by subst hb; simp [take_of_prefix hp], by simp [hc], by simp⟩

theorem fail_after_rewind {env : Env} (st : St) {st1 : St} (hp : st.errs <+: st1.errs)
    (hc : st1.ctx = st.ctx) (e f s) :
    FailRel st.errs st.ctx (St.addAlt env (st1.rewind st.save) e f s) :=
  fail_after_rewind' st hp hc rfl e f s

theorem tokenPrim_refines (env : Env) (m : Mode) (st : St) (accept : Nat → Option Val) (exp : List Pat) :
    Refines m st.errs st.ctx (tokenPrim env m st accept exp) (sTokenPrim env st.ss accept) := by
  unfold tokenPrim sTokenPrim
  cases h : env.toks[st.pos]? with
  | none =>
    simp only [next_none h, ss_pos, h, Option.bind_none, failRel_iff]
    exact fail_after_rewind st (List.prefix_refl _) rfl _ _ _
  | some t =>
    simp only [next_some h, ss_pos, h, Option.bind_some]
    cases ha : accept t with
    | none =>
      simp only [failRel_iff]
      exact fail_after_rewind st (st1 := { st with pos := st.pos + 1, insp := st.insp ++ [t] })
        (List.prefix_refl _) rfl _ _ _
    | some v =>
      simp only [okRel_iff]
      exact ⟨rfl, rfl, ⟨[], by simp⟩, rfl⟩

/-- `just(seq)`: element-wise walk -/
theorem justRun_refines (env : Env) (ts : List Nat) : ∀ (st st0 : St), st0.errs = st.errs → st0.ctx = st.ctx →
    match justRun env ts st0, sJust env ts st0.ss with
    | .inr st', some s' => st'.ss = s' ∧ st'.errs = st.errs ∧ st'.ctx = st.ctx
    | .inl st', none => FailRel st.errs st.ctx st'
    | _, _ => False := by
  induction ts with
  | nil => intro st st0 h1 h2; simp [justRun, sJust, h1, h2]
  | cons e es ih =>
    intro st st0 h1 h2
    unfold justRun sJust
    cases h : env.toks[st0.pos]? with
    | none =>
      simp only [next_none h, ss_pos, h]
      have : ((none : Option Nat) == some e) = false := rfl
      simp only [this, Bool.false_eq_true, if_false]
      exact fail_after_rewind' (env := env) st0 (st1 := st0) (List.prefix_refl _) h2 h1 _ _ _
    | some t =>
      simp only [next_some h, ss_pos, h]
      by_cases hte : t = e
      · subst hte
        simp only [BEq.rfl, if_true]
        exact ih st _ h1 h2
      · have h3 : (some t == some e) = false := by simp [hte]
        have h4 : (t == e) = false := by simp [hte]
        simp only [h3, h4, Bool.false_eq_true, if_false]
        exact fail_after_rewind' (env := env) st0 (st1 := { st0 with pos := st0.pos + 1, insp := st0.insp ++ [t] })
          (List.prefix_refl _) h2 h1 _ _ _

theorem step_refines_just (env : Env) (m : Mode) (ts : List Nat) (st : St) :
    Refines m st.errs st.ctx
      (match justRun env ts st with
        | .inr st' => .ok (m.bind (.toks ts)) st'
        | .inl st' => .fail st')
      (match sJust env ts st.ss with
        | some s' => .ok (.toks ts) s' []
        | none => .fail) := by
  have := justRun_refines env ts st st rfl rfl
  revert this
  cases justRun env ts st <;> cases sJust env ts st.ss <;> simp
  intro h1 h2 h3
  exact ⟨rfl, h1, ⟨[], by simp [h2]⟩, h3⟩

theorem val_rel_pair {m m1 m2 : Mode} {va va' vb vb' : Val} (h1 : va = m1.bind va') (h2 : vb = m2.bind vb')
    (hm1 : m = .emit → m1 = .emit) (hm2 : m = .emit → m2 = .emit) :
    m.bind (.pair va vb) = m.bind (.pair va' vb') := by
  cases m
  · simp [hm1 rfl, hm2 rfl] at h1 h2; simp [h1, h2]
  · rfl

section
variable {N : NextRunner} {K : MkRunner} {SN : SNextRunner} {SK : SMkRunner}

theorem step_refines_seq (hR : RunnerRefines R P) (env : Env) (hm : env.memoOn = false) (m : Mode) (st : St) (L : Nat) :
    ∀ g, (match g with
      | .then_ .. | .ignoreThen .. | .thenIgnore .. | .delimitedBy .. | .paddedBy .. => True
      | _ => False) →
    Refines m st.errs st.ctx (step R N K L env m g st) (pegStep P SN SK L env g st.ss st.ctx) := by
  intro g hg
  cases g <;> simp only at hg
  case then_ a b =>
    simp only [step, pegStep]
    refine Refines.andThen0 (hR env m a st hm) ?_
    intro va st1 va' s1 e1 h1
    obtain ⟨new1, he1, hr1, hb⟩ := hR.at hm (m := m) b h1
    refine Refines.andThen hb ?_
    intro vb st2 vb' s2 e2 h2
    exact OkRel.seq hr1 h2 (val_rel_pair h1.val h2.val id id)
  case ignoreThen a b =>
    simp only [step, pegStep]
    refine Refines.andThen0 (hR env .check a st hm) ?_
    intro va st1 va' s1 e1 h1
    obtain ⟨new1, he1, hr1, hb⟩ := hR.at hm (m := m) b h1
    refine Refines.andThen hb ?_
    intro vb st2 vb' s2 e2 h2
    exact OkRel.seq hr1 h2 h2.val
  case thenIgnore a b =>
    simp only [step, pegStep]
    refine Refines.andThen0 (hR env m a st hm) ?_
    intro va st1 va' s1 e1 h1
    obtain ⟨new1, he1, hr1, hb⟩ := hR.at hm (m := .check) b h1
    refine Refines.andThen hb ?_
    intro vb st2 vb' s2 e2 h2
    exact OkRel.seq hr1 h2 h1.val
  case delimitedBy a l r =>
    simp only [step, pegStep]
    refine Refines.andThen0 (hR env .check l st hm) ?_
    intro v1 st1 v1' s1 e1 h1
    obtain ⟨new1, he1, hr1, hb⟩ := hR.at hm (m := m) a h1
    refine Refines.andThen hb ?_
    intro v2 st2 v2' s2 e2 h2
    have h12 : OkRel m st.errs st.ctx v2 st2 v2' s2 (e1 ++ e2) := OkRel.seq hr1 h2 h2.val
    obtain ⟨new2, he2, hr2, hc⟩ := hR.at hm (m := .check) r h12
    refine Refines.andThen hc ?_
    intro v3 st3 v3' s3 e3 h3
    exact OkRel.seq hr2 h3 h2.val
  case paddedBy a p =>
    simp only [step, pegStep]
    refine Refines.andThen0 (hR env .check p st hm) ?_
    intro v1 st1 v1' s1 e1 h1
    obtain ⟨new1, he1, hr1, hb⟩ := hR.at hm (m := m) a h1
    refine Refines.andThen hb ?_
    intro v2 st2 v2' s2 e2 h2
    have h12 : OkRel m st.errs st.ctx v2 st2 v2' s2 (e1 ++ e2) := OkRel.seq hr1 h2 h2.val
    obtain ⟨new2, he2, hr2, hc⟩ := hR.at hm (m := .check) p h12
    refine Refines.andThen hc ?_
    intro v3 st3 v3' s3 e3 h3
    exact OkRel.seq hr2 h3 h2.val
end

/-- `st` is the state `st0` possibly after failed attempts that were rewound: same position, inspector,
    secondary errors and context -/
structure SameAs (st st0 : St) : Prop where
  pos : st.pos = st0.pos
  insp : st.insp = st0.insp
  errs : st.errs = st0.errs
  ctx : st.ctx = st0.ctx

theorem SameAs.refl (st : St) : SameAs st st := ⟨rfl, rfl, rfl, rfl⟩

theorem SameAs.ss {st st0 : St} (h : SameAs st st0) : st.ss = st0.ss := by
  simp [St.ss, h.pos, h.insp]

theorem SameAs.of_rewind {st' st0 : St} (h : FailRel st0.errs st0.ctx st') : SameAs (st'.rewind st0.save) st0 :=
  ⟨rfl, rfl, by simp [take_of_prefix h.errs], by simp [h.ctx]⟩

theorem RunnerRefines.same (hR : RunnerRefines R P) {env : Env} (hm : env.memoOn = false) (m : Mode) (g : G)
    {st st0 : St} (h : SameAs st st0) :
    Refines m st0.errs st0.ctx (R env m g st) (P env g st0.ss st0.ctx) := by
  have := hR env m g st hm
  rw [h.errs, h.ctx, h.ss] at this
  exact this

theorem choiceTuple_refines (hR : RunnerRefines R P) (env : Env) (hm : env.memoOn = false) (m : Mode) (st0 : St) :
    ∀ (gs : List G) (st : St), SameAs st st0 → (gs = [] → st.alt.isSome = true) →
    Refines m st0.errs st0.ctx (choiceTuple R env m st0.save gs st) (sChoice P env st0.ctx st0.ss gs) := by
  intro gs
  induction gs with
  | nil =>
    intro st hs ha
    simp only [choiceTuple, sChoice, failRel_iff]
    exact ⟨by simp [hs.errs], hs.ctx, ha rfl⟩
  | cons g gs ih =>
    intro st hs _
    simp only [choiceTuple, sChoice]
    have h := hR.same hm m g hs
    revert h
    cases R env m g st <;> cases P env g st0.ss st0.ctx <;> simp [Refines]
    intro hf
    exact ih _ (SameAs.of_rewind hf) (fun _ => by simp [hf.alt])

theorem choiceSlice_refines (hR : RunnerRefines R P) (env : Env) (hm : env.memoOn = false) (m : Mode) (st0 : St) :
    ∀ (gs : List G) (st : St), st0.errs <+: st.errs → st.ctx = st0.ctx → (gs = [] → st.alt.isSome = true) →
    Refines m st0.errs st0.ctx (choiceSlice R env m st0.save gs st) (sChoice P env st0.ctx st0.ss gs) := by
  intro gs
  induction gs with
  | nil =>
    intro st hp hc ha
    simp only [choiceSlice, sChoice, failRel_iff]
    exact ⟨hp, hc, ha rfl⟩
  | cons g gs ih =>
    intro st hp hc _
    simp only [choiceSlice, sChoice]
    have hs : SameAs (st.rewind st0.save) st0 := ⟨rfl, rfl, by simp [take_of_prefix hp], by simp [hc]⟩
    have h := hR.same hm m g hs
    revert h
    cases R env m g (st.rewind st0.save) <;> cases P env g st0.ss st0.ctx <;> simp [Refines]
    intro hf
    exact ih _ hf.errs hf.ctx (fun _ => hf.alt)

/-- accumulators of values: equal in emit mode, irrelevant in check mode -/
def AccRel (m : Mode) (acc acc' : List Val) : Prop := m = .emit → acc = acc'

theorem AccRel.cons {m m1 : Mode} {acc acc' : List Val} {v v' : Val} (h : AccRel m acc acc') (hv : v = m1.bind v')
    (hm1 : m = .emit → m1 = .emit) : AccRel m (v :: acc) (v' :: acc') := by
  intro he
  subst he
  simp [hm1 rfl] at hv
  simp [hv, h rfl]

theorem AccRel.bind_ofList {m : Mode} {acc acc' : List Val} (h : AccRel m acc acc') :
    m.bind (Val.ofList acc.reverse) = m.bind (Val.ofList acc'.reverse) := by
  cases m
  · simp [h rfl]
  · rfl

theorem groupLoop_refines (hR : RunnerRefines R P) (env : Env) (hm : env.memoOn = false) (m : Mode)
    (base : List Loc) (ctx : Val) :
    ∀ (gs : List G) (st : St) (acc acc' : List Val) (new : List Loc) (em : List Emis),
      st.errs = base ++ new → EmsRel new em → st.ctx = ctx → AccRel m acc acc' →
      Refines m base ctx (groupLoop R env m gs st acc) (sGroup P env ctx gs st.ss acc' em) := by
  intro gs
  induction gs with
  | nil =>
    intro st acc acc' new em he hr hc ha
    simp only [groupLoop, sGroup, okRel_iff]
    exact ⟨ha.bind_ofList, rfl, ⟨new, he, hr⟩, hc⟩
  | cons g gs ih =>
    intro st acc acc' new em he hr hc ha
    simp only [groupLoop, sGroup]
    have h := hR env m g st hm
    rw [he, hc] at h
    revert h
    cases R env m g st <;> cases P env g st.ss ctx <;> simp [Refines]
    · intro h
      obtain ⟨new2, he2, hr2⟩ := h.errs
      have := ih _ (_ :: acc) (_ :: acc') (new ++ new2) _ (by simp [he2]) (hr.append hr2) h.ctx
        (ha.cons h.val (fun h => h))
      rw [h.ss] at this
      exact this
    · exact fun h => h.rebase

theorem Refines.restoreCtx {m base c1 c0 o so} (h : Refines m base c1 o so) :
    Refines m base c0 (o.restoreCtx c0) so := by
  cases o <;> cases so <;> simp_all [Refines, Out.restoreCtx]
  · exact ⟨h.val, h.ss, h.errs, rfl⟩
  · exact ⟨h.errs, rfl, h.alt⟩

theorem customFn_refines (env : Env) (m : Mode) (f : CustomFn) (st : St) :
    Refines m st.errs st.ctx (runCustom env m f st) (sCustom env f st.ss) := by
  cases f with
  | next msg =>
    unfold runCustom sCustom
    cases h : env.toks[st.pos]? with
    | none =>
      simp only [next_none h, ss_pos, h, failRel_iff]
      exact ⟨by simp, by simp, by simp⟩
    | some t =>
      simp only [next_some h, ss_pos, h, okRel_iff]
      exact ⟨rfl, rfl, ⟨[], by simp⟩, rfl⟩
  | take2Fail msg =>
    simp only [runCustom, sCustom, failRel_iff]
    exact ⟨by simp, by simp, by simp⟩
  | nothing =>
    simp only [runCustom, sCustom, okRel_iff]
    exact ⟨rfl, rfl, ⟨[], by simp⟩, rfl⟩
  | failNow msg =>
    simp only [runCustom, sCustom, failRel_iff]
    exact ⟨by simp, by simp, by simp⟩

section
variable {N : NextRunner} {K : MkRunner} {SN : SNextRunner} {SK : SMkRunner}

theorem step_refines_prim (env : Env) (m : Mode) (st : St) (L : Nat) :
    ∀ g, (match g with
      | .end_ | .empty | .any | .just .. | .oneOf .. | .noneOf .. | .select .. | .custom .. | .todo
      | .configureJust .. => True
      | _ => False) →
    Refines m st.errs st.ctx (step R N K L env m g st) (pegStep P SN SK L env g st.ss st.ctx) := by
  intro g hg
  cases g <;> simp only at hg
  case end_ =>
    simp only [step, pegStep]
    cases h : env.toks[st.pos]? with
    | none =>
      simp only [next_none h, ss_pos, h, okRel_iff]
      exact ⟨(bind_unit m).symm, rfl, ⟨[], by simp⟩, rfl⟩
    | some t =>
      simp only [next_some h, ss_pos, h, failRel_iff]
      exact fail_after_rewind st (st1 := { st with pos := st.pos + 1, insp := st.insp ++ [t] })
        (List.prefix_refl _) rfl _ _ _
  case empty =>
    simp only [step, pegStep, okRel_iff]
    exact ⟨(bind_unit m).symm, rfl, ⟨[], by simp⟩, rfl⟩
  case any => exact tokenPrim_refines ..
  case just ts => exact step_refines_just ..
  case oneOf ts => exact tokenPrim_refines ..
  case noneOf ts => exact tokenPrim_refines ..
  case select ts => exact tokenPrim_refines ..
  case custom f => exact customFn_refines ..
  case todo => simp [step, pegStep, Refines]
  case configureJust c ts =>
    simp only [step, pegStep]
    exact step_refines_just ..

theorem step_refines_choice (hR : RunnerRefines R P) (env : Env) (hm : env.memoOn = false) (m : Mode) (st : St) (L : Nat) :
    ∀ g, (match g with
      | .group .. | .groupArr .. | .or_ .. | .choice .. => True
      | _ => False) →
    Refines m st.errs st.ctx (step R N K L env m g st) (pegStep P SN SK L env g st.ss st.ctx) := by
  intro g hg
  cases g <;> simp only at hg
  case group gs =>
    simp only [step, pegStep]
    exact groupLoop_refines hR env hm m st.errs st.ctx gs st [] [] [] [] (by simp) trivial rfl (fun _ => rfl)
  case groupArr gs =>
    simp only [step, pegStep]
    exact groupLoop_refines hR env hm m st.errs st.ctx gs st [] [] [] [] (by simp) trivial rfl (fun _ => rfl)
  case or_ a b =>
    simp only [step, pegStep]
    exact choiceTuple_refines hR env hm m st [a, b] st (SameAs.refl st) (by simp)
  case choice fl gs =>
    cases fl with
    | tuple =>
      match gs with
      | [] => simp [step, pegStep, Refines]
      | [g] =>
        simp only [step, pegStep, sChoice]
        have h := hR env m g st hm
        revert h
        cases R env m g st <;> cases P env g st.ss st.ctx <;> simp [Refines]
      | g1 :: g2 :: gs =>
        simp only [step, pegStep]
        exact choiceTuple_refines hR env hm m st (g1 :: g2 :: gs) st (SameAs.refl st) (by simp)
    | slice =>
      match gs with
      | [] =>
        simp only [step, pegStep, sChoice, failRel_iff]
        exact ⟨by simp, by simp, by simp⟩
      | g :: gs =>
        simp only [step, pegStep]
        exact choiceSlice_refines hR env hm m st (g :: gs) st (List.prefix_refl _) rfl (by simp)
end

section
variable {N : NextRunner} {K : MkRunner} {SN : SNextRunner} {SK : SMkRunner}

/-- a sub-run started from `st` with a different pending error -/
theorem RunnerRefines.withAlt (hR : RunnerRefines R P) {env : Env} (hm : env.memoOn = false) (m : Mode) (g : G)
    (st : St) (alt : Option Loc) :
    Refines m st.errs st.ctx (R env m g { st with alt := alt }) (P env g st.ss st.ctx) :=
  hR env m g { st with alt := alt } hm

theorem step_refines_value (hR : RunnerRefines R P) (env : Env) (hm : env.memoOn = false) (m : Mode) (st : St) (L : Nat) :
    ∀ g, (match g with
      | .map .. | .to .. | .ignored .. | .toSpan .. | .toSlice .. | .mapWithSpan .. | .mapWithState ..
      | .mapWithCtx .. | .validate .. | .tryMapWith .. | .boxed .. | .call .. | .memoized .. => True
      | _ => False) →
    Refines m st.errs st.ctx (step R N K L env m g st) (pegStep P SN SK L env g st.ss st.ctx) := by
  intro g hg
  cases g <;> simp only at hg
  case map f a =>
    simp only [step, pegStep]
    refine Refines.andThen0 (hR env m a st hm) ?_
    intro v st1 v' s1 e1 h1
    refine OkRel.mono h1 ?_
    cases m <;> simp [h1.val]
  case to v a =>
    simp only [step, pegStep]
    refine Refines.andThen0 (hR env .check a st hm) ?_
    intro v st1 v' s1 e1 h1
    exact OkRel.mono h1 rfl
  case ignored a =>
    simp only [step, pegStep]
    refine Refines.andThen0 (hR env .check a st hm) ?_
    intro v st1 v' s1 e1 h1
    exact OkRel.mono h1 (bind_unit m).symm
  case toSpan a =>
    simp only [step, pegStep]
    refine Refines.andThen0 (hR env m a st hm) ?_
    intro v st1 v' s1 e1 h1
    refine OkRel.mono h1 ?_
    simp [← h1.ss]
  case toSlice a =>
    simp only [step, pegStep]
    refine Refines.andThen0 (hR env .check a st hm) ?_
    intro v st1 v' s1 e1 h1
    refine OkRel.mono h1 ?_
    simp [← h1.ss]
  case mapWithSpan a =>
    simp only [step, pegStep]
    refine Refines.andThen0 (hR env m a st hm) ?_
    intro v st1 v' s1 e1 h1
    refine OkRel.mono h1 ?_
    cases m <;> simp [h1.val, ← h1.ss]
  case mapWithState a =>
    simp only [step, pegStep]
    refine Refines.andThen0 (hR env m a st hm) ?_
    intro v st1 v' s1 e1 h1
    refine OkRel.mono h1 ?_
    cases m <;> simp [h1.val, ← h1.ss]
  case mapWithCtx a =>
    simp only [step, pegStep]
    refine Refines.andThen0 (hR env m a st hm) ?_
    intro v st1 v' s1 e1 h1
    refine OkRel.mono h1 ?_
    cases m <;> simp [h1.val, h1.ctx]
  case validate f a =>
    simp only [step, pegStep]
    refine Refines.andThen0 (hR env .emit a st hm) ?_
    intro v st1 v' s1 e1 h1
    have hv : v = v' := by simpa using h1.val
    subst hv
    have hs1 : s1 = st1.ss := h1.ss.symm
    subst hs1
    simp only [okRel_iff, ss_pos]
    obtain ⟨new1, he1, hr1⟩ := h1.errs
    by_cases hp : f.emitIf.eval v = true
    · simp only [hp, if_true]
      refine ⟨rfl, rfl, ⟨new1 ++ List.replicate f.count
        ⟨st.pos, env.ek.userErr (env.mkSpan st.pos st1.pos) f.msg⟩, by simp [he1], hr1.append ?_⟩, h1.ctx⟩
      generalize f.count = n
      induction n with
      | zero => simp
      | succ n ih => exact ⟨rfl, ih⟩
    · simp only [hp]
      exact ⟨rfl, rfl, ⟨new1, he1, hr1⟩, h1.ctx⟩
  case tryMapWith f a =>
    simp only [step, pegStep]
    refine Refines.andThen0 (hR env .emit a st hm) ?_
    intro v st1 v' s1 e1 h1
    have hv : v = v' := by simpa using h1.val
    subst hv
    by_cases hp : f.rejectIf.eval v = true
    · simp only [hp, if_true, failRel_iff]
      obtain ⟨new1, he1, _⟩ := h1.errs
      exact ⟨by simp [he1], by simp [h1.ctx], by simp⟩
    · simp only [hp]
      exact OkRel.mono h1 rfl
  case boxed a =>
    simp only [step, pegStep]
    exact hR env m a st hm
  case call k =>
    simp only [step, pegStep]
    cases env.defs[k]? with
    | none => simp [Refines]
    | some d => exact hR env m d st hm
  case memoized id a =>
    simp only [step, pegStep, hm]
    exact hR env m a st hm
end

section
variable {N : NextRunner} {K : MkRunner} {SN : SNextRunner} {SK : SMkRunner}

theorem step_refines_look (hR : RunnerRefines R P) (env : Env) (hm : env.memoOn = false) (m : Mode) (st : St) (L : Nat) :
    ∀ g, (match g with
      | .orNot .. | .not_ .. | .andIs .. | .rewind .. | .filter .. | .tryMap .. => True
      | _ => False) →
    Refines m st.errs st.ctx (step R N K L env m g st) (pegStep P SN SK L env g st.ss st.ctx) := by
  intro g hg
  cases g <;> simp only at hg
  case orNot a =>
    simp only [step, pegStep]
    have h := hR env m a st hm
    revert h
    cases R env m a st <;> cases P env a st.ss st.ctx <;> simp [Refines]
    · intro h
      refine OkRel.mono h ?_
      cases m <;> simp [h.val]
    · intro hf
      exact ⟨rfl, rfl, ⟨[], by simp [take_of_prefix hf.errs]⟩, by simp [hf.ctx]⟩
  case not_ a =>
    simp only [step, pegStep]
    have h := hR.withAlt hm .check a st none
    revert h
    cases R env .check a { st with alt := none } <;> cases P env a st.ss st.ctx <;> simp [Refines]
    · intro h
      obtain ⟨new1, he1, _⟩ := h.errs
      refine ⟨?_, ?_, by simp⟩
      · simp [he1]
      · simp [h.ctx]
    · intro hf
      exact ⟨(bind_unit m).symm, rfl, ⟨[], by simp [take_of_prefix hf.errs]⟩, by simp [hf.ctx]⟩
  case andIs a b =>
    simp only [step, pegStep]
    have h := hR env m a st hm
    revert h
    cases hra : R env m a st <;> cases hpa : P env a st.ss st.ctx <;> simp [Refines, SOut.andThen]
    case ok.ok v st1 v' s1 e1 =>
      intro h1
      obtain ⟨new1, he1, hr1⟩ := h1.errs
      have hb := hR env .check b (st1.rewindInput st.save) hm
      simp only [rewindInput_errs, rewindInput_ctx, he1, h1.ctx] at hb
      have hss : (st1.rewindInput st.save).ss = st.ss := rfl
      rw [hss] at hb
      revert hb
      cases R env .check b (st1.rewindInput st.save) <;> cases P env b st.ss st.ctx <;> simp [Refines]
      · intro h2
        obtain ⟨new2, he2, hr2⟩ := h2.errs
        refine ⟨h1.val, ?_, ⟨new1 ++ new2, by simp [he2], hr1.append hr2⟩, by simp [h2.ctx]⟩
        simp [St.ss, ← h1.ss]
      · exact fun h => h.rebase
    case fail.fail st1 =>
      intro hf
      exact ⟨by simp [take_of_prefix hf.errs], by simp [hf.ctx], by simp [hf.alt]⟩
  case rewind a =>
    simp only [step, pegStep]
    have h := hR env m a st hm
    revert h
    cases R env m a st <;> cases P env a st.ss st.ctx <;> simp [Refines, SOut.andThen]
    · intro h
      exact ⟨h.val, rfl, by simpa using h.errs, by simp [h.ctx]⟩
  case filter p a =>
    simp only [step, pegStep]
    refine Refines.andThen0 (hR env .emit a st hm) ?_
    intro v st1 v' s1 e1 h1
    have hv : v = v' := by simpa using h1.val
    subst hv
    by_cases hp : p.eval v = true
    · simp only [hp, if_true]
      exact OkRel.mono h1 rfl
    · simp only [hp]
      obtain ⟨new1, he1, _⟩ := h1.errs
      exact fail_after_rewind st (by simp [he1]) h1.ctx _ _ _
  case tryMap f a =>
    simp only [step, pegStep]
    have h := hR.withAlt hm .emit a st none
    revert h
    cases R env .emit a { st with alt := none } <;> cases P env a st.ss st.ctx <;> simp [Refines, SOut.andThen]
    case ok.ok v st1 v' s1 e1 =>
      intro h1
      have hv : v = v' := by simpa using h1.val
      subst hv
      obtain ⟨new1, he1, hr1⟩ := h1.errs
      by_cases hp : f.rejectIf.eval v = true
      · simp only [hp, if_true, failRel_iff]
        exact ⟨by simp [he1], by simp [h1.ctx], by simp⟩
      · simp only [hp, okRel_iff]
        exact ⟨rfl, by simp [St.ss, ← h1.ss], ⟨new1, by simp [he1], hr1⟩, by simp [h1.ctx]⟩
    case fail.fail st1 =>
      intro hf
      exact ⟨by simp [hf.errs], by simp [hf.ctx], by simp [readdAlt_alt_isSome, hf.alt]⟩
end

def SOut.restoreInsp (insp : List Nat) : SOut → SOut
  | .ok v s1 e1 => .ok v ⟨s1.pos, insp⟩ e1
  | o => o

theorem Refines.restoreInsp {m base ctx o so} (insp : List Nat) (h : Refines m base ctx o so) :
    Refines m base ctx (o.restoreInsp insp) (so.restoreInsp insp) := by
  cases o <;> cases so <;> simp only [Refines, Out.restoreInsp, SOut.restoreInsp] at h ⊢ <;> try exact h
  · exact ⟨h.val, by simp [St.ss, ← h.ss], h.errs, h.ctx⟩
  · exact ⟨h.errs, h.ctx, h.alt⟩

theorem emRel_inCtx {env : Env} {l : Loc} {e : Emis} (lbl start : Nat) (h : EmRel l e) :
    EmRel ⟨l.pos, env.ek.inContext l.err lbl (env.mkSpan start l.pos)⟩ (Emis.inCtx env lbl start e) := by
  cases e with
  | user u => simp [EmRel] at h; subst h; simp [EmRel, Emis.inCtx]
  | recovered p => simp [EmRel] at h; simp [EmRel, Emis.inCtx, h]

theorem emsRel_inCtx {env : Env} {ls : List Loc} {es : List Emis} (lbl start : Nat) (h : EmsRel ls es) :
    EmsRel (ls.map fun l => ⟨l.pos, env.ek.inContext l.err lbl (env.mkSpan start l.pos)⟩)
      (es.map (Emis.inCtx env lbl start)) := by
  induction ls generalizing es with
  | nil => cases es <;> simp_all [EmsRel]
  | cons l ls ih =>
    cases es with
    | nil => simp [EmsRel] at h
    | cons e es => exact ⟨emRel_inCtx lbl start h.1, ih h.2⟩

theorem ctxSecondary_append (env : Env) (l start : Nat) (base new : List Loc) :
    ctxSecondary env l start base.length (base ++ new) =
      base ++ new.map fun e => ⟨e.pos, env.ek.inContext e.err l (env.mkSpan start e.pos)⟩ := by
  simp [ctxSecondary]

theorem RunnerRefines.atCtx (hR : RunnerRefines R P) {env : Env} (hm : env.memoOn = false)
    {m' m : Mode} {base ctx v st1 v' s1 e1} (g : G) (cv : Val) (h : OkRel m' base ctx v st1 v' s1 e1) :
    ∃ new1, st1.errs = base ++ new1 ∧ EmsRel new1 e1 ∧
      Refines m (base ++ new1) ctx ((R env m g { st1 with ctx := cv }).restoreCtx ctx) (P env g s1 cv) := by
  obtain ⟨new1, he, hr⟩ := h.errs
  refine ⟨new1, he, hr, ?_⟩
  have key : ∀ (b : List Loc) (s : SS), st1.errs = b → st1.ss = s →
      Refines m b ctx ((R env m g { st1 with ctx := cv }).restoreCtx ctx) (P env g s cv) := by
    intro b s hb hs
    subst hb; subst hs
    exact (hR env m g { st1 with ctx := cv } hm).restoreCtx
  exact key _ _ he h.ss

section
variable {N : NextRunner} {K : MkRunner} {SN : SNextRunner} {SK : SMkRunner}

theorem step_refines_ctx (hR : RunnerRefines R P) (env : Env) (hm : env.memoOn = false) (m : Mode) (st : St) (L : Nat) :
    ∀ g, (match g with
      | .withCtx .. | .ignoreWithCtx .. | .thenWithCtx .. | .mapCtx .. | .withState .. => True
      | _ => False) →
    Refines m st.errs st.ctx (step R N K L env m g st) (pegStep P SN SK L env g st.ss st.ctx) := by
  intro g hg
  cases g <;> simp only at hg
  case withCtx cv a =>
    simp only [step, pegStep]
    exact (hR env m a { st with ctx := cv } hm).restoreCtx
  case mapCtx f a =>
    simp only [step, pegStep]
    exact (hR env m a { st with ctx := f.eval st.ctx } hm).restoreCtx
  case ignoreWithCtx a b =>
    simp only [step, pegStep]
    refine Refines.andThen0 (hR env .emit a st hm) ?_
    intro va st1 va' s1 e1 h1
    have hv : va = va' := by simpa using h1.val
    subst hv
    obtain ⟨new1, he1, hr1, hb⟩ := hR.atCtx hm (m := m) b va h1
    have : ∀ o so, Refines m (st.errs ++ new1) st.ctx o so →
        Refines m st.errs st.ctx o (so.andThen fun vb s2 e2 => SOut.ok vb s2 (e1 ++ e2)) := by
      intro o so h
      cases o <;> cases so <;> simp_all [Refines, SOut.andThen]
      · exact OkRel.seq hr1 h h.val
      · exact h.rebase
    exact this _ _ hb
  case thenWithCtx a b =>
    simp only [step, pegStep]
    refine Refines.andThen0 (hR env .emit a st hm) ?_
    intro va st1 va' s1 e1 h1
    have hv : va = va' := by simpa using h1.val
    subst hv
    obtain ⟨new1, he1, hr1, hb⟩ := hR.atCtx hm (m := m) b va h1
    refine Refines.andThen hb ?_
    intro vb st2 vb' s2 e2 h2
    refine OkRel.seq hr1 h2 ?_
    cases m <;> simp [h2.val]
  case withState a =>
    simp only [step, pegStep]
    have h := (hR env m a { st with insp := [] } hm).restoreInsp st.insp
    have e : ∀ so : SOut, (so.andThen fun v s1 e1 => SOut.ok v ⟨s1.pos, st.insp⟩ e1) = so.restoreInsp st.insp := by
      intro so; cases so <;> rfl
    simp only [ss_pos, ss_insp]
    rw [e]
    exact h
end

end Chumsky
