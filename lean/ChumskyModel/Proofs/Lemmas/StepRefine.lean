import ChumskyModel.Proofs.Lemmas.Refine
namespace Chumsky

variable {R : Runner} {P : SRunner}

theorem ok_refl {m base ctx v st} : OkRel m base ctx (m.bind v) st v st.ss [] ↔
    (st.errs = base ∧ st.ctx = ctx) := by
  constructor
  · intro h
    obtain ⟨new, he, hr⟩ := h.errs
    have := EmsRel.nil_right hr
    subst this
    exact ⟨by simpa using he, h.ctx⟩
  · intro ⟨h1, h2⟩
    exact ⟨rfl, rfl, ⟨[], by simp [h1]⟩, h2⟩

@[simp] theorem failRel_iff {base ctx st'} : Refines m base ctx (.fail st') .fail ↔ FailRel base ctx st' := Iff.rfl
@[simp] theorem okRel_iff {m base ctx v st' v' s' em} :
    Refines m base ctx (.ok v st') (.ok v' s' em) ↔ OkRel m base ctx v st' v' s' em := Iff.rfl
@[simp] theorem refines_ok_fail {m base ctx v st'} : Refines m base ctx (.ok v st') .fail ↔ False := Iff.rfl
@[simp] theorem refines_fail_ok {m base ctx st' v' s' em} : Refines m base ctx (.fail st') (.ok v' s' em) ↔ False := Iff.rfl

/-- a failure reported after rewinding to a checkpoint taken at `st` -/
theorem fail_after_rewind' {env : Env} (st : St) {st1 : St} {base : List Loc} {ctx : Val}
    (hp : st.errs <+: st1.errs) (hc : st1.ctx = ctx) (hb : st.errs = base) (e f s) :
    FailRel base ctx (St.addAlt env (st1.rewind st.save) e f s) :=
  ⟨by subst hb; simp [take_of_prefix hp], by simp [hc], by simp⟩

theorem fail_after_rewind {env : Env} (st : St) {st1 : St} (hp : st.errs <+: st1.errs)
    (hc : st1.ctx = st.ctx) (e f s) :
    FailRel st.errs st.ctx (St.addAlt env (st1.rewind st.save) e f s) :=
  fail_after_rewind' st hp hc rfl e f s

theorem tokenPrim_refines (env : Env) (m : Mode) (st : St) (accept : Nat → Option Val) (exp : List Pat) :
    Refines m st.errs st.ctx (tokenPrim env m st accept exp) (sTokenPrim env st.ss accept) := by
  unfold tokenPrim sTokenPrim
  cases h : env.toks[st.pos]? with
  | none =>
    simp only [next_none h, ss_pos, h, Option.bind_none, failRel_iff]
    exact fail_after_rewind st (List.prefix_refl _) rfl _ _ _
  | some t =>
    simp only [next_some h, ss_pos, h, Option.bind_some]
    cases ha : accept t with
    | none =>
      simp only [failRel_iff]
      exact fail_after_rewind st (st1 := { st with pos := st.pos + 1, insp := st.insp ++ [t] })
        (List.prefix_refl _) rfl _ _ _
    | some v =>
      simp only [okRel_iff]
      exact ⟨rfl, rfl, ⟨[], by simp⟩, rfl⟩

/-- `just(seq)`: element-wise walk -/
theorem justRun_refines (env : Env) (ts : List Nat) : ∀ (st st0 : St), st0.errs = st.errs → st0.ctx = st.ctx →
    match justRun env ts st0, sJust env ts st0.ss with
    | .inr st', some s' => st'.ss = s' ∧ st'.errs = st.errs ∧ st'.ctx = st.ctx
    | .inl st', none => FailRel st.errs st.ctx st'
    | _, _ => False := by
  induction ts with
  | nil => intro st st0 h1 h2; simp [justRun, sJust, h1, h2]
  | cons e es ih =>
    intro st st0 h1 h2
    unfold justRun sJust
    cases h : env.toks[st0.pos]? with
    | none =>
      simp only [next_none h, ss_pos, h]
      have : ((none : Option Nat) == some e) = false := rfl
      simp only [this, Bool.false_eq_true, if_false]
      exact fail_after_rewind' (env := env) st0 (st1 := st0) (List.prefix_refl _) h2 h1 _ _ _
    | some t =>
      simp only [next_some h, ss_pos, h]
      by_cases hte : t = e
      · subst hte
        simp only [BEq.rfl, if_true]
        exact ih st _ h1 h2
      · have h3 : (some t == some e) = false := by simp [hte]
        have h4 : (t == e) = false := by simp [hte]
        simp only [h3, h4, Bool.false_eq_true, if_false]
        exact fail_after_rewind' (env := env) st0 (st1 := { st0 with pos := st0.pos + 1, insp := st0.insp ++ [t] })
          (List.prefix_refl _) h2 h1 _ _ _

theorem step_refines_just (env : Env) (m : Mode) (ts : List Nat) (st : St) :
    Refines m st.errs st.ctx
      (match justRun env ts st with
        | .inr st' => .ok (m.bind (.toks ts)) st'
        | .inl st' => .fail st')
      (match sJust env ts st.ss with
        | some s' => .ok (.toks ts) s' []
        | none => .fail) := by
  have := justRun_refines env ts st st rfl rfl
  revert this
  cases justRun env ts st <;> cases sJust env ts st.ss <;> simp
  intro h1 h2 h3
  exact ⟨rfl, h1, ⟨[], by simp [h2]⟩, h3⟩

end Chumsky
