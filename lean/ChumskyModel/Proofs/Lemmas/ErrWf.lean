/-
  Proofs/Lemmas/ErrWf.lean — the errors the machine records tell the truth about the input (C06, third sentence).

  For inputs whose spans are computed from token indices (`slice`, `str`; not `mapped`), the `Rich` error kind
  and every grammar of the class `c06` ∧ `nec` (no empty slice `choice`):

    every pending primary error `l` (and every secondary error) satisfies `LocWf`:
      `l.pos ≤ length`, `span.1 ≤ span.2 ≤ off length`, and for an expected/found reason the span starts at the
      offset of `l.pos` and `found = toks[l.pos]?` (so `found = none` only at the end of input).

  Layout: span arithmetic; `LocWf` and the events that produce it; the priority merge preserves it; the state
  invariant `WfInv`; one lemma per loop helper; `step` / `stepNext` / `stepMk` by open recursion; induction on
  the fuel; top level.
-/
import ChumskyModel.Proofs.Lemmas.AltInv
set_option linter.unusedSimpArgs false
set_option linter.unusedVariables false
namespace Chumsky

/-! ### 1. span arithmetic -/

theorem strOff_zero (l : List Nat) : strOff l 0 = 0 := by
  cases l <;> rfl

theorem strOff_mono : ∀ (l : List Nat) (i j : Nat), i ≤ j → strOff l i ≤ strOff l j := by
  intro l
  induction l with
  | nil =>
    intro i j _
    cases i <;> cases j <;> simp [strOff]
  | cons c cs ih =>
    intro i j hij
    cases i with
    | zero => rw [strOff_zero]; exact Nat.zero_le _
    | succ i =>
      cases j with
      | zero => omega
      | succ j =>
        simp only [strOff]
        have := ih i j (by omega)
        omega

/-- `strOff` stops growing past the end of the list -/
theorem strOff_ge_length : ∀ (l : List Nat) (i : Nat), l.length ≤ i → strOff l i = strOff l l.length := by
  intro l
  induction l with
  | nil => intro i _; cases i <;> rfl
  | cons c cs ih =>
    intro i hi
    cases i with
    | zero => simp at hi
    | succ i =>
      simp only [strOff, List.length_cons]
      rw [ih i (by simpa using hi)]

theorem utf8w_pos (c : Nat) : 0 < utf8w c := by
  unfold utf8w
  split
  · omega
  · split
    · omega
    · split <;> omega

/-- inside the input `strOff` is strictly increasing (every character is at least one byte wide) -/
theorem strOff_strict : ∀ (l : List Nat) (i j : Nat), i < j → j ≤ l.length → strOff l i < strOff l j := by
  intro l
  induction l with
  | nil => intro i j hij hj; simp at hj; omega
  | cons c cs ih =>
    intro i j hij hj
    cases j with
    | zero => omega
    | succ j =>
      cases i with
      | zero =>
        rw [strOff_zero]
        simp only [strOff]
        have := utf8w_pos c
        omega
      | succ i =>
        simp only [strOff]
        have := ih i j (by omega) (by simpa using hj)
        omega

/-- for `slice` and `str` inputs a span is the pair of the offsets of its two cursors -/
theorem Env.mkSpan_eq {env : Env} (hk : env.kind ≠ .mapped) (i j : Nat) :
    env.mkSpan i j = (env.off i, env.off j) := by
  unfold Env.mkSpan Env.off
  cases h : env.kind with
  | slice => rfl
  | str => rfl
  | mapped => exact absurd h hk

theorem Env.off_mono (env : Env) {i j : Nat} (h : i ≤ j) : env.off i ≤ env.off j := by
  unfold Env.off
  cases env.kind with
  | slice => exact h
  | str => exact strOff_mono _ _ _ h
  | mapped => exact h

/-- offsets are injective on positions inside the input (`slice`: identity; `str`: strictly increasing) -/
theorem Env.off_strict (env : Env) {i j : Nat} (h : i < j) (hj : j ≤ env.toks.length) : env.off i < env.off j := by
  unfold Env.off
  cases env.kind with
  | slice => exact h
  | str => exact strOff_strict _ _ _ h hj
  | mapped => exact h

/-- **span facts**: a span between two cursors `i ≤ j ≤ length` is ordered and lies inside the input -/
theorem Env.mkSpan_wf {env : Env} (hk : env.kind ≠ .mapped) {i j : Nat} (hij : i ≤ j)
    (hj : j ≤ env.toks.length) :
    (env.mkSpan i j).1 ≤ (env.mkSpan i j).2 ∧ (env.mkSpan i j).2 ≤ env.off env.toks.length := by
  rw [Env.mkSpan_eq hk]
  exact ⟨env.off_mono hij, env.off_mono hj⟩

theorem getElem?_none_iff_end (env : Env) (p : Nat) : env.toks[p]? = none ↔ env.toks.length ≤ p :=
  List.getElem?_eq_none_iff

/-! ### 2. well-formed errors -/

/-- a pending/logged error that tells the truth about the input -/
structure LocWf (env : Env) (l : Loc) : Prop where
  pos_le : l.pos ≤ env.toks.length
  ordered : l.err.span.1 ≤ l.err.span.2
  inside : l.err.span.2 ≤ env.off env.toks.length
  /-- expected/found reasons: the span starts at the failure position and `found` is the token there
      (`none` iff end of input) -/
  ef : ∀ exp fo, l.err.reason = .ef exp fo → l.err.span.1 = env.off l.pos ∧ fo = env.toks[l.pos]?

/-- `found = none` only when the failure is at the end of input -/
theorem LocWf.found_none {env : Env} {l : Loc} (h : LocWf env l) {exp : List Pat}
    (hr : l.err.reason = .ef exp none) : l.pos = env.toks.length := by
  have := (h.ef exp none hr).2
  have := (getElem?_none_iff_end env l.pos).mp this.symm
  have := h.pos_le
  omega

/-- an expected/found event at `p` whose span starts at `p` and whose `found` is the token at `p` -/
theorem LocWf.efEvent {env : Env} (hk : env.kind ≠ .mapped) (hek : env.ek = .rich) {p j : Nat} (hpj : p ≤ j)
    (hj : j ≤ env.toks.length) (exp : List Pat) :
    LocWf env ⟨p, env.ek.expectedFound exp env.toks[p]? (env.mkSpan p j)⟩ := by
  rw [hek]
  obtain ⟨h1, h2⟩ := Env.mkSpan_wf hk hpj hj
  refine ⟨by show p ≤ _; omega, h1, h2, ?_⟩
  intro exp' fo hr
  simp only [ErrKind.expectedFound, Reason.ef.injEq] at hr
  refine ⟨?_, hr.2.symm⟩
  show (env.mkSpan p j).1 = env.off p
  rw [Env.mkSpan_eq hk]

/-- a user (custom) error recorded at `p` with the span between two cursors -/
theorem LocWf.userEvent {env : Env} (hk : env.kind ≠ .mapped) (hek : env.ek = .rich) {i j p : Nat} (hij : i ≤ j)
    (hj : j ≤ env.toks.length) (hp : p ≤ env.toks.length) (msg : Nat) :
    LocWf env ⟨p, env.ek.userErr (env.mkSpan i j) msg⟩ := by
  rw [hek]
  obtain ⟨h1, h2⟩ := Env.mkSpan_wf hk hij hj
  refine ⟨hp, h1, h2, ?_⟩
  intro exp' fo hr
  simp [ErrKind.userErr] at hr

/-- the pending primary error is well formed -/
def AltWf (env : Env) (st : St) : Prop := ∀ l, st.alt = some l → LocWf env l
/-- every secondary error is well formed -/
def ErrsWf (env : Env) (st : St) : Prop := ∀ l ∈ st.errs, LocWf env l

def OptLocWf (env : Env) (o : Option Loc) : Prop := ∀ l, o = some l → LocWf env l

theorem OptLocWf.none (env : Env) : OptLocWf env none := fun _ h => by cases h
theorem OptLocWf.some {env : Env} {l : Loc} (h : LocWf env l) : OptLocWf env (some l) :=
  fun _ h' => by cases h'; exact h

/-! ### the priority merge preserves well-formedness -/

theorem merge_rich_wf {env : Env} {a : Loc} (ha : LocWf env a) {e : Err} (he : LocWf env ⟨a.pos, e⟩) :
    LocWf env ⟨a.pos, ErrKind.rich.merge a.err e⟩ := by
  refine ⟨ha.pos_le, ha.ordered, ha.inside, ?_⟩
  intro exp fo hr
  show a.err.span.1 = _ ∧ _
  simp only [ErrKind.merge] at hr
  cases har : a.err.reason with
  | custom m => rw [har] at hr; simp [Reason.flatMerge] at hr
  | ef ea fa =>
    rw [har] at hr
    cases her : e.reason with
    | custom m => rw [her] at hr; simp [Reason.flatMerge] at hr
    | ef eb fb =>
      rw [her] at hr
      simp only [Reason.flatMerge] at hr
      have hfo : fo = fa.or fb := by
        split at hr <;> (simp only [Reason.ef.injEq] at hr; exact hr.2.symm)
      -- both errors are truthful about the token at the (common) position, so either `found` will do
      have h1 := (ha.ef ea fa har).2
      have h2 : fb = env.toks[a.pos]? := (he.ef eb fb her).2
      refine ⟨(ha.ef ea fa har).1, ?_⟩
      rw [hfo, h1, h2]; cases env.toks[a.pos]? <;> rfl

theorem mergeAlt_wf {env : Env} (hek : env.ek = .rich) {alt : Option Loc} (ha : OptLocWf env alt) {p : Nat}
    {e : Err} (he : LocWf env ⟨p, e⟩) : OptLocWf env (St.mergeAlt env.ek alt p e) := by
  rw [hek]
  cases alt with
  | none => exact OptLocWf.some he
  | some a =>
    have haw := ha a rfl
    rcases Nat.lt_trichotomy a.pos p with h | h | h
    · rw [mergeAlt_some_lt _ _ _ _ h]; exact OptLocWf.some he
    · rw [mergeAlt_some_eq _ _ _ _ h]; exact OptLocWf.some (merge_rich_wf haw (by rw [h]; exact he))
    · rw [mergeAlt_some_gt _ _ _ _ h]; exact OptLocWf.some haw

theorem Option.or_self' {α : Type} (x : Option α) : x.or x = x := by cases x <;> rfl

theorem mergeEF_rich_wf {env : Env} {a : Loc} (ha : LocWf env a) (exp : List Pat) (found : Option Nat)
    (span : Nat × Nat) (hf : found = env.toks[a.pos]?) :
    LocWf env ⟨a.pos, ErrKind.rich.mergeEF a.err exp found span⟩ := by
  simp only [ErrKind.mergeEF]
  cases har : a.err.reason with
  | custom m =>
    simp only []
    exact ⟨ha.pos_le, ha.ordered, ha.inside, ha.ef⟩
  | ef ea fa =>
    simp only []
    refine ⟨ha.pos_le, ha.ordered, ha.inside, ?_⟩
    intro exp' fo hr
    simp only [Reason.ef.injEq] at hr
    obtain ⟨h1, h2⟩ := ha.ef ea fa har
    refine ⟨h1, ?_⟩
    rw [← hr.2, hf, h2]
    exact Option.or_self' _

theorem addAlt_alt_rich {env : Env} (hek : env.ek = .rich) (st : St) (exp : List Pat) (found : Option Nat)
    (span : Nat × Nat) :
    (st.addAlt env exp found span).alt =
      match st.alt with
      | none => some ⟨st.pos, ErrKind.rich.expectedFound exp found span⟩
      | some a =>
        if a.pos == st.pos then some ⟨a.pos, ErrKind.rich.mergeEF a.err exp found span⟩
        else if a.pos > st.pos then some a
        else some ⟨st.pos, ErrKind.rich.expectedFound exp found span⟩ := by
  simp only [St.addAlt, hek]
  rfl

/-- `add_alt` (with its fast paths) keeps the pending error well formed -/
theorem addAlt_altWf {env : Env} (hek : env.ek = .rich) {st : St} (hs : AltWf env st) (exp : List Pat)
    (found : Option Nat) (span : Nat × Nat)
    (hev : LocWf env ⟨st.pos, env.ek.expectedFound exp found span⟩) :
    AltWf env (st.addAlt env exp found span) := by
  unfold AltWf
  rw [addAlt_alt_rich hek]
  rw [hek] at hev
  have hf : found = env.toks[st.pos]? := (hev.ef exp found rfl).2
  cases hsa : st.alt with
  | none => exact OptLocWf.some hev
  | some a =>
    have haw := hs a hsa
    simp only []
    by_cases h1 : a.pos = st.pos
    · simp only [h1, beq_self_eq_true, if_true]
      have := mergeEF_rich_wf haw exp found span (by rw [h1]; exact hf)
      rw [h1] at this
      exact OptLocWf.some this
    · have : (a.pos == st.pos) = false := by simpa using h1
      simp only [this, Bool.false_eq_true, if_false]
      split
      · exact OptLocWf.some haw
      · exact OptLocWf.some hev

theorem addAltErr_altWf {env : Env} (hek : env.ek = .rich) {st : St} (hs : AltWf env st) {p : Nat} {e : Err}
    (hev : LocWf env ⟨p, e⟩) : AltWf env (st.addAltErr env p e) := by
  unfold AltWf
  rw [St.addAltErr_alt (by rw [hek]; decide)]
  exact mergeAlt_wf hek hs hev

theorem readdAlt_altWf {env : Env} (hek : env.ek = .rich) {st : St} (hs : AltWf env st) {new : Option Loc}
    (hn : OptLocWf env new) : AltWf env (St.readdAlt env st new) := by
  cases new with
  | none => exact hs
  | some n =>
    unfold AltWf
    rw [St.readdAlt_alt (by rw [hek]; decide)]
    exact mergeAlt_wf hek hs (hn n rfl)


/-! ### 3. the syntactic class: `c06` and no empty slice `choice` -/

def necChoice : ChoiceFlavour → Bool → Bool
  | .slice, true => false
  | _, _ => true

mutual
/-- `false` exactly when `.choice .slice []` occurs anywhere inside: `choice` over an empty `Vec` / slice records
    `found = None` at the current position even in the middle of the input -/
def G.nec : G → Bool
  | .end_ => true
  | .empty => true
  | .any => true
  | .just _ => true
  | .oneOf _ => true
  | .noneOf _ => true
  | .select _ => true
  | .custom _ => true
  | .todo => true
  | .then_ a b => a.nec && b.nec
  | .ignoreThen a b => a.nec && b.nec
  | .thenIgnore a b => a.nec && b.nec
  | .delimitedBy a l r => a.nec && (l.nec && r.nec)
  | .paddedBy a p => a.nec && p.nec
  | .group gs => necL gs
  | .groupArr gs => necL gs
  | .or_ a b => a.nec && b.nec
  | .choice fl gs => necChoice fl gs.isEmpty && necL gs
  | .orNot a => a.nec
  | .not_ a => a.nec
  | .andIs a b => a.nec && b.nec
  | .rewind a => a.nec
  | .map _ a => a.nec
  | .to _ a => a.nec
  | .ignored a => a.nec
  | .filter _ a => a.nec
  | .tryMap _ a => a.nec
  | .tryMapWith _ a => a.nec
  | .toSpan a => a.nec
  | .toSlice a => a.nec
  | .mapWithSpan a => a.nec
  | .mapWithState a => a.nec
  | .mapWithCtx a => a.nec
  | .validate _ a => a.nec
  | .collect _ it => it.nec
  | .collectExactly _ it => it.nec
  | .foldl _ a it => a.nec && it.nec
  | .foldr _ it b => it.nec && b.nec
  | .foldlWith a it => a.nec && it.nec
  | .foldrWith it b => it.nec && b.nec
  | .iterP it => it.nec
  | .recoverVia a r => a.nec && r.nec
  | .recoverSkipUntil a s u _ => a.nec && (s.nec && u.nec)
  | .recoverSkipRetry a s u => a.nec && (s.nec && u.nec)
  | .labelled _ _ a => a.nec
  | .mapErr _ a => a.nec
  | .withCtx _ a => a.nec
  | .ignoreWithCtx a b => a.nec && b.nec
  | .thenWithCtx a b => a.nec && b.nec
  | .mapCtx _ a => a.nec
  | .configureJust _ _ => true
  | .withState a => a.nec
  | .memoized _ a => a.nec
  | .call _ => true
  | .boxed a => a.nec
def It.nec : It → Bool
  | .repeated a _ _ => a.nec
  | .separatedBy a sep _ _ _ _ => a.nec && sep.nec
  | .enumerate it => it.nec
  | .orNotIt a => a.nec
  | .intoIter a => a.nec
  | .thenIt a b => a.nec && b.nec
  | .mapIt _ it => it.nec
  | .configureRep _ it => it.nec
  | .tryConfigureRep _ it => it.nec
def necL : List G → Bool
  | [] => true
  | g :: gs => g.nec && necL gs
end

/-! ### the state invariant -/

/-- the cursor is inside the input, the pending error and all secondary errors are well formed -/
structure WfInv (env : Env) (st : St) : Prop where
  pos : st.pos ≤ env.toks.length
  alt : AltWf env st
  errs : ErrsWf env st

theorem WfInv.init (env : Env) : WfInv env St.init :=
  ⟨Nat.zero_le _, fun _ h => (by cases h), fun _ h => (by cases h)⟩

/-- only `pos`, `alt` and `errs` matter -/
theorem WfInv.congr {env : Env} {st st' : St} (h : WfInv env st) (hp : st'.pos = st.pos)
    (ha : st'.alt = st.alt) (he : st'.errs = st.errs) : WfInv env st' :=
  ⟨by rw [hp]; exact h.pos, by unfold AltWf; rw [ha]; exact h.alt, by unfold ErrsWf; rw [he]; exact h.errs⟩

theorem WfInv.rewind {env : Env} {st : St} (h : WfInv env st) (c : Chk) (hc : c.pos ≤ env.toks.length) :
    WfInv env (st.rewind c) :=
  ⟨hc, h.alt, fun l hl => h.errs l (List.mem_of_mem_take hl)⟩

theorem WfInv.rewindInput {env : Env} {st : St} (h : WfInv env st) (c : Chk) (hc : c.pos ≤ env.toks.length) :
    WfInv env (st.rewindInput c) :=
  ⟨hc, h.alt, h.errs⟩

/-- sheltering: run from `alt := none` -/
theorem WfInv.noAlt {env : Env} {st : St} (h : WfInv env st) : WfInv env { st with alt := none } :=
  ⟨h.pos, fun _ h' => (by cases h'), h.errs⟩

/-- … and put the old pending error back -/
theorem WfInv.withAlt {env : Env} {st st1 : St} (h : WfInv env st) (h1 : WfInv env st1) :
    WfInv env { st1 with alt := st.alt } :=
  ⟨h1.pos, h.alt, h1.errs⟩

theorem St.ew_next_fst (env : Env) (st : St) : (st.next env).1 = env.toks[st.pos]? := by
  unfold St.next; split <;> simp_all
theorem St.ew_next_pos_ge (env : Env) (st : St) : st.pos ≤ (st.next env).2.pos := by
  unfold St.next; split <;> simp
theorem St.ew_next_pos_le (env : Env) (st : St) (h : st.pos ≤ env.toks.length) :
    (st.next env).2.pos ≤ env.toks.length := by
  unfold St.next
  split
  · next t ht =>
    obtain ⟨hlt, _⟩ := List.getElem?_eq_some_iff.mp ht
    exact hlt
  · exact h
theorem St.ew_next_errs (env : Env) (st : St) : (st.next env).2.errs = st.errs := by
  unfold St.next; split <;> rfl

theorem WfInv.next {env : Env} {st : St} (h : WfInv env st) : WfInv env (st.next env).2 :=
  ⟨St.ew_next_pos_le env st h.pos, by unfold AltWf; rw [St.next_alt]; exact h.alt,
   by unfold ErrsWf; rw [St.ew_next_errs]; exact h.errs⟩

theorem St.ew_addAlt_pos (env : Env) (st : St) (e f s) : (st.addAlt env e f s).pos = st.pos := by
  unfold St.addAlt; split <;> rfl
theorem St.ew_addAlt_errs (env : Env) (st : St) (e f s) : (st.addAlt env e f s).errs = st.errs := by
  unfold St.addAlt; split <;> rfl
theorem St.ew_addAltErr_pos (env : Env) (st : St) (a e) : (st.addAltErr env a e).pos = st.pos := by
  unfold St.addAltErr; split <;> rfl
theorem St.ew_addAltErr_errs (env : Env) (st : St) (a e) : (st.addAltErr env a e).errs = st.errs := by
  unfold St.addAltErr; split <;> rfl
theorem St.ew_readdAlt_pos (env : Env) (st : St) (n) : (St.readdAlt env st n).pos = st.pos := by
  unfold St.readdAlt; split; rfl; split <;> rfl
theorem St.ew_readdAlt_errs (env : Env) (st : St) (n) : (St.readdAlt env st n).errs = st.errs := by
  unfold St.readdAlt; split; rfl; split <;> rfl

theorem WfInv.addAlt {env : Env} (hek : env.ek = .rich) {st : St} (hs : WfInv env st) (exp : List Pat)
    (found : Option Nat) (span : Nat × Nat)
    (hev : LocWf env ⟨st.pos, env.ek.expectedFound exp found span⟩) :
    WfInv env (st.addAlt env exp found span) :=
  ⟨by rw [St.ew_addAlt_pos]; exact hs.pos, addAlt_altWf hek hs.alt exp found span hev,
   by unfold ErrsWf; rw [St.ew_addAlt_errs]; exact hs.errs⟩

theorem WfInv.addAltErr {env : Env} (hek : env.ek = .rich) {st : St} (hs : WfInv env st) {p : Nat} {e : Err}
    (hev : LocWf env ⟨p, e⟩) : WfInv env (st.addAltErr env p e) :=
  ⟨by rw [St.ew_addAltErr_pos]; exact hs.pos, addAltErr_altWf hek hs.alt hev,
   by unfold ErrsWf; rw [St.ew_addAltErr_errs]; exact hs.errs⟩

theorem WfInv.readdAlt {env : Env} (hek : env.ek = .rich) {st : St} (hs : WfInv env st) {new : Option Loc}
    (hn : OptLocWf env new) : WfInv env (St.readdAlt env st new) :=
  ⟨by rw [St.ew_readdAlt_pos]; exact hs.pos, readdAlt_altWf hek hs.alt hn,
   by unfold ErrsWf; rw [St.ew_readdAlt_errs]; exact hs.errs⟩

/-- the failure of a one-token primitive: pull a token, rewind, report `found` = what was pulled with the span
    of what was pulled -/
theorem pullFail_WF {env : Env} (hk : env.kind ≠ .mapped) (hek : env.ek = .rich) {st : St} (hs : WfInv env st)
    (exp : List Pat) :
    WfInv env (((st.next env).2.rewind st.save).addAlt env exp (st.next env).1
      (env.mkSpan st.save.pos (st.next env).2.pos)) := by
  refine WfInv.addAlt hek (hs.next.rewind _ hs.pos) _ _ _ ?_
  show LocWf env ⟨st.pos, env.ek.expectedFound exp (st.next env).1 (env.mkSpan st.pos (st.next env).2.pos)⟩
  rw [St.ew_next_fst]
  exact LocWf.efEvent hk hek (St.ew_next_pos_ge env st) (St.ew_next_pos_le env st hs.pos) exp

/-! ### result predicates (relative to the start position `p`: successful runs do not move backwards) -/

def Out.WF (env : Env) (p : Nat) : Out → Prop
  | .ok _ st' => p ≤ st'.pos ∧ WfInv env st'
  | .fail st' => WfInv env st'
  | _ => True

def ItOut.WF (env : Env) (p : Nat) : ItOut → Prop
  | .some _ st' _ => p ≤ st'.pos ∧ WfInv env st'
  | .done st' _ => p ≤ st'.pos ∧ WfInv env st'
  | .fail st' => WfInv env st'
  | _ => True

def MkOut.WF (env : Env) (p : Nat) : MkOut → Prop
  | .ok _ st' => p ≤ st'.pos ∧ WfInv env st'
  | .fail st' => WfInv env st'
  | _ => True

theorem Out.WF.mono {env : Env} {p q : Nat} {o : Out} (hpq : p ≤ q) (h : o.WF env q) : o.WF env p := by
  cases o with
  | ok v st' => exact ⟨Nat.le_trans hpq h.1, h.2⟩
  | fail st' => exact h
  | _ => trivial

theorem ItOut.WF.mono {env : Env} {p q : Nat} {o : ItOut} (hpq : p ≤ q) (h : o.WF env q) : o.WF env p := by
  cases o with
  | some v st' i => exact ⟨Nat.le_trans hpq h.1, h.2⟩
  | done st' i => exact ⟨Nat.le_trans hpq h.1, h.2⟩
  | fail st' => exact h
  | _ => trivial

theorem MkOut.WF.mono {env : Env} {p q : Nat} {o : MkOut} (hpq : p ≤ q) (h : o.WF env q) : o.WF env p := by
  cases o with
  | ok i st' => exact ⟨Nat.le_trans hpq h.1, h.2⟩
  | fail st' => exact h
  | _ => trivial

theorem Out.WF.andThen {env : Env} {p : Nat} {o : Out} {k : Val → St → Out} (h : o.WF env p)
    (hk : ∀ v st1, p ≤ st1.pos → WfInv env st1 → (k v st1).WF env st1.pos) : (o.andThen k).WF env p := by
  cases o with
  | ok v st' => exact Out.WF.mono h.1 (hk v st' h.1 h.2)
  | fail st' => exact h
  | _ => trivial

theorem Out.WF.restoreCtx {env : Env} {p : Nat} {o : Out} (h : o.WF env p) (c : Val) :
    (o.restoreCtx c).WF env p := by
  cases o with
  | ok v st' => exact ⟨h.1, h.2.congr rfl rfl rfl⟩
  | fail st' => exact WfInv.congr h rfl rfl rfl
  | _ => trivial

theorem Out.WF.restoreInsp {env : Env} {p : Nat} {o : Out} (h : o.WF env p) (i : List Nat) :
    (o.restoreInsp i).WF env p := by
  cases o with
  | ok v st' => exact ⟨h.1, h.2.congr rfl rfl rfl⟩
  | fail st' => exact WfInv.congr h rfl rfl rfl
  | _ => trivial

/-! ### the induction hypotheses of the open recursion -/

def WFR (env : Env) (R : Runner) : Prop :=
  ∀ m g st, g.c06 = true → g.nec = true → WfInv env st → (R env m g st).WF env st.pos
def WFN (env : Env) (N : NextRunner) : Prop :=
  ∀ m it st ist, it.c06 = true → it.nec = true → WfInv env st → (N env m it st ist).WF env st.pos
def WFK (env : Env) (K : MkRunner) : Prop :=
  ∀ m it st, it.c06 = true → it.nec = true → WfInv env st → (K env m it st).WF env st.pos

/-! ### primitives -/

theorem tokenPrim_WF {env : Env} (hk : env.kind ≠ .mapped) (hek : env.ek = .rich) (m : Mode) {st : St}
    (hs : WfInv env st) (accept : Nat → Option Val) (exp : List Pat) :
    (tokenPrim env m st accept exp).WF env st.pos := by
  simp only [tokenPrim]
  have hf := pullFail_WF hk hek hs exp
  cases (St.next env st).fst.bind accept with
  | some v => exact ⟨St.ew_next_pos_ge env st, hs.next⟩
  | none => exact hf

def JrWF (env : Env) (p : Nat) : St ⊕ St → Prop
  | .inr st' => p ≤ st'.pos ∧ WfInv env st'
  | .inl st' => WfInv env st'

theorem justRun_WF {env : Env} (hk : env.kind ≠ .mapped) (hek : env.ek = .rich) : ∀ (ts : List Nat) (st : St),
    WfInv env st → JrWF env st.pos (justRun env ts st) := by
  intro ts
  induction ts with
  | nil => intro st hs; exact ⟨Nat.le_refl _, hs⟩
  | cons e es ih =>
    intro st hs
    simp only [justRun]
    split
    · have := ih (St.next env st).2 hs.next
      generalize justRun env es (St.next env st).2 = o at this ⊢
      cases o with
      | inr st' => exact ⟨Nat.le_trans (St.ew_next_pos_ge env st) this.1, this.2⟩
      | inl st' => exact this
    · exact pullFail_WF hk hek hs _

theorem justOut_WF {env : Env} (hk : env.kind ≠ .mapped) (hek : env.ek = .rich) (m : Mode) (seq : List Nat)
    {st : St} (hs : WfInv env st) :
    (match justRun env seq st with
      | .inr st' => Out.ok (m.bind (.toks seq)) st'
      | .inl st' => .fail st').WF env st.pos := by
  have h := justRun_WF hk hek seq st hs
  generalize justRun env seq st = o at h ⊢
  cases o with
  | inr st' => exact h
  | inl st' => exact h

theorem runCustom_WF {env : Env} (hk : env.kind ≠ .mapped) (hek : env.ek = .rich) (m : Mode) (f : CustomFn)
    {st : St} (hs : WfInv env st) : (runCustom env m f st).WF env st.pos := by
  cases f with
  | next msg =>
    simp only [runCustom]
    have hf : WfInv env ((St.next env st).2.addAltErr env st.pos
        (env.ek.userErr (env.mkSpan st.pos (St.next env st).2.pos) msg)) :=
      hs.next.addAltErr hek
        (LocWf.userEvent hk hek (St.ew_next_pos_ge env st) (St.ew_next_pos_le env st hs.pos) hs.pos msg)
    cases (St.next env st).fst with
    | some t => exact ⟨St.ew_next_pos_ge env st, hs.next⟩
    | none => exact hf
  | take2Fail msg =>
    simp only [runCustom]
    exact hs.next.next.addAltErr hek
      (LocWf.userEvent hk hek (Nat.le_trans (St.ew_next_pos_ge env st) (St.ew_next_pos_ge env _))
        (St.ew_next_pos_le env _ hs.next.pos) hs.pos msg)
  | nothing => exact ⟨Nat.le_refl _, hs⟩
  | failNow msg =>
    exact hs.addAltErr hek (LocWf.userEvent hk hek (Nat.le_refl _) hs.pos hs.pos msg)

/-! ### choice and group -/

theorem choiceTuple_WF {env : Env} {R : Runner} (hR : WFR env R) (m : Mode) (c : Chk) :
    ∀ (gs : List G) (st : St), c06L gs = true → necL gs = true → WfInv env st → st.pos = c.pos →
      (choiceTuple R env m c gs st).WF env c.pos := by
  intro gs
  induction gs with
  | nil => intro st _ _ hs _; exact hs
  | cons g gs ih =>
    intro st hgs hns hs hp
    simp only [c06L, Bool.and_eq_true] at hgs
    simp only [necL, Bool.and_eq_true] at hns
    simp only [choiceTuple]
    have h := hR m g st hgs.1 hns.1 hs
    rw [hp] at h
    generalize R env m g st = o at h ⊢
    cases o with
    | ok v st' => exact h
    | fail st' => exact ih _ hgs.2 hns.2 (WfInv.rewind h c (hp ▸ hs.pos)) rfl
    | _ => trivial

theorem choiceSlice_WF {env : Env} {R : Runner} (hR : WFR env R) (m : Mode) (c : Chk)
    (hc : c.pos ≤ env.toks.length) :
    ∀ (gs : List G) (st : St), c06L gs = true → necL gs = true → WfInv env st →
      (choiceSlice R env m c gs st).WF env c.pos := by
  intro gs
  induction gs with
  | nil => intro st _ _ hs; exact hs
  | cons g gs ih =>
    intro st hgs hns hs
    simp only [c06L, Bool.and_eq_true] at hgs
    simp only [necL, Bool.and_eq_true] at hns
    simp only [choiceSlice]
    have h : (R env m g (st.rewind c)).WF env c.pos := hR m g (st.rewind c) hgs.1 hns.1 (hs.rewind c hc)
    generalize R env m g (st.rewind c) = o at h ⊢
    cases o with
    | ok v st' => exact h
    | fail st' => exact ih _ hgs.2 hns.2 h
    | _ => trivial

theorem groupLoop_WF {env : Env} {R : Runner} (hR : WFR env R) (m : Mode) :
    ∀ (gs : List G) (st : St) (acc : List Val), c06L gs = true → necL gs = true → WfInv env st →
      (groupLoop R env m gs st acc).WF env st.pos := by
  intro gs
  induction gs with
  | nil => intro st acc _ _ hs; exact ⟨Nat.le_refl _, hs⟩
  | cons g gs ih =>
    intro st acc hgs hns hs
    simp only [c06L, Bool.and_eq_true] at hgs
    simp only [necL, Bool.and_eq_true] at hns
    simp only [groupLoop]
    have h := hR m g st hgs.1 hns.1 hs
    generalize R env m g st = o at h ⊢
    cases o with
    | ok v st' => exact Out.WF.mono h.1 (ih st' _ hgs.2 hns.2 h.2)
    | fail st' => exact h
    | _ => trivial

/-! ### iteration consumers -/

theorem collectLoop_WF {env : Env} {N : NextRunner} (hN : WFN env N) (m : Mode) (it : It) (hit : it.c06 = true)
    (hin : it.nec = true) (k : CollKind) : ∀ (fuel : Nat) (st : St) (ist : ItSt) (acc : List Val) (i : Nat),
    WfInv env st → (collectLoop N env m it k fuel st ist acc i).WF env st.pos := by
  intro fuel
  induction fuel with
  | zero => intro st ist acc i _; trivial
  | succ fuel ih =>
    intro st ist acc i hs
    simp only [collectLoop]
    have h := hN m it st ist hit hin hs
    generalize N env m it st ist = o at h ⊢
    cases o with
    | some v st' ist' =>
      simp only []
      split
      · trivial
      · exact Out.WF.mono h.1 (ih _ _ _ _ h.2)
    | done st' _ => exact h
    | fail st' => exact h
    | _ => trivial

theorem collectExactlyLoop_WF {env : Env} (hk : env.kind ≠ .mapped) (hek : env.ek = .rich) {N : NextRunner}
    (hN : WFN env N) (m : Mode) (it : It) (hit : it.c06 = true) (hin : it.nec = true) :
    ∀ (n : Nat) (st : St) (ist : ItSt) (acc : List Val),
    WfInv env st → (collectExactlyLoop N env m it n st ist acc).WF env st.pos := by
  intro n
  induction n with
  | zero => intro st ist acc hs; exact ⟨Nat.le_refl _, hs⟩
  | succ n ih =>
    intro st ist acc hs
    simp only [collectExactlyLoop]
    have h := hN m it st ist hit hin hs
    generalize N env m it st ist = o at h ⊢
    cases o with
    | some v st' ist' => exact Out.WF.mono h.1 (ih _ _ _ h.2)
    | done st' _ =>
      -- the iterator ended early: `found` = the token at the cursor, empty span at the cursor
      exact h.2.addAlt hek _ _ _ (LocWf.efEvent hk hek (Nat.le_refl _) h.2.pos _)
    | fail st' => exact h
    | _ => trivial

theorem foldlLoop_WF {env : Env} {N : NextRunner} (hN : WFN env N) (m : Mode) (it : It) (hit : it.c06 = true)
    (hin : it.nec = true) (f : Val → Val → St → Val) : ∀ (fuel : Nat) (st : St) (ist : ItSt) (acc : Val),
    WfInv env st → (foldlLoop N env m it f fuel st ist acc).WF env st.pos := by
  intro fuel
  induction fuel with
  | zero => intro st ist acc _; trivial
  | succ fuel ih =>
    intro st ist acc hs
    simp only [foldlLoop]
    have h := hN m it st ist hit hin hs
    generalize N env m it st ist = o at h ⊢
    cases o with
    | some v st' ist' =>
      simp only []
      split
      · trivial
      · exact Out.WF.mono h.1 (ih _ _ _ h.2)
    | done st' _ => exact h
    | fail st' => exact h
    | _ => trivial

/-- result predicate of the collecting phase of `foldr` -/
def FcWF (env : Env) (p : Nat) : (Option (List (Val × Nat) × St)) ⊕ Out → Prop
  | .inl (some (_, st2)) => p ≤ st2.pos ∧ WfInv env st2
  | .inl none => True
  | .inr o => o.WF env p

theorem FcWF.mono {env : Env} {p q : Nat} {r} (hpq : p ≤ q) (h : FcWF env q r) : FcWF env p r := by
  cases r with
  | inl x =>
    cases x with
    | none => trivial
    | some pr => exact ⟨Nat.le_trans hpq h.1, h.2⟩
  | inr o => exact Out.WF.mono hpq h

theorem foldrCollect_WF {env : Env} {N : NextRunner} (hN : WFN env N) (m : Mode) (it : It) (hit : it.c06 = true)
    (hin : it.nec = true) : ∀ (fuel : Nat) (st : St) (ist : ItSt) (acc : List (Val × Nat)),
    WfInv env st → FcWF env st.pos (foldrCollect N env m it fuel st ist acc) := by
  intro fuel
  induction fuel with
  | zero => intro st ist acc _; trivial
  | succ fuel ih =>
    intro st ist acc hs
    simp only [foldrCollect]
    have h := hN m it st ist hit hin hs
    generalize N env m it st ist = o at h ⊢
    cases o with
    | some v st' ist' =>
      simp only []
      split
      · trivial
      · exact FcWF.mono h.1 (ih _ _ _ h.2)
    | done st' _ => exact h
    | fail st' => exact h
    | _ => trivial

theorem repeatFast_WF {env : Env} {R : Runner} (hR : WFR env R) (a : G) (ha : a.c06 = true) (han : a.nec = true) :
    ∀ (fuel : Nat) (st : St), WfInv env st → (repeatFast R env a fuel st).WF env st.pos := by
  intro fuel
  induction fuel with
  | zero => intro st _; trivial
  | succ fuel ih =>
    intro st hs
    simp only [repeatFast]
    have h := hR .check a st ha han hs
    generalize R env .check a st = o at h ⊢
    cases o with
    | ok v st' =>
      simp only []
      split
      · trivial
      · exact Out.WF.mono h.1 (ih _ h.2)
    | fail st' => exact ⟨Nat.le_refl _, WfInv.rewind h _ hs.pos⟩
    | _ => trivial

theorem iterLoop_WF {env : Env} {N : NextRunner} (hN : WFN env N) (it : It) (hit : it.c06 = true)
    (hin : it.nec = true) (ap : Bool) :
    ∀ (fuel : Nat) (st : St) (ist : ItSt), WfInv env st → (iterLoop N env it ap fuel st ist).WF env st.pos := by
  intro fuel
  induction fuel with
  | zero => intro st ist _; trivial
  | succ fuel ih =>
    intro st ist hs
    simp only [iterLoop]
    have h := hN .check it st ist hit hin hs
    generalize N env .check it st ist = o at h ⊢
    cases o with
    | some v st' ist' =>
      simp only []
      split
      · trivial
      · exact Out.WF.mono h.1 (ih _ _ h.2)
    | done st' _ => exact h
    | fail st' => exact h
    | _ => trivial

/-! ### `step` -/

theorem step_WF {env : Env} (hk : env.kind ≠ .mapped) (hek : env.ek = .rich)
    (hdefs : ∀ d ∈ env.defs, d.c06 = true) (hdefsN : ∀ d ∈ env.defs, d.nec = true) {R : Runner}
    {N : NextRunner} {K : MkRunner} (hR : WFR env R) (hN : WFN env N) (hK : WFK env K) (L : Nat) :
    WFR env (step R N K L) := by
  intro m g st hg hn hs
  cases g with
  | end_ =>
    simp only [step]
    have hf := pullFail_WF hk hek hs [.eoi]
    cases hnx : (St.next env st).fst with
    | none => exact ⟨St.ew_next_pos_ge env st, hs.next⟩
    | some t => rw [hnx] at hf; exact hf
  | empty => exact ⟨Nat.le_refl _, hs⟩
  | any => exact tokenPrim_WF hk hek _ hs _ _
  | just ts => exact justOut_WF hk hek m ts hs
  | oneOf ts => exact tokenPrim_WF hk hek _ hs _ _
  | noneOf ts => exact tokenPrim_WF hk hek _ hs _ _
  | select ts => exact tokenPrim_WF hk hek _ hs _ _
  | custom f => exact runCustom_WF hk hek _ _ hs
  | todo => trivial
  | then_ a b =>
    simp only [G.c06, G.nec, Bool.and_eq_true] at hg hn
    simp only [step]
    exact (hR m a st hg.1 hn.1 hs).andThen fun va st1 _ i1 =>
      (hR m b st1 hg.2 hn.2 i1).andThen fun vb st2 _ i2 => ⟨Nat.le_refl _, i2⟩
  | ignoreThen a b =>
    simp only [G.c06, G.nec, Bool.and_eq_true] at hg hn
    simp only [step]
    exact (hR .check a st hg.1 hn.1 hs).andThen fun va st1 _ i1 =>
      (hR m b st1 hg.2 hn.2 i1).andThen fun vb st2 _ i2 => ⟨Nat.le_refl _, i2⟩
  | thenIgnore a b =>
    simp only [G.c06, G.nec, Bool.and_eq_true] at hg hn
    simp only [step]
    exact (hR m a st hg.1 hn.1 hs).andThen fun va st1 _ i1 =>
      (hR .check b st1 hg.2 hn.2 i1).andThen fun vb st2 _ i2 => ⟨Nat.le_refl _, i2⟩
  | delimitedBy a l r =>
    simp only [G.c06, G.nec, Bool.and_eq_true] at hg hn
    simp only [step]
    exact (hR .check l st hg.2.1 hn.2.1 hs).andThen fun _ st1 _ i1 =>
      (hR m a st1 hg.1 hn.1 i1).andThen fun va st2 _ i2 =>
        (hR .check r st2 hg.2.2 hn.2.2 i2).andThen fun _ st3 _ i3 => ⟨Nat.le_refl _, i3⟩
  | paddedBy a p =>
    simp only [G.c06, G.nec, Bool.and_eq_true] at hg hn
    simp only [step]
    exact (hR .check p st hg.2 hn.2 hs).andThen fun _ st1 _ i1 =>
      (hR m a st1 hg.1 hn.1 i1).andThen fun va st2 _ i2 =>
        (hR .check p st2 hg.2 hn.2 i2).andThen fun _ st3 _ i3 => ⟨Nat.le_refl _, i3⟩
  | group gs =>
    simp only [G.c06, G.nec] at hg hn
    exact groupLoop_WF hR m gs st [] hg hn hs
  | groupArr gs =>
    simp only [G.c06, G.nec] at hg hn
    exact groupLoop_WF hR m gs st [] hg hn hs
  | or_ a b =>
    simp only [G.c06, G.nec, Bool.and_eq_true] at hg hn
    exact choiceTuple_WF hR m st.save [a, b] st (by simp [c06L, hg]) (by simp [necL, hn]) hs rfl
  | choice fl gs =>
    simp only [G.c06, G.nec, Bool.and_eq_true] at hg hn
    cases fl with
    | tuple =>
      cases gs with
      | nil => trivial
      | cons g gs =>
        cases gs with
        | nil =>
          simp only [c06L, necL, Bool.and_eq_true] at hg hn
          exact hR m g st hg.1 hn.2.1 hs
        | cons g2 gs => exact choiceTuple_WF hR m st.save _ st hg hn.2 hs rfl
    | slice =>
      cases gs with
      | nil => simp [necChoice] at hn
      | cons g gs => exact choiceSlice_WF hR m st.save hs.pos _ st hg hn.2 hs
  | orNot a =>
    simp only [G.c06, G.nec] at hg hn
    simp only [step]
    have h := hR m a st hg hn hs
    generalize R env m a st = o at h ⊢
    cases o with
    | ok v st' => exact h
    | fail st' => exact ⟨Nat.le_refl _, WfInv.rewind h _ hs.pos⟩
    | _ => trivial
  | not_ a => simp [G.c06] at hg
  | andIs a b =>
    simp only [G.c06, G.nec, Bool.and_eq_true] at hg hn
    simp only [step]
    have h := hR m a st hg.1 hn.1 hs
    generalize R env m a st = o at h ⊢
    cases o with
    | fail st1 => exact WfInv.rewind h _ hs.pos
    | ok v st1 =>
      simp only []
      have h' : WfInv env (st1.rewindInput st.save) := h.2.rewindInput _ hs.pos
      have h2 := hR .check b (st1.rewindInput st.save) hg.2 hn.2 h'
      generalize R env .check b (st1.rewindInput st.save) = o2 at h2 ⊢
      cases o2 with
      | ok _ st2 => exact ⟨h.1, h2.2.rewindInput _ h.2.pos⟩
      | fail st2 => exact h2
      | _ => trivial
    | _ => trivial
  | rewind a =>
    simp only [G.c06, G.nec] at hg hn
    simp only [step]
    have h := hR m a st hg hn hs
    generalize R env m a st = o at h ⊢
    cases o with
    | ok v st1 => exact ⟨Nat.le_refl _, h.2.rewindInput _ hs.pos⟩
    | fail st1 => exact h
    | _ => trivial
  | map f a =>
    simp only [G.c06, G.nec] at hg hn
    simp only [step]
    exact (hR m a st hg hn hs).andThen fun v st1 _ i1 => ⟨Nat.le_refl _, i1⟩
  | to v a =>
    simp only [G.c06, G.nec] at hg hn
    simp only [step]
    exact (hR .check a st hg hn hs).andThen fun v st1 _ i1 => ⟨Nat.le_refl _, i1⟩
  | ignored a =>
    simp only [G.c06, G.nec] at hg hn
    simp only [step]
    exact (hR .check a st hg hn hs).andThen fun v st1 _ i1 => ⟨Nat.le_refl _, i1⟩
  | filter p a =>
    simp only [G.c06, G.nec] at hg hn
    simp only [step]
    refine (hR .emit a st hg hn hs).andThen fun v st1 hp i1 => ?_
    split
    · exact ⟨Nat.le_refl _, i1⟩
    · -- after rewinding: `found` = the token at the start, span = what the sub-parser consumed
      refine WfInv.addAlt hek (i1.rewind _ hs.pos) _ _ _ ?_
      exact LocWf.efEvent hk hek hp i1.pos _
  | tryMap f a =>
    simp only [G.c06, G.nec] at hg hn
    simp only [step]
    have h : (R env .emit a { st with alt := none }).WF env st.pos := hR .emit a _ hg hn hs.noAlt
    generalize R env .emit a { st with alt := none } = o at h ⊢
    cases o with
    | fail st1 => exact (hs.withAlt h).readdAlt hek h.alt
    | ok v st1 =>
      simp only []
      split
      · exact WfInv.addAltErr hek
          (WfInv.congr (st' := { st1 with alt := st.alt, log := st.log }) (hs.withAlt h.2) rfl rfl rfl)
          (LocWf.userEvent hk hek h.1 h.2.pos hs.pos _)
      · exact ⟨by rw [St.ew_readdAlt_pos]; exact h.1, (hs.withAlt h.2).readdAlt hek h.2.alt⟩
    | _ => trivial
  | tryMapWith f a =>
    simp only [G.c06, G.nec] at hg hn
    simp only [step]
    refine (hR .emit a st hg hn hs).andThen fun v st1 hp i1 => ?_
    split
    · -- recorded at the cursor *after* the match, with the span of the match: custom reason, bounded span
      exact i1.addAltErr hek (LocWf.userEvent hk hek hp i1.pos i1.pos _)
    · exact ⟨Nat.le_refl _, i1⟩
  | toSpan a =>
    simp only [G.c06, G.nec] at hg hn
    simp only [step]
    exact (hR m a st hg hn hs).andThen fun v st1 _ i1 => ⟨Nat.le_refl _, i1⟩
  | toSlice a =>
    simp only [G.c06, G.nec] at hg hn
    simp only [step]
    exact (hR .check a st hg hn hs).andThen fun v st1 _ i1 => ⟨Nat.le_refl _, i1⟩
  | mapWithSpan a =>
    simp only [G.c06, G.nec] at hg hn
    simp only [step]
    exact (hR m a st hg hn hs).andThen fun v st1 _ i1 => ⟨Nat.le_refl _, i1⟩
  | mapWithState a =>
    simp only [G.c06, G.nec] at hg hn
    simp only [step]
    exact (hR m a st hg hn hs).andThen fun v st1 _ i1 => ⟨Nat.le_refl _, i1⟩
  | mapWithCtx a =>
    simp only [G.c06, G.nec] at hg hn
    simp only [step]
    exact (hR m a st hg hn hs).andThen fun v st1 _ i1 => ⟨Nat.le_refl _, i1⟩
  | validate f a =>
    simp only [G.c06, G.nec] at hg hn
    simp only [step]
    refine (hR .emit a st hg hn hs).andThen fun v st1 hp i1 => ?_
    refine ⟨by split <;> exact Nat.le_refl _, ?_⟩
    split
    · -- the emitted secondary errors: custom, at the start of the match, with the span of the match
      refine ⟨i1.pos, i1.alt, ?_⟩
      intro l hl
      rcases List.mem_append.mp hl with hl | hl
      · exact i1.errs l hl
      · rw [(List.mem_replicate.mp hl).2]
        exact LocWf.userEvent hk hek hp i1.pos hs.pos _
    · exact i1
  | collect k it =>
    simp only [G.c06, G.nec] at hg hn
    simp only [step]
    have h := hK m it st hg hn hs
    generalize K env m it st = o at h ⊢
    cases o with
    | ok ist st1 => exact Out.WF.mono h.1 (collectLoop_WF hN m it hg hn k L st1 ist [] 0 h.2)
    | fail st1 => exact h
    | _ => trivial
  | collectExactly n it =>
    simp only [G.c06, G.nec] at hg hn
    simp only [step]
    have h := hK m it st hg hn hs
    generalize K env m it st = o at h ⊢
    cases o with
    | ok ist st1 => exact Out.WF.mono h.1 (collectExactlyLoop_WF hk hek hN m it hg hn n st1 ist [] h.2)
    | fail st1 => exact h
    | _ => trivial
  | foldl f a it =>
    simp only [G.c06, G.nec, Bool.and_eq_true] at hg hn
    simp only [step]
    refine (hR m a st hg.1 hn.1 hs).andThen fun va st1 _ i1 => ?_
    have h := hK m it st1 hg.2 hn.2 i1
    generalize K env m it st1 = o at h ⊢
    cases o with
    | ok ist st2 => exact Out.WF.mono h.1 (foldlLoop_WF hN m it hg.2 hn.2 _ L st2 ist va h.2)
    | fail st2 => exact h
    | _ => trivial
  | foldlWith a it =>
    simp only [G.c06, G.nec, Bool.and_eq_true] at hg hn
    simp only [step]
    refine (hR m a st hg.1 hn.1 hs).andThen fun va st1 _ i1 => ?_
    have h := hK m it st1 hg.2 hn.2 i1
    generalize K env m it st1 = o at h ⊢
    cases o with
    | ok ist st2 => exact Out.WF.mono h.1 (foldlLoop_WF hN m it hg.2 hn.2 _ L st2 ist va h.2)
    | fail st2 => exact h
    | _ => trivial
  | foldr f it b =>
    simp only [G.c06, G.nec, Bool.and_eq_true] at hg hn
    simp only [step]
    have h := hK m it st hg.1 hn.1 hs
    generalize K env m it st = o at h ⊢
    cases o with
    | ok ist st1 =>
      simp only []
      have h2 := foldrCollect_WF hN m it hg.1 hn.1 L st1 ist [] h.2
      generalize foldrCollect N env m it L st1 ist [] = r at h2 ⊢
      cases r with
      | inr o => exact Out.WF.mono h.1 h2
      | inl x =>
        cases x with
        | none => trivial
        | some p =>
          obtain ⟨items, st2⟩ := p
          exact Out.WF.mono (Nat.le_trans h.1 h2.1)
            ((hR m b st2 hg.2 hn.2 h2.2).andThen fun vb st3 _ i3 => ⟨Nat.le_refl _, i3⟩)
    | fail st1 => exact h
    | _ => trivial
  | foldrWith it b =>
    simp only [G.c06, G.nec, Bool.and_eq_true] at hg hn
    simp only [step]
    have h := hK m it st hg.1 hn.1 hs
    generalize K env m it st = o at h ⊢
    cases o with
    | ok ist st1 =>
      simp only []
      have h2 := foldrCollect_WF hN m it hg.1 hn.1 L st1 ist [] h.2
      generalize foldrCollect N env m it L st1 ist [] = r at h2 ⊢
      cases r with
      | inr o => exact Out.WF.mono h.1 h2
      | inl x =>
        cases x with
        | none => trivial
        | some p =>
          obtain ⟨items, st2⟩ := p
          exact Out.WF.mono (Nat.le_trans h.1 h2.1)
            ((hR m b st2 hg.2 hn.2 h2.2).andThen fun vb st3 _ i3 => ⟨Nat.le_refl _, i3⟩)
    | fail st1 => exact h
    | _ => trivial
  | iterP it =>
    simp only [G.c06, G.nec] at hg hn
    simp only [step]
    have loop : ∀ ap, (match K env .check it st with
        | .ok ist st1 => iterLoop N env it ap L st1 ist
        | .fail st1 => .fail st1
        | .panic w => .panic w
        | .oof => .oof).WF env st.pos := by
      intro ap
      have h := hK .check it st hg hn hs
      generalize K env .check it st = o at h ⊢
      cases o with
      | ok ist st1 => exact Out.WF.mono h.1 (iterLoop_WF hN it hg hn ap L st1 ist h.2)
      | fail st1 => exact h
      | _ => trivial
    cases it with
    | repeated a lo hi =>
      cases lo with
      | zero =>
        cases hi with
        | none =>
          simp only [It.c06, It.nec] at hg hn
          exact repeatFast_WF hR a hg hn L st hs
        | some h => exact loop true
      | succ lo => exact loop true
    | separatedBy a sep lo hi lead trail => exact loop true
    | configureRep c inner => exact loop false
    | tryConfigureRep c inner => exact loop false
    | intoIter a =>
      simp only [It.c06, It.nec] at hg hn
      exact (hR .check a st hg hn hs).andThen fun v st1 _ i1 => ⟨Nat.le_refl _, i1⟩
    | _ => trivial
  | recoverVia a r => simp [G.c06] at hg
  | recoverSkipUntil a skip until_ fb => simp [G.c06] at hg
  | recoverSkipRetry a skip until_ => simp [G.c06] at hg
  | labelled l asCtx a => simp [G.c06] at hg
  | mapErr k a => simp [G.c06] at hg
  | withCtx cv a =>
    simp only [G.c06, G.nec] at hg hn
    simp only [step]
    exact Out.WF.restoreCtx (hR m a { st with ctx := cv } hg hn (hs.congr rfl rfl rfl)) _
  | ignoreWithCtx a b =>
    simp only [G.c06, G.nec, Bool.and_eq_true] at hg hn
    simp only [step]
    exact (hR .emit a st hg.1 hn.1 hs).andThen fun va st1 _ i1 =>
      Out.WF.restoreCtx (hR m b { st1 with ctx := va } hg.2 hn.2 (i1.congr rfl rfl rfl)) _
  | thenWithCtx a b =>
    simp only [G.c06, G.nec, Bool.and_eq_true] at hg hn
    simp only [step]
    refine (hR .emit a st hg.1 hn.1 hs).andThen fun va st1 _ i1 => ?_
    refine Out.WF.andThen
      (Out.WF.restoreCtx (hR m b { st1 with ctx := va } hg.2 hn.2 (i1.congr rfl rfl rfl)) _) fun vb st2 _ i2 => ?_
    exact ⟨Nat.le_refl _, i2⟩
  | mapCtx f a =>
    simp only [G.c06, G.nec] at hg hn
    simp only [step]
    exact Out.WF.restoreCtx (hR m a { st with ctx := f.eval st.ctx } hg hn (hs.congr rfl rfl rfl)) _
  | configureJust c ts =>
    simp only [step]
    exact justOut_WF hk hek m _ hs
  | withState a =>
    simp only [G.c06, G.nec] at hg hn
    simp only [step]
    exact Out.WF.restoreInsp (hR m a { st with insp := [] } hg hn (hs.congr rfl rfl rfl)) _
  | memoized id a => simp [G.c06] at hg
  | call k =>
    simp only [step]
    cases hd : env.defs[k]? with
    | none => trivial
    | some d => exact hR m d st (hdefs d (List.mem_of_getElem? hd)) (hdefsN d (List.mem_of_getElem? hd)) hs
  | boxed a =>
    simp only [G.c06, G.nec] at hg hn
    exact hR m a st hg hn hs

/-! ### `stepNext`, `stepMk` -/

theorem repeatedNext_WF {env : Env} {R : Runner} (hR : WFR env R) (m : Mode) (a : G) (ha : a.c06 = true)
    (han : a.nec = true) (lo : Nat) (hi : Option Nat) {st : St} (hs : WfInv env st) (n : Nat)
    (wrap : ItSt → ItSt) : (repeatedNext R env m a lo hi st n wrap).WF env st.pos := by
  simp only [repeatedNext]
  split
  · exact ⟨Nat.le_refl _, hs⟩
  · have h := hR m a st ha han hs
    generalize R env m a st = o at h ⊢
    cases o with
    | ok v st1 => exact h
    | fail st1 =>
      simp only []
      split
      · exact ⟨Nat.le_refl _, WfInv.rewind h _ hs.pos⟩
      · exact WfInv.rewind h _ hs.pos
    | _ => trivial

/-- the `item` part of `SeparatedBy::next`, started at `st0` (at or after the start position `p`) -/
theorem sepItem_WF {env : Env} {R : Runner} (hR : WFR env R) (m : Mode) (a : G) (ha : a.c06 = true)
    (han : a.nec = true) (lo n : Nat) (trail : Bool) (bs bi : Chk) {p : Nat} {st0 : St} (h0 : WfInv env st0)
    (hp : p ≤ st0.pos) (hbs : bs.pos = p) (hbi : bi.pos = st0.pos) :
    (match R env m a st0 with
      | .ok v st1 => ItOut.some v st1 (.cnt (n + 1))
      | .fail st1 =>
        if n < lo then .fail (st1.rewind bs)
        else if trail then .done (st1.rewind bi) (.cnt n)
        else .done (st1.rewind bs) (.cnt n)
      | .panic w => .panic w
      | .oof => .oof).WF env p := by
  have h := hR m a st0 ha han h0
  have hbsl : bs.pos ≤ env.toks.length := by rw [hbs]; exact Nat.le_trans hp h0.pos
  have hbil : bi.pos ≤ env.toks.length := by rw [hbi]; exact h0.pos
  generalize R env m a st0 = o at h ⊢
  cases o with
  | ok v st1 => exact ⟨Nat.le_trans hp h.1, h.2⟩
  | fail st1 =>
    simp only []
    split
    · exact WfInv.rewind h _ hbsl
    · split
      · exact ⟨by show p ≤ bi.pos; rw [hbi]; exact hp, WfInv.rewind h _ hbil⟩
      · exact ⟨by show p ≤ bs.pos; rw [hbs]; exact Nat.le_refl _, WfInv.rewind h _ hbsl⟩
  | _ => trivial

theorem separatedNext_WF {env : Env} {R : Runner} (hR : WFR env R) (m : Mode) (a sep : G) (ha : a.c06 = true)
    (han : a.nec = true) (hsp : sep.c06 = true) (hspn : sep.nec = true) (lo : Nat) (hi : Option Nat)
    (lead trail : Bool) {st : St} (hs : WfInv env st) (n : Nat) :
    (separatedNext R env m a sep lo hi lead trail st n).WF env st.pos := by
  simp only [separatedNext]
  split
  · exact ⟨Nat.le_refl _, hs⟩
  · split
    · have h := hR .check sep st hsp hspn hs
      generalize R env .check sep st = o at h ⊢
      cases o with
      | ok v st1 => exact sepItem_WF hR m a ha han lo n trail _ _ h.2 h.1 rfl rfl
      | fail st1 =>
        exact sepItem_WF hR m a ha han lo n trail _ _ (WfInv.rewind h st.save hs.pos) (Nat.le_refl _) rfl rfl
      | _ => trivial
    · split
      · have h := hR .check sep st hsp hspn hs
        generalize R env .check sep st = o at h ⊢
        cases o with
        | ok v st1 => exact sepItem_WF hR m a ha han lo n trail _ _ h.2 h.1 rfl rfl
        | fail st1 =>
          simp only []
          split
          · exact WfInv.rewind h _ hs.pos
          · exact ⟨Nat.le_refl _, WfInv.rewind h _ hs.pos⟩
        | _ => trivial
      · exact sepItem_WF hR m a ha han lo n trail _ _ hs (Nat.le_refl _) rfl rfl

theorem stepNext_WF {env : Env} {R : Runner} {N : NextRunner} {K : MkRunner} (hR : WFR env R) (hN : WFN env N)
    (hK : WFK env K) : WFN env (stepNext R N K) := by
  intro m it st ist hit hin hs
  cases it with
  | repeated a lo hi =>
    simp only [It.c06, It.nec] at hit hin
    cases ist with
    | cnt n => exact repeatedNext_WF hR m a hit hin lo hi hs n id
    | _ => trivial
  | separatedBy a sep lo hi lead trail =>
    simp only [It.c06, It.nec, Bool.and_eq_true] at hit hin
    cases ist with
    | cnt n => exact separatedNext_WF hR m a sep hit.1 hin.1 hit.2 hin.2 lo hi lead trail hs n
    | _ => trivial
  | enumerate inner =>
    simp only [It.c06, It.nec] at hit hin
    cases ist with
    | enum k s =>
      simp only [stepNext]
      have h := hN m inner st s hit hin hs
      generalize N env m inner st s = o at h ⊢
      cases o with
      | some v st1 s1 => exact h
      | done st1 s1 => exact h
      | fail st1 => exact h
      | _ => trivial
    | _ => trivial
  | orNotIt a =>
    simp only [It.c06, It.nec] at hit hin
    cases ist with
    | fin b =>
      simp only [stepNext]
      split
      · exact ⟨Nat.le_refl _, hs⟩
      · have h := hR m a st hit hin hs
        generalize R env m a st = o at h ⊢
        cases o with
        | ok v st1 => exact h
        | fail st1 => exact ⟨Nat.le_refl _, WfInv.rewind h _ hs.pos⟩
        | _ => trivial
    | _ => trivial
  | intoIter a =>
    cases ist with
    | into vs =>
      cases vs with
      | nil => exact ⟨Nat.le_refl _, hs⟩
      | cons v rest => exact ⟨Nat.le_refl _, hs⟩
    | _ => trivial
  | thenIt a b =>
    simp only [It.c06, It.nec, Bool.and_eq_true] at hit hin
    cases ist with
    | thn sa sb? =>
      cases sb? with
      | some sb =>
        simp only [stepNext]
        have h := hN m b st sb hit.2 hin.2 hs
        generalize N env m b st sb = o at h ⊢
        cases o with
        | some v st1 s1 => exact h
        | done st1 s1 => exact h
        | fail st1 => exact h
        | _ => trivial
      | none =>
        simp only [stepNext]
        have h := hN m a st sa hit.1 hin.1 hs
        generalize N env m a st sa = o at h ⊢
        cases o with
        | some v st1 s1 => exact h
        | fail st1 => exact h
        | done st1 sa1 =>
          simp only []
          have h2 := hK m b st1 hit.2 hin.2 h.2
          generalize K env m b st1 = o2 at h2 ⊢
          cases o2 with
          | fail st2 => exact h2
          | ok sb st2 =>
            simp only []
            have h12 : st.pos ≤ st2.pos := Nat.le_trans h.1 h2.1
            have h3 := hN m b st2 sb hit.2 hin.2 h2.2
            generalize N env m b st2 sb = o3 at h3 ⊢
            cases o3 with
            | some v st3 sb1 => exact ⟨Nat.le_trans h12 h3.1, h3.2⟩
            | done st3 sb1 => exact ⟨Nat.le_trans h12 h3.1, h3.2⟩
            | fail st3 => exact h3
            | _ => trivial
          | _ => trivial
        | _ => trivial
    | _ => trivial
  | mapIt f inner =>
    simp only [It.c06, It.nec] at hit hin
    simp only [stepNext]
    have h := hN m inner st ist hit hin hs
    generalize N env m inner st ist = o at h ⊢
    cases o with
    | some v st1 s1 => exact h
    | done st1 s1 => exact h
    | fail st1 => exact h
    | _ => trivial
  | configureRep c inner =>
    cases inner with
    | repeated a lo hi =>
      simp only [It.c06, It.nec] at hit hin
      cases ist with
      | cfg s clo chi =>
        cases s with
        | cnt n =>
          simp only [stepNext]
          exact repeatedNext_WF hR m a hit hin _ _ hs n _
        | _ => trivial
      | _ => trivial
    | _ => cases ist <;> trivial
  | tryConfigureRep c inner =>
    cases inner with
    | repeated a lo hi =>
      simp only [It.c06, It.nec] at hit hin
      cases ist with
      | cfg s clo chi =>
        cases s with
        | cnt n =>
          simp only [stepNext]
          exact repeatedNext_WF hR m a hit hin _ _ hs n _
        | _ => trivial
      | _ => trivial
    | _ => cases ist <;> trivial

theorem stepMk_WF {env : Env} (hk : env.kind ≠ .mapped) (hek : env.ek = .rich) {R : Runner} {K : MkRunner}
    (hR : WFR env R) (hK : WFK env K) : WFK env (stepMk R K) := by
  intro m it st hit hin hs
  cases it with
  | repeated a lo hi => exact ⟨Nat.le_refl _, hs⟩
  | separatedBy a sep lo hi lead trail => exact ⟨Nat.le_refl _, hs⟩
  | enumerate inner =>
    simp only [It.c06, It.nec] at hit hin
    simp only [stepMk]
    have h := hK m inner st hit hin hs
    generalize K env m inner st = o at h ⊢
    cases o with
    | ok s st1 => exact h
    | fail st1 => exact h
    | _ => trivial
  | orNotIt a => exact ⟨Nat.le_refl _, hs⟩
  | intoIter a =>
    simp only [It.c06, It.nec] at hit hin
    simp only [stepMk]
    have h := hR .emit a st hit hin hs
    generalize R env .emit a st = o at h ⊢
    cases o with
    | ok v st1 => exact h
    | fail st1 => exact h
    | _ => trivial
  | thenIt a b =>
    simp only [It.c06, It.nec, Bool.and_eq_true] at hit hin
    simp only [stepMk]
    have h := hK m a st hit.1 hin.1 hs
    generalize K env m a st = o at h ⊢
    cases o with
    | ok s st1 => exact h
    | fail st1 => exact h
    | _ => trivial
  | mapIt f inner =>
    simp only [It.c06, It.nec] at hit hin
    exact hK m inner st hit hin hs
  | configureRep c inner =>
    simp only [It.c06, It.nec] at hit hin
    simp only [stepMk]
    have h := hK m inner st hit hin hs
    generalize K env m inner st = o at h ⊢
    cases o with
    | ok s st1 => exact h
    | fail st1 => exact h
    | _ => trivial
  | tryConfigureRep c inner =>
    simp only [It.c06, It.nec] at hit hin
    simp only [stepMk]
    cases st.ctx.asNat? with
    | none => exact hs.addAltErr hek (LocWf.userEvent hk hek (Nat.le_refl _) hs.pos hs.pos _)
    | some n =>
      simp only []
      have h := hK m inner st hit hin hs
      generalize K env m inner st = o at h ⊢
      cases o with
      | ok s st1 => exact h
      | fail st1 => exact h
      | _ => trivial

/-! ### closing the recursion -/

theorem run_WF_all (env : Env) (hk : env.kind ≠ .mapped) (hek : env.ek = .rich)
    (hdefs : ∀ d ∈ env.defs, d.c06 = true) (hdefsN : ∀ d ∈ env.defs, d.nec = true) (n : Nat) :
    WFR env (run n) ∧ WFN env (next n) ∧ WFK env (mkIter n) := by
  induction n with
  | zero => exact ⟨fun _ _ _ _ _ _ => trivial, fun _ _ _ _ _ _ _ => trivial, fun _ _ _ _ _ _ => trivial⟩
  | succ n ih =>
    exact ⟨step_WF hk hek hdefs hdefsN ih.1 ih.2.1 ih.2.2 n, stepNext_WF ih.1 ih.2.1 ih.2.2,
      stepMk_WF hk hek ih.1 ih.2.2⟩

/-- **the well-formedness invariant**: from a state whose cursor is inside the input and whose pending and
    secondary errors are well formed, every run of a grammar of the class ends (successfully or not) in such a
    state; successful runs do not move the cursor backwards -/
theorem run_wf (n : Nat) (env : Env) (hk : env.kind ≠ .mapped) (hek : env.ek = .rich)
    (hdefs : ∀ d ∈ env.defs, d.c06 = true) (hdefsN : ∀ d ∈ env.defs, d.nec = true)
    (m : Mode) (g : G) (hg : g.c06 = true) (hn : g.nec = true) (st : St) (hs : WfInv env st) :
    match run n env m g st with
    | .ok _ st' => st.pos ≤ st'.pos ∧ WfInv env st'
    | .fail st' => WfInv env st'
    | _ => True := by
  have h := (run_WF_all env hk hek hdefs hdefsN n).1 m g st hg hn hs
  generalize run n env m g st = o at h ⊢
  cases o with
  | ok v st' => exact h
  | fail st' => exact h
  | _ => trivial

theorem next_wf (n : Nat) (env : Env) (hk : env.kind ≠ .mapped) (hek : env.ek = .rich)
    (hdefs : ∀ d ∈ env.defs, d.c06 = true) (hdefsN : ∀ d ∈ env.defs, d.nec = true)
    (m : Mode) (it : It) (hit : it.c06 = true) (hin : it.nec = true) (st : St) (ist : ItSt) (hs : WfInv env st) :
    match next n env m it st ist with
    | .some _ st' _ => st.pos ≤ st'.pos ∧ WfInv env st'
    | .done st' _ => st.pos ≤ st'.pos ∧ WfInv env st'
    | .fail st' => WfInv env st'
    | _ => True := by
  have h := (run_WF_all env hk hek hdefs hdefsN n).2.1 m it st ist hit hin hs
  generalize next n env m it st ist = o at h ⊢
  cases o with
  | some v st' i => exact h
  | done st' i => exact h
  | fail st' => exact h
  | _ => trivial

theorem mkIter_wf (n : Nat) (env : Env) (hk : env.kind ≠ .mapped) (hek : env.ek = .rich)
    (hdefs : ∀ d ∈ env.defs, d.c06 = true) (hdefsN : ∀ d ∈ env.defs, d.nec = true)
    (m : Mode) (it : It) (hit : it.c06 = true) (hin : it.nec = true) (st : St) (hs : WfInv env st) :
    match mkIter n env m it st with
    | .ok _ st' => st.pos ≤ st'.pos ∧ WfInv env st'
    | .fail st' => WfInv env st'
    | _ => True := by
  have h := (run_WF_all env hk hek hdefs hdefsN n).2.2 m it st hit hin hs
  generalize mkIter n env m it st = o at h ⊢
  cases o with
  | ok i st' => exact h
  | fail st' => exact h
  | _ => trivial

/-- the pending primary error after any run of the class is well formed (the statement asked for) -/
theorem run_altWf (n : Nat) (env : Env) (hk : env.kind ≠ .mapped) (hek : env.ek = .rich)
    (hdefs : ∀ d ∈ env.defs, d.c06 = true) (hdefsN : ∀ d ∈ env.defs, d.nec = true)
    (m : Mode) (g : G) (hg : g.c06 = true) (hn : g.nec = true) (st : St) (hp : st.pos ≤ env.toks.length)
    (ha : AltWf env st) (he : ErrsWf env st) :
    match run n env m g st with
    | .ok _ st' => st'.pos ≤ env.toks.length ∧ AltWf env st' ∧ ErrsWf env st'
    | .fail st' => st'.pos ≤ env.toks.length ∧ AltWf env st' ∧ ErrsWf env st'
    | _ => True := by
  have h := run_wf n env hk hek hdefs hdefsN m g hg hn st ⟨hp, ha, he⟩
  generalize run n env m g st = o at h ⊢
  cases o with
  | ok v st' => exact ⟨h.2.pos, h.2.alt, h.2.errs⟩
  | fail st' => exact ⟨h.pos, h.alt, h.errs⟩
  | _ => trivial

/-! ### 4. top level -/

/-- every result of `parseTop`: the final state satisfies the invariant -/
theorem parseTop_final_wf (n : Nat) (env : Env) (hk : env.kind ≠ .mapped) (hek : env.ek = .rich)
    (hdefs : ∀ d ∈ env.defs, d.c06 = true) (hdefsN : ∀ d ∈ env.defs, d.nec = true)
    (m : Mode) (g : G) (hg : g.c06 = true) (hn : g.nec = true) (r : ParseResult) (f : St)
    (h : parseTop n env m g = .result r f) : WfInv env f := by
  have hg' : (G.thenIgnore g .end_).c06 = true := by simp [G.c06, hg]
  have hn' : (G.thenIgnore g .end_).nec = true := by simp [G.nec, hn]
  have hw := run_wf n env hk hek hdefs hdefsN m _ hg' hn' St.init (WfInv.init env)
  simp only [parseTop] at h
  generalize run n env m (.thenIgnore g .end_) St.init = o at h hw
  cases o with
  | ok v st =>
    simp only [TopOut.result.injEq] at h
    rw [← h.2]; exact hw.2
  | fail st =>
    simp only [TopOut.result.injEq] at h
    rw [← h.2]; exact hw
  | panic w => cases h
  | oof => cases h

/-- **C06, third sentence (core)**: when the parse fails, the last reported error is the pending error `l` of the
    final state and it is well formed; so are all the secondary errors reported before it -/
theorem parseTop_primary_wf (n : Nat) (env : Env) (hk : env.kind ≠ .mapped) (hek : env.ek = .rich)
    (hdefs : ∀ d ∈ env.defs, d.c06 = true) (hdefsN : ∀ d ∈ env.defs, d.nec = true)
    (m : Mode) (g : G) (hg : g.c06 = true) (hn : g.nec = true) (r : ParseResult) (f : St)
    (h : parseTop n env m g = .result r f) (ho : r.output = none) :
    ∃ l, f.alt = some l ∧ r.errs = f.errs.map (·.err) ++ [l.err] ∧ LocWf env l ∧ ∀ s ∈ f.errs, LocWf env s := by
  have hw := parseTop_final_wf n env hk hek hdefs hdefsN m g hg hn r f h
  obtain ⟨l, l', hl, _, _, hr⟩ :=
    parseTop_primary_error n env (by rw [hek]; decide) hdefs m g hg r f h ho
  exact ⟨l, hl, hr, hw.alt l hl, hw.errs⟩

/-- **C06, third sentence**: the primary error `e` (the last element of `errs`) of a failed parse has a span that
    lies inside the input with start ≤ end; if its reason is expected/found, the span starts at (the offset of) a
    position `p ≤ length`, `found` is the token at `p`, and `found = none` only when `p` is the end of input — in
    which case the span is the empty span at the end of input -/
theorem c06_primary_span_found (n : Nat) (env : Env) (hk : env.kind ≠ .mapped) (hek : env.ek = .rich)
    (hdefs : ∀ d ∈ env.defs, d.c06 = true) (hdefsN : ∀ d ∈ env.defs, d.nec = true)
    (m : Mode) (g : G) (hg : g.c06 = true) (hn : g.nec = true) (r : ParseResult) (f : St)
    (h : parseTop n env m g = .result r f) (ho : r.output = none) :
    ∃ e, r.errs.getLast? = some e ∧
      e.span.1 ≤ e.span.2 ∧ e.span.2 ≤ env.off env.toks.length ∧
      ∀ exp fo, e.reason = .ef exp fo →
        ∃ p, p ≤ env.toks.length ∧ e.span.1 = env.off p ∧ fo = env.toks[p]? ∧
          (fo = none → p = env.toks.length ∧ e.span = (env.off env.toks.length, env.off env.toks.length)) := by
  obtain ⟨l, hl, hr, hw, _⟩ := parseTop_primary_wf n env hk hek hdefs hdefsN m g hg hn r f h ho
  refine ⟨l.err, by rw [hr]; simp, hw.ordered, hw.inside, ?_⟩
  intro exp fo hre
  obtain ⟨h1, h2⟩ := hw.ef exp fo hre
  refine ⟨l.pos, hw.pos_le, h1, h2, ?_⟩
  intro hfo
  subst hfo
  have hp := hw.found_none hre
  refine ⟨hp, ?_⟩
  have ho1 := hw.ordered
  have ho2 := hw.inside
  rw [hp] at h1
  exact Prod.ext h1 (by omega)

/-- every reported error (secondary or primary, successful parse or not) has an ordered span inside the input -/
theorem parseTop_all_spans (n : Nat) (env : Env) (hk : env.kind ≠ .mapped) (hek : env.ek = .rich)
    (hdefs : ∀ d ∈ env.defs, d.c06 = true) (hdefsN : ∀ d ∈ env.defs, d.nec = true)
    (m : Mode) (g : G) (hg : g.c06 = true) (hn : g.nec = true) (r : ParseResult) (f : St)
    (h : parseTop n env m g = .result r f) :
    ∀ e ∈ r.errs, e.span.1 ≤ e.span.2 ∧ e.span.2 ≤ env.off env.toks.length := by
  have hw := parseTop_final_wf n env hk hek hdefs hdefsN m g hg hn r f h
  have hsec : ∀ e ∈ f.errs.map (·.err), e.span.1 ≤ e.span.2 ∧ e.span.2 ≤ env.off env.toks.length := by
    intro e he
    obtain ⟨s, hs, rfl⟩ := List.mem_map.mp he
    exact ⟨(hw.errs s hs).ordered, (hw.errs s hs).inside⟩
  cases hout : r.output with
  | none =>
    obtain ⟨l, hl, hr, hlw, _⟩ := parseTop_primary_wf n env hk hek hdefs hdefsN m g hg hn r f h hout
    intro e he
    rw [hr] at he
    rcases List.mem_append.mp he with he | he
    · exact hsec e he
    · rw [List.mem_singleton.mp he]; exact ⟨hlw.ordered, hlw.inside⟩
  | some v =>
    have hr : r.errs = f.errs.map (·.err) := by
      simp only [parseTop] at h
      generalize run n env m (.thenIgnore g .end_) St.init = o at h
      cases o with
      | ok v st =>
        simp only [TopOut.result.injEq] at h
        rw [← h.1, ← h.2]
      | fail st =>
        simp only [TopOut.result.injEq] at h
        rw [← h.1] at hout
        simp at hout
      | panic w => cases h
      | oof => cases h
    rw [hr]
    exact hsec

/-! ### witnesses: why the class is what it is (all on the slice input `[7, 8]` / `[7]`, `Rich`)

  * `.choice .slice []` (excluded by `nec`): `found = none` at position 0 of a two-token input — the only such
    site inside `c06` (everything else in `c06` is covered by `run_wf`).
  * outside `c06`: `labelled` / `mapErr` over a custom error (`labelWith` turns it into `expected [label], found
    none`), the left-recursion answer of `memoized` (`found = none`, empty span at the cursor), and `not_` (records
    at the position *after* the token it reports: merged into an end-of-input failure it yields the empty span at
    the end of input together with `found = some last-token`). -/

def reportedErrs (t : TopOut) : List Err := match t with | .result r _ => r.errs | _ => []

example : reportedErrs (parseTop 10 { toks := [7, 8] } .emit (.choice .slice []))
    = [⟨(0, 0), .ef [] none, []⟩] := by decide
example : reportedErrs (parseTop 10 { toks := [7, 8] } .emit (.labelled 1 false (.custom (.failNow 3))))
    = [⟨(0, 0), .ef [.label 1] none, []⟩] := by decide
example : reportedErrs (parseTop 10 { toks := [7, 8] } .emit (.mapErr 1 (.custom (.failNow 3))))
    = [⟨(0, 0), .ef [.label 1] none, []⟩] := by decide
example : reportedErrs (parseTop 10 { toks := [7, 8], defs := [.memoized 0 (.call 0)] } .emit (.call 0))
    = [⟨(0, 0), .ef [] none, []⟩] := by decide
example : reportedErrs (parseTop 10 { toks := [7] } .emit (.or_ (.then_ .any .any) (.not_ .empty)))
    = [⟨(1, 1), .ef [.any, .somethingElse] (some 7), []⟩] := by decide
/-- `tryMapWith` (inside the class): the custom error sits at priority position 1 with the span `(0, 1)` of the
    match — it starts *before* its position, but is ordered and inside the input -/
example : reportedErrs (parseTop 10 { toks := [7, 8] } .emit (.tryMapWith ⟨.always, 3, 0⟩ .any))
    = [⟨(0, 1), .custom 3, []⟩] := by decide

#print axioms Env.mkSpan_wf
#print axioms run_wf
#print axioms next_wf
#print axioms mkIter_wf
#print axioms run_altWf
#print axioms parseTop_primary_wf
#print axioms c06_primary_span_found
#print axioms parseTop_all_spans

end Chumsky
