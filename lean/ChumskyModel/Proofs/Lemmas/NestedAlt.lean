/-
  C06 / C16 for `nested_in` at any position of any grammar: `NestedIn::go` preserves the pending-error invariant of the OUTER
  parse. The inner parse keeps its own pending error (a fresh one); what reaches the outer parse is one failure event — the
  inner pending error re-homed at the outer cursor — merged by the priority rule with what was pending. So the outer
  pending error stays (≈) the summary of the outer failure log, in which a nested parse that left an error appears as that
  single event at the position just after the group token, and a failing nested parse always logs one.
-/
import ChumskyModel.Model.Nested
import ChumskyModel.Proofs.Lemmas.AltInv
set_option linter.unusedSimpArgs false
set_option linter.unusedVariables false
namespace Chumsky

/-- a failing run from a state with no pending error and an empty log ends with a pending error -/
theorem altRelF_none_isSome {ek : ErrKind} {s0 f : St} (ha : s0.alt = none) (h : AltRelF ek s0 f) :
    f.alt.isSome = true := by
  obtain ⟨evs, hne, _, he⟩ := h.log
  have hs : (foldAlt ek s0.alt evs).isSome := foldAlt_isSome (Or.inl hne)
  cases hf : f.alt with
  | some a => rfl
  | none =>
    rw [hf] at he
    cases hx : foldAlt ek s0.alt evs with
    | none => rw [hx] at hs; cases hs
    | some x => rw [hx] at he; exact he.elim

theorem nestedMerge_AR_ok {env : Env} (hek : env.ek ≠ .empty) (st1 si : St) :
    AltRel env.ek st1 (nestedMerge env st1 si) := by
  unfold nestedMerge
  cases si.alt with
  | none => exact AltRel.of_eq rfl rfl
  | some a =>
    dsimp only
    exact (addAltErr_F' (st0 := st1)
      (st := { st1 with errs := st1.errs ++ rehome st1.pos si.errs, insp := si.insp }) hek st1.pos a.err rfl rfl).toRel

theorem nestedMerge_AR_fail {env : Env} (hek : env.ek ≠ .empty) (st1 si : St) (hs : si.alt.isSome = true) :
    AltRelF env.ek st1 (nestedMerge env st1 si) := by
  unfold nestedMerge
  cases ha : si.alt with
  | none => rw [ha] at hs; cases hs
  | some a =>
    dsimp only
    exact addAltErr_F' (st0 := st1)
      (st := { st1 with errs := st1.errs ++ rehome st1.pos si.errs, insp := si.insp }) hek st1.pos a.err rfl rfl

theorem innerThenEndM_AR {ek : ErrKind} {s0 : St} {ra : Out} {rend : St → Out} (ha : ra.AR ek s0)
    (hend : ∀ si1, (rend si1).AR ek si1) : (innerThenEndM ra rend).AR ek s0 := by
  unfold innerThenEndM
  refine Out.AR.andThen ha ?_
  intro va si1
  refine Out.AR.andThen (hend si1) ?_
  intro _ si2
  exact AltRel.refl _ _

/-- **the pending-error invariant through `NestedIn::go`** -/
theorem nestedStep_AR {R : Runner} (h : HEnv) (env : Env) (hek : env.ek ≠ .empty)
    (hR : ∀ env', env'.ek = env.ek → env'.defs = env.defs → ARR env' R) (ha : h.a.c06 = true) (hb : h.b.c06 = true)
    (m : Mode) (st : St) : (nestedStepM R h env m st).AR env.ek st := by
  simp only [nestedStepM]
  have h1 := hR env rfl rfl .emit h.b st hb
  generalize R env .emit h.b st = o at h1 ⊢
  cases o with
  | fail st1 => exact h1
  | panic w => trivial
  | oof => trivial
  | ok vb st1 =>
    dsimp only
    cases h.kidsOf vb with
    | none => trivial
    | some kids =>
      dsimp only
      have hie : (h.innerEnv env kids).ek = env.ek := rfl
      have hid : (h.innerEnv env kids).defs = env.defs := rfl
      have hin := innerThenEndM_AR (ek := env.ek)
        (s0 := { pos := 0, errs := [], alt := none, insp := st1.insp, ctx := st1.ctx, memo := [], log := [] })
        (ra := R (h.innerEnv env kids) m h.a
          { pos := 0, errs := [], alt := none, insp := st1.insp, ctx := st1.ctx, memo := [], log := [] })
        (rend := fun si1 => R (h.innerEnv env kids) .check .end_ si1)
        (by
          have := hR (h.innerEnv env kids) hie hid m h.a
            { pos := 0, errs := [], alt := none, insp := st1.insp, ctx := st1.ctx, memo := [], log := [] } ha
          rwa [hie] at this)
        (fun si1 => by have := hR (h.innerEnv env kids) hie hid .check .end_ si1 rfl; rwa [hie] at this)
      generalize innerThenEndM (R (h.innerEnv env kids) m h.a
          { pos := 0, errs := [], alt := none, insp := st1.insp, ctx := st1.ctx, memo := [], log := [] })
          (fun si1 => R (h.innerEnv env kids) .check .end_ si1) = ro at hin ⊢
      cases ro with
      | ok va si => exact AltRel.trans h1 (nestedMerge_AR_ok hek st1 si)
      | fail si => exact AltRel.transF h1 (nestedMerge_AR_fail hek st1 si (altRelF_none_isSome rfl hin))
      | panic w => trivial
      | oof => trivial

theorem runH_AR_all (h : HEnv) (ek : ErrKind) (hek : ek ≠ .empty) (defs : List G) (hdefs : ∀ d ∈ defs, d.c06 = true)
    (ha : h.a.c06 = true) (hb : h.b.c06 = true) (n : Nat) :
    ∀ env, env.ek = ek → env.defs = defs → ARR env (runH h n) ∧ ARN env (nextH h n) ∧ ARK env (mkIterH h n) := by
  induction n with
  | zero => intro env _ _; exact ⟨fun _ _ _ _ => trivial, fun _ _ _ _ _ => trivial, fun _ _ _ _ => trivial⟩
  | succ n ih =>
    intro env he hd
    have hek' : env.ek ≠ .empty := by rw [he]; exact hek
    have hdefs' : ∀ d ∈ env.defs, d.c06 = true := by rw [hd]; exact hdefs
    obtain ⟨hR, hN, hK⟩ := ih env he hd
    refine ⟨?_, ?_, ?_⟩
    · intro m g st hg
      simp only [runH]
      by_cases hh : h.isHole g = true
      · simp only [hh, if_true]
        exact nestedStep_AR h env hek' (fun env' he' hd' => (ih env' (he'.trans he) (hd'.trans hd)).1) ha hb m st
      · simp only [hh]
        exact step_AR hek' hdefs' hR hN hK n m g st hg
    · simp only [nextH]; exact stepNext_AR hR hN hK
    · simp only [mkIterH]; exact stepMk_AR hek' hR hK

/-- **C06 with nested inputs**: when a parse of a grammar containing `a.nested_in(b)` (anywhere, any depth) fails, the last
    reported error is the pending error of the final state and (≈) the summary of all failure events of the OUTER parse —
    each nested parse that left an error contributing one event at the position just after its group token — hence at the
    furthest of them -/
theorem parseTopH_primary_error (h : HEnv) (n : Nat) (env : Env) (hek : env.ek ≠ .empty)
    (hdefs : ∀ d ∈ env.defs, d.c06 = true) (ha : h.a.c06 = true) (hb : h.b.c06 = true) (m : Mode) (g : G)
    (hg : g.c06 = true) (r : ParseResult) (f : St) (hp : parseTopH h n env m g = .result r f) (ho : r.output = none) :
    ∃ l l', f.alt = some l ∧ summ env.ek f.log = some l' ∧ l.equiv l' ∧ r.errs = f.errs.map (·.err) ++ [l.err] ∧
      (∀ ev ∈ f.log, ev.pos ≤ l.pos) := by
  have hAR := (runH_AR_all h env.ek hek env.defs hdefs ha hb n env rfl rfl).1 m (.thenIgnore g .end_) St.init
    (by simp [G.c06, hg])
  simp only [parseTopH] at hp
  generalize runH h n env m (.thenIgnore g .end_) St.init = o at hp hAR
  cases o with
  | ok v st =>
    simp only [TopOut.result.injEq] at hp
    obtain ⟨h1, h2⟩ := hp
    subst h1
    simp at ho
  | fail st =>
    simp only [TopOut.result.injEq] at hp
    obtain ⟨h1, h2⟩ := hp
    subst h1 h2
    obtain ⟨l, l', hl, hs, he⟩ := AltRelF.init hAR
    refine ⟨l, l', hl, hs, he, by simp [hl], ?_⟩
    intro ev hev
    rw [he.1]
    exact (foldAlt_pos_ge hs).1 ev hev
  | panic w => cases hp
  | oof => cases hp

end Chumsky
