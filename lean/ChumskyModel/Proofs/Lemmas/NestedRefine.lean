/-
  Proofs/Lemmas/NestedRefine.lean — the two-level machine (`runN`) refines the two-level reading (`pegN`), for every
  two-level grammar, every token tree, every mode, state and fuel. Leaves use the master refinement (`run_refines`).
-/
import ChumskyModel.Model.Nested
import ChumskyModel.Proofs.Lemmas.Master
set_option linter.unusedSimpArgs false
set_option linter.unusedVariables false
namespace Chumsky

theorem emsRel_rehome {ls : List Loc} {es : List Emis} (at_ : Nat) (h : EmsRel ls es) :
    EmsRel (rehome at_ ls) (rehomeEm at_ es) := by
  induction ls generalizing es with
  | nil => cases es with
    | nil => simp [rehome, rehomeEm]
    | cons _ _ => simp [EmsRel] at h
  | cons l ls ih => cases es with
    | nil => simp [EmsRel] at h
    | cons e es =>
      obtain ⟨h1, h2⟩ := h
      have ih' := ih h2
      cases e with
      | user u =>
        simp only [EmRel] at h1
        subst h1
        exact ⟨rfl, ih'⟩
      | recovered p => exact ⟨rfl, ih'⟩

@[simp] theorem nestedMerge_pos (env : Env) (st1 si : St) : (nestedMerge env st1 si).pos = st1.pos := by
  unfold nestedMerge; split <;> simp
@[simp] theorem nestedMerge_insp (env : Env) (st1 si : St) : (nestedMerge env st1 si).insp = si.insp := by
  unfold nestedMerge; split <;> simp
@[simp] theorem nestedMerge_errs (env : Env) (st1 si : St) :
    (nestedMerge env st1 si).errs = st1.errs ++ rehome st1.pos si.errs := by
  unfold nestedMerge; split <;> simp
@[simp] theorem nestedMerge_ctx (env : Env) (st1 si : St) : (nestedMerge env st1 si).ctx = st1.ctx := by
  unfold nestedMerge; split <;> simp
theorem nestedMerge_alt_isSome (env : Env) (st1 si : St) (h : si.alt.isSome = true) :
    (nestedMerge env st1 si).alt.isSome = true := by
  unfold nestedMerge
  cases ha : si.alt with
  | none => simp [ha] at h
  | some a => simp

theorem NEnv.inner_memoOn (ne : NEnv) (kids : List Nat) : (ne.inner kids).base.memoOn = ne.base.memoOn := rfl

/-- the refinement statement for one fuel level -/
def RefinesN (n : Nat) : Prop :=
  ∀ (ne : NEnv) (m : Mode) (g : NGram) (st : St), ne.base.memoOn = false →
    Refines m st.errs st.ctx (runN n ne m g st) (pegN n ne g st.ss st.ctx)

theorem RefinesN.at {n : Nat} (h : RefinesN n) {ne : NEnv} (hm : ne.base.memoOn = false)
    {m' m : Mode} {base ctx v st1 v' s1 e1} (g : NGram) (ho : OkRel m' base ctx v st1 v' s1 e1) :
    ∃ new1, st1.errs = base ++ new1 ∧ EmsRel new1 e1 ∧
      Refines m (base ++ new1) ctx (runN n ne m g st1) (pegN n ne g s1 ctx) := by
  obtain ⟨new1, he, hr⟩ := ho.errs
  refine ⟨new1, he, hr, ?_⟩
  have := h ne m g st1 hm
  rw [he, ho.ctx, ho.ss] at this
  exact this

theorem runN_refines_all : ∀ n, RefinesN n := by
  intro n
  induction n with
  | zero => intro ne m g st _; simp [runN, pegN, Refines]
  | succ n ih =>
    intro ne m g st hm
    cases g with
    | lift g =>
      simp only [runN, pegN]
      exact run_refines n ne.base m g st hm
    | then_ a b =>
      simp only [runN, pegN]
      have ha := ih ne m a st hm
      refine Refines.andThen0 ha ?_
      intro va st1 va' s1 e1 h1
      obtain ⟨new1, he1, hr1, hb⟩ := ih.at hm (m := m) b h1
      refine Refines.andThen hb ?_
      intro vb st2 vb' s2 e2 h2
      simp only [okRel_iff]
      refine OkRel.seq hr1 h2 ?_
      rw [h1.val, h2.val]; cases m <;> rfl
    | or_ a b =>
      simp only [runN, pegN]
      have ha := ih ne m a st hm
      cases hra : runN n ne m a st with
      | ok v st' =>
        cases hpa : pegN n ne a st.ss st.ctx <;> simp [hra, hpa, Refines] at ha ⊢
        exact ha
      | panic w => cases hpa : pegN n ne a st.ss st.ctx <;> simp [hra, hpa, Refines] at ha ⊢; exact ha
      | oof => cases hpa : pegN n ne a st.ss st.ctx <;> simp [hra, hpa, Refines] at ha ⊢
      | fail st' =>
        cases hpa : pegN n ne a st.ss st.ctx <;> simp [hra, hpa, Refines] at ha ⊢
        -- a failed: rewind to the checkpoint, try b from the same abstract position
        have hs : SameAs (st'.rewind st.save) st := SameAs.of_rewind ha
        have hb := ih ne m b (st'.rewind st.save) hm
        rw [hs.errs, hs.ctx, hs.ss] at hb
        cases hrb : runN n ne m b (st'.rewind st.save) with
        | ok v st'' =>
          cases hpb : pegN n ne b st.ss st.ctx <;> simp [hrb, hpb, Refines] at hb ⊢
          exact hb
        | panic w => cases hpb : pegN n ne b st.ss st.ctx <;> simp [hrb, hpb, Refines] at hb ⊢; exact hb
        | oof => cases hpb : pegN n ne b st.ss st.ctx <;> simp [hrb, hpb, Refines] at hb ⊢
        | fail st'' =>
          cases hpb : pegN n ne b st.ss st.ctx <;> simp [hrb, hpb, Refines] at hb ⊢
          exact ⟨by simp [take_of_prefix hb.errs], by simp [hb.ctx], by simpa using hb.alt⟩
    | orNot a =>
      simp only [runN, pegN]
      have ha := ih ne m a st hm
      cases hra : runN n ne m a st with
      | ok v st' =>
        cases hpa : pegN n ne a st.ss st.ctx <;> simp [hra, hpa, Refines] at ha ⊢
        refine ha.mono ?_
        rw [ha.val]; cases m <;> rfl
      | panic w => cases hpa : pegN n ne a st.ss st.ctx <;> simp [hra, hpa, Refines] at ha ⊢; exact ha
      | oof => cases hpa : pegN n ne a st.ss st.ctx <;> simp [hra, hpa, Refines] at ha ⊢
      | fail st' =>
        cases hpa : pegN n ne a st.ss st.ctx <;> simp [hra, hpa, Refines] at ha ⊢
        have hs : SameAs (st'.rewind st.save) st := SameAs.of_rewind ha
        rw [← hs.ss]
        exact ok_refl.mpr ⟨hs.errs, hs.ctx⟩
    | mapWithSpan a =>
      simp only [runN, pegN]
      have ha := ih ne m a st hm
      refine Refines.andThen0 ha ?_
      intro v st1 v' s1 e1 h1
      simp only [okRel_iff]
      have hp : st1.pos = s1.pos := by rw [← h1.ss]; rfl
      refine h1.mono ?_
      rw [h1.val, hp]; cases m <;> rfl
    | nestedIn a b =>
      simp only [runN, pegN]
      have hb := run_refines n ne.base .emit b st hm
      cases hrb : run n ne.base .emit b st with
      | fail st1 => cases hpb : peg n ne.base b st.ss st.ctx <;> simp [hrb, hpb, Refines, SOut.andThen] at hb ⊢; exact hb
      | panic w => cases hpb : peg n ne.base b st.ss st.ctx <;> simp [hrb, hpb, Refines, SOut.andThen] at hb ⊢; exact hb
      | oof => cases hpb : peg n ne.base b st.ss st.ctx <;> simp [hrb, hpb, Refines, SOut.andThen] at hb ⊢
      | ok vb st1 =>
        cases hpb : peg n ne.base b st.ss st.ctx <;> simp [hrb, hpb, Refines, SOut.andThen] at hb ⊢
        rename_i vb' s1 e1
        have hvb : vb = vb' := by simpa using hb.val
        subst hvb
        cases hk : ne.kidsOf vb with
        | none => simp [Refines]
        | some kids =>
          simp only
          have hmi : (ne.inner kids).base.memoOn = false := hm
          obtain ⟨new1, he1, hr1⟩ := hb.errs
          have hss : st1.ss = s1 := hb.ss
          have hinsp : st1.insp = s1.insp := by rw [← hss]; rfl
          have hpos : st1.pos = s1.pos := by rw [← hss]; rfl
          -- the inner run, measured from an empty error list
          have hin := ih (ne.inner kids) m a
            { pos := 0, errs := [], alt := none, insp := st1.insp, ctx := st1.ctx, memo := [], log := [] } hmi
          simp only [St.ss] at hin
          rw [hinsp, hb.ctx] at hin
          -- followed by `end()` on the inner input
          have hthen : Refines m [] st.ctx
              (innerThenEndM (runN n (ne.inner kids) m a
                  { pos := 0, errs := [], alt := none, insp := s1.insp, ctx := st.ctx, memo := [], log := [] })
                (fun si1 => run n (ne.inner kids).base .check .end_ si1))
              (innerThenEndS (pegN n (ne.inner kids) a ⟨0, s1.insp⟩ st.ctx)
                (fun si1 => peg n (ne.inner kids).base .end_ si1 st.ctx)) := by
            unfold innerThenEndM innerThenEndS
            refine Refines.andThen0 hin ?_
            intro va si1 va' si1' e2 h2
            obtain ⟨new2, he2, hr2⟩ := h2.errs
            have hend := run_refines n (ne.inner kids).base .check .end_ si1 hmi
            rw [he2, h2.ctx, h2.ss] at hend
            refine Refines.andThen hend ?_
            intro _ si2 _ si2' e3 h3
            simp only [okRel_iff]
            exact OkRel.seq hr2 h3 h2.val
          rw [hinsp, hb.ctx]
          revert hthen
          generalize (innerThenEndM (runN n (ne.inner kids) m a
                  { pos := 0, errs := [], alt := none, insp := s1.insp, ctx := st.ctx, memo := [], log := [] })
                (fun si1 => run n (ne.inner kids).base .check .end_ si1)) = ro
          generalize (innerThenEndS (pegN n (ne.inner kids) a ⟨0, s1.insp⟩ st.ctx)
                (fun si1 => peg n (ne.inner kids).base .end_ si1 st.ctx)) = so
          intro hthen
          cases ro <;> cases so <;> simp [Refines] at hthen ⊢
          · -- inner success
            rename_i va si va' si' e2
            obtain ⟨new2, he2, hr2⟩ := hthen.errs
            refine ⟨hthen.val, ?_, ?_, by simp [hb.ctx]⟩
            · simp [St.ss, hpos, ← hthen.ss]
            · refine ⟨new1 ++ rehome st1.pos new2, ?_, ?_⟩
              · simp [he1, he2, List.append_assoc]
              · rw [← hpos]; exact hr1.append (emsRel_rehome st1.pos hr2)
          · -- inner failure: the outer list is only extended, the failure is recorded
            rename_i si
            exact ⟨by simp [he1, List.append_assoc], by simp [hb.ctx],
                   nestedMerge_alt_isSome _ _ _ hthen.alt⟩
          · exact hthen

theorem runN_refines (n : Nat) (ne : NEnv) (m : Mode) (g : NGram) (st : St) (hm : ne.base.memoOn = false) :
    Refines m st.errs st.ctx (runN n ne m g st) (pegN n ne g st.ss st.ctx) :=
  runN_refines_all n ne m g st hm

end Chumsky
