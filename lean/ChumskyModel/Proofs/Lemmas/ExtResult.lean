/-
  C03 for grammars with extensions (`EEnv`: Pratt tables and nested-input parsers containing each other): the result contract of
  `parse` / `check` — no output ⇒ at least one error, error-free ⇒ output, rejection ⇔ the reading fails on the whole input.
-/
import ChumskyModel.Proofs.Lemmas.ExtAll
set_option linter.unusedSimpArgs false
set_option linter.unusedVariables false
namespace Chumsky

theorem parseTopE_no_output_has_error (e : EEnv) (n : Nat) (env : Env) (m : Mode) (g : G) (r : ParseResult) (f : St)
    (h : parseTopE e n env m g = .result r f) (ho : r.output = none) : r.errs ≠ [] := by
  unfold parseTopE at h
  cases hr : runE e n env m (.thenIgnore g .end_) St.init <;> simp [hr] at h
  · obtain ⟨h1, _⟩ := h; subst h1; simp at ho
  · obtain ⟨h1, _⟩ := h; subst h1; simp

theorem parseTopE_error_free_has_output (e : EEnv) (n : Nat) (env : Env) (m : Mode) (g : G) (r : ParseResult) (f : St)
    (h : parseTopE e n env m g = .result r f) (he : r.errs = []) : r.output.isSome = true := by
  cases ho : r.output with
  | some v => rfl
  | none => exact absurd he (parseTopE_no_output_has_error e n env m g r f h ho)

theorem parseTopE_reject_iff (e : EEnv) (n : Nat) (env : Env) (m : Mode) (g : G) (hm : env.memoOn = false)
    (r : ParseResult) (f : St) (h : parseTopE e n env m g = .result r f) :
    r.output = none ↔ pegTopE e n env g = .fail := by
  have ht := parseTopE_refines e n env m g hm
  rw [h] at ht
  cases hp : pegTopE e n env g <;> rw [hp] at ht <;> simp only [TopRefines] at ht <;> simp
  · rw [ht.1]; simp
  · exact ht.1

/-- an accepted, error-free parse has consumed the whole input: the reading succeeds without emissions and the final
    position is the end of the (outer) input -/
theorem parseTopE_whole_input (e : EEnv) (n : Nat) (env : Env) (m : Mode) (g : G) (hm : env.memoOn = false)
    (r : ParseResult) (f : St) (h : parseTopE e n env m g = .result r f) (v : Val) (ho : r.output = some v)
    (he : r.errs = []) :
    ∃ v' s, pegTopE e n env g = .ok v' s [] ∧ v = m.bind v' ∧ f.pos = s.pos := by
  have ht := parseTopE_refines e n env m g hm
  rw [h] at ht
  cases hp : pegTopE e n env g <;> rw [hp] at ht <;> simp only [TopRefines] at ht
  · rename_i v' s em
    obtain ⟨h1, h2, h3, h4⟩ := ht
    rw [he] at h4
    have : f.errs = [] := by simpa using h4.symm
    rw [this] at h3
    have hem : em = [] := by
      cases em with
      | nil => rfl
      | cons e es => simp [EmsRel] at h3
    subst hem
    rw [ho] at h1
    exact ⟨v', s, rfl, by simpa using h1, by rw [← h2]; rfl⟩
  · rw [ho] at ht; simp at ht
