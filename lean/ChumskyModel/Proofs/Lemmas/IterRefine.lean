/-
  The iterator part of the refinement machine ↔ PEG reading: `make_iter` (`stepMk`), `next` (`stepNext`)
  and the iteration consumers of `step` (`collect`, `collect_exactly`, `foldl`, `foldr`, `foldl_with`,
  `foldr_with`, and an `IterParser` used as a plain parser).
-/
import ChumskyModel.Proofs.Lemmas.StepRefine
set_option linter.unusedSimpArgs false
set_option linter.unusedVariables false
namespace Chumsky

variable {R : Runner} {P : SRunner} {N : NextRunner} {K : MkRunner} {SN : SNextRunner} {SK : SMkRunner}

/-! ### small facts about the iterator relations -/

@[simp] theorem refinesMk_ok {base ctx i st' i' s' em} :
    RefinesMk base ctx (.ok i st') (.ok i' s' em) ↔ DoneRel base ctx st' i s' i' em := Iff.rfl
@[simp] theorem refinesMk_fail {base ctx st'} : RefinesMk base ctx (.fail st') .fail ↔ FailRel base ctx st' := Iff.rfl

@[simp] theorem refinesIt_some {m base ctx v st' i v' s' i' em} :
    RefinesIt m base ctx (.some v st' i) (.some v' s' i' em) ↔ (OkRel m base ctx v st' v' s' em ∧ i = i') := Iff.rfl
@[simp] theorem refinesIt_done {m base ctx st' i s' i' em} :
    RefinesIt m base ctx (.done st' i) (.done s' i' em) ↔ DoneRel base ctx st' i s' i' em := Iff.rfl
@[simp] theorem refinesIt_fail {m base ctx st'} : RefinesIt m base ctx (.fail st') .fail ↔ FailRel base ctx st' := Iff.rfl

theorem DoneRel.refl' {st : St} {base ctx ist} (he : st.errs = base) (hc : st.ctx = ctx) :
    DoneRel base ctx st ist st.ss ist [] :=
  ⟨rfl, ⟨[], by simp [he]⟩, hc, rfl⟩

theorem DoneRel.rebase {base new1 : List Loc} {e1 : List Emis} {ctx st' i s' i' em} (hr1 : EmsRel new1 e1)
    (h : DoneRel (base ++ new1) ctx st' i s' i' em) : DoneRel base ctx st' i s' i' (e1 ++ em) := by
  obtain ⟨new2, he2, hr2⟩ := h.errs
  exact ⟨h.ss, ⟨new1 ++ new2, by simp [he2], hr1.append hr2⟩, h.ctx, h.ist⟩

/-- IH instance of the `next` runner at a state described by `base ++ new`, `ctx`, and any spec position equal to `st.ss` -/
theorem NextRefines.at (hN : NextRefines N SN) {env : Env} (hm : env.memoOn = false) (m : Mode) (it : It)
    {st : St} {base new : List Loc} {ctx : Val} (ist : ItSt) (he : st.errs = base ++ new) (hc : st.ctx = ctx) :
    RefinesIt m (base ++ new) ctx (N env m it st ist) (SN env it st.ss ctx ist) := by
  have := hN env m it st ist hm
  rw [he, hc] at this
  exact this

theorem MkRefines.at (hK : MkRefines K SK) {env : Env} (hm : env.memoOn = false) (m : Mode) (it : It)
    {st : St} {base new : List Loc} {ctx : Val} (he : st.errs = base ++ new) (hc : st.ctx = ctx) :
    RefinesMk (base ++ new) ctx (K env m it st) (SK env it st.ss ctx) := by
  have := hK env m it st hm
  rw [he, hc] at this
  exact this

theorem RunnerRefines.at' (hR : RunnerRefines R P) {env : Env} (hm : env.memoOn = false) (m : Mode) (g : G)
    {st : St} {base new : List Loc} {ctx : Val} (he : st.errs = base ++ new) (hc : st.ctx = ctx) :
    Refines m (base ++ new) ctx (R env m g st) (P env g st.ss ctx) := by
  have := hR env m g st hm
  rw [he, hc] at this
  exact this

/-! ### `make_iter` -/

theorem stepMk_refines (hR : RunnerRefines R P) (hK : MkRefines K SK) : MkRefines (stepMk R K) (pegMk P SK) := by
  intro env m it st hm
  cases it with
  | repeated a lo hi => simp only [stepMk, pegMk, refinesMk_ok]; exact DoneRel.refl' rfl rfl
  | separatedBy a sep lo hi lead trail => simp only [stepMk, pegMk, refinesMk_ok]; exact DoneRel.refl' rfl rfl
  | orNotIt a => simp only [stepMk, pegMk, refinesMk_ok]; exact DoneRel.refl' rfl rfl
  | enumerate inner =>
    simp only [stepMk, pegMk]
    have h := hK env m inner st hm
    revert h
    cases K env m inner st <;> cases SK env inner st.ss st.ctx <;> simp [RefinesMk]
    intro h
    exact ⟨h.ss, h.errs, h.ctx, by rw [h.ist]⟩
  | intoIter a =>
    simp only [stepMk, pegMk]
    have h := hR env .emit a st hm
    revert h
    cases R env .emit a st <;> cases P env a st.ss st.ctx <;> simp [Refines, RefinesMk]
    intro h
    have hv := h.val
    simp only [bind_emit] at hv
    exact ⟨h.ss, h.errs, h.ctx, by rw [hv]⟩
  | thenIt a b =>
    simp only [stepMk, pegMk]
    have h := hK env m a st hm
    revert h
    cases K env m a st <;> cases SK env a st.ss st.ctx <;> simp [RefinesMk]
    intro h
    exact ⟨h.ss, h.errs, h.ctx, by rw [h.ist]⟩
  | mapIt f inner =>
    simp only [stepMk, pegMk]
    exact hK env m inner st hm
  | configureRep c inner =>
    simp only [stepMk, pegMk]
    have h := hK env m inner st hm
    revert h
    cases K env m inner st <;> cases SK env inner st.ss st.ctx <;> simp [RefinesMk]
    intro h
    exact ⟨h.ss, h.errs, h.ctx, by rw [h.ist, h.ctx]⟩
  | tryConfigureRep c inner =>
    simp only [stepMk, pegMk]
    cases hn : st.ctx.asNat? with
    | none =>
      simp only [refinesMk_fail]
      exact ⟨by simp, by simp, by simp⟩
    | some n =>
      simp only
      have h := hK env m inner st hm
      revert h
      cases K env m inner st <;> cases SK env inner st.ss st.ctx <;> simp [RefinesMk]
      intro h
      exact ⟨h.ss, h.errs, h.ctx, by rw [h.ist]⟩

/-! ### the loops of the iteration consumers -/

theorem collectOut_rel {m : Mode} {k : CollKind} {acc acc' : List Val} (h : AccRel m acc acc') :
    collectOut m k acc.reverse = m.bind (sCollectOut k acc'.reverse) := by
  cases m
  · simp [h rfl, sCollectOut, collectOut]
  · rfl

theorem collectLoop_refines (hN : NextRefines N SN) (env : Env) (hm : env.memoOn = false) (m : Mode) (it : It)
    (k : CollKind) (base : List Loc) (ctx : Val) :
    ∀ (fuel : Nat) (st : St) (ist : ItSt) (acc acc' : List Val) (i : Nat) (new : List Loc) (em : List Emis),
      st.errs = base ++ new → EmsRel new em → st.ctx = ctx → AccRel m acc acc' →
      Refines m base ctx (collectLoop N env m it k fuel st ist acc i)
        (sCollectLoop SN env ctx it k fuel st.ss ist acc' i em) := by
  intro fuel
  induction fuel with
  | zero => intro st ist acc acc' i new em _ _ _ _; simp [collectLoop, sCollectLoop, Refines]
  | succ fuel ih =>
    intro st ist acc acc' i new em he hr hc ha
    simp only [collectLoop, sCollectLoop]
    have h := hN.at hm m it ist he hc
    revert h
    cases N env m it st ist <;> cases SN env it st.ss ctx ist <;> simp only [RefinesIt, false_imp_iff] <;>
      try (first | exact id | exact fun _ => trivial)
    case some.some v st' ist' v' s' ist'' em' =>
      intro ⟨h, hi⟩
      subst hi
      have hss := h.ss
      subst hss
      obtain ⟨new2, he2, hr2⟩ := h.errs
      simp only [ss_pos]
      by_cases hcond : (!it.nonconsOk && decide (i ≥ 1) && st'.pos == st.pos) = true
      · simp only [hcond, if_true]; rfl
      · simp only [hcond, if_false]
        exact ih st' ist' (v :: acc) (v' :: acc') (i + 1) (new ++ new2) _ (by simp [he2]) (hr.append hr2) h.ctx
            (ha.cons h.val (fun h => h))
    case done.done st' ist' s' ist'' em' =>
      intro h
      exact ⟨collectOut_rel ha, h.ss, (h.rebase hr).errs, h.ctx⟩
    case fail.fail st' =>
      intro h
      exact h.rebase

theorem collectExactlyLoop_refines (hN : NextRefines N SN) (env : Env) (hm : env.memoOn = false) (m : Mode) (it : It)
    (base : List Loc) (ctx : Val) :
    ∀ (n : Nat) (st : St) (ist : ItSt) (acc acc' : List Val) (new : List Loc) (em : List Emis),
      st.errs = base ++ new → EmsRel new em → st.ctx = ctx → AccRel m acc acc' →
      Refines m base ctx (collectExactlyLoop N env m it n st ist acc)
        (sCollectExactlyLoop SN env ctx it n st.ss ist acc' em) := by
  intro n
  induction n with
  | zero =>
    intro st ist acc acc' new em he hr hc ha
    simp only [collectExactlyLoop, sCollectExactlyLoop, okRel_iff]
    exact ⟨ha.bind_ofList, rfl, ⟨new, he, hr⟩, hc⟩
  | succ n ih =>
    intro st ist acc acc' new em he hr hc ha
    simp only [collectExactlyLoop, sCollectExactlyLoop]
    have h := hN.at hm m it ist he hc
    revert h
    cases N env m it st ist <;> cases SN env it st.ss ctx ist <;> simp only [RefinesIt, false_imp_iff] <;>
      try (first | exact id | exact fun _ => trivial)
    case some.some v st' ist' v' s' ist'' em' =>
      intro ⟨h, hi⟩
      subst hi
      have hss := h.ss
      subst hss
      obtain ⟨new2, he2, hr2⟩ := h.errs
      exact ih st' ist' (v :: acc) (v' :: acc') (new ++ new2) _ (by simp [he2]) (hr.append hr2) h.ctx
        (ha.cons h.val (fun h => h))
    case done.done st' ist' s' ist'' em' =>
      -- the machine records a pending error; the reading just fails
      intro h
      obtain ⟨new2, he2, _⟩ := h.errs
      exact ⟨by simp [he2], by simp [h.ctx], by simp⟩
    case fail.fail st' =>
      intro h
      exact h.rebase

theorem foldlLoop_refines (hN : NextRefines N SN) (env : Env) (hm : env.memoOn = false) (m : Mode) (it : It)
    (f : Val → Val → St → Val) (f' : Val → Val → SS → Val) (hf : ∀ acc x st', f acc x st' = f' acc x st'.ss)
    (base : List Loc) (ctx : Val) :
    ∀ (fuel : Nat) (st : St) (ist : ItSt) (acc acc' : Val) (new : List Loc) (em : List Emis),
      st.errs = base ++ new → EmsRel new em → st.ctx = ctx → acc = m.bind acc' →
      Refines m base ctx (foldlLoop N env m it f fuel st ist acc)
        (sFoldlLoop SN env ctx it f' fuel st.ss ist acc' em) := by
  intro fuel
  induction fuel with
  | zero => intro st ist acc acc' new em _ _ _ _; simp [foldlLoop, sFoldlLoop, Refines]
  | succ fuel ih =>
    intro st ist acc acc' new em he hr hc ha
    simp only [foldlLoop, sFoldlLoop]
    have h := hN.at hm m it ist he hc
    revert h
    cases N env m it st ist <;> cases SN env it st.ss ctx ist <;> simp only [RefinesIt, false_imp_iff] <;>
      try (first | exact id | exact fun _ => trivial)
    case some.some v st' ist' v' s' ist'' em' =>
      intro ⟨h, hi⟩
      subst hi
      have hss := h.ss
      subst hss
      obtain ⟨new2, he2, hr2⟩ := h.errs
      simp only [ss_pos]
      by_cases hcond : (!it.nonconsOk && st'.pos == st.pos) = true
      · simp only [hcond, if_true]; rfl
      · simp only [hcond, if_false]
        refine ih st' ist' _ _ (new ++ new2) _ (by simp [he2]) (hr.append hr2) h.ctx ?_
        have hv := h.val
        cases m
        · simp only [bind_emit] at hv ha ⊢
          rw [hv, ha, hf]
        · rfl
    case done.done st' ist' s' ist'' em' =>
      intro h
      exact ⟨ha, h.ss, (h.rebase hr).errs, h.ctx⟩
    case fail.fail st' =>
      intro h
      exact h.rebase

/-- relation between the results of the collecting phase of `foldr` -/
def FoldrRel (m : Mode) (base : List Loc) (ctx : Val) :
    (Option (List (Val × Nat) × St)) ⊕ Out → (Option (List (Val × Nat) × SS × List Emis)) ⊕ SOut → Prop
  | .inl (some (items, st')), .inl (some (items', s', em)) =>
      (m = .emit → items = items') ∧ st'.ss = s' ∧ (∃ new, st'.errs = base ++ new ∧ EmsRel new em) ∧ st'.ctx = ctx
  | .inr o, .inr so => Refines m base ctx o so
  | _, _ => False

theorem foldrCollect_refines (hN : NextRefines N SN) (env : Env) (hm : env.memoOn = false) (m : Mode) (it : It)
    (base : List Loc) (ctx : Val) :
    ∀ (fuel : Nat) (st : St) (ist : ItSt) (acc acc' : List (Val × Nat)) (new : List Loc) (em : List Emis),
      st.errs = base ++ new → EmsRel new em → st.ctx = ctx → (m = .emit → acc = acc') →
      FoldrRel m base ctx (foldrCollect N env m it fuel st ist acc)
        (sFoldrCollect SN env ctx it fuel st.ss ist acc' em) := by
  intro fuel
  induction fuel with
  | zero => intro st ist acc acc' new em _ _ _ _; simp [foldrCollect, sFoldrCollect, FoldrRel, Refines]
  | succ fuel ih =>
    intro st ist acc acc' new em he hr hc ha
    simp only [foldrCollect, sFoldrCollect]
    have h := hN.at hm m it ist he hc
    revert h
    cases N env m it st ist <;> cases SN env it st.ss ctx ist <;> simp only [RefinesIt, false_imp_iff] <;>
      try (first | exact id | exact fun _ => trivial)
    case some.some v st' ist' v' s' ist'' em' =>
      intro ⟨h, hi⟩
      subst hi
      have hss := h.ss
      subst hss
      obtain ⟨new2, he2, hr2⟩ := h.errs
      simp only [ss_pos]
      by_cases hcond : (!it.nonconsOk && st'.pos == st.pos) = true
      · simp only [hcond, if_true]; rfl
      · simp only [hcond, if_false]
        refine ih st' ist' _ _ (new ++ new2) _ (by simp [he2]) (hr.append hr2) h.ctx ?_
        intro hme
        subst hme
        have hv := h.val
        simp only [bind_emit] at hv
        rw [hv, ha rfl]
    case done.done st' ist' s' ist'' em' =>
      intro h
      exact ⟨ha, h.ss, (h.rebase hr).errs, h.ctx⟩
    case fail.fail st' =>
      intro h
      exact FailRel.rebase h

theorem repeatFast_refines (hR : RunnerRefines R P) (env : Env) (hm : env.memoOn = false) (m : Mode) (a : G)
    (base : List Loc) (ctx : Val) :
    ∀ (fuel : Nat) (st : St) (new : List Loc) (em : List Emis),
      st.errs = base ++ new → EmsRel new em → st.ctx = ctx →
      Refines m base ctx (repeatFast R env a fuel st) (sRepeatFast P env ctx a fuel st.ss em) := by
  intro fuel
  induction fuel with
  | zero => intro st new em _ _ _; simp [repeatFast, sRepeatFast, Refines]
  | succ fuel ih =>
    intro st new em he hr hc
    simp only [repeatFast, sRepeatFast]
    have h := hR.at' hm .check a he hc
    revert h
    cases R env .check a st <;> cases P env a st.ss ctx <;> simp only [Refines, false_imp_iff] <;>
      try (first | exact id | exact fun _ => trivial)
    case ok.ok v st' v' s' em' =>
      intro h
      have hss := h.ss
      subst hss
      obtain ⟨new2, he2, hr2⟩ := h.errs
      simp only [ss_pos]
      by_cases hcond : (st'.pos == st.pos) = true
      · simp only [hcond, if_true]
      · simp only [hcond, if_false]
        exact ih st' (new ++ new2) _ (by simp [he2]) (hr.append hr2) h.ctx
    case fail.fail st' =>
      intro h
      refine ⟨(bind_unit m).symm, rfl, ⟨new, ?_, hr⟩, by simp [h.ctx]⟩
      show List.take st.errs.length st'.errs = base ++ new
      rw [he]
      exact take_of_prefix h.errs

theorem iterLoop_refines (hN : NextRefines N SN) (env : Env) (hm : env.memoOn = false) (m : Mode) (it : It)
    (ap : Bool) (base : List Loc) (ctx : Val) :
    ∀ (fuel : Nat) (st : St) (ist : ItSt) (new : List Loc) (em : List Emis),
      st.errs = base ++ new → EmsRel new em → st.ctx = ctx →
      Refines m base ctx (iterLoop N env it ap fuel st ist) (sIterLoop SN env ctx it ap fuel st.ss ist em) := by
  intro fuel
  induction fuel with
  | zero => intro st ist new em _ _ _; simp [iterLoop, sIterLoop, Refines]
  | succ fuel ih =>
    intro st ist new em he hr hc
    simp only [iterLoop, sIterLoop]
    have h := hN.at hm .check it ist he hc
    revert h
    cases N env .check it st ist <;> cases SN env it st.ss ctx ist <;> simp only [RefinesIt, false_imp_iff] <;>
      try (first | exact id | exact fun _ => trivial)
    case some.some v st' ist' v' s' ist'' em' =>
      intro ⟨h, hi⟩
      subst hi
      have hss := h.ss
      subst hss
      obtain ⟨new2, he2, hr2⟩ := h.errs
      simp only [ss_pos]
      by_cases hcond : (ap && st'.pos == st.pos) = true
      · simp only [hcond, if_true]; rfl
      · simp only [hcond, if_false]
        exact ih st' ist' (new ++ new2) _ (by simp [he2]) (hr.append hr2) h.ctx
    case done.done st' ist' s' ist'' em' =>
      intro h
      exact ⟨(bind_unit m).symm, h.ss, (h.rebase hr).errs, h.ctx⟩
    case fail.fail st' =>
      intro h
      exact h.rebase

/-! ### `next` -/

theorem repeatedNext_refines (hR : RunnerRefines R P) (env : Env) (hm : env.memoOn = false) (m : Mode) (a : G)
    (lo : Nat) (hi : Option Nat) (st : St) (n : Nat) (wrap : ItSt → ItSt) :
    RefinesIt m st.errs st.ctx (repeatedNext R env m a lo hi st n wrap)
      (sRepeatedNext P env st.ctx a lo hi st.ss n wrap) := by
  simp only [repeatedNext, sRepeatedNext]
  by_cases hcap : capReached hi n = true
  · simp only [hcap, if_true, refinesIt_done]
    exact DoneRel.refl' rfl rfl
  · simp only [hcap, if_false]
    have h := hR env m a st hm
    revert h
    cases R env m a st <;> cases P env a st.ss st.ctx <;> simp only [Refines, false_imp_iff] <;>
      try (first | exact id | exact fun _ => trivial)
    case ok.ok v st' v' s' em' =>
      intro h
      exact ⟨h, rfl⟩
    case fail.fail st' =>
      intro h
      by_cases hlo : n ≥ lo
      · simp only [hlo, if_true, refinesIt_done]
        exact ⟨rfl, ⟨[], by simp [take_of_prefix h.errs]⟩, by simp [h.ctx], rfl⟩
      · simp only [hlo, if_false, refinesIt_fail]
        exact ⟨by simp [take_of_prefix h.errs], by simp [h.ctx], by simp [h.alt]⟩

/-- the item part of `SeparatedBy::next`, started in `st0` (after the optional separator, whose emissions
    are `new0 ~ e0`); `st` is the state at the start of `next` -/
theorem sepItem_refines (hR : RunnerRefines R P) (env : Env) (hm : env.memoOn = false) (m : Mode) (a : G)
    (lo n : Nat) (trail : Bool) (st st0 : St) (new0 : List Loc) (e0 : List Emis)
    (he0 : st0.errs = st.errs ++ new0) (hr0 : EmsRel new0 e0) (hc0 : st0.ctx = st.ctx) :
    RefinesIt m st.errs st.ctx
      (match R env m a st0 with
        | .ok v st1 => .some v st1 (.cnt (n + 1))
        | .fail st1 =>
          if n < lo then .fail (st1.rewind st.save)
          else if trail then .done (st1.rewind st0.save) (.cnt n)
          else .done (st1.rewind st.save) (.cnt n)
        | .panic w => .panic w
        | .oof => .oof)
      (match P env a st0.ss st.ctx with
        | .ok v s1 em => .some v s1 (.cnt (n + 1)) (e0 ++ em)
        | .fail =>
          if n < lo then .fail
          else if trail then .done st0.ss (.cnt n) e0
          else .done st.ss (.cnt n) []
        | .panic w => .panic w
        | .oof => .oof) := by
  have h := hR.at' hm m a he0 hc0
  revert h
  cases R env m a st0 <;> cases P env a st0.ss st.ctx <;> simp only [Refines, false_imp_iff] <;>
    try (first | exact id | exact fun _ => trivial)
  case ok.ok v st' v' s' em' =>
    intro h
    exact ⟨OkRel.seq hr0 h h.val, rfl⟩
  case fail.fail st' =>
    intro h
    have hp : st.errs <+: st'.errs := prefix_append_of_prefix h.errs
    by_cases hlo : n < lo
    · simp only [hlo, if_true, refinesIt_fail]
      exact ⟨by simp [take_of_prefix hp], by simp [h.ctx], by simp [h.alt]⟩
    · simp only [hlo, if_false]
      cases trail
      · simp only [Bool.false_eq_true, if_false, refinesIt_done]
        exact ⟨rfl, ⟨[], by simp [take_of_prefix hp]⟩, by simp [h.ctx], rfl⟩
      · simp only [if_true, refinesIt_done]
        refine ⟨rfl, ⟨new0, ?_, hr0⟩, by simp [h.ctx], rfl⟩
        show List.take st0.errs.length st'.errs = st.errs ++ new0
        rw [he0]
        exact take_of_prefix h.errs

theorem separatedNext_refines (hR : RunnerRefines R P) (env : Env) (hm : env.memoOn = false) (m : Mode) (a sep : G)
    (lo : Nat) (hi : Option Nat) (lead trail : Bool) (st : St) (n : Nat) :
    RefinesIt m st.errs st.ctx (separatedNext R env m a sep lo hi lead trail st n)
      (sSeparatedNext P env st.ctx a sep lo hi lead trail st.ss n) := by
  simp only [separatedNext, sSeparatedNext]
  by_cases hcap : capReached hi n = true
  · simp only [hcap, if_true, refinesIt_done]
    exact DoneRel.refl' rfl rfl
  · simp only [hcap, if_false]
    have hitem0 := sepItem_refines hR env hm m a lo n trail st st [] [] (by simp) trivial rfl
    by_cases h1 : (n == 0 && lead) = true
    · simp only [h1, if_true]
      have h := hR env .check sep st hm
      revert h
      cases R env .check sep st <;> cases P env sep st.ss st.ctx <;> simp only [Refines, false_imp_iff] <;>
        try (first | exact id | exact fun _ => trivial)
      case ok.ok v st' v' s' em' =>
        intro h
        have hss := h.ss
        subst hss
        obtain ⟨new1, he1, hr1⟩ := h.errs
        exact sepItem_refines hR env hm m a lo n trail st st' new1 em' he1 hr1 h.ctx
      case fail.fail st' =>
        intro h
        exact sepItem_refines hR env hm m a lo n trail st (st'.rewind st.save) [] []
          (by simp [take_of_prefix h.errs]) trivial (by simp [h.ctx])
    · simp only [h1, if_false]
      by_cases h2 : n > 0
      · simp only [h2, if_true]
        have h := hR env .check sep st hm
        revert h
        cases R env .check sep st <;> cases P env sep st.ss st.ctx <;> simp only [Refines, false_imp_iff] <;>
          try (first | exact id | exact fun _ => trivial)
        case ok.ok v st' v' s' em' =>
          intro h
          have hss := h.ss
          subst hss
          obtain ⟨new1, he1, hr1⟩ := h.errs
          exact sepItem_refines hR env hm m a lo n trail st st' new1 em' he1 hr1 h.ctx
        case fail.fail st' =>
          intro h
          by_cases hlo : n < lo
          · simp only [hlo, if_true, refinesIt_fail]
            exact ⟨by simp [take_of_prefix h.errs], by simp [h.ctx], by simp [h.alt]⟩
          · simp only [hlo, if_false, refinesIt_done]
            exact ⟨rfl, ⟨[], by simp [take_of_prefix h.errs]⟩, by simp [h.ctx], rfl⟩
      · simp only [h2, if_false]
        exact hitem0

theorem stepNext_refines (hR : RunnerRefines R P) (hN : NextRefines N SN) (hK : MkRefines K SK) :
    NextRefines (stepNext R N K) (pegNext P SN SK) := by
  intro env m it st ist hm
  cases it with
  | repeated a lo hi =>
    cases ist <;> simp only [stepNext, pegNext] <;> try exact rfl
    exact repeatedNext_refines hR env hm m a lo hi st _ id
  | separatedBy a sep lo hi lead trail =>
    cases ist <;> simp only [stepNext, pegNext] <;> try exact rfl
    exact separatedNext_refines hR env hm m a sep lo hi lead trail st _
  | enumerate inner =>
    cases ist <;> simp only [stepNext, pegNext] <;> try exact rfl
    case enum k s0 =>
      have h := hN env m inner st s0 hm
      revert h
      cases N env m inner st s0 <;> cases SN env inner st.ss st.ctx s0 <;> simp only [RefinesIt, false_imp_iff] <;>
        try (first | exact id | exact fun _ => trivial)
      case some.some v st' ist' v' s' ist'' em' =>
        intro ⟨h, hi⟩
        subst hi
        refine ⟨OkRel.mono h ?_, rfl⟩
        cases m
        · simp [h.val]
        · rfl
      case done.done st' ist' s' ist'' em' =>
        intro h
        exact ⟨h.ss, h.errs, h.ctx, by rw [h.ist]⟩
  | orNotIt a =>
    cases ist <;> simp only [stepNext, pegNext] <;> try exact rfl
    case fin b =>
      cases b
      · simp only [Bool.false_eq_true, if_false]
        have h := hR env m a st hm
        revert h
        cases R env m a st <;> cases P env a st.ss st.ctx <;> simp only [Refines, false_imp_iff] <;>
          try (first | exact id | exact fun _ => trivial)
        case ok.ok v st' v' s' em' =>
          intro h
          exact ⟨h, rfl⟩
        case fail.fail st' =>
          intro h
          exact ⟨rfl, ⟨[], by simp [take_of_prefix h.errs]⟩, by simp [h.ctx], rfl⟩
      · simp only [if_true, refinesIt_done]
        exact DoneRel.refl' rfl rfl
  | intoIter a =>
    cases ist <;> simp only [stepNext, pegNext] <;> try exact rfl
    case into vs =>
      cases vs with
      | nil => exact DoneRel.refl' rfl rfl
      | cons v rest => exact ⟨⟨rfl, rfl, ⟨[], by simp⟩, rfl⟩, rfl⟩
  | thenIt a b =>
    cases ist <;> simp only [stepNext, pegNext] <;> try exact rfl
    case thn sa sb? =>
      cases sb? with
      | some sb =>
        simp only
        have h := hN env m b st sb hm
        revert h
        cases N env m b st sb <;> cases SN env b st.ss st.ctx sb <;> simp only [RefinesIt, false_imp_iff] <;>
          try (first | exact id | exact fun _ => trivial)
        case some.some v st' ist' v' s' ist'' em' =>
          intro ⟨h, hi⟩
          subst hi
          exact ⟨h, rfl⟩
        case done.done st' ist' s' ist'' em' =>
          intro h
          exact ⟨h.ss, h.errs, h.ctx, by rw [h.ist]⟩
      | none =>
        simp only
        have h := hN env m a st sa hm
        revert h
        cases N env m a st sa <;> cases SN env a st.ss st.ctx sa <;> simp only [RefinesIt, false_imp_iff] <;>
          try (first | exact id | exact fun _ => trivial)
        case some.some v st' ist' v' s' ist'' em' =>
          intro ⟨h, hi⟩
          subst hi
          exact ⟨h, rfl⟩
        case done.done st1 sa1 s1 sa1' e1 =>
          intro h1
          have hi := h1.ist
          subst hi
          have hss := h1.ss
          subst hss
          obtain ⟨new1, he1, hr1⟩ := h1.errs
          have hk := hK.at hm m b he1 h1.ctx
          revert hk
          cases K env m b st1 <;> cases SK env b st1.ss st.ctx <;> simp only [RefinesMk, false_imp_iff] <;>
            try (first | exact id | exact fun _ => trivial)
          case ok.ok sb st2 sb' s2 e2 =>
            intro h2
            have hi := h2.ist
            subst hi
            have hss := h2.ss
            subst hss
            obtain ⟨new2, he2, hr2⟩ := h2.errs
            have hn := hN.at hm m b sb (base := st.errs) (new := new1 ++ new2) (by simp [he2]) h2.ctx
            revert hn
            cases N env m b st2 sb <;> cases SN env b st2.ss st.ctx sb <;> simp only [RefinesIt, false_imp_iff] <;>
              try (first | exact id | exact fun _ => trivial)
            case some.some v st3 sb1 v' s3 sb1' e3 =>
              intro ⟨h3, hi⟩
              subst hi
              exact ⟨OkRel.seq (hr1.append hr2) h3 h3.val, rfl⟩
            case done.done st3 sb1 s3 sb1' e3 =>
              intro h3
              have := h3.rebase (hr1.append hr2)
              exact ⟨this.ss, this.errs, this.ctx, by rw [this.ist]⟩
            case fail.fail st3 =>
              intro h3
              exact h3.rebase
          case fail.fail st2 =>
            intro h2
            exact h2.rebase
  | mapIt f inner =>
    have key : RefinesIt m st.errs st.ctx
        (match N env m inner st ist with
          | .some v st1 s1 => .some (match m with | .emit => f.eval v | .check => .unit) st1 s1
          | o => o)
        (match SN env inner st.ss st.ctx ist with
          | .some v s1 st1 em => .some (f.eval v) s1 st1 em
          | o => o) := by
      have h := hN env m inner st ist hm
      revert h
      cases N env m inner st ist <;> cases SN env inner st.ss st.ctx ist <;> simp only [RefinesIt, false_imp_iff] <;>
        try (first | exact id | exact fun _ => trivial)
      case some.some v st' ist' v' s' ist'' em' =>
        intro ⟨h, hi⟩
        subst hi
        refine ⟨OkRel.mono h ?_, rfl⟩
        cases m
        · simp [h.val]
        · rfl
    cases ist <;> simp only [stepNext, pegNext] <;> exact key
  | configureRep c inner =>
    cases inner <;> cases ist <;> simp only [stepNext, pegNext] <;> try exact rfl
    case repeated.cfg a lo hi s0 clo chi =>
      cases s0 <;> simp only [stepNext, pegNext] <;> try exact rfl
      exact repeatedNext_refines hR env hm m a _ _ st _ _
  | tryConfigureRep c inner =>
    cases inner <;> cases ist <;> simp only [stepNext, pegNext] <;> try exact rfl
    case repeated.cfg a lo hi s0 clo chi =>
      cases s0 <;> simp only [stepNext, pegNext] <;> try exact rfl
      exact repeatedNext_refines hR env hm m a _ _ st _ _

/-! ### the iteration consumers of `step` -/

/-- `make_iter` followed by a loop, for a consumer started in `st1` (emissions so far `new1 ~ e1`) -/
theorem mkThen_refines (hK : MkRefines K SK) {env : Env} (hm : env.memoOn = false) {m : Mode} (mk : Mode) (it : It)
    {base new1 : List Loc} {e1 : List Emis} {ctx : Val} {st1 : St}
    (he1 : st1.errs = base ++ new1) (hr1 : EmsRel new1 e1) (hc1 : st1.ctx = ctx)
    (loop : St → ItSt → Out) (sloop : SS → ItSt → List Emis → SOut)
    (hloop : ∀ (st2 : St) (ist : ItSt) (new : List Loc) (em : List Emis),
      st2.errs = base ++ new → EmsRel new em → st2.ctx = ctx →
      Refines m base ctx (loop st2 ist) (sloop st2.ss ist em)) :
    Refines m base ctx
      (match K env mk it st1 with
        | .ok ist st2 => loop st2 ist
        | .fail st2 => .fail st2
        | .panic w => .panic w
        | .oof => .oof)
      (match SK env it st1.ss ctx with
        | .ok ist s2 e2 => sloop s2 ist (e1 ++ e2)
        | .fail => .fail
        | .panic w => .panic w
        | .oof => .oof) := by
  have h := hK.at hm mk it he1 hc1
  revert h
  cases K env mk it st1 <;> cases SK env it st1.ss ctx <;> simp only [RefinesMk, false_imp_iff] <;>
    try (first | exact id | exact fun _ => trivial)
  case ok.ok ist st2 ist' s2 e2 =>
    intro h
    have hi := h.ist
    subst hi
    have hss := h.ss
    subst hss
    obtain ⟨new2, he2, hr2⟩ := h.errs
    exact hloop st2 ist (new1 ++ new2) _ (by simp [he2]) (hr1.append hr2) h.ctx
  case fail.fail st2 =>
    intro h
    exact FailRel.rebase h

theorem step_refines_iter (hR : RunnerRefines R P) (hN : NextRefines N SN) (hK : MkRefines K SK)
    (env : Env) (hm : env.memoOn = false) (m : Mode) (st : St) (L : Nat) :
    ∀ g, (match g with
      | .collect .. | .collectExactly .. | .foldl .. | .foldr .. | .foldlWith .. | .foldrWith .. | .iterP .. => True
      | _ => False) →
    Refines m st.errs st.ctx (step R N K L env m g st) (pegStep P SN SK L env g st.ss st.ctx) := by
  intro g hg
  cases g <;> simp only at hg
  case collect k it =>
    simp only [step, pegStep]
    exact mkThen_refines hK hm m it (new1 := []) (e1 := []) (by simp) trivial rfl
      (fun st2 ist => collectLoop N env m it k L st2 ist [] 0)
      (fun s2 ist em => sCollectLoop SN env st.ctx it k L s2 ist [] 0 em)
      (fun st2 ist new em he hr hc =>
        collectLoop_refines hN env hm m it k st.errs st.ctx L st2 ist [] [] 0 new em he hr hc (fun _ => rfl))
  case collectExactly n it =>
    simp only [step, pegStep]
    exact mkThen_refines hK hm m it (new1 := []) (e1 := []) (by simp) trivial rfl
      (fun st2 ist => collectExactlyLoop N env m it n st2 ist [])
      (fun s2 ist em => sCollectExactlyLoop SN env st.ctx it n s2 ist [] em)
      (fun st2 ist new em he hr hc =>
        collectExactlyLoop_refines hN env hm m it st.errs st.ctx n st2 ist [] [] new em he hr hc (fun _ => rfl))
  case foldl f a it =>
    simp only [step, pegStep]
    refine Refines.andThen0 (hR env m a st hm) ?_
    intro va st1 va' s1 e1 h1
    have hss := h1.ss
    subst hss
    obtain ⟨new1, he1, hr1⟩ := h1.errs
    exact mkThen_refines hK hm m it he1 hr1 h1.ctx
      (fun st2 ist => foldlLoop N env m it (fun acc x _ => f.evalL acc x) L st2 ist va)
      (fun s2 ist em => sFoldlLoop SN env st.ctx it (fun acc x _ => f.evalL acc x) L s2 ist va' em)
      (fun st2 ist new em he hr hc =>
        foldlLoop_refines hN env hm m it (fun acc x _ => f.evalL acc x) (fun acc x _ => f.evalL acc x)
          (fun _ _ _ => rfl) st.errs st.ctx L st2 ist va va' new em he hr hc h1.val)
  case foldlWith a it =>
    simp only [step, pegStep]
    refine Refines.andThen0 (hR env m a st hm) ?_
    intro va st1 va' s1 e1 h1
    have hss := h1.ss
    subst hss
    obtain ⟨new1, he1, hr1⟩ := h1.errs
    exact mkThen_refines hK hm m it he1 hr1 h1.ctx
      (fun st2 ist => foldlLoop N env m it (fun acc x st' =>
        .pair (.pair acc x) (.span (env.mkSpan st.pos st'.pos).1 (env.mkSpan st.pos st'.pos).2)) L st2 ist va)
      (fun s2 ist em => sFoldlLoop SN env st.ctx it (fun acc x s' =>
        .pair (.pair acc x) (.span (env.mkSpan st.ss.pos s'.pos).1 (env.mkSpan st.ss.pos s'.pos).2)) L s2 ist va' em)
      (fun st2 ist new em he hr hc =>
        foldlLoop_refines hN env hm m it
          (fun acc x st' => .pair (.pair acc x) (.span (env.mkSpan st.pos st'.pos).1 (env.mkSpan st.pos st'.pos).2))
          (fun acc x s' => .pair (.pair acc x) (.span (env.mkSpan st.ss.pos s'.pos).1 (env.mkSpan st.ss.pos s'.pos).2))
          (fun _ _ _ => rfl) st.errs st.ctx L st2 ist va va' new em he hr hc h1.val)
  case foldr f it b =>
    simp only [step, pegStep]
    have hk := hK env m it st hm
    revert hk
    cases K env m it st <;> cases SK env it st.ss st.ctx <;> simp only [RefinesMk, false_imp_iff] <;>
      try (first | exact id | exact fun _ => trivial)
    case ok.ok ist st1 ist' s1 e1 =>
      intro h
      have hi := h.ist
      subst hi
      have hss := h.ss
      subst hss
      obtain ⟨new1, he1, hr1⟩ := h.errs
      have hc := foldrCollect_refines hN env hm m it st.errs st.ctx L st1 ist [] [] new1 e1 he1 hr1 h.ctx (fun _ => rfl)
      revert hc
      rcases foldrCollect N env m it L st1 ist [] with (_ | ⟨items, st2⟩) | o <;>
        rcases sFoldrCollect SN env st.ctx it L st1.ss ist [] e1 with (_ | ⟨items', s2, e2⟩) | so <;>
        simp only [FoldrRel, false_imp_iff] <;> try exact id
      intro ⟨hitems, hss, ⟨new2, he2, hr2⟩, hc2⟩
      subst hss
      refine Refines.andThen (hR.at' hm m b he2 hc2) ?_
      intro vb st3 vb' s3 e3 h3
      refine OkRel.seq hr2 h3 ?_
      cases m
      · have hv := h3.val
        simp only [bind_emit] at hv
        simp [hitems rfl, hv]
      · rfl
  case foldrWith it b =>
    simp only [step, pegStep]
    have hk := hK env m it st hm
    revert hk
    cases K env m it st <;> cases SK env it st.ss st.ctx <;> simp only [RefinesMk, false_imp_iff] <;>
      try (first | exact id | exact fun _ => trivial)
    case ok.ok ist st1 ist' s1 e1 =>
      intro h
      have hi := h.ist
      subst hi
      have hss := h.ss
      subst hss
      obtain ⟨new1, he1, hr1⟩ := h.errs
      have hc := foldrCollect_refines hN env hm m it st.errs st.ctx L st1 ist [] [] new1 e1 he1 hr1 h.ctx (fun _ => rfl)
      revert hc
      rcases foldrCollect N env m it L st1 ist [] with (_ | ⟨items, st2⟩) | o <;>
        rcases sFoldrCollect SN env st.ctx it L st1.ss ist [] e1 with (_ | ⟨items', s2, e2⟩) | so <;>
        simp only [FoldrRel, false_imp_iff] <;> try exact id
      intro ⟨hitems, hss, ⟨new2, he2, hr2⟩, hc2⟩
      subst hss
      refine Refines.andThen (hR.at' hm m b he2 hc2) ?_
      intro vb st3 vb' s3 e3 h3
      refine OkRel.seq hr2 h3 ?_
      cases m
      · have hv := h3.val
        simp only [bind_emit] at hv
        simp [hitems rfl, hv, ← h3.ss]
      · rfl
  case iterP it =>
    have hloop : ∀ (it : It) (ap : Bool), Refines m st.errs st.ctx
        (match K env .check it st with
          | .ok ist st1 => iterLoop N env it ap L st1 ist
          | .fail st1 => .fail st1
          | .panic w => .panic w
          | .oof => .oof)
        (match SK env it st.ss st.ctx with
          | .ok ist s1 em => sIterLoop SN env st.ctx it ap L s1 ist em
          | .fail => .fail
          | .panic w => .panic w
          | .oof => .oof) := fun it ap =>
      mkThen_refines hK hm .check it (new1 := []) (e1 := []) (by simp) trivial rfl
        (fun st2 ist => iterLoop N env it ap L st2 ist)
        (fun s2 ist em => sIterLoop SN env st.ctx it ap L s2 ist em)
        (fun st2 ist new em he hr hc => iterLoop_refines hN env hm m it ap st.errs st.ctx L st2 ist new em he hr hc)
    cases it with
    | repeated a lo hi =>
      cases lo with
      | zero =>
        cases hi with
        | none =>
          simp only [step, pegStep]
          exact repeatFast_refines hR env hm m a st.errs st.ctx L st [] [] (by simp) trivial rfl
        | some h => simp only [step, pegStep]; exact hloop _ true
      | succ lo => simp only [step, pegStep]; exact hloop _ true
    | separatedBy a sep lo hi lead trail => simp only [step, pegStep]; exact hloop _ true
    | configureRep c inner => simp only [step, pegStep]; exact hloop _ false
    | tryConfigureRep c inner => simp only [step, pegStep]; exact hloop _ false
    | intoIter a =>
      simp only [step, pegStep]
      refine Refines.andThen0 (hR env .check a st hm) ?_
      intro v st1 v' s1 e1 h1
      exact OkRel.mono h1 (bind_unit m).symm
    | enumerate inner => simp [step, pegStep, Refines]
    | orNotIt a => simp [step, pegStep, Refines]
    | thenIt a b => simp [step, pegStep, Refines]
    | mapIt f inner => simp [step, pegStep, Refines]

#print axioms stepNext_refines
#print axioms stepMk_refines
#print axioms step_refines_iter

end Chumsky
