/-
  C04 for Pratt parsers — `pratt_go` in check mode is the erasure of `pratt_go` in emit mode (same outcome kind, identical
  final state; the fold callbacks are the only thing check mode skips), for plain tables over arbitrary atom / operator
  grammars and for recursive expression grammars (`XEnv`).
-/
import ChumskyModel.Model.Pratt
import ChumskyModel.Proofs.Lemmas.ModeSim
set_option linter.unusedSimpArgs false
set_option linter.unusedVariables false
namespace Chumsky

def sumErase : Sum St Out → Sum St Out
  | .inl st => .inl st
  | .inr o => .inr o.erase

@[simp] theorem sumErase_inl (st : St) : sumErase (.inl st) = .inl st := rfl
@[simp] theorem sumErase_inr (o : Out) : sumErase (.inr o) = .inr o.erase := rfl

/-- hypothesis on the atom / operator parsers -/
def PModeSim (R : Mode → G → St → Out) : Prop := ∀ g st, R .check g st = (R .emit g st).erase
/-- hypothesis on the recursive calls -/
def RecModeSim (recC recE : Nat → St → Out) : Prop := ∀ p st, recC p st = (recE p st).erase

variable {R : Mode → G → St → Out} {recC recE : Nat → St → Out}

theorem prattPrefix_modeSim (hR : PModeSim R) (hrec : RecModeSim recC recE) (env : Env) (c : Chk) :
    ∀ (ops : List PrattOp) (st : St),
      prattPrefix R recC env .check c ops st = sumErase (prattPrefix R recE env .emit c ops st)
  | [], st => rfl
  | .prefix bp op :: rest, st => by
    simp only [prattPrefix, hR op st]
    cases R .emit op st with
    | ok opv st1 =>
      simp only [Out.erase_ok, hrec (2 * bp) st1]
      cases recE (2 * bp) st1 <;> simp [prattPrefix_modeSim hR hrec env c rest]
    | fail st1 => simp [prattPrefix_modeSim hR hrec env c rest]
    | panic w => simp
    | oof => simp
  | .infix _ _ _ :: rest, st => by simp only [prattPrefix]; exact prattPrefix_modeSim hR hrec env c rest st
  | .postfix _ _ :: rest, st => by simp only [prattPrefix]; exact prattPrefix_modeSim hR hrec env c rest st

theorem prattPostfix_modeSim (hR : PModeSim R) (env : Env) (c c' : Chk) (minP : Nat) (lhs lhs' : Val) :
    ∀ (ops : List PrattOp) (st : St),
      prattPostfix R env .check c c' minP lhs ops st = sumErase (prattPostfix R env .emit c c' minP lhs' ops st)
  | [], st => rfl
  | .postfix bp op :: rest, st => by
    simp only [prattPostfix, hR op st]
    split
    · cases R .emit op st with
      | ok opv st1 => simp
      | fail st1 => simp [prattPostfix_modeSim hR env c c' minP lhs lhs' rest]
      | panic w => simp
      | oof => simp
    · exact prattPostfix_modeSim hR env c c' minP lhs lhs' rest st
  | .infix _ _ _ :: rest, st => by simp only [prattPostfix]; exact prattPostfix_modeSim hR env c c' minP lhs lhs' rest st
  | .prefix _ _ :: rest, st => by simp only [prattPostfix]; exact prattPostfix_modeSim hR env c c' minP lhs lhs' rest st

theorem prattInfix_modeSim (hR : PModeSim R) (hrec : RecModeSim recC recE) (env : Env) (c c' : Chk) (minP : Nat)
    (lhs lhs' : Val) :
    ∀ (ops : List PrattOp) (st : St),
      prattInfix R recC env .check c c' minP lhs ops st = sumErase (prattInfix R recE env .emit c c' minP lhs' ops st)
  | [], st => rfl
  | .infix la bp op :: rest, st => by
    simp only [prattInfix, hR op st]
    split
    · cases R .emit op st with
      | ok opv st1 =>
        simp only [Out.erase_ok, hrec (rightPower la bp) st1]
        cases recE (rightPower la bp) st1 <;> simp [prattInfix_modeSim hR hrec env c c' minP lhs lhs' rest]
      | fail st1 => simp [prattInfix_modeSim hR hrec env c c' minP lhs lhs' rest]
      | panic w => simp
      | oof => simp
    · exact prattInfix_modeSim hR hrec env c c' minP lhs lhs' rest st
  | .postfix _ _ :: rest, st => by
    simp only [prattInfix]; exact prattInfix_modeSim hR hrec env c c' minP lhs lhs' rest st
  | .prefix _ _ :: rest, st => by
    simp only [prattInfix]; exact prattInfix_modeSim hR hrec env c c' minP lhs lhs' rest st

theorem prattLoop_modeSim (hR : PModeSim R) (hrec : RecModeSim recC recE) (env : Env) (ops : List PrattOp) (c : Chk)
    (minP : Nat) :
    ∀ (k : Nat) (st : St) (lhs' : Val),
      prattLoop R recC env .check ops c minP k st .unit = (prattLoop R recE env .emit ops c minP k st lhs').erase
  | 0, _, _ => rfl
  | k + 1, st, lhs' => by
    have lhs : Val := .unit
    simp only [prattLoop]
    rw [prattPostfix_modeSim hR env c st.save minP .unit lhs' ops st]
    cases hp : prattPostfix R env .emit c st.save minP lhs' ops st with
    | inr o =>
      cases o with
      | ok v st1 => simp only [sumErase_inr, Out.erase_ok]; exact prattLoop_modeSim hR hrec env ops c minP k st1 _
      | fail st1 => simp
      | panic w => simp
      | oof => simp
    | inl st1 =>
      simp only [sumErase_inl]
      rw [prattInfix_modeSim hR hrec env c st.save minP .unit lhs' ops st1]
      cases hi : prattInfix R recE env .emit c st.save minP lhs' ops st1 with
      | inr o =>
        cases o with
        | ok v st2 => simp only [sumErase_inr, Out.erase_ok]; exact prattLoop_modeSim hR hrec env ops c minP k st2 _
        | fail st2 => simp
        | panic w => simp
        | oof => simp
      | inl st2 => simp

/-- **C04 for `pratt_go`**: check = erase ∘ emit, for every table, `min_power`, state and recursion fuel -/
theorem prattGo_modeSim (hR : PModeSim R) (env : Env) (atom : G) (ops : List PrattOp) :
    ∀ (k minP : Nat) (st : St),
      prattGo R env .check atom ops k minP st = (prattGo R env .emit atom ops k minP st).erase := by
  intro k
  induction k with
  | zero => intro minP st; rfl
  | succ k ih =>
    intro minP st
    have hrec : RecModeSim (prattGo R env .check atom ops k) (prattGo R env .emit atom ops k) := fun p st => ih p st
    simp only [prattGo]
    rw [prattPrefix_modeSim hR hrec env st.save ops st]
    cases prattPrefix R (prattGo R env .emit atom ops k) env .emit st.save ops st with
    | inr o =>
      cases o with
      | ok v st1 => simp only [sumErase_inr, Out.erase_ok]; exact prattLoop_modeSim hR hrec env ops st.save minP k st1 _
      | fail st1 => simp
      | panic w => simp
      | oof => simp
    | inl st0 =>
      simp only [sumErase_inl, hR atom st0]
      cases R .emit atom st0 with
      | ok v st1 => simp only [Out.erase_ok]; exact prattLoop_modeSim hR hrec env ops st.save minP k st1 _
      | fail st1 => simp
      | panic w => simp
      | oof => simp

/-- the model's runner satisfies the hypothesis (I2) -/
theorem run_pModeSim (fuel : Nat) (env : Env) : PModeSim (fun m g st => run fuel env m g st) :=
  fun g st => run_check_eq_erase_emit fuel env g st

theorem runPratt_modeSim (fuel : Nat) (env : Env) (atom : G) (ops : List PrattOp) (st : St) :
    runPratt fuel env .check atom ops st = (runPratt fuel env .emit atom ops st).erase :=
  prattGo_modeSim (run_pModeSim fuel env) env atom ops fuel 0 st

/-! ### recursive expression grammars -/

theorem runX_modeSim (x : XEnv) (n : Nat) : ModeSimR (runX x n) ∧ ModeSimN (nextX x n) ∧ ModeSimK (mkIterX x n) := by
  induction n with
  | zero => exact ⟨fun _ _ _ => rfl, fun _ _ _ _ => rfl, fun _ _ _ => rfl⟩
  | succ n ih =>
    obtain ⟨hR, hN, hK⟩ := ih
    refine ⟨?_, ?_, ?_⟩
    · intro env g st
      simp only [runX]
      by_cases hh : x.isHole g = true
      · simp only [hh, if_true]
        exact prattGo_modeSim (fun g st => hR env g st) env x.atom x.ops n 0 st
      · simp only [hh]
        exact step_modeSim hR hN hK n env g st
    · simp only [nextX]; exact stepNext_modeSim hR hN hK
    · simp only [mkIterX]; exact stepMk_modeSim hR hK

end Chumsky
