/-
  Proofs/Lemmas/ModeSim.lean — `check` mode simulates `emit` mode (C04).

  In `check` mode every value the machine returns is `Val.unit`; control flow, cursor, secondary
  errors, pending error (`alt`), inspector, context, memo table and ghost log are exactly those of
  `emit` mode.  Stated as: the `check` run equals the `emit` run with the value erased.  No hypothesis
  on the grammar.

  Layout: one lemma per loop helper (induction on its fuel / list argument, accumulators of values
  are unrelated across the two modes because the result is erased anyway; `foldlLoop` in `check`
  mode keeps a `unit` accumulator; `foldrCollect` returns the same items with erased values), then
  one `cases g` in `step_modeSim` with a short proof per constructor.
-/
import ChumskyModel.Model.Machine
namespace Chumsky

def Out.erase : Out → Out
  | .ok _ st => .ok .unit st
  | o => o

def ItOut.erase : ItOut → ItOut
  | .some _ st ist => .some .unit st ist
  | o => o

def ModeSimR (R : Runner) : Prop := ∀ env g st, R env .check g st = (R env .emit g st).erase
def ModeSimN (N : NextRunner) : Prop := ∀ env it st ist, N env .check it st ist = (N env .emit it st ist).erase
def ModeSimK (K : MkRunner) : Prop := ∀ env it st, K env .check it st = K env .emit it st

@[simp] theorem Out.erase_ok (v : Val) (st : St) : (Out.ok v st).erase = .ok .unit st := rfl
@[simp] theorem Out.erase_fail (st : St) : (Out.fail st).erase = .fail st := rfl
@[simp] theorem Out.erase_panic (w : Nat) : (Out.panic w).erase = .panic w := rfl
@[simp] theorem Out.erase_oof : Out.oof.erase = .oof := rfl
@[simp] theorem ItOut.erase_some (v : Val) (st : St) (ist : ItSt) : (ItOut.some v st ist).erase = .some .unit st ist := rfl
@[simp] theorem ItOut.erase_done (st : St) (ist : ItSt) : (ItOut.done st ist).erase = .done st ist := rfl
@[simp] theorem ItOut.erase_fail (st : St) : (ItOut.fail st).erase = .fail st := rfl
@[simp] theorem ItOut.erase_panic (w : Nat) : (ItOut.panic w).erase = .panic w := rfl
@[simp] theorem ItOut.erase_oof : ItOut.oof.erase = .oof := rfl

theorem ite_erase {α : Type} (f : α → α) {c : Prop} [Decidable c] {a b x y : α}
    (h1 : a = f b) (h2 : x = f y) : (if c then a else x) = f (if c then b else y) := by
  by_cases hc : c
  · simp only [if_pos hc]; exact h1
  · simp only [if_neg hc]; exact h2

theorem tokenPrim_modeSim (env : Env) (st : St) (accept : Nat → Option Val) (exp : List Pat) :
    tokenPrim env .check st accept exp = (tokenPrim env .emit st accept exp).erase := by
  simp only [tokenPrim]
  cases (St.next env st).fst.bind accept <;> rfl

theorem runCustom_modeSim (env : Env) (f : CustomFn) (st : St) :
    runCustom env .check f st = (runCustom env .emit f st).erase := by
  cases f with
  | next msg =>
    simp only [runCustom]
    cases (St.next env st).fst <;> rfl
  | _ => rfl

theorem choiceTuple_modeSim {R : Runner} (hR : ModeSimR R) (env : Env) (c : Chk) : ∀ (gs : List G) (st : St),
    choiceTuple R env .check c gs st = (choiceTuple R env .emit c gs st).erase := by
  intro gs
  induction gs with
  | nil => intro st; rfl
  | cons g gs ih =>
    intro st
    simp only [choiceTuple, hR env g st]
    cases R env .emit g st with
    | fail st' => exact ih _
    | _ => rfl

theorem choiceSlice_modeSim {R : Runner} (hR : ModeSimR R) (env : Env) (c : Chk) : ∀ (gs : List G) (st : St),
    choiceSlice R env .check c gs st = (choiceSlice R env .emit c gs st).erase := by
  intro gs
  induction gs with
  | nil => intro st; rfl
  | cons g gs ih =>
    intro st
    simp only [choiceSlice, hR env g (st.rewind c)]
    cases R env .emit g (st.rewind c) with
    | fail st' => exact ih _
    | _ => rfl

theorem groupLoop_modeSim {R : Runner} (hR : ModeSimR R) (env : Env) : ∀ (gs : List G) (st : St) (acc acc' : List Val),
    groupLoop R env .check gs st acc = (groupLoop R env .emit gs st acc').erase := by
  intro gs
  induction gs with
  | nil => intro st acc acc'; rfl
  | cons g gs ih =>
    intro st acc acc'
    simp only [groupLoop, hR env g st]
    cases R env .emit g st with
    | ok v st' => exact ih _ _ _
    | _ => rfl

theorem collectLoop_modeSim {N : NextRunner} (hN : ModeSimN N) (env : Env) (it : It) (k : CollKind) :
    ∀ (fuel : Nat) (st : St) (ist : ItSt) (acc acc' : List Val) (i : Nat),
    collectLoop N env .check it k fuel st ist acc i = (collectLoop N env .emit it k fuel st ist acc' i).erase := by
  intro fuel
  induction fuel with
  | zero => intro st ist acc acc' i; rfl
  | succ fuel ih =>
    intro st ist acc acc' i
    simp only [collectLoop, hN env it st ist]
    cases N env .emit it st ist with
    | some v st' ist' => exact ite_erase Out.erase rfl (ih _ _ _ _ _)
    | _ => rfl

theorem collectExactlyLoop_modeSim {N : NextRunner} (hN : ModeSimN N) (env : Env) (it : It) :
    ∀ (n : Nat) (st : St) (ist : ItSt) (acc acc' : List Val),
    collectExactlyLoop N env .check it n st ist acc = (collectExactlyLoop N env .emit it n st ist acc').erase := by
  intro n
  induction n with
  | zero => intro st ist acc acc'; rfl
  | succ n ih =>
    intro st ist acc acc'
    simp only [collectExactlyLoop, hN env it st ist]
    cases N env .emit it st ist with
    | some v st' ist' => exact ih _ _ _ _
    | _ => rfl

theorem foldlLoop_modeSim {N : NextRunner} (hN : ModeSimN N) (env : Env) (it : It) (f f' : Val → Val → St → Val) :
    ∀ (fuel : Nat) (st : St) (ist : ItSt) (acc : Val),
    foldlLoop N env .check it f fuel st ist .unit = (foldlLoop N env .emit it f' fuel st ist acc).erase := by
  intro fuel
  induction fuel with
  | zero => intro st ist acc; rfl
  | succ fuel ih =>
    intro st ist acc
    simp only [foldlLoop, hN env it st ist]
    cases N env .emit it st ist with
    | some v st' ist' => exact ite_erase Out.erase rfl (ih _ _ _)
    | _ => rfl

/-- erasure of the result of the collecting phase of `foldr` -/
def fcErase : (Option (List (Val × Nat) × St)) ⊕ Out → (Option (List (Val × Nat) × St)) ⊕ Out
  | .inl (some (items, st)) => .inl (some (items.map (fun x => (Val.unit, x.2)), st))
  | .inl none => .inl none
  | .inr o => .inr o.erase

theorem foldrCollect_modeSim' {N : NextRunner} (hN : ModeSimN N) (env : Env) (it : It) :
    ∀ (fuel : Nat) (st : St) (ist : ItSt) (acc : List (Val × Nat)),
    foldrCollect N env .check it fuel st ist (acc.map (fun x => (Val.unit, x.2)))
      = fcErase (foldrCollect N env .emit it fuel st ist acc) := by
  intro fuel
  induction fuel with
  | zero => intro st ist acc; rfl
  | succ fuel ih =>
    intro st ist acc
    simp only [foldrCollect, hN env it st ist]
    cases N env .emit it st ist with
    | some v st' ist' => exact ite_erase fcErase rfl (ih _ _ ((v, st.pos) :: acc))
    | _ => rfl

theorem foldrCollect_modeSim {N : NextRunner} (hN : ModeSimN N) (env : Env) (it : It)
    (fuel : Nat) (st : St) (ist : ItSt) :
    foldrCollect N env .check it fuel st ist [] = fcErase (foldrCollect N env .emit it fuel st ist []) :=
  foldrCollect_modeSim' hN env it fuel st ist []

theorem repeatFast_erase (R : Runner) (env : Env) (a : G) : ∀ (fuel : Nat) (st : St),
    repeatFast R env a fuel st = (repeatFast R env a fuel st).erase := by
  intro fuel
  induction fuel with
  | zero => intro st; rfl
  | succ fuel ih =>
    intro st
    simp only [repeatFast]
    cases R env .check a st with
    | ok v st' => exact ite_erase Out.erase rfl (ih _)
    | _ => rfl

theorem iterLoop_erase (N : NextRunner) (env : Env) (it : It) (ap : Bool) : ∀ (fuel : Nat) (st : St) (ist : ItSt),
    iterLoop N env it ap fuel st ist = (iterLoop N env it ap fuel st ist).erase := by
  intro fuel
  induction fuel with
  | zero => intro st ist; rfl
  | succ fuel ih =>
    intro st ist
    simp only [iterLoop]
    cases N env .check it st ist with
    | some v st' ist' => exact ite_erase Out.erase rfl (ih _ _)
    | _ => rfl

theorem skipUntilLoop_modeSim (R : Runner) (env : Env) (skip until_ : G) (fb : Val) (alt : Loc) :
    ∀ (fuel : Nat) (st : St),
    skipUntilLoop R env .check skip until_ fb alt fuel st
      = (skipUntilLoop R env .emit skip until_ fb alt fuel st).erase := by
  intro fuel
  induction fuel with
  | zero => intro st; rfl
  | succ fuel ih =>
    intro st
    simp only [skipUntilLoop]
    cases R env .check until_ st with
    | fail st1 =>
      simp only []
      cases R env .check skip (st1.rewind st.save) with
      | ok v st3 => exact ih _
      | _ => rfl
    | _ => rfl

theorem skipRetryLoop_modeSim {R : Runner} (hR : ModeSimR R) (env : Env) (a skip until_ : G) (alt : Loc) :
    ∀ (fuel : Nat) (st : St),
    skipRetryLoop R env .check a skip until_ alt fuel st
      = (skipRetryLoop R env .emit a skip until_ alt fuel st).erase := by
  intro fuel
  induction fuel with
  | zero => intro st; rfl
  | succ fuel ih =>
    intro st
    simp only [skipRetryLoop]
    cases R env .check until_ st with
    | fail st1 =>
      simp only []
      cases R env .check skip (st1.rewind st.save) with
      | ok v st3 =>
        simp only [hR env a st3]
        cases R env .emit a st3 with
        | ok v st4 => exact ite_erase Out.erase rfl (ih _)
        | fail st4 => exact ih _
        | _ => rfl
      | _ => rfl
    | _ => rfl

theorem step_modeSim {R N K} (hR : ModeSimR R) (hN : ModeSimN N) (hK : ModeSimK K) (L : Nat) :
    ModeSimR (step R N K L) := by
  have hR' : ∀ env g st, R env .check g st = (R env .emit g st).erase := hR
  have hK' : ∀ env it st, K env .check it st = K env .emit it st := hK
  intro env g st
  cases g with
  | end_ =>
    simp only [step]
    cases (St.next env st).fst <;> rfl
  | empty => rfl
  | any => exact tokenPrim_modeSim _ _ _ _
  | just ts =>
    simp only [step]
    cases justRun env ts st <;> rfl
  | oneOf ts => exact tokenPrim_modeSim _ _ _ _
  | noneOf ts => exact tokenPrim_modeSim _ _ _ _
  | select ts => exact tokenPrim_modeSim _ _ _ _
  | custom f => exact runCustom_modeSim _ _ _
  | todo => rfl
  | then_ a b =>
    simp only [step, hR']
    cases R env .emit a st with
    | ok va st1 =>
      simp only [Out.erase_ok, Out.andThen]
      cases R env .emit b st1 <;> rfl
    | _ => rfl
  | ignoreThen a b =>
    simp only [step, hR']
    cases R env .emit a st with
    | ok va st1 =>
      simp only [Out.erase_ok, Out.andThen]
      cases R env .emit b st1 <;> rfl
    | _ => rfl
  | thenIgnore a b =>
    simp only [step, hR']
    cases R env .emit a st with
    | ok va st1 =>
      simp only [Out.erase_ok, Out.andThen]
      cases R env .emit b st1 <;> rfl
    | _ => rfl
  | delimitedBy a l r =>
    simp only [step, hR']
    cases R env .emit l st with
    | ok vl st1 =>
      simp only [Out.erase_ok, Out.andThen]
      cases R env .emit a st1 with
      | ok va st2 =>
        simp only [Out.erase_ok]
        cases R env .emit r st2 <;> rfl
      | _ => rfl
    | _ => rfl
  | paddedBy a p =>
    simp only [step, hR']
    cases R env .emit p st with
    | ok vl st1 =>
      simp only [Out.erase_ok, Out.andThen]
      cases R env .emit a st1 with
      | ok va st2 =>
        simp only [Out.erase_ok]
        cases R env .emit p st2 <;> rfl
      | _ => rfl
    | _ => rfl
  | group gs => exact groupLoop_modeSim hR env gs st [] []
  | groupArr gs => exact groupLoop_modeSim hR env gs st [] []
  | or_ a b => exact choiceTuple_modeSim hR env _ _ _
  | choice fl gs =>
    cases fl with
    | tuple =>
      cases gs with
      | nil => rfl
      | cons g gs =>
        cases gs with
        | nil => exact hR env g st
        | cons g2 gs => exact choiceTuple_modeSim hR env _ _ _
    | slice =>
      cases gs with
      | nil => rfl
      | cons g gs => exact choiceSlice_modeSim hR env _ _ _
  | orNot a =>
    simp only [step, hR']
    cases R env .emit a st <;> rfl
  | not_ a =>
    simp only [step]
    split <;> rfl
  | andIs a b =>
    simp only [step, hR']
    cases R env .emit a st with
    | ok va st1 =>
      simp only [Out.erase_ok]
      cases R env .emit b (st1.rewindInput st.save) <;> rfl
    | _ => rfl
  | rewind a =>
    simp only [step, hR']
    cases R env .emit a st <;> rfl
  | map f a =>
    simp only [step, hR']
    cases R env .emit a st <;> rfl
  | to v a =>
    simp only [step]
    cases R env .check a st <;> rfl
  | ignored a =>
    simp only [step]
    cases R env .check a st <;> rfl
  | filter p a =>
    simp only [step]
    cases R env .emit a st with
    | ok v st1 =>
      simp only [Out.andThen]
      exact ite_erase Out.erase rfl rfl
    | _ => rfl
  | tryMap f a =>
    simp only [step]
    split
    · rfl
    · rfl
    · rfl
    · exact ite_erase Out.erase rfl rfl
  | tryMapWith f a =>
    simp only [step]
    cases R env .emit a st with
    | ok v st1 =>
      simp only [Out.andThen]
      exact ite_erase Out.erase rfl rfl
    | _ => rfl
  | toSpan a =>
    simp only [step, hR']
    cases R env .emit a st <;> rfl
  | toSlice a =>
    simp only [step]
    cases R env .check a st <;> rfl
  | mapWithSpan a =>
    simp only [step, hR']
    cases R env .emit a st <;> rfl
  | mapWithState a =>
    simp only [step, hR']
    cases R env .emit a st <;> rfl
  | mapWithCtx a =>
    simp only [step, hR']
    cases R env .emit a st <;> rfl
  | validate f a =>
    simp only [step]
    cases R env .emit a st <;> rfl
  | collect k it =>
    simp only [step, hK']
    cases K env .emit it st with
    | ok ist st1 => exact collectLoop_modeSim hN env it k L st1 ist [] [] 0
    | _ => rfl
  | collectExactly n it =>
    simp only [step, hK']
    cases K env .emit it st with
    | ok ist st1 => exact collectExactlyLoop_modeSim hN env it n st1 ist [] []
    | _ => rfl
  | foldl f a it =>
    simp only [step, hR', hK']
    cases R env .emit a st with
    | ok va st1 =>
      simp only [Out.erase_ok, Out.andThen]
      cases K env .emit it st1 with
      | ok ist st2 => exact foldlLoop_modeSim hN env it _ _ L st2 ist va
      | _ => rfl
    | _ => rfl
  | foldlWith a it =>
    simp only [step, hR', hK']
    cases R env .emit a st with
    | ok va st1 =>
      simp only [Out.erase_ok, Out.andThen]
      cases K env .emit it st1 with
      | ok ist st2 => exact foldlLoop_modeSim hN env it _ _ L st2 ist va
      | _ => rfl
    | _ => rfl
  | foldr f it b =>
    simp only [step, hR', hK']
    cases K env .emit it st with
    | ok ist st1 =>
      simp only [foldrCollect_modeSim hN]
      cases foldrCollect N env .emit it L st1 ist [] with
      | inr o => cases o <;> rfl
      | inl x =>
        cases x with
        | none => rfl
        | some p =>
          cases p with
          | mk items st2 =>
            simp only [fcErase]
            cases R env .emit b st2 <;> rfl
    | _ => rfl
  | foldrWith it b =>
    simp only [step, hR', hK']
    cases K env .emit it st with
    | ok ist st1 =>
      simp only [foldrCollect_modeSim hN]
      cases foldrCollect N env .emit it L st1 ist [] with
      | inr o => cases o <;> rfl
      | inl x =>
        cases x with
        | none => rfl
        | some p =>
          cases p with
          | mk items st2 =>
            simp only [fcErase]
            cases R env .emit b st2 <;> rfl
    | _ => rfl
  | iterP it =>
    simp only [step]
    cases it with
    | repeated a lo hi =>
      cases lo with
      | zero =>
        cases hi with
        | none => exact repeatFast_erase R env a L st
        | some h =>
          simp only []
          cases K env .check (.repeated a 0 (some h)) st with
          | ok ist st1 => exact iterLoop_erase N env _ _ L st1 ist
          | _ => rfl
      | succ lo =>
        simp only []
        cases K env .check (.repeated a (lo + 1) hi) st with
        | ok ist st1 => exact iterLoop_erase N env _ _ L st1 ist
        | _ => rfl
    | separatedBy a sep lo hi lead trail =>
      simp only []
      cases K env .check (.separatedBy a sep lo hi lead trail) st with
      | ok ist st1 => exact iterLoop_erase N env _ _ L st1 ist
      | _ => rfl
    | configureRep c inner =>
      simp only []
      cases K env .check (.configureRep c inner) st with
      | ok ist st1 => exact iterLoop_erase N env _ _ L st1 ist
      | _ => rfl
    | tryConfigureRep c inner =>
      simp only []
      cases K env .check (.tryConfigureRep c inner) st with
      | ok ist st1 => exact iterLoop_erase N env _ _ L st1 ist
      | _ => rfl
    | intoIter a =>
      simp only []
      cases R env .check a st <;> rfl
    | _ => rfl
  | recoverVia a r =>
    simp only [step, hR']
    cases R env .emit a st with
    | fail st1 =>
      simp only [Out.erase_fail]
      cases (st1.rewind st.save).alt with
      | none => rfl
      | some alt =>
        simp only []
        generalize R env .emit r _ = o
        cases o <;> rfl
    | _ => rfl
  | recoverSkipUntil a skip until_ fb =>
    simp only [step, hR']
    cases R env .emit a st with
    | fail st1 =>
      simp only [Out.erase_fail]
      cases (st1.rewind st.save).alt with
      | none => rfl
      | some alt =>
        simp only [skipUntilLoop_modeSim]
        generalize skipUntilLoop R env .emit skip until_ fb alt L _ = o
        cases o <;> rfl
    | _ => rfl
  | recoverSkipRetry a skip until_ =>
    simp only [step, hR']
    cases R env .emit a st with
    | fail st1 =>
      simp only [Out.erase_fail]
      cases (st1.rewind st.save).alt with
      | none => rfl
      | some alt =>
        simp only [skipRetryLoop_modeSim hR]
        generalize skipRetryLoop R env .emit a skip until_ alt L _ = o
        cases o <;> rfl
    | _ => rfl
  | labelled l asCtx a =>
    simp only [step, hR']
    generalize R env .emit a _ = o
    cases o <;> rfl
  | mapErr k a =>
    simp only [step, hR']
    generalize R env .emit a _ = o
    cases o with
    | fail st1 =>
      simp only [Out.erase_fail]
      cases st1.alt <;> rfl
    | _ => rfl
  | withCtx cv a =>
    simp only [step, hR']
    generalize R env .emit a _ = o
    cases o <;> rfl
  | ignoreWithCtx a b =>
    simp only [step, hR']
    cases R env .emit a st with
    | ok va st1 =>
      simp only [Out.andThen]
      generalize R env .emit b _ = o
      cases o <;> rfl
    | _ => rfl
  | thenWithCtx a b =>
    simp only [step, hR']
    cases R env .emit a st with
    | ok va st1 =>
      simp only [Out.andThen]
      generalize R env .emit b _ = o
      cases o <;> rfl
    | _ => rfl
  | mapCtx f a =>
    simp only [step, hR']
    generalize R env .emit a _ = o
    cases o <;> rfl
  | configureJust c ts =>
    simp only [step]
    generalize justRun env _ st = o
    cases o <;> rfl
  | withState a =>
    simp only [step, hR']
    generalize R env .emit a _ = o
    cases o <;> rfl
  | memoized id a =>
    simp only [step, hR']
    refine ite_erase Out.erase rfl ?_
    cases memoFind st.memo (st.pos, id) with
    | some x => cases x <;> rfl
    | none =>
      simp only []
      generalize R env .emit a _ = o
      cases o <;> rfl
  | call k =>
    simp only [step, hR']
    cases env.defs[k]? <;> rfl
  | boxed a => exact hR env a st

theorem repeatedNext_modeSim {R : Runner} (hR : ModeSimR R) (env : Env) (a : G) (lo : Nat) (hi : Option Nat)
    (st : St) (n : Nat) (wrap : ItSt → ItSt) :
    repeatedNext R env .check a lo hi st n wrap = (repeatedNext R env .emit a lo hi st n wrap).erase := by
  simp only [repeatedNext, hR env a st]
  refine ite_erase ItOut.erase rfl ?_
  cases R env .emit a st with
  | fail st1 => exact ite_erase ItOut.erase rfl rfl
  | _ => rfl

theorem separatedNext_modeSim {R : Runner} (hR : ModeSimR R) (env : Env) (a sep : G) (lo : Nat) (hi : Option Nat)
    (lead trail : Bool) (st : St) (n : Nat) :
    separatedNext R env .check a sep lo hi lead trail st n
      = (separatedNext R env .emit a sep lo hi lead trail st n).erase := by
  have hR' : ∀ env g st, R env .check g st = (R env .emit g st).erase := hR
  simp only [separatedNext, hR']
  refine ite_erase ItOut.erase rfl (ite_erase ItOut.erase ?_ (ite_erase ItOut.erase ?_ ?_))
  · cases R env .emit sep st with
    | ok v st1 =>
      simp only [Out.erase_ok]
      generalize R env .emit a _ = o
      cases o with
      | fail s => exact ite_erase ItOut.erase rfl (ite_erase ItOut.erase rfl rfl)
      | _ => rfl
    | fail st1 =>
      simp only [Out.erase_fail]
      generalize R env .emit a _ = o
      cases o with
      | fail s => exact ite_erase ItOut.erase rfl (ite_erase ItOut.erase rfl rfl)
      | _ => rfl
    | _ => rfl
  · cases R env .emit sep st with
    | ok v st1 =>
      simp only [Out.erase_ok]
      generalize R env .emit a _ = o
      cases o with
      | fail s => exact ite_erase ItOut.erase rfl (ite_erase ItOut.erase rfl rfl)
      | _ => rfl
    | fail st1 => exact ite_erase ItOut.erase rfl rfl
    | _ => rfl
  · generalize R env .emit a _ = o
    cases o with
    | fail s => exact ite_erase ItOut.erase rfl (ite_erase ItOut.erase rfl rfl)
    | _ => rfl

theorem stepNext_modeSim {R N K} (hR : ModeSimR R) (hN : ModeSimN N) (hK : ModeSimK K) :
    ModeSimN (stepNext R N K) := by
  have hR' : ∀ env g st, R env .check g st = (R env .emit g st).erase := hR
  have hN' : ∀ env it st ist, N env .check it st ist = (N env .emit it st ist).erase := hN
  have hK' : ∀ env it st, K env .check it st = K env .emit it st := hK
  intro env it st ist
  cases it with
  | repeated a lo hi =>
    cases ist with
    | cnt n => exact repeatedNext_modeSim hR env a lo hi st n id
    | _ => rfl
  | separatedBy a sep lo hi lead trail =>
    cases ist with
    | cnt n => exact separatedNext_modeSim hR env a sep lo hi lead trail st n
    | _ => rfl
  | enumerate inner =>
    cases ist with
    | enum k s =>
      simp only [stepNext, hN']
      cases N env .emit inner st s <;> rfl
    | _ => rfl
  | orNotIt a =>
    cases ist with
    | fin b =>
      simp only [stepNext, hR']
      refine ite_erase ItOut.erase rfl ?_
      cases R env .emit a st <;> rfl
    | _ => rfl
  | intoIter a =>
    cases ist with
    | into vs => cases vs <;> rfl
    | _ => rfl
  | thenIt a b =>
    cases ist with
    | thn sa sb? =>
      cases sb? with
      | some sb =>
        simp only [stepNext, hN']
        cases N env .emit b st sb <;> rfl
      | none =>
        simp only [stepNext, hN', hK']
        cases N env .emit a st sa with
        | done st1 sa1 =>
          simp only [ItOut.erase_done]
          cases K env .emit b st1 with
          | ok sb st2 =>
            simp only []
            cases N env .emit b st2 sb <;> rfl
          | _ => rfl
        | _ => rfl
    | _ => rfl
  | mapIt f inner =>
    simp only [stepNext, hN']
    cases N env .emit inner st ist <;> rfl
  | configureRep c inner =>
    cases inner with
    | repeated a lo hi =>
      cases ist with
      | cfg s clo chi =>
        cases s with
        | cnt n =>
          simp only [stepNext]
          exact repeatedNext_modeSim hR env a _ _ st n _
        | _ => rfl
      | _ => rfl
    | _ => cases ist <;> rfl
  | tryConfigureRep c inner =>
    cases inner with
    | repeated a lo hi =>
      cases ist with
      | cfg s clo chi =>
        cases s with
        | cnt n =>
          simp only [stepNext]
          exact repeatedNext_modeSim hR env a _ _ st n _
        | _ => rfl
      | _ => rfl
    | _ => cases ist <;> rfl

theorem stepMk_modeSim {R K} (hR : ModeSimR R) (hK : ModeSimK K) : ModeSimK (stepMk R K) := by
  have hK' : ∀ env it st, K env .check it st = K env .emit it st := hK
  have _ := hR   -- `make_iter` runs sub-parsers in `emit` mode only (`into_iter`), so `hR` is not needed
  intro env it st
  cases it <;> simp only [stepMk, hK']

theorem run_modeSim (n : Nat) : ModeSimR (run n) ∧ ModeSimN (next n) ∧ ModeSimK (mkIter n) := by
  induction n with
  | zero => exact ⟨fun _ _ _ => rfl, fun _ _ _ _ => rfl, fun _ _ _ => rfl⟩
  | succ n ih =>
    exact ⟨step_modeSim ih.1 ih.2.1 ih.2.2 n, stepNext_modeSim ih.1 ih.2.1 ih.2.2, stepMk_modeSim ih.1 ih.2.2⟩

/-- C04 at the level of runs -/
theorem run_check_eq_erase_emit (n : Nat) (env : Env) (g : G) (st : St) :
    run n env .check g st = (run n env .emit g st).erase :=
  (run_modeSim n).1 env g st

/-- C04 at the top level -/
theorem parseTop_check_eq (n : Nat) (env : Env) (g : G) :
    parseTop n env .check g = match parseTop n env .emit g with
      | .result r final => .result ⟨r.output.map (fun _ => Val.unit), r.errs⟩ final
      | o => o := by
  simp only [parseTop, run_check_eq_erase_emit]
  cases run n env .emit (.thenIgnore g .end_) St.init <;> rfl

/-- in `check` mode a successful run returns `unit` -/
theorem run_check_ok_unit {n : Nat} {env : Env} {g : G} {st st' : St} {v : Val}
    (h : run n env .check g st = .ok v st') : v = .unit := by
  rw [run_check_eq_erase_emit] at h
  cases h' : run n env .emit g st with
  | ok v' s' => rw [h'] at h; cases h; rfl
  | fail s' => rw [h'] at h; cases h
  | panic w => rw [h'] at h; cases h
  | oof => rw [h'] at h; cases h

end Chumsky

#print axioms Chumsky.run_check_eq_erase_emit
#print axioms Chumsky.parseTop_check_eq
