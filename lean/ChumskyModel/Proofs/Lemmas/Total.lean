/-
  Proofs/Lemmas/Total.lean — property C20 (totality): `parse`/`check` return a `ParseResult`.

  All statements are first proved on the reference semantics (`peg`, Model/Spec.lean) by the open-recursion
  method of SpecInv.lean (one lemma per loop helper, `pegStep`/`pegNext`/`pegMk` for arbitrary runners, induction
  on the fuel) and then transferred to the machine (`run`, `parseTop`) through the master refinement
  `run_refines` (memoization off).

  §1  the panic sites.  `peg_panic_sites`: a panic of the spec is `todo!()`, a no-progress assertion, an ill-typed
      grammar or an undefined reference — for ALL grammars.  Hence `run_no_unwrap_panic`,
      `parseTop_no_unwrap_panic`: the two "can't fail" `take_alt().unwrap()`s never fire.
  §2  syntactic predicates (structural recursion on the nested mutual syntax):
        `G.consumes cd`   every successful match takes ≥ 1 token (conservative; `cd k` = "definition `k` consumes")
        `It.advances cd`  every item of the iterator moves the position
        `G.wf cd nd`      no `todo`, no empty tuple-`choice`, references `< nd`, iterator shapes as implemented,
                          and for every fuel-driven loop (`collect`, `foldl`, `foldr`, …) the iterator either
                          tolerates non-consumption (`NONCONSUMPTION_IS_OK`) or `advances`
        `G.termOk cd`     what termination needs on top: recovery `skip` parsers consume, looped iterators advance
        `G.depth`         nesting depth + 1
  §3  soundness of `consumes`/`advances` (`peg_consumes`, `pegNext'_advances`), given that the annotation `cd` is
      justified by the definitions (`CDefs`).
  §4  one engine (`pegStep_good`, `pegNext_good`, `pegMk_good`, `good_all`) for
        (2) `peg_wf_no_panic` / `run_wf_no_panic` / `parseTop_wf_no_panic`: well-formed grammars never panic
            (recursive grammars included, any fuel, any input, any start state);
        (3) `peg_terminates` / `run_terminates` / `parseTop_terminates`: a call-free `wfTerm` grammar run with
            fuel `≥ depth + |input| + 1` (`+ 2` at top level) neither runs out of fuel nor panics.
      The iterator-state invariant is `It.fits` (the `ItSt` handed to `next` is one that `make_iter`/`next` of the
      same iterator produced).
  §5  witnesses: what the hypotheses cannot be weakened to (a well-formed grammar that hangs, a consuming
      repetition that trips the no-progress assertion, an `into_iter` loop that needs more fuel than depth + input).
-/
import ChumskyModel.Proofs.Lemmas.Master
import ChumskyModel.Proofs.Lemmas.SpecInv
set_option linter.unusedSimpArgs false
set_option linter.unusedVariables false
namespace Chumsky


/-! ## 1. the "can't fail" `unwrap()`s never fire -/

/-- the panic sites of the reference semantics -/
def SpecPanic (w : Nat) : Prop := w = pTodo ∨ w = pNoProgress ∨ w = pIllTyped ∨ w = pUndefined

theorem specPanic_todo : SpecPanic pTodo := Or.inl rfl
theorem specPanic_noProgress : SpecPanic pNoProgress := Or.inr (Or.inl rfl)
theorem specPanic_illTyped : SpecPanic pIllTyped := Or.inr (Or.inr (Or.inl rfl))
theorem specPanic_undefined : SpecPanic pUndefined := Or.inr (Or.inr (Or.inr rfl))

/-- a panic, if any, is one of the spec's panic sites -/
def SOut.PS : SOut → Prop
  | .panic w => SpecPanic w
  | _ => True
def SItOut.PS : SItOut → Prop
  | .panic w => SpecPanic w
  | _ => True
def SMkOut.PS : SMkOut → Prop
  | .panic w => SpecPanic w
  | _ => True

@[simp] theorem SOut.ps_ok {v s em} : (SOut.ok v s em).PS ↔ True := Iff.rfl
@[simp] theorem SOut.ps_fail : SOut.fail.PS ↔ True := Iff.rfl
@[simp] theorem SOut.ps_oof : SOut.oof.PS ↔ True := Iff.rfl
@[simp] theorem SOut.ps_panic {w} : (SOut.panic w).PS ↔ SpecPanic w := Iff.rfl
@[simp] theorem SItOut.ps_some {v s i em} : (SItOut.some v s i em).PS ↔ True := Iff.rfl
@[simp] theorem SItOut.ps_done {s i em} : (SItOut.done s i em).PS ↔ True := Iff.rfl
@[simp] theorem SItOut.ps_fail : SItOut.fail.PS ↔ True := Iff.rfl
@[simp] theorem SItOut.ps_oof : SItOut.oof.PS ↔ True := Iff.rfl
@[simp] theorem SItOut.ps_panic {w} : (SItOut.panic w).PS ↔ SpecPanic w := Iff.rfl
@[simp] theorem SMkOut.ps_ok {i s em} : (SMkOut.ok i s em).PS ↔ True := Iff.rfl
@[simp] theorem SMkOut.ps_fail : SMkOut.fail.PS ↔ True := Iff.rfl
@[simp] theorem SMkOut.ps_oof : SMkOut.oof.PS ↔ True := Iff.rfl
@[simp] theorem SMkOut.ps_panic {w} : (SMkOut.panic w).PS ↔ SpecPanic w := Iff.rfl

theorem SOut.PS.andThen {o : SOut} {k} (h : o.PS) (hk : ∀ v s em, (k v s em).PS) : (o.andThen k).PS := by
  cases o <;> simp_all [SOut.andThen]

section panicSites
variable {env : Env} {P : SRunner} {N : SNextRunner} {K : SMkRunner}

/-- normalise `PS` of constructor results -/
macro "ps_simp" : tactic => `(tactic| simp only [SOut.ps_ok, SOut.ps_fail, SOut.ps_oof, SOut.ps_panic,
    SItOut.ps_some, SItOut.ps_done, SItOut.ps_fail, SItOut.ps_oof, SItOut.ps_panic, SMkOut.ps_ok, SMkOut.ps_fail,
    SMkOut.ps_oof, SMkOut.ps_panic, imp_self, implies_true, specPanic_todo, specPanic_noProgress,
    specPanic_illTyped, specPanic_undefined])

def PPS (P : SRunner) (env : Env) : Prop := ∀ g s ctx, (P env g s ctx).PS
def NPS (N : SNextRunner) (env : Env) : Prop := ∀ it s ctx ist, (N env it s ctx ist).PS
def KPS (K : SMkRunner) (env : Env) : Prop := ∀ it s ctx, (K env it s ctx).PS

theorem sTokenPrim_ps (s : SS) (accept : Nat → Option Val) : (sTokenPrim env s accept).PS := by
  unfold sTokenPrim
  cases env.toks[s.pos]? with
  | none => simp
  | some t => simp only []; cases accept t <;> simp

theorem sCustom_ps (f : CustomFn) (s : SS) : (sCustom env f s).PS := by
  cases f <;> simp only [sCustom, SOut.ps_fail, SOut.ps_ok]
  cases env.toks[s.pos]? <;> simp

theorem sChoice_ps (hP : PPS P env) (ctx : Val) (s : SS) : ∀ gs, (sChoice P env ctx s gs).PS := by
  intro gs
  induction gs with
  | nil => simp [sChoice]
  | cons g gs ih =>
    have h1 := hP g s ctx
    simp only [sChoice]
    revert h1
    cases P env g s ctx <;> ps_simp
    intro _; exact ih

theorem sGroup_ps (hP : PPS P env) (ctx : Val) : ∀ gs s acc em, (sGroup P env ctx gs s acc em).PS := by
  intro gs
  induction gs with
  | nil => intros; simp [sGroup]
  | cons g gs ih =>
    intro s acc em
    have h1 := hP g s ctx
    simp only [sGroup]
    revert h1
    cases P env g s ctx <;> ps_simp
    intro _; exact ih _ _ _

theorem sCollectLoop_ps (hN : NPS N env) (ctx : Val) (it : It) (k : CollKind) :
    ∀ fuel s ist acc i em, (sCollectLoop N env ctx it k fuel s ist acc i em).PS := by
  intro fuel
  induction fuel with
  | zero => intros; simp [sCollectLoop]
  | succ fuel ih =>
    intro s ist acc i em
    have h1 := hN it s ctx ist
    simp only [sCollectLoop]
    revert h1
    cases N env it s ctx ist <;> ps_simp
    intro _
    split
    · ps_simp
    · exact ih _ _ _ _ _

theorem sCollectExactlyLoop_ps (hN : NPS N env) (ctx : Val) (it : It) :
    ∀ n s ist acc em, (sCollectExactlyLoop N env ctx it n s ist acc em).PS := by
  intro n
  induction n with
  | zero => intros; simp [sCollectExactlyLoop]
  | succ n ih =>
    intro s ist acc em
    have h1 := hN it s ctx ist
    simp only [sCollectExactlyLoop]
    revert h1
    cases N env it s ctx ist <;> ps_simp
    intro _; exact ih _ _ _ _

theorem sFoldlLoop_ps (hN : NPS N env) (ctx : Val) (it : It) (f : Val → Val → SS → Val) :
    ∀ fuel s ist acc em, (sFoldlLoop N env ctx it f fuel s ist acc em).PS := by
  intro fuel
  induction fuel with
  | zero => intros; simp [sFoldlLoop]
  | succ fuel ih =>
    intro s ist acc em
    have h1 := hN it s ctx ist
    simp only [sFoldlLoop]
    revert h1
    cases N env it s ctx ist <;> ps_simp
    intro _
    split
    · ps_simp
    · exact ih _ _ _ _

/-- what `sFoldrCollect` returns -/
def FoldrPS (r : (Option (List (Val × Nat) × SS × List Emis)) ⊕ SOut) : Prop :=
  match r with
  | .inl _ => True
  | .inr o => o.PS

@[simp] theorem FoldrPS.inl {x} : FoldrPS (.inl x) ↔ True := Iff.rfl
@[simp] theorem FoldrPS.inr {o} : FoldrPS (.inr o) ↔ o.PS := Iff.rfl

theorem sFoldrCollect_ps (hN : NPS N env) (ctx : Val) (it : It) :
    ∀ fuel s ist acc em, FoldrPS (sFoldrCollect N env ctx it fuel s ist acc em) := by
  intro fuel
  induction fuel with
  | zero => intros; simp [sFoldrCollect, FoldrPS]
  | succ fuel ih =>
    intro s ist acc em
    have h1 := hN it s ctx ist
    simp only [sFoldrCollect]
    revert h1
    cases N env it s ctx ist <;> (simp only [FoldrPS.inl, FoldrPS.inr]; ps_simp)
    intro _
    split
    · simp only [FoldrPS.inr]; ps_simp
    · exact ih _ _ _ _

theorem sRepeatFast_ps (hP : PPS P env) (ctx : Val) (a : G) :
    ∀ fuel s em, (sRepeatFast P env ctx a fuel s em).PS := by
  intro fuel
  induction fuel with
  | zero => intros; simp [sRepeatFast]
  | succ fuel ih =>
    intro s em
    have h1 := hP a s ctx
    simp only [sRepeatFast]
    revert h1
    cases P env a s ctx <;> ps_simp
    intro _
    split
    · ps_simp
    · exact ih _ _

theorem sIterLoop_ps (hN : NPS N env) (ctx : Val) (it : It) (ap : Bool) :
    ∀ fuel s ist em, (sIterLoop N env ctx it ap fuel s ist em).PS := by
  intro fuel
  induction fuel with
  | zero => intros; simp [sIterLoop]
  | succ fuel ih =>
    intro s ist em
    have h1 := hN it s ctx ist
    simp only [sIterLoop]
    revert h1
    cases N env it s ctx ist <;> ps_simp
    intro _
    split
    · ps_simp
    · exact ih _ _ _

theorem sSkipUntil_ps (hP : PPS P env) (ctx : Val) (skip until_ : G) (fb : Val) :
    ∀ fuel s em, (sSkipUntil P env ctx skip until_ fb fuel s em).PS := by
  intro fuel
  induction fuel with
  | zero => intros; simp [sSkipUntil]
  | succ fuel ih =>
    intro s em
    have h1 := hP until_ s ctx
    have h2 := hP skip s ctx
    simp only [sSkipUntil]
    revert h1
    cases P env until_ s ctx <;> ps_simp
    intro _
    revert h2
    cases P env skip s ctx <;> ps_simp
    intro _; exact ih _ _

theorem sSkipRetry_ps (hP : PPS P env) (ctx : Val) (a skip until_ : G) :
    ∀ fuel s em, (sSkipRetry P env ctx a skip until_ fuel s em).PS := by
  intro fuel
  induction fuel with
  | zero => intros; simp [sSkipRetry]
  | succ fuel ih =>
    intro s em
    have h1 := hP until_ s ctx
    have h2 := hP skip s ctx
    simp only [sSkipRetry]
    revert h1
    cases P env until_ s ctx <;> ps_simp
    intro _
    revert h2
    cases P env skip s ctx <;> ps_simp
    rename_i v2 s2 em2
    intro _
    have h3 := hP a s2 ctx
    revert h3
    cases P env a s2 ctx <;> ps_simp
    · rename_i v3 s3 em3
      intro _
      cases em3 with
      | nil => simp
      | cons e es => exact ih _ _
    · intro _; exact ih _ _

theorem sJust_ps (ts : List Nat) (v : Val) (s : SS) :
    (match sJust env ts s with
      | some s' => SOut.ok v s' []
      | none => .fail).PS := by
  cases sJust env ts s <;> simp

theorem pegStep_ps (hP : PPS P env) (hN : NPS N env) (hK : KPS K env) (L : Nat) : PPS (pegStep P N K L) env := by
  intro g s ctx
  have thn : ∀ (a : G) (s : SS) (ctx : Val) (k : Val → SS → List Emis → SOut), (∀ v s em, (k v s em).PS) →
      ((P env a s ctx).andThen k).PS := fun a s ctx k hk => (hP a s ctx).andThen hk
  cases g
  all_goals try simp only [pegStep]
  case end_ => cases env.toks[s.pos]? <;> simp
  case empty => simp
  case any => exact sTokenPrim_ps s _
  case just ts => exact sJust_ps ts _ s
  case oneOf ts => exact sTokenPrim_ps s _
  case noneOf ts => exact sTokenPrim_ps s _
  case select ts => exact sTokenPrim_ps s _
  case custom f => exact sCustom_ps f s
  case todo => ps_simp
  case then_ a b => exact thn _ _ _ _ fun _ _ _ => thn _ _ _ _ fun _ _ _ => by simp
  case ignoreThen a b => exact thn _ _ _ _ fun _ _ _ => thn _ _ _ _ fun _ _ _ => by simp
  case thenIgnore a b => exact thn _ _ _ _ fun _ _ _ => thn _ _ _ _ fun _ _ _ => by simp
  case delimitedBy a l r => exact thn _ _ _ _ fun _ _ _ => thn _ _ _ _ fun _ _ _ => thn _ _ _ _ fun _ _ _ => by simp
  case paddedBy a p => exact thn _ _ _ _ fun _ _ _ => thn _ _ _ _ fun _ _ _ => thn _ _ _ _ fun _ _ _ => by simp
  case group gs => exact sGroup_ps hP ctx gs s [] []
  case groupArr gs => exact sGroup_ps hP ctx gs s [] []
  case or_ a b => exact sChoice_ps hP ctx s [a, b]
  case choice fl gs =>
    cases fl
    · cases gs
      · simp only [pegStep]; ps_simp
      · simp only [pegStep]; exact sChoice_ps hP ctx s _
    · simp only [pegStep]; exact sChoice_ps hP ctx s _
  case orNot a =>
    have h1 := hP a s ctx
    revert h1
    cases P env a s ctx <;> ps_simp
  case not_ a =>
    have h1 := hP a s ctx
    revert h1
    cases P env a s ctx <;> ps_simp
  case andIs a b => exact thn _ _ _ _ fun _ _ _ => thn _ _ _ _ fun _ _ _ => by simp
  case rewind a => exact thn _ _ _ _ fun _ _ _ => by simp
  case map f a => exact thn _ _ _ _ fun _ _ _ => by simp
  case to v a => exact thn _ _ _ _ fun _ _ _ => by simp
  case ignored a => exact thn _ _ _ _ fun _ _ _ => by simp
  case filter p a => exact thn _ _ _ _ fun _ _ _ => by split <;> simp
  case tryMap f a => exact thn _ _ _ _ fun _ _ _ => by split <;> simp
  case tryMapWith f a => exact thn _ _ _ _ fun _ _ _ => by split <;> simp
  case toSpan a => exact thn _ _ _ _ fun _ _ _ => by simp
  case toSlice a => exact thn _ _ _ _ fun _ _ _ => by simp
  case mapWithSpan a => exact thn _ _ _ _ fun _ _ _ => by simp
  case mapWithState a => exact thn _ _ _ _ fun _ _ _ => by simp
  case mapWithCtx a => exact thn _ _ _ _ fun _ _ _ => by simp
  case validate f a => exact thn _ _ _ _ fun _ _ _ => by simp
  case collect k it =>
    have hk := hK it s ctx
    revert hk
    cases K env it s ctx <;> ps_simp
    intro _; exact sCollectLoop_ps hN ctx it k L _ _ _ _ _
  case collectExactly n it =>
    have hk := hK it s ctx
    revert hk
    cases K env it s ctx <;> ps_simp
    intro _; exact sCollectExactlyLoop_ps hN ctx it n _ _ _ _
  case foldl f a it =>
    refine thn _ _ _ _ fun va s1 e1 => ?_
    have hk := hK it s1 ctx
    revert hk
    cases K env it s1 ctx <;> ps_simp
    intro _; exact sFoldlLoop_ps hN ctx it _ L _ _ _ _
  case foldlWith a it =>
    refine thn _ _ _ _ fun va s1 e1 => ?_
    have hk := hK it s1 ctx
    revert hk
    cases K env it s1 ctx <;> ps_simp
    intro _; exact sFoldlLoop_ps hN ctx it _ L _ _ _ _
  case foldr f it b =>
    have hk := hK it s ctx
    revert hk
    cases K env it s ctx <;> ps_simp
    rename_i ist s1 e1
    intro _
    have hf := sFoldrCollect_ps hN ctx it L s1 ist [] e1
    revert hf
    cases sFoldrCollect N env ctx it L s1 ist [] e1 with
    | inr o => exact id
    | inl x =>
      cases x with
      | none => simp
      | some t =>
        obtain ⟨items, s2, e2⟩ := t
        intro _
        exact thn _ _ _ _ fun _ _ _ => by simp
  case foldrWith it b =>
    have hk := hK it s ctx
    revert hk
    cases K env it s ctx <;> ps_simp
    rename_i ist s1 e1
    intro _
    have hf := sFoldrCollect_ps hN ctx it L s1 ist [] e1
    revert hf
    cases sFoldrCollect N env ctx it L s1 ist [] e1 with
    | inr o => exact id
    | inl x =>
      cases x with
      | none => simp
      | some t =>
        obtain ⟨items, s2, e2⟩ := t
        intro _
        exact thn _ _ _ _ fun _ _ _ => by simp
  case iterP it =>
    have loop : ∀ ap, (match K env it s ctx with
        | .ok ist s1 em => sIterLoop N env ctx it ap L s1 ist em
        | .fail => .fail
        | .panic w => .panic w
        | .oof => .oof).PS := by
      intro ap
      have hk := hK it s ctx
      revert hk
      cases K env it s ctx <;> ps_simp
      intro _; exact sIterLoop_ps hN ctx it ap L _ _ _
    cases it
    case repeated a lo hi' =>
      cases lo
      · cases hi'
        · simp only [pegStep]; exact sRepeatFast_ps hP ctx a L s []
        · simp only [pegStep]; exact loop true
      · simp only [pegStep]; exact loop true
    case separatedBy => simp only [pegStep]; exact loop true
    case configureRep => simp only [pegStep]; exact loop false
    case tryConfigureRep => simp only [pegStep]; exact loop false
    case intoIter a => simp only [pegStep]; exact thn _ _ _ _ fun _ _ _ => by simp
    all_goals (simp only [pegStep]; ps_simp)
  case recoverVia a r =>
    have h1 := hP a s ctx
    have h2 := hP r s ctx
    revert h1
    cases P env a s ctx <;> ps_simp
    intro _
    revert h2
    cases P env r s ctx <;> ps_simp
  case recoverSkipUntil a skip until_ fb =>
    have h1 := hP a s ctx
    revert h1
    cases P env a s ctx <;> ps_simp
    intro _; exact sSkipUntil_ps hP ctx skip until_ fb L s []
  case recoverSkipRetry a skip until_ =>
    have h1 := hP a s ctx
    revert h1
    cases P env a s ctx <;> ps_simp
    intro _; exact sSkipRetry_ps hP ctx a skip until_ L s []
  case labelled l asCtx a => exact thn _ _ _ _ fun _ _ _ => by simp
  case mapErr k a => exact hP a s ctx
  case withCtx cv a => exact hP a s cv
  case ignoreWithCtx a b => exact thn _ _ _ _ fun _ _ _ => thn _ _ _ _ fun _ _ _ => by simp
  case thenWithCtx a b => exact thn _ _ _ _ fun _ _ _ => thn _ _ _ _ fun _ _ _ => by simp
  case mapCtx f a => exact hP a s _
  case configureJust c ts => exact sJust_ps _ _ s
  case withState a => exact thn _ _ _ _ fun _ _ _ => by simp
  case memoized id a => exact hP a s ctx
  case call k =>
    cases h : env.defs[k]? with
    | none => ps_simp
    | some d => exact hP d s ctx
  case boxed a => exact hP a s ctx

theorem pegMk_ps (hP : PPS P env) (hK : KPS K env) : KPS (pegMk P K) env := by
  intro it s ctx
  cases it
  all_goals simp only [pegMk]
  case repeated => simp
  case separatedBy => simp
  case orNotIt => simp
  case enumerate inner =>
    have hk := hK inner s ctx
    revert hk
    cases K env inner s ctx <;> ps_simp
  case intoIter a =>
    have h1 := hP a s ctx
    revert h1
    cases P env a s ctx <;> ps_simp
  case thenIt a b =>
    have hk := hK a s ctx
    revert hk
    cases K env a s ctx <;> ps_simp
  case mapIt f inner => exact hK inner s ctx
  case configureRep c inner =>
    have hk := hK inner s ctx
    revert hk
    cases K env inner s ctx <;> ps_simp
  case tryConfigureRep c inner =>
    cases ctx.asNat? with
    | none => simp
    | some n =>
      have hk := hK inner s ctx
      revert hk
      cases K env inner s ctx <;> ps_simp

theorem sRepeatedNext_ps (hP : PPS P env) (ctx : Val) (a : G) (lo : Nat) (hi : Option Nat) (s : SS) (n : Nat)
    (wrap : ItSt → ItSt) : (sRepeatedNext P env ctx a lo hi s n wrap).PS := by
  unfold sRepeatedNext
  split
  · simp
  · have h1 := hP a s ctx
    revert h1
    cases P env a s ctx <;> ps_simp
    intro _
    split <;> simp

theorem sSeparatedNext_ps (hP : PPS P env) (ctx : Val) (a sep : G) (lo : Nat) (hi : Option Nat)
    (lead trail : Bool) (s : SS) (n : Nat) : (sSeparatedNext P env ctx a sep lo hi lead trail s n).PS := by
  have item : ∀ (s0 : SS) (e0 : List Emis),
      (match P env a s0 ctx with
        | .ok v s1 em => SItOut.some v s1 (.cnt (n + 1)) (e0 ++ em)
        | .fail =>
          if n < lo then .fail
          else if trail then .done s0 (.cnt n) e0
          else .done s (.cnt n) []
        | .panic w => .panic w
        | .oof => .oof).PS := by
    intro s0 e0
    have h1 := hP a s0 ctx
    revert h1
    cases P env a s0 ctx <;> ps_simp
    intro _
    split
    · simp
    · split <;> simp
  have hsep := hP sep s ctx
  unfold sSeparatedNext
  split
  · simp
  · simp only []
    split
    · revert hsep
      cases P env sep s ctx <;> ps_simp
      · intro _; exact item _ _
      · intro _; exact item _ _
    · split
      · revert hsep
        cases P env sep s ctx <;> ps_simp
        · intro _; exact item _ _
        · intro _; split <;> simp
      · exact item _ _

theorem pegNext_ps (hP : PPS P env) (hN : NPS N env) (hK : KPS K env) : NPS (pegNext P N K) env := by
  intro it s ctx ist
  unfold pegNext
  split
  · exact sRepeatedNext_ps hP ctx _ _ _ s _ _
  · exact sSeparatedNext_ps hP ctx _ _ _ _ _ _ s _
  · rename_i inner k st
    have h1 := hN inner s ctx st
    revert h1
    cases N env inner s ctx st <;> ps_simp
  · rename_i a b
    split
    · simp
    · have h1 := hP a s ctx
      revert h1
      cases P env a s ctx <;> ps_simp
  · split <;> simp
  · rename_i a b sa sb?
    split
    · rename_i sb
      have h1 := hN b s ctx sb
      revert h1
      cases N env b s ctx sb <;> ps_simp
    · have h1 := hN a s ctx sa
      revert h1
      cases N env a s ctx sa <;> ps_simp
      rename_i s1 sa1 e1
      intro _
      have h2 := hK b s1 ctx
      revert h2
      cases K env b s1 ctx <;> ps_simp
      rename_i sb s2 e2
      intro _
      have h3 := hN b s2 ctx sb
      revert h3
      cases N env b s2 ctx sb <;> ps_simp
  · rename_i _ f inner
    have h1 := hN inner s ctx ist
    revert h1
    cases N env inner s ctx ist <;> ps_simp
  · exact sRepeatedNext_ps hP ctx _ _ _ s _ _
  · exact sRepeatedNext_ps hP ctx _ _ _ s _ _
  · ps_simp

theorem peg_ps_all (env : Env) (n : Nat) : PPS (peg n) env ∧ NPS (pegNext' n) env ∧ KPS (pegMk' n) env := by
  induction n with
  | zero =>
    refine ⟨?_, ?_, ?_⟩
    · intro g s ctx; simp [peg]
    · intro it s ctx ist; simp [pegNext']
    · intro it s ctx; simp [pegMk']
  | succ n ih =>
    obtain ⟨hP, hN, hK⟩ := ih
    exact ⟨pegStep_ps hP hN hK n, pegNext_ps hP hN hK, pegMk_ps hP hK⟩

end panicSites

/-- **C20 (1), spec side.** the only panics of the reference semantics are `todo!()`, the no-progress debug
    assertions, ill-typed grammars and undefined references -/
theorem peg_panic_sites (n : Nat) (env : Env) (g : G) (s : SS) (ctx : Val) {w : Nat} :
    peg n env g s ctx = .panic w → w = pTodo ∨ w = pNoProgress ∨ w = pIllTyped ∨ w = pUndefined := by
  intro h
  have := (peg_ps_all env n).1 g s ctx
  rwa [h] at this

theorem run_panic_sites (n : Nat) (env : Env) (m : Mode) (g : G) (st : St) (hm : env.memoOn = false) {w : Nat} :
    run n env m g st = .panic w → w = pTodo ∨ w = pNoProgress ∨ w = pIllTyped ∨ w = pUndefined := by
  intro h
  have hr := run_refines n env m g st hm
  rw [h] at hr
  cases hp : peg n env g st.ss st.ctx <;> rw [hp] at hr <;> simp only [Refines] at hr
  subst hr
  exact peg_panic_sites n env g _ _ hp

/-- **C20 (1).** neither "can't fail" `unwrap()` on the pending error ever fires -/
theorem run_no_unwrap_panic (n : Nat) (env : Env) (m : Mode) (g : G) (st : St) (hm : env.memoOn = false) :
    run n env m g st ≠ .panic pUnwrapRecovery ∧ run n env m g st ≠ .panic pUnwrapMapErr := by
  constructor <;> intro h <;> have := run_panic_sites n env m g st hm h <;>
    simp [pUnwrapRecovery, pUnwrapMapErr, pTodo, pNoProgress, pIllTyped, pUndefined] at this

theorem parseTop_panic_run {n : Nat} {env : Env} {m : Mode} {g : G} {w : Nat} :
    parseTop n env m g = .panic w → run n env m (.thenIgnore g .end_) St.init = .panic w := by
  unfold parseTop
  cases run n env m (.thenIgnore g .end_) St.init <;> simp

theorem parseTop_no_unwrap_panic (n : Nat) (env : Env) (m : Mode) (g : G) (hm : env.memoOn = false) :
    parseTop n env m g ≠ .panic pUnwrapRecovery ∧ parseTop n env m g ≠ .panic pUnwrapMapErr := by
  have := run_no_unwrap_panic n env m (.thenIgnore g .end_) St.init hm
  exact ⟨fun h => this.1 (parseTop_panic_run h), fun h => this.2 (parseTop_panic_run h)⟩

/-! ## 2. syntactic predicates -/

/-! ### `consumes`: every successful match takes at least one token (conservative) -/

mutual
def G.consumes (cd : Nat → Bool) : G → Bool
  | .end_ => false
  | .empty => false
  | .any => true
  | .just ts => !ts.isEmpty
  | .oneOf _ => true
  | .noneOf _ => true
  | .select _ => true
  | .custom f => match f with | .next _ => true | _ => false
  | .todo => false
  | .then_ a b => (a.consumes cd) || (b.consumes cd)
  | .ignoreThen a b => (a.consumes cd) || (b.consumes cd)
  | .thenIgnore a b => (a.consumes cd) || (b.consumes cd)
  | .delimitedBy a l r => (a.consumes cd) || ((l.consumes cd) || (r.consumes cd))
  | .paddedBy a p => (a.consumes cd) || (p.consumes cd)
  | .group gs => consumesAny cd gs
  | .groupArr gs => consumesAny cd gs
  | .or_ a b => (a.consumes cd) && (b.consumes cd)
  | .choice _ gs => consumesAll cd gs
  | .orNot _ => false
  | .not_ _ => false
  | .andIs a _ => (a.consumes cd)
  | .rewind _ => false
  | .map _ a => (a.consumes cd)
  | .to _ a => (a.consumes cd)
  | .ignored a => (a.consumes cd)
  | .filter _ a => (a.consumes cd)
  | .tryMap _ a => (a.consumes cd)
  | .tryMapWith _ a => (a.consumes cd)
  | .toSpan a => (a.consumes cd)
  | .toSlice a => (a.consumes cd)
  | .mapWithSpan a => (a.consumes cd)
  | .mapWithState a => (a.consumes cd)
  | .mapWithCtx a => (a.consumes cd)
  | .validate _ a => (a.consumes cd)
  | .collect _ it => (it.first1 cd)
  | .collectExactly _ _ => false
  | .foldl _ a _ => (a.consumes cd)
  | .foldr _ _ b => (b.consumes cd)
  | .foldlWith a _ => (a.consumes cd)
  | .foldrWith _ b => (b.consumes cd)
  | .iterP _ => false
  | .recoverVia a r => (a.consumes cd) && (r.consumes cd)
  | .recoverSkipUntil a _ until_ _ => (a.consumes cd) && (until_.consumes cd)
  | .recoverSkipRetry a _ _ => (a.consumes cd)
  | .labelled _ _ a => (a.consumes cd)
  | .mapErr _ a => (a.consumes cd)
  | .withCtx _ a => (a.consumes cd)
  | .ignoreWithCtx a b => (a.consumes cd) || (b.consumes cd)
  | .thenWithCtx a b => (a.consumes cd) || (b.consumes cd)
  | .mapCtx _ a => (a.consumes cd)
  | .configureJust c ts => match c with | .seqFromCtx => false | _ => !ts.isEmpty
  | .withState a => (a.consumes cd)
  | .memoized _ a => (a.consumes cd)
  | .call k => cd k
  | .boxed a => (a.consumes cd)
def It.advances (cd : Nat → Bool) : It → Bool
  | .repeated a _ _ => (a.consumes cd)
  | .separatedBy a _ _ _ _ _ => (a.consumes cd)
  | .enumerate it => (it.advances cd)
  | .orNotIt a => (a.consumes cd)
  | .intoIter _ => false
  | .thenIt a b => (a.advances cd) && (b.advances cd)
  | .mapIt _ it => (it.advances cd)
  | .configureRep _ it => (it.advances cd)
  | .tryConfigureRep _ it => (it.advances cd)
def It.first1 (cd : Nat → Bool) : It → Bool
  | .repeated a lo hi => (a.consumes cd) && decide (1 ≤ lo) && !capReached hi 0
  | .separatedBy a _ lo hi _ _ => (a.consumes cd) && decide (1 ≤ lo) && !capReached hi 0
  | .enumerate _ => false
  | .orNotIt _ => false
  | .intoIter _ => false
  | .thenIt _ _ => false
  | .mapIt _ _ => false
  | .configureRep _ _ => false
  | .tryConfigureRep _ _ => false
def consumesAny (cd : Nat → Bool) : List G → Bool
  | [] => false
  | g :: gs => (g.consumes cd) || consumesAny cd gs
def consumesAll (cd : Nat → Bool) : List G → Bool
  | [] => true
  | g :: gs => (g.consumes cd) && consumesAll cd gs
end


/-- the iterator tolerates non-advancing items, or every item advances: what the `debug_assert!`s need -/
def It.loopOk (cd : Nat → Bool) (it : It) : Bool := it.nonconsOk || (it.advances cd)

/-- the iterator shapes `IterParser`-as-`Parser` is implemented for; the plain `repeated`/`separated_by` loops
    assert progress -/
def It.iterPOk (cd : Nat → Bool) : It → Bool
  | .repeated a _ _ => (a.consumes cd)
  | .separatedBy a _ _ _ _ _ => (a.consumes cd)
  | .configureRep _ _ => true
  | .tryConfigureRep _ _ => true
  | .intoIter _ => true
  | _ => false

def It.isRepeated : It → Bool
  | .repeated .. => true
  | _ => false

/-! ### `wf nd`: well-formed, all references below `nd` -/

mutual
def G.wf (cd : Nat → Bool) (nd : Nat) : G → Bool
  | .end_ => true
  | .empty => true
  | .any => true
  | .just _ => true
  | .oneOf _ => true
  | .noneOf _ => true
  | .select _ => true
  | .custom _ => true
  | .todo => false
  | .then_ a b => (a.wf cd nd) && (b.wf cd nd)
  | .ignoreThen a b => (a.wf cd nd) && (b.wf cd nd)
  | .thenIgnore a b => (a.wf cd nd) && (b.wf cd nd)
  | .delimitedBy a l r => (a.wf cd nd) && ((l.wf cd nd) && (r.wf cd nd))
  | .paddedBy a p => (a.wf cd nd) && (p.wf cd nd)
  | .group gs => wfL cd nd gs
  | .groupArr gs => wfL cd nd gs
  | .or_ a b => (a.wf cd nd) && (b.wf cd nd)
  | .choice fl gs => wfL cd nd gs && (match fl with | .tuple => !gs.isEmpty | .slice => true)
  | .orNot a => (a.wf cd nd)
  | .not_ a => (a.wf cd nd)
  | .andIs a b => (a.wf cd nd) && (b.wf cd nd)
  | .rewind a => (a.wf cd nd)
  | .map _ a => (a.wf cd nd)
  | .to _ a => (a.wf cd nd)
  | .ignored a => (a.wf cd nd)
  | .filter _ a => (a.wf cd nd)
  | .tryMap _ a => (a.wf cd nd)
  | .tryMapWith _ a => (a.wf cd nd)
  | .toSpan a => (a.wf cd nd)
  | .toSlice a => (a.wf cd nd)
  | .mapWithSpan a => (a.wf cd nd)
  | .mapWithState a => (a.wf cd nd)
  | .mapWithCtx a => (a.wf cd nd)
  | .validate _ a => (a.wf cd nd)
  | .collect _ it => (it.wf cd nd) && (it.loopOk cd)
  | .collectExactly _ it => (it.wf cd nd)
  | .foldl _ a it => (a.wf cd nd) && ((it.wf cd nd) && (it.loopOk cd))
  | .foldr _ it b => (it.wf cd nd) && ((b.wf cd nd) && (it.loopOk cd))
  | .foldlWith a it => (a.wf cd nd) && ((it.wf cd nd) && (it.loopOk cd))
  | .foldrWith it b => (it.wf cd nd) && ((b.wf cd nd) && (it.loopOk cd))
  | .iterP it => (it.wf cd nd) && (it.iterPOk cd)
  | .recoverVia a r => (a.wf cd nd) && (r.wf cd nd)
  | .recoverSkipUntil a skip until_ _ => (a.wf cd nd) && ((skip.wf cd nd) && (until_.wf cd nd))
  | .recoverSkipRetry a skip until_ => (a.wf cd nd) && ((skip.wf cd nd) && (until_.wf cd nd))
  | .labelled _ _ a => (a.wf cd nd)
  | .mapErr _ a => (a.wf cd nd)
  | .withCtx _ a => (a.wf cd nd)
  | .ignoreWithCtx a b => (a.wf cd nd) && (b.wf cd nd)
  | .thenWithCtx a b => (a.wf cd nd) && (b.wf cd nd)
  | .mapCtx _ a => (a.wf cd nd)
  | .configureJust _ _ => true
  | .withState a => (a.wf cd nd)
  | .memoized _ a => (a.wf cd nd)
  | .call k => decide (k < nd)
  | .boxed a => (a.wf cd nd)
def It.wf (cd : Nat → Bool) (nd : Nat) : It → Bool
  | .repeated a _ _ => (a.wf cd nd)
  | .separatedBy a sep _ _ _ _ => (a.wf cd nd) && (sep.wf cd nd)
  | .enumerate it => (it.wf cd nd)
  | .orNotIt a => (a.wf cd nd)
  | .intoIter a => (a.wf cd nd)
  | .thenIt a b => (a.wf cd nd) && (b.wf cd nd)
  | .mapIt _ it => (it.wf cd nd)
  | .configureRep _ it => (it.wf cd nd) && it.isRepeated
  | .tryConfigureRep _ it => (it.wf cd nd) && it.isRepeated
def wfL (cd : Nat → Bool) (nd : Nat) : List G → Bool
  | [] => true
  | g :: gs => (g.wf cd nd) && wfL cd nd gs
end

/-! ### `termOk`: what termination needs on top of `wf 0` -/

/-- the `Parser` loop over a configured `repeated` asserts nothing: termination needs the item to consume -/
def It.iterPTerm (cd : Nat → Bool) : It → Bool
  | .configureRep _ it => (it.advances cd)
  | .tryConfigureRep _ it => (it.advances cd)
  | _ => true

mutual
def G.termOk (cd : Nat → Bool) : G → Bool
  | .end_ => true
  | .empty => true
  | .any => true
  | .just _ => true
  | .oneOf _ => true
  | .noneOf _ => true
  | .select _ => true
  | .custom _ => true
  | .todo => true
  | .then_ a b => (a.termOk cd) && (b.termOk cd)
  | .ignoreThen a b => (a.termOk cd) && (b.termOk cd)
  | .thenIgnore a b => (a.termOk cd) && (b.termOk cd)
  | .delimitedBy a l r => (a.termOk cd) && ((l.termOk cd) && (r.termOk cd))
  | .paddedBy a p => (a.termOk cd) && (p.termOk cd)
  | .group gs => termOkL cd gs
  | .groupArr gs => termOkL cd gs
  | .or_ a b => (a.termOk cd) && (b.termOk cd)
  | .choice _ gs => termOkL cd gs
  | .orNot a => (a.termOk cd)
  | .not_ a => (a.termOk cd)
  | .andIs a b => (a.termOk cd) && (b.termOk cd)
  | .rewind a => (a.termOk cd)
  | .map _ a => (a.termOk cd)
  | .to _ a => (a.termOk cd)
  | .ignored a => (a.termOk cd)
  | .filter _ a => (a.termOk cd)
  | .tryMap _ a => (a.termOk cd)
  | .tryMapWith _ a => (a.termOk cd)
  | .toSpan a => (a.termOk cd)
  | .toSlice a => (a.termOk cd)
  | .mapWithSpan a => (a.termOk cd)
  | .mapWithState a => (a.termOk cd)
  | .mapWithCtx a => (a.termOk cd)
  | .validate _ a => (a.termOk cd)
  | .collect _ it => (it.termOk cd) && (it.advances cd)
  | .collectExactly _ it => (it.termOk cd)
  | .foldl _ a it => (a.termOk cd) && ((it.termOk cd) && (it.advances cd))
  | .foldr _ it b => (it.termOk cd) && ((b.termOk cd) && (it.advances cd))
  | .foldlWith a it => (a.termOk cd) && ((it.termOk cd) && (it.advances cd))
  | .foldrWith it b => (it.termOk cd) && ((b.termOk cd) && (it.advances cd))
  | .iterP it => (it.termOk cd) && (it.iterPTerm cd)
  | .recoverVia a r => (a.termOk cd) && (r.termOk cd)
  | .recoverSkipUntil a skip until_ _ => (a.termOk cd) && ((skip.termOk cd) && ((until_.termOk cd) && (skip.consumes cd)))
  | .recoverSkipRetry a skip until_ => (a.termOk cd) && ((skip.termOk cd) && ((until_.termOk cd) && (skip.consumes cd)))
  | .labelled _ _ a => (a.termOk cd)
  | .mapErr _ a => (a.termOk cd)
  | .withCtx _ a => (a.termOk cd)
  | .ignoreWithCtx a b => (a.termOk cd) && (b.termOk cd)
  | .thenWithCtx a b => (a.termOk cd) && (b.termOk cd)
  | .mapCtx _ a => (a.termOk cd)
  | .configureJust _ _ => true
  | .withState a => (a.termOk cd)
  | .memoized _ a => (a.termOk cd)
  | .call _ => true
  | .boxed a => (a.termOk cd)
def It.termOk (cd : Nat → Bool) : It → Bool
  | .repeated a _ _ => (a.termOk cd)
  | .separatedBy a sep _ _ _ _ => (a.termOk cd) && (sep.termOk cd)
  | .enumerate it => (it.termOk cd)
  | .orNotIt a => (a.termOk cd)
  | .intoIter a => (a.termOk cd)
  | .thenIt a b => (a.termOk cd) && (b.termOk cd)
  | .mapIt _ it => (it.termOk cd)
  | .configureRep _ it => (it.termOk cd)
  | .tryConfigureRep _ it => (it.termOk cd)
def termOkL (cd : Nat → Bool) : List G → Bool
  | [] => true
  | g :: gs => (g.termOk cd) && termOkL cd gs
end

/-! ### `depth`: nesting depth (+ 1), iterators included -/

mutual
def G.depth : G → Nat
  | .end_ => 1
  | .empty => 1
  | .any => 1
  | .just _ => 1
  | .oneOf _ => 1
  | .noneOf _ => 1
  | .select _ => 1
  | .custom _ => 1
  | .todo => 1
  | .then_ a b => max a.depth b.depth + 1
  | .ignoreThen a b => max a.depth b.depth + 1
  | .thenIgnore a b => max a.depth b.depth + 1
  | .delimitedBy a l r => max a.depth (max l.depth r.depth) + 1
  | .paddedBy a p => max a.depth p.depth + 1
  | .group gs => depthL gs + 1
  | .groupArr gs => depthL gs + 1
  | .or_ a b => max a.depth b.depth + 1
  | .choice _ gs => depthL gs + 1
  | .orNot a => a.depth + 1
  | .not_ a => a.depth + 1
  | .andIs a b => max a.depth b.depth + 1
  | .rewind a => a.depth + 1
  | .map _ a => a.depth + 1
  | .to _ a => a.depth + 1
  | .ignored a => a.depth + 1
  | .filter _ a => a.depth + 1
  | .tryMap _ a => a.depth + 1
  | .tryMapWith _ a => a.depth + 1
  | .toSpan a => a.depth + 1
  | .toSlice a => a.depth + 1
  | .mapWithSpan a => a.depth + 1
  | .mapWithState a => a.depth + 1
  | .mapWithCtx a => a.depth + 1
  | .validate _ a => a.depth + 1
  | .collect _ it => it.depth + 1
  | .collectExactly _ it => it.depth + 1
  | .foldl _ a it => max a.depth it.depth + 1
  | .foldr _ it b => max it.depth b.depth + 1
  | .foldlWith a it => max a.depth it.depth + 1
  | .foldrWith it b => max it.depth b.depth + 1
  | .iterP it => it.depth + 1
  | .recoverVia a r => max a.depth r.depth + 1
  | .recoverSkipUntil a skip until_ _ => max a.depth (max skip.depth until_.depth) + 1
  | .recoverSkipRetry a skip until_ => max a.depth (max skip.depth until_.depth) + 1
  | .labelled _ _ a => a.depth + 1
  | .mapErr _ a => a.depth + 1
  | .withCtx _ a => a.depth + 1
  | .ignoreWithCtx a b => max a.depth b.depth + 1
  | .thenWithCtx a b => max a.depth b.depth + 1
  | .mapCtx _ a => a.depth + 1
  | .configureJust _ _ => 1
  | .withState a => a.depth + 1
  | .memoized _ a => a.depth + 1
  | .call _ => 1
  | .boxed a => a.depth + 1
def It.depth : It → Nat
  | .repeated a _ _ => a.depth + 1
  | .separatedBy a sep _ _ _ _ => max a.depth sep.depth + 1
  | .enumerate it => it.depth + 1
  | .orNotIt a => a.depth + 1
  | .intoIter a => a.depth + 1
  | .thenIt a b => max a.depth b.depth + 1
  | .mapIt _ it => it.depth + 1
  | .configureRep _ it => it.depth + 1
  | .tryConfigureRep _ it => it.depth + 1
def depthL : List G → Nat
  | [] => 0
  | g :: gs => max g.depth (depthL gs)
end

theorem G.depth_pos (g : G) : 0 < g.depth := by cases g <;> simp [G.depth]
theorem It.depth_pos (it : It) : 0 < it.depth := by cases it <;> simp [It.depth]

/-! ## 3. soundness of `consumes` / `advances` on the reference semantics -/

/-- monotone position; any strict advance ends inside the input (whatever the start position) -/
def Adv2 (env : Env) (s s' : SS) : Prop :=
  s.pos ≤ s'.pos ∧ (s.pos < s'.pos → s'.pos ≤ env.toks.length)

theorem adv2_relOK (env : Env) : RelOK env True (Adv2 env) where
  refl s := ⟨Nat.le_refl _, fun h => absurd h (Nat.lt_irrefl _)⟩
  trans := by
    intro a b c h1 h2
    refine ⟨Nat.le_trans h1.1 h2.1, fun h => ?_⟩
    rcases Nat.lt_or_ge b.pos c.pos with hbc | hbc
    · exact h2.2 hbc
    · have : b.pos = c.pos := Nat.le_antisymm h2.1 hbc
      rw [← this]; exact h1.2 (by omega)
  tok := by
    intro s t h
    obtain ⟨hlt, _⟩ := List.getElem?_eq_some_iff.1 h
    exact ⟨Nat.le_succ _, fun _ => hlt⟩
  ws _ := by
    intro s s1 h
    exact ⟨h.1, h.2⟩

/-- `s'` is at or after `s`, strictly after when `b` -/
def Lt (b : Bool) (s s' : SS) : Prop := s.pos ≤ s'.pos ∧ (b = true → s.pos < s'.pos)

theorem Lt.strict2 {b1 b2 : Bool} {s s1 s2 : SS} (h1 : Lt b1 s s1) (h2 : Lt b2 s1 s2) (h : (b1 || b2) = true) :
    s.pos < s2.pos := by
  rcases Bool.or_eq_true_iff.1 h with h | h
  · exact Nat.lt_of_lt_of_le (h1.2 h) h2.1
  · exact Nat.lt_of_le_of_lt h1.1 (h2.2 h)

theorem Lt.strict3 {b1 b2 b3 : Bool} {s s1 s2 s3 : SS} (h1 : Lt b1 s s1) (h2 : Lt b2 s1 s2) (h3 : Lt b3 s2 s3)
    (h : (b1 || b2 || b3) = true) : s.pos < s3.pos := by
  rcases Bool.or_eq_true_iff.1 h with h | h
  · exact Nat.lt_of_lt_of_le (Lt.strict2 h1 h2 h) h3.1
  · exact Nat.lt_of_le_of_lt (Nat.le_trans h1.1 h2.1) (h3.2 h)

/-- `next`: an item of an `advances` iterator moves the position -/
def SItOut.SomeLt (o : SItOut) (b : Bool) (s : SS) : Prop :=
  match o with
  | .some _ s' _ _ => b = true → s.pos < s'.pos
  | _ => True

@[simp] theorem SItOut.someLt_some {v s' i em b s} : (SItOut.some v s' i em).SomeLt b s ↔ (b = true → s.pos < s'.pos) := Iff.rfl
@[simp] theorem SItOut.someLt_done {s' i em b s} : (SItOut.done s' i em).SomeLt b s ↔ True := Iff.rfl
@[simp] theorem SItOut.someLt_fail {b s} : SItOut.fail.SomeLt b s ↔ True := Iff.rfl
@[simp] theorem SItOut.someLt_panic {w b s} : (SItOut.panic w).SomeLt b s ↔ True := Iff.rfl
@[simp] theorem SItOut.someLt_oof {b s} : SItOut.oof.SomeLt b s ↔ True := Iff.rfl

/-- what the consumption analysis assumes of the three runners -/
structure CHyp (cd : Nat → Bool) (env : Env) (P : SRunner) (N : SNextRunner) (K : SMkRunner) : Prop where
  advP : PInv True (Adv2 env) P env
  advN : NInv True (Adv2 env) N env
  advK : KInv True (Adv2 env) K env
  consP : ∀ g s ctx, (g.consumes cd) = true → (P env g s ctx).Sat (fun s' => s.pos < s'.pos)
  consN : ∀ it s ctx ist, (N env it s ctx ist).SomeLt (it.advances cd) s
  first : ∀ it s ctx ist s1 em s' ist' em', (it.first1 cd) = true → K env it s ctx = .ok ist s1 em →
    N env it s1 ctx ist ≠ .done s' ist' em'
  defsOk : ∀ k dd, env.defs[k]? = some dd → cd k = true → (dd.consumes cd) = true

section consumption
variable {cd : Nat → Bool} {env : Env} {P : SRunner} {N : SNextRunner} {K : SMkRunner}

theorem okT {g : G} : OKG True g := Or.inl trivial
theorem okTI {it : It} : OKI True it := Or.inl trivial
theorem okTL {gs : List G} : OKL True gs := Or.inl trivial

theorem CHyp.lt (H : CHyp cd env P N K) (g : G) (s : SS) (ctx : Val) : (P env g s ctx).Sat (Lt (g.consumes cd) s) := by
  have h1 := H.advP g s ctx (Or.inl trivial)
  have h2 := H.consP g s ctx
  revert h1 h2
  cases P env g s ctx <;> simp
  intro h1 h2
  exact ⟨h1.1, h2⟩

theorem CHyp.le (H : CHyp cd env P N K) (g : G) (s : SS) (ctx : Val) : (P env g s ctx).Sat (fun s' => s.pos ≤ s'.pos) :=
  (H.advP g s ctx (Or.inl trivial)).mono fun _ h => h.1

theorem sTokenPrim_lt (s : SS) (accept : Nat → Option Val) :
    (sTokenPrim env s accept).Sat (fun s' => s.pos < s'.pos) := by
  unfold sTokenPrim
  cases env.toks[s.pos]? with
  | none => simp
  | some t => simp only []; cases accept t <;> simp [SS.adv]

theorem sJust_le : ∀ (ts : List Nat) (s s' : SS), sJust env ts s = some s' → s.pos ≤ s'.pos := by
  intro ts s s' h
  exact (sJust_inv (adv2_relOK env) ts s s s' ((adv2_relOK env).refl s) h).1

theorem sJust_lt (ts : List Nat) (hts : ts.isEmpty = false) (s s' : SS) : sJust env ts s = some s' → s.pos < s'.pos := by
  cases ts with
  | nil => simp at hts
  | cons e es =>
    intro h
    simp only [sJust] at h
    cases ht : env.toks[s.pos]? with
    | none => simp [ht] at h
    | some t =>
      simp only [ht] at h
      split at h
      · have := sJust_le es _ _ h
        simp [SS.adv] at this
        omega
      · cases h

theorem sJust_sat_lt (ts : List Nat) (hts : ts.isEmpty = false) (v : Val) (s : SS) :
    (match sJust env ts s with
      | some s' => SOut.ok v s' []
      | none => .fail).Sat (fun s' => s.pos < s'.pos) := by
  cases h : sJust env ts s with
  | none => simp
  | some s' => simpa using sJust_lt ts hts s s' h

theorem sChoice_lt (H : CHyp cd env P N K) (ctx : Val) (s : SS) :
    ∀ gs, consumesAll cd gs = true → (sChoice P env ctx s gs).Sat (fun s' => s.pos < s'.pos) := by
  intro gs
  induction gs with
  | nil => intro _; simp [sChoice]
  | cons g gs ih =>
    intro hl
    simp only [consumesAll, Bool.and_eq_true] at hl
    have h1 := H.consP g s ctx hl.1
    simp only [sChoice]
    revert h1
    cases P env g s ctx <;> sat_simp
    intro _; exact ih hl.2

theorem sGroup_lt (H : CHyp cd env P N K) (ctx : Val) (s0 : SS) :
    ∀ gs s acc em (b : Bool), Lt b s0 s → (b || consumesAny cd gs) = true →
      (sGroup P env ctx gs s acc em).Sat (fun s' => s0.pos < s'.pos) := by
  intro gs
  induction gs with
  | nil =>
    intro s acc em b h0 hb
    simp only [consumesAny, Bool.or_false] at hb
    simpa [sGroup] using h0.2 hb
  | cons g gs ih =>
    intro s acc em b h0 hb
    have h1 := H.lt g s ctx
    simp only [sGroup]
    revert h1
    cases P env g s ctx <;> sat_simp
    intro h1
    refine ih _ _ _ (b || (g.consumes cd)) ⟨Nat.le_trans h0.1 h1.1, fun hh => Lt.strict2 h0 h1 hh⟩ ?_
    simp only [consumesAny] at hb
    simpa [Bool.or_assoc] using hb

theorem sSkipUntil_lt (H : CHyp cd env P N K) (ctx : Val) (skip until_ : G) (fb : Val)
    (hu : (until_.consumes cd) = true) (s0 : SS) :
    ∀ fuel s em, s0.pos ≤ s.pos → (sSkipUntil P env ctx skip until_ fb fuel s em).Sat (fun s' => s0.pos < s'.pos) := by
  intro fuel
  induction fuel with
  | zero => intros; simp [sSkipUntil]
  | succ fuel ih =>
    intro s em h0
    have h1 := H.consP until_ s ctx hu
    have h2 := H.le skip s ctx
    simp only [sSkipUntil]
    revert h1
    cases P env until_ s ctx <;> sat_simp
    · intro h1; omega
    · revert h2
      cases P env skip s ctx <;> sat_simp
      intro h2 _
      exact ih _ _ (Nat.le_trans h0 h2)

theorem sSkipRetry_lt (H : CHyp cd env P N K) (ctx : Val) (a skip until_ : G)
    (ha : (a.consumes cd) = true) (s0 : SS) :
    ∀ fuel s em, s0.pos ≤ s.pos → (sSkipRetry P env ctx a skip until_ fuel s em).Sat (fun s' => s0.pos < s'.pos) := by
  intro fuel
  induction fuel with
  | zero => intros; simp [sSkipRetry]
  | succ fuel ih =>
    intro s em h0
    have h2 := H.le skip s ctx
    simp only [sSkipRetry]
    cases P env until_ s ctx <;> sat_simp
    revert h2
    cases P env skip s ctx <;> sat_simp
    rename_i v2 s2 em2
    intro h2
    have h3 := H.consP a s2 ctx ha
    revert h3
    cases P env a s2 ctx <;> sat_simp
    · rename_i v3 s3 em3
      intro h3
      cases em3 with
      | nil => simp only [SOut.sat_ok]; omega
      | cons e es => exact ih _ _ (Nat.le_trans h0 h2)
    · intro _; exact ih _ _ (Nat.le_trans h0 h2)

/-- the collecting phase of `foldr` never short-circuits with a success -/
theorem sFoldrCollect_inr_ne_ok (ctx : Val) (it : It) : ∀ fuel s ist acc em v s' em',
    sFoldrCollect N env ctx it fuel s ist acc em ≠ .inr (.ok v s' em') := by
  intro fuel
  induction fuel with
  | zero => intro s ist acc em v s' em' h; simp [sFoldrCollect] at h
  | succ fuel ih =>
    intro s ist acc em v s' em' h
    unfold sFoldrCollect at h
    cases hN : N env it s ctx ist with
    | some w s1 ist1 e1 =>
      rw [hN] at h; simp only at h
      split at h
      · cases h
      · exact ih _ _ _ _ _ _ _ h
    | done s1 ist1 e1 => rw [hN] at h; cases h
    | fail => rw [hN] at h; cases h
    | panic w => rw [hN] at h; cases h
    | oof => rw [hN] at h; cases h

/-- `foldr`/`foldr_with` after `make_iter`: collecting phase, then the final parser -/
theorem foldr_tail_lt (H : CHyp cd env P N K) (ctx : Val) (it : It) (b : G) (hb : (b.consumes cd) = true) (L : Nat)
    {s s1 : SS} (hk : Adv2 env s s1) (ist : ItSt) (e1 : List Emis)
    (k : List (Val × Nat) → List Emis → Val → SS → List Emis → SOut)
    (hkk : ∀ items e2 vb s3 e3, (k items e2 vb s3 e3).Sat (fun s' => s3.pos ≤ s'.pos)) :
    (match sFoldrCollect N env ctx it L s1 ist [] e1 with
      | .inr o => o
      | .inl none => .oof
      | .inl (some (items, s2, e2)) => (P env b s2 ctx).andThen (k items e2)).Sat (fun s' => s.pos < s'.pos) := by
  have hf := sFoldrCollect_inv (adv2_relOK env) H.advN ctx it okTI s L s1 ist [] e1 hk
  have hne := sFoldrCollect_inr_ne_ok (N := N) (env := env) ctx it L s1 ist [] e1
  revert hf hne
  cases sFoldrCollect N env ctx it L s1 ist [] e1 with
  | inr o =>
    intro _ hne
    cases o <;> simp
    exact (hne _ _ _ rfl).elim
  | inl x =>
    cases x with
    | none => simp
    | some t =>
      obtain ⟨items, s2, e2⟩ := t
      intro h2 _
      have h2' : s.pos ≤ s2.pos := (FoldrSat.inl_some.1 h2).1
      exact (H.consP b s2 ctx hb).andThen fun vb s3 e3 h3 => (hkk _ _ _ _ _).mono fun s' h => by omega

/-- the first round of `collect` over an iterator that must yield an item -/
theorem sCollectLoop_first (H : CHyp cd env P N K) (ctx : Val) (it : It) (k : CollKind) (hf : (it.first1 cd) = true)
    (hadv : (it.advances cd) = true) {s0 s : SS} {ist : ItSt} {em0 : List Emis} (hk : K env it s0 ctx = .ok ist s em0)
    (fuel : Nat) (acc : List Val) (i : Nat) (em : List Emis) :
    (sCollectLoop N env ctx it k fuel s ist acc i em).Sat (fun s' => s.pos < s'.pos) := by
  cases fuel with
  | zero => simp [sCollectLoop]
  | succ fuel =>
    have h1 := H.consN it s ctx ist
    have h2 := H.first it s0 ctx ist s em0
    simp only [sCollectLoop]
    revert h1 h2
    cases hn : N env it s ctx ist <;> sat_simp
    · rename_i v s1 ist1 e1
      simp only [SItOut.someLt_some]
      intro h1 _
      split
      · simp
      · refine (sCollectLoop_inv (adv2_relOK env) H.advN ctx it k okTI s1 fuel s1 ist1 _ _ _
          ((adv2_relOK env).refl _)).mono fun s' h => ?_
        have := h1 hadv
        have := h.1
        omega
    · intro _ h2
      exact absurd rfl (h2 _ _ _ hf hk)

theorem first1_advances {it : It} (h : (it.first1 cd) = true) : (it.advances cd) = true := by
  cases it <;> simp_all [It.first1, It.advances]

theorem pegStep_cons (H : CHyp cd env P N K) (L : Nat) (g : G) (s : SS) (ctx : Val) (hc : (g.consumes cd) = true) :
    (pegStep P N K L env g s ctx).Sat (fun s' => s.pos < s'.pos) := by
  have wrap : ∀ (a : G) (s0 : SS) (ctx : Val) (k : Val → SS → List Emis → SOut), (a.consumes cd) = true →
      (∀ v s1 em, (k v s1 em).Sat (fun s' => s1.pos ≤ s'.pos)) →
      ((P env a s0 ctx).andThen k).Sat (fun s' => s0.pos < s'.pos) := by
    intro a s0 ctx k ha hk
    refine (H.consP a s0 ctx ha).andThen fun v s1 em h1 => (hk v s1 em).mono fun s' h => ?_
    exact Nat.lt_of_lt_of_le h1 h
  cases g
  all_goals simp only [G.consumes, Bool.false_eq_true] at hc
  all_goals try simp only [pegStep]
  case any => exact sTokenPrim_lt s _
  case just ts => exact sJust_sat_lt ts (by simpa using hc) _ s
  case oneOf ts => exact sTokenPrim_lt s _
  case noneOf ts => exact sTokenPrim_lt s _
  case select ts => exact sTokenPrim_lt s _
  case custom f =>
    cases f <;> simp at hc
    simp only [sCustom]
    cases env.toks[s.pos]? <;> simp [SS.adv]
  case then_ a b =>
    refine (H.lt a s ctx).andThen fun va s1 e1 h1 => (H.lt b s1 ctx).andThen fun vb s2 e2 h2 => ?_
    simpa using Lt.strict2 h1 h2 hc
  case ignoreThen a b =>
    refine (H.lt a s ctx).andThen fun va s1 e1 h1 => (H.lt b s1 ctx).andThen fun vb s2 e2 h2 => ?_
    simpa using Lt.strict2 h1 h2 hc
  case thenIgnore a b =>
    refine (H.lt a s ctx).andThen fun va s1 e1 h1 => (H.lt b s1 ctx).andThen fun vb s2 e2 h2 => ?_
    simpa using Lt.strict2 h1 h2 hc
  case delimitedBy a l r =>
    refine (H.lt l s ctx).andThen fun _ s1 e1 h1 => (H.lt a s1 ctx).andThen fun va s2 e2 h2 =>
      (H.lt r s2 ctx).andThen fun _ s3 e3 h3 => ?_
    refine SOut.sat_ok.2 (Lt.strict3 h1 h2 h3 ?_)
    revert hc; cases (a.consumes cd) <;> cases (l.consumes cd) <;> cases (r.consumes cd) <;> simp
  case paddedBy a p =>
    refine (H.lt p s ctx).andThen fun _ s1 e1 h1 => (H.lt a s1 ctx).andThen fun va s2 e2 h2 =>
      (H.lt p s2 ctx).andThen fun _ s3 e3 h3 => ?_
    refine SOut.sat_ok.2 (Lt.strict3 h1 h2 h3 ?_)
    revert hc; cases (a.consumes cd) <;> cases (p.consumes cd) <;> simp
  case group gs => exact sGroup_lt H ctx s gs s [] [] false ⟨Nat.le_refl _, by simp⟩ (by simpa using hc)
  case groupArr gs => exact sGroup_lt H ctx s gs s [] [] false ⟨Nat.le_refl _, by simp⟩ (by simpa using hc)
  case or_ a b => exact sChoice_lt H ctx s [a, b] (by simpa [consumesAll] using hc)
  case choice fl gs =>
    cases fl
    · cases gs
      · simp [pegStep]
      · simp only [pegStep]; exact sChoice_lt H ctx s _ hc
    · simp only [pegStep]; exact sChoice_lt H ctx s _ hc
  case andIs a b =>
    refine (H.consP a s ctx hc).andThen fun v s1 e1 h1 => ?_
    cases P env b s ctx <;> simp [SOut.andThen, h1]
  case map f a => exact wrap _ _ _ _ hc fun _ _ _ => by simp
  case to v a => exact wrap _ _ _ _ hc fun _ _ _ => by simp
  case ignored a => exact wrap _ _ _ _ hc fun _ _ _ => by simp
  case filter p a => exact wrap _ _ _ _ hc fun _ _ _ => by split <;> simp
  case tryMap f a => exact wrap _ _ _ _ hc fun _ _ _ => by split <;> simp
  case tryMapWith f a => exact wrap _ _ _ _ hc fun _ _ _ => by split <;> simp
  case toSpan a => exact wrap _ _ _ _ hc fun _ _ _ => by simp
  case toSlice a => exact wrap _ _ _ _ hc fun _ _ _ => by simp
  case mapWithSpan a => exact wrap _ _ _ _ hc fun _ _ _ => by simp
  case mapWithState a => exact wrap _ _ _ _ hc fun _ _ _ => by simp
  case mapWithCtx a => exact wrap _ _ _ _ hc fun _ _ _ => by simp
  case validate f a => exact wrap _ _ _ _ hc fun _ _ _ => by simp
  case collect k it =>
    have hk := H.advK it s ctx okTI
    revert hk
    cases hkk : K env it s ctx <;> sat_simp
    rename_i ist s1 em
    intro hk
    exact (sCollectLoop_first H ctx it k hc (first1_advances hc) hkk L [] 0 em).mono fun s' h =>
      Nat.lt_of_le_of_lt hk.1 h
  case foldl f a it =>
    refine wrap _ _ _ _ hc fun va s1 e1 => ?_
    have hk := H.advK it s1 ctx okTI
    revert hk
    cases K env it s1 ctx <;> sat_simp
    intro hk
    exact (sFoldlLoop_inv (adv2_relOK env) H.advN ctx it _ okTI s1 L _ _ _ _ hk).mono fun _ h => h.1
  case foldlWith a it =>
    refine wrap _ _ _ _ hc fun va s1 e1 => ?_
    have hk := H.advK it s1 ctx okTI
    revert hk
    cases K env it s1 ctx <;> sat_simp
    intro hk
    exact (sFoldlLoop_inv (adv2_relOK env) H.advN ctx it _ okTI s1 L _ _ _ _ hk).mono fun _ h => h.1
  case foldr f it b =>
    have hk := H.advK it s ctx okTI
    revert hk
    cases K env it s ctx <;> sat_simp
    rename_i ist s1 e1
    intro hk
    exact foldr_tail_lt H ctx it b hc L hk ist e1 _ fun _ _ _ _ _ => by simp
  case foldrWith it b =>
    have hk := H.advK it s ctx okTI
    revert hk
    cases K env it s ctx <;> sat_simp
    rename_i ist s1 e1
    intro hk
    exact foldr_tail_lt H ctx it b hc L hk ist e1 _ fun _ _ _ _ _ => by simp
  case recoverVia a r =>
    simp only [Bool.and_eq_true] at hc
    have h1 := H.consP a s ctx hc.1
    have h2 := H.consP r s ctx hc.2
    revert h1
    cases P env a s ctx <;> sat_simp
    intro _
    revert h2
    cases P env r s ctx <;> sat_simp
  case recoverSkipUntil a skip until_ fb =>
    simp only [Bool.and_eq_true] at hc
    have h1 := H.consP a s ctx hc.1
    revert h1
    cases P env a s ctx <;> sat_simp
    intro _
    exact sSkipUntil_lt H ctx skip until_ fb hc.2 s L s [] (Nat.le_refl _)
  case recoverSkipRetry a skip until_ =>
    have h1 := H.consP a s ctx hc
    revert h1
    cases P env a s ctx <;> sat_simp
    intro _
    exact sSkipRetry_lt H ctx a skip until_ hc s L s [] (Nat.le_refl _)
  case labelled l asCtx a => exact wrap _ _ _ _ hc fun _ _ _ => by simp
  case mapErr k a => exact H.consP a s ctx hc
  case withCtx cv a => exact H.consP a s cv hc
  case ignoreWithCtx a b =>
    refine (H.lt a s ctx).andThen fun va s1 e1 h1 => (H.lt b s1 va).andThen fun vb s2 e2 h2 => ?_
    simpa using Lt.strict2 h1 h2 hc
  case thenWithCtx a b =>
    refine (H.lt a s ctx).andThen fun va s1 e1 h1 => (H.lt b s1 va).andThen fun vb s2 e2 h2 => ?_
    simpa using Lt.strict2 h1 h2 hc
  case mapCtx f a => exact H.consP a s _ hc
  case configureJust c ts =>
    cases c <;> simp at hc
    all_goals exact sJust_sat_lt _ (by simpa using hc) _ s
  case withState a => exact (H.consP a ⟨s.pos, []⟩ ctx hc).andThen fun v s1 e1 h => by simpa using h
  case memoized id a => exact H.consP a s ctx hc
  case call k =>
    cases h : env.defs[k]? with
    | none => simp
    | some dd => exact H.consP dd s ctx (H.defsOk k dd h hc)
  case boxed a => exact H.consP a s ctx hc

macro "sl_simp" : tactic => `(tactic| simp only [SItOut.someLt_some, SItOut.someLt_done, SItOut.someLt_fail,
  SItOut.someLt_panic, SItOut.someLt_oof, SOut.sat_ok, SOut.sat_fail, SOut.sat_panic, SOut.sat_oof, imp_self,
  implies_true])

theorem sRepeatedNext_someLt (H : CHyp cd env P N K) (ctx : Val) (a : G) (lo : Nat) (hi : Option Nat) (s : SS) (n : Nat)
    (wrap : ItSt → ItSt) : (sRepeatedNext P env ctx a lo hi s n wrap).SomeLt (a.consumes cd) s := by
  unfold sRepeatedNext
  split
  · simp
  · have h1 := H.consP a s ctx
    revert h1
    cases P env a s ctx <;> simp
    split <;> simp

theorem sSeparatedNext_someLt (H : CHyp cd env P N K) (ctx : Val) (a sep : G) (lo : Nat) (hi : Option Nat)
    (lead trail : Bool) (s : SS) (n : Nat) :
    (sSeparatedNext P env ctx a sep lo hi lead trail s n).SomeLt (a.consumes cd) s := by
  have item : ∀ (s0 : SS) (e0 : List Emis), s.pos ≤ s0.pos →
      (match P env a s0 ctx with
        | .ok v s1 em => SItOut.some v s1 (.cnt (n + 1)) (e0 ++ em)
        | .fail =>
          if n < lo then .fail
          else if trail then .done s0 (.cnt n) e0
          else .done s (.cnt n) []
        | .panic w => .panic w
        | .oof => .oof).SomeLt (a.consumes cd) s := by
    intro s0 e0 h0
    have h1 := H.consP a s0 ctx
    revert h1
    cases P env a s0 ctx <;> simp
    · intro h1 hc; have := h1 hc; omega
    · split
      · simp
      · split <;> simp
  have hsep := H.le sep s ctx
  unfold sSeparatedNext
  split
  · simp
  · simp only []
    split
    · revert hsep
      cases P env sep s ctx <;> sl_simp
      · intro h1; exact item _ _ h1
      · intro _; exact item _ _ (Nat.le_refl _)
    · split
      · revert hsep
        cases P env sep s ctx <;> sl_simp
        · intro h1; exact item _ _ h1
        · intro _; split <;> simp
      · exact item _ _ (Nat.le_refl _)

theorem pegNext_cons (H : CHyp cd env P N K) (it : It) (s : SS) (ctx : Val) (ist : ItSt) :
    (pegNext P N K env it s ctx ist).SomeLt (it.advances cd) s := by
  unfold pegNext
  split
  · exact sRepeatedNext_someLt H ctx _ _ _ s _ _
  · exact sSeparatedNext_someLt H ctx _ _ _ _ _ _ s _
  · rename_i inner k st
    have h1 := H.consN inner s ctx st
    revert h1
    cases N env inner s ctx st <;> simp [It.advances]
  · rename_i a b
    split
    · simp
    · have h1 := H.consP a s ctx
      revert h1
      cases P env a s ctx <;> simp [It.advances]
  · split <;> simp [It.advances]
  · rename_i a b sa sb?
    split
    · rename_i sb
      have h1 := H.consN b s ctx sb
      revert h1
      cases N env b s ctx sb <;> simp [It.advances]
      intro h1 _ hb; exact h1 hb
    · have h1 := H.consN a s ctx sa
      have h1' := H.advN a s ctx sa okTI
      revert h1 h1'
      cases N env a s ctx sa <;> simp [It.advances]
      · intro h1 _ ha _; exact h1 ha
      · rename_i s1 sa1 e1
        intro h1
        have h2 := H.advK b s1 ctx okTI
        revert h2
        cases K env b s1 ctx <;> simp
        rename_i sb s2 e2
        intro h2
        have h3 := H.consN b s2 ctx sb
        revert h3
        cases N env b s2 ctx sb <;> simp
        intro h3 _ hb
        have := h3 hb
        have := h1.1
        have := h2.1
        omega
  · rename_i _ f inner
    have h1 := H.consN inner s ctx ist
    revert h1
    cases N env inner s ctx ist <;> simp [It.advances]
  · exact sRepeatedNext_someLt H ctx _ _ _ s _ _
  · exact sRepeatedNext_someLt H ctx _ _ _ s _ _
  · simp

/-- an iterator that must yield an item does not say `done` right after `make_iter` -/
theorem first1_not_done {P' : SRunner} {N' : SNextRunner} {K' : SMkRunner}
    (it : It) (s : SS) (ctx : Val) (ist : ItSt) (s1 : SS) (em : List Emis) (s' : SS) (ist' : ItSt) (em' : List Emis)
    (hf : (it.first1 cd) = true) (hk : pegMk P K env it s ctx = .ok ist s1 em) :
    pegNext P' N' K' env it s1 ctx ist ≠ .done s' ist' em' := by
  cases it <;> simp only [It.first1, Bool.false_eq_true, Bool.and_eq_true, decide_eq_true_eq, Bool.not_eq_true'] at hf
  case repeated a lo hi =>
    simp only [pegMk, SMkOut.ok.injEq] at hk
    obtain ⟨rfl, rfl, rfl⟩ := hk
    simp only [pegNext, sRepeatedNext, hf.2]
    have hlo : lo ≠ 0 := by omega
    cases P' env a s ctx <;> simp [hlo]
  case separatedBy a sep lo hi lead trail =>
    simp only [pegMk, SMkOut.ok.injEq] at hk
    obtain ⟨rfl, rfl, rfl⟩ := hk
    have hlo : 0 < lo := hf.1.2
    simp only [pegNext, sSeparatedNext, hf.2]
    cases lead <;> simp
    · cases P' env a s ctx <;> simp [hlo]
    · cases P' env sep s ctx <;> simp
      · rename_i v1 s1 e1
        cases P' env a s1 ctx <;> simp [hlo]
      · cases P' env a s ctx <;> simp [hlo]

end consumption

/-- the consumption annotation of the definitions is justified: a definition annotated "consumes" has a body that
    consumes (under the same annotation) -/
def CDefs (cd : Nat → Bool) (env : Env) : Prop :=
  ∀ k dd, env.defs[k]? = some dd → cd k = true → dd.consumes cd = true

/-- the annotation "no definition is known to consume" -/
def noCalls : Nat → Bool := fun _ => false

theorem cdefs_noCalls (env : Env) : CDefs noCalls env := fun _ _ _ h => by simp [noCalls] at h

theorem chyp_all {cd : Nat → Bool} (env : Env) (hcd : CDefs cd env) (n : Nat) :
    CHyp cd env (peg n) (pegNext' n) (pegMk' n) := by
  induction n with
  | zero =>
    have h := peg_inv_all (adv2_relOK env) (fun _ _ => Or.inl trivial) 0
    exact ⟨h.1, h.2.1, h.2.2, by intros; simp [peg], by intros; simp [pegNext'], by intros; simp_all [pegMk'], hcd⟩
  | succ n ih =>
    have h := peg_inv_all (adv2_relOK env) (fun _ _ => Or.inl trivial) (n + 1)
    refine ⟨h.1, h.2.1, h.2.2, ?_, ?_, ?_, hcd⟩
    · intro g s ctx hc; exact pegStep_cons ih n g s ctx hc
    · intro it s ctx ist; exact pegNext_cons ih it s ctx ist
    · intro it s ctx ist s1 em s' ist' em' hf hk
      exact first1_not_done it s ctx ist s1 em s' ist' em' hf hk

/-- **soundness of `consumes`.** -/
theorem peg_consumes {cd : Nat → Bool} (n : Nat) (env : Env) (hcd : CDefs cd env) (g : G) (s : SS) (ctx : Val)
    {v s' em} (hc : g.consumes cd = true) : peg n env g s ctx = .ok v s' em → s.pos < s'.pos := by
  intro h
  have := (chyp_all env hcd n).consP g s ctx hc
  rwa [h] at this

/-- **soundness of `advances`.** -/
theorem pegNext'_advances {cd : Nat → Bool} (n : Nat) (env : Env) (hcd : CDefs cd env) (it : It) (s : SS) (ctx : Val)
    (ist : ItSt) {v s' ist' em} (hc : it.advances cd = true) :
    pegNext' n env it s ctx ist = .some v s' ist' em → s.pos < s'.pos := by
  intro h
  have := (chyp_all env hcd n).consN it s ctx ist
  rw [h] at this
  exact this hc

/-! ## 4. well-formed grammars never panic; non-recursive ones terminate

  One engine for both: `T` says whether termination is being proved as well.
  `Good T o`: `o` is not a panic and, when `T`, not out of fuel. -/

/-- does the iterator state belong to the iterator (is it one that `make_iter`/`next` of it produce) -/
def It.fits : It → ItSt → Bool
  | .repeated .., st => match st with | .cnt _ => true | _ => false
  | .separatedBy .., st => match st with | .cnt _ => true | _ => false
  | .enumerate inner, st => match st with | .enum _ st' => inner.fits st' | _ => false
  | .orNotIt _, st => match st with | .fin _ => true | _ => false
  | .intoIter _, st => match st with | .into _ => true | _ => false
  | .thenIt a b, st => match st with
    | .thn sa sb? => a.fits sa && (match sb? with | some sb => b.fits sb | none => true)
    | _ => false
  | .mapIt _ inner, st => inner.fits st
  | .configureRep _ it, st => match it, st with | .repeated .., .cfg (.cnt _) _ _ => true | _, _ => false
  | .tryConfigureRep _ it, st => match it, st with | .repeated .., .cfg (.cnt _) _ _ => true | _, _ => false

def SOut.Good (T : Prop) : SOut → Prop
  | .panic _ => False
  | .oof => ¬T
  | _ => True

def SItOut.Good (T : Prop) (it : It) : SItOut → Prop
  | .some _ _ ist _ => it.fits ist = true
  | .done _ ist _ => it.fits ist = true
  | .fail => True
  | .panic _ => False
  | .oof => ¬T

def SMkOut.Good (T : Prop) (it : It) : SMkOut → Prop
  | .ok ist _ _ => it.fits ist = true
  | .fail => True
  | .panic _ => False
  | .oof => ¬T

@[simp] theorem SOut.good_ok {T v s em} : (SOut.ok v s em).Good T ↔ True := Iff.rfl
@[simp] theorem SOut.good_fail {T} : SOut.fail.Good T ↔ True := Iff.rfl
@[simp] theorem SOut.good_panic {T w} : (SOut.panic w).Good T ↔ False := Iff.rfl
@[simp] theorem SOut.good_oof {T} : SOut.oof.Good T ↔ ¬T := Iff.rfl
@[simp] theorem SItOut.good_some {T it v s i em} : (SItOut.some v s i em).Good T it ↔ it.fits i = true := Iff.rfl
@[simp] theorem SItOut.good_done {T it s i em} : (SItOut.done s i em).Good T it ↔ it.fits i = true := Iff.rfl
@[simp] theorem SItOut.good_fail {T it} : SItOut.fail.Good T it ↔ True := Iff.rfl
@[simp] theorem SItOut.good_panic {T it w} : (SItOut.panic w).Good T it ↔ False := Iff.rfl
@[simp] theorem SItOut.good_oof {T it} : SItOut.oof.Good T it ↔ ¬T := Iff.rfl
@[simp] theorem SMkOut.good_ok {T it i s em} : (SMkOut.ok i s em).Good T it ↔ it.fits i = true := Iff.rfl
@[simp] theorem SMkOut.good_fail {T it} : SMkOut.fail.Good T it ↔ True := Iff.rfl
@[simp] theorem SMkOut.good_panic {T it w} : (SMkOut.panic w).Good T it ↔ False := Iff.rfl
@[simp] theorem SMkOut.good_oof {T it} : SMkOut.oof.Good T it ↔ ¬T := Iff.rfl

theorem SOut.Good.andThen {T : Prop} {o : SOut} {k} (h : o.Good T) (hk : ∀ v s em, (k v s em).Good T) :
    (o.andThen k).Good T := by
  cases o <;> simp_all [SOut.andThen]

/-- admissible syntax: well-formed (references below `nd`); when `T`, also `termOk` and of depth at most `d` -/
def Adm (cd : Nat → Bool) (T : Prop) (nd d : Nat) (g : G) : Prop := (g.wf cd nd) = true ∧ (T → (g.termOk cd) = true ∧ g.depth ≤ d)
def AdmI (cd : Nat → Bool) (T : Prop) (nd d : Nat) (it : It) : Prop := (it.wf cd nd) = true ∧ (T → (it.termOk cd) = true ∧ it.depth ≤ d)
def AdmL (cd : Nat → Bool) (T : Prop) (nd d : Nat) (gs : List G) : Prop := wfL cd nd gs = true ∧ (T → termOkL cd gs = true ∧ depthL gs ≤ d)

def PG (cd : Nat → Bool) (T : Prop) (nd d : Nat) (P : SRunner) (env : Env) : Prop :=
  ∀ g s ctx, Adm cd T nd d g → (P env g s ctx).Good T
def NG (cd : Nat → Bool) (T : Prop) (nd d : Nat) (N : SNextRunner) (env : Env) : Prop :=
  ∀ it s ctx ist, AdmI cd T nd d it → it.fits ist = true → (N env it s ctx ist).Good T it
def KG (cd : Nat → Bool) (T : Prop) (nd d : Nat) (K : SMkRunner) (env : Env) : Prop :=
  ∀ it s ctx, AdmI cd T nd d it → (K env it s ctx).Good T it

/-- admissibility of a child from admissibility of the node -/
macro "adm " h:ident : tactic => `(tactic| (
  simp only [Adm, AdmI, AdmL] at $h:ident ⊢
  refine ⟨?_, fun ht => ?_⟩
  · have h1 := ($h).1
    simp only [G.wf, It.wf, wfL, Bool.and_eq_true] at h1 ⊢
    simp [h1]
  · have h2 := ($h).2 ht
    simp only [G.termOk, It.termOk, termOkL, G.depth, It.depth, depthL, Bool.and_eq_true] at h2 ⊢
    exact ⟨by simp [h2], by omega⟩))

/-- all that is known about one parser call -/
def PStep (T : Prop) (env : Env) (c : Bool) (s : SS) : SOut → Prop
  | .ok _ s' _ => s.pos ≤ s'.pos ∧ (c = true → s.pos < s'.pos ∧ s'.pos ≤ env.toks.length)
  | .fail => True
  | .panic _ => False
  | .oof => ¬T

/-- all that is known about one `next` call -/
def NStep (cd : Nat → Bool) (T : Prop) (env : Env) (it : It) (s : SS) : SItOut → Prop
  | .some _ s' ist' _ => it.fits ist' = true ∧ s.pos ≤ s'.pos ∧
      ((it.advances cd) = true → s.pos < s'.pos ∧ s'.pos ≤ env.toks.length)
  | .done _ ist' _ => it.fits ist' = true
  | .fail => True
  | .panic _ => False
  | .oof => ¬T

section good
variable {cd : Nat → Bool} {env : Env} {P : SRunner} {N : SNextRunner} {K : SMkRunner} {T : Prop} {nd d : Nat}

theorem pstep (H : CHyp cd env P N K) (hP : PG cd T nd d P env) {g : G} (hg : Adm cd T nd d g) (s : SS) (ctx : Val) :
    PStep T env (g.consumes cd) s (P env g s ctx) := by
  have h1 := hP g s ctx hg
  have h2 := H.advP g s ctx okT
  have h3 := H.consP g s ctx
  revert h1 h2 h3
  cases P env g s ctx <;> simp [PStep]
  intro h2 h3
  exact ⟨h2.1, fun hc => ⟨h3 hc, h2.2 (h3 hc)⟩⟩

theorem nstep (H : CHyp cd env P N K) (hN : NG cd T nd d N env) {it : It} (hi : AdmI cd T nd d it) (s : SS) (ctx : Val)
    {ist : ItSt} (hf : it.fits ist = true) : NStep cd T env it s (N env it s ctx ist) := by
  have h1 := hN it s ctx ist hi hf
  have h2 := H.advN it s ctx ist okTI
  have h3 := H.consN it s ctx ist
  revert h1 h2 h3
  cases N env it s ctx ist <;> simp [NStep]
  · intro h1 h2 h3
    exact ⟨h1, h2.1, fun hc => ⟨h3 hc, h2.2 (h3 hc)⟩⟩
  · intro h1 _; exact h1

/-- normalise `Good`/`PStep`/`NStep` of constructor results -/
macro "g_simp" : tactic => `(tactic| simp only [SOut.good_ok, SOut.good_fail, SOut.good_panic, SOut.good_oof,
  SItOut.good_some, SItOut.good_done, SItOut.good_fail, SItOut.good_panic, SItOut.good_oof,
  SMkOut.good_ok, SMkOut.good_fail, SMkOut.good_panic, SMkOut.good_oof, PStep, NStep,
  imp_self, implies_true, false_imp_iff, true_imp_iff])

theorem sChoice_good (hP : PG cd T nd d P env) (ctx : Val) (s : SS) :
    ∀ gs, AdmL cd T nd d gs → (sChoice P env ctx s gs).Good T := by
  intro gs
  induction gs with
  | nil => intro _; simp [sChoice]
  | cons g gs ih =>
    intro hl
    have h1 := hP g s ctx (by adm hl)
    simp only [sChoice]
    revert h1
    cases P env g s ctx <;> g_simp
    exact ih (by adm hl)

theorem sGroup_good (hP : PG cd T nd d P env) (ctx : Val) :
    ∀ gs s acc em, AdmL cd T nd d gs → (sGroup P env ctx gs s acc em).Good T := by
  intro gs
  induction gs with
  | nil => intros; simp [sGroup]
  | cons g gs ih =>
    intro s acc em hl
    have h1 := hP g s ctx (by adm hl)
    simp only [sGroup]
    revert h1
    cases P env g s ctx <;> g_simp
    exact ih _ _ _ (by adm hl)

theorem sCollectLoop_good (H : CHyp cd env P N K) (hN : NG cd T nd d N env) (ctx : Val) (it : It) (k : CollKind)
    (hi : AdmI cd T nd d it) (hl : (it.loopOk cd) = true) (hT : T → (it.advances cd) = true) :
    ∀ fuel s ist acc i em, it.fits ist = true → (T → env.toks.length - s.pos + 1 ≤ fuel) →
      (sCollectLoop N env ctx it k fuel s ist acc i em).Good T := by
  intro fuel
  induction fuel with
  | zero =>
    intro s ist acc i em _ hfu
    simp only [sCollectLoop, SOut.good_oof]
    intro ht; have := hfu ht; omega
  | succ fuel ih =>
    intro s ist acc i em hf hfu
    have h1 := nstep H hN hi s ctx hf
    simp only [sCollectLoop]
    revert h1
    cases N env it s ctx ist <;> g_simp
    rintro ⟨hf', hle, hadv⟩
    split
    · rename_i hc
      simp only [Bool.and_eq_true, Bool.not_eq_true', beq_iff_eq, decide_eq_true_eq] at hc
      have hadv' : (it.advances cd) = true := by simpa [It.loopOk, hc.1.1] using hl
      have := (hadv hadv').1
      omega
    · exact ih _ _ _ _ _ hf' (fun ht => by have := hadv (hT ht); have := hfu ht; omega)

theorem sCollectExactlyLoop_good (H : CHyp cd env P N K) (hN : NG cd T nd d N env) (ctx : Val) (it : It)
    (hi : AdmI cd T nd d it) :
    ∀ n s ist acc em, it.fits ist = true → (sCollectExactlyLoop N env ctx it n s ist acc em).Good T := by
  intro n
  induction n with
  | zero => intros; simp [sCollectExactlyLoop]
  | succ n ih =>
    intro s ist acc em hf
    have h1 := nstep H hN hi s ctx hf
    simp only [sCollectExactlyLoop]
    revert h1
    cases N env it s ctx ist <;> g_simp
    rintro ⟨hf', _, _⟩
    exact ih _ _ _ _ hf'

theorem sFoldlLoop_good (H : CHyp cd env P N K) (hN : NG cd T nd d N env) (ctx : Val) (it : It) (f : Val → Val → SS → Val)
    (hi : AdmI cd T nd d it) (hl : (it.loopOk cd) = true) (hT : T → (it.advances cd) = true) :
    ∀ fuel s ist acc em, it.fits ist = true → (T → env.toks.length - s.pos + 1 ≤ fuel) →
      (sFoldlLoop N env ctx it f fuel s ist acc em).Good T := by
  intro fuel
  induction fuel with
  | zero =>
    intro s ist acc em _ hfu
    simp only [sFoldlLoop, SOut.good_oof]
    intro ht; have := hfu ht; omega
  | succ fuel ih =>
    intro s ist acc em hf hfu
    have h1 := nstep H hN hi s ctx hf
    simp only [sFoldlLoop]
    revert h1
    cases N env it s ctx ist <;> g_simp
    rintro ⟨hf', hle, hadv⟩
    split
    · rename_i hc
      simp only [Bool.and_eq_true, Bool.not_eq_true', beq_iff_eq] at hc
      have hadv' : (it.advances cd) = true := by simpa [It.loopOk, hc.1] using hl
      have := (hadv hadv').1
      omega
    · exact ih _ _ _ _ hf' (fun ht => by have := hadv (hT ht); have := hfu ht; omega)

/-- what `sFoldrCollect` returns -/
def FoldrGood (T : Prop) (r : (Option (List (Val × Nat) × SS × List Emis)) ⊕ SOut) : Prop :=
  match r with
  | .inl (some _) => True
  | .inl none => False
  | .inr o => o.Good T

@[simp] theorem FoldrGood.inl_some {T x} : FoldrGood T (.inl (some x)) ↔ True := Iff.rfl
@[simp] theorem FoldrGood.inl_none {T} : FoldrGood T (.inl none) ↔ False := Iff.rfl
@[simp] theorem FoldrGood.inr {T o} : FoldrGood T (.inr o) ↔ o.Good T := Iff.rfl

theorem sFoldrCollect_good (H : CHyp cd env P N K) (hN : NG cd T nd d N env) (ctx : Val) (it : It)
    (hi : AdmI cd T nd d it) (hl : (it.loopOk cd) = true) (hT : T → (it.advances cd) = true) :
    ∀ fuel s ist acc em, it.fits ist = true → (T → env.toks.length - s.pos + 1 ≤ fuel) →
      FoldrGood T (sFoldrCollect N env ctx it fuel s ist acc em) := by
  intro fuel
  induction fuel with
  | zero =>
    intro s ist acc em _ hfu
    simp only [sFoldrCollect, FoldrGood.inr, SOut.good_oof]
    intro ht; have := hfu ht; omega
  | succ fuel ih =>
    intro s ist acc em hf hfu
    have h1 := nstep H hN hi s ctx hf
    simp only [sFoldrCollect]
    revert h1
    cases N env it s ctx ist <;> (simp only [FoldrGood.inl_some, FoldrGood.inr]; g_simp)
    rintro ⟨hf', hle, hadv⟩
    split
    · rename_i hc
      simp only [Bool.and_eq_true, Bool.not_eq_true', beq_iff_eq] at hc
      have hadv' : (it.advances cd) = true := by simpa [It.loopOk, hc.1] using hl
      have := (hadv hadv').1
      omega
    · exact ih _ _ _ _ hf' (fun ht => by have := hadv (hT ht); have := hfu ht; omega)

theorem sRepeatFast_good (H : CHyp cd env P N K) (hP : PG cd T nd d P env) (ctx : Val) (a : G) (ha : Adm cd T nd d a)
    (hc : (a.consumes cd) = true) :
    ∀ fuel s em, (T → env.toks.length - s.pos + 1 ≤ fuel) → (sRepeatFast P env ctx a fuel s em).Good T := by
  intro fuel
  induction fuel with
  | zero =>
    intro s em hfu
    simp only [sRepeatFast, SOut.good_oof]
    intro ht; have := hfu ht; omega
  | succ fuel ih =>
    intro s em hfu
    have h1 := pstep H hP ha s ctx
    simp only [sRepeatFast]
    revert h1
    cases P env a s ctx <;> g_simp
    rintro ⟨hle, hadv⟩
    have := hadv hc
    split
    · rename_i hc'
      simp only [beq_iff_eq] at hc'
      omega
    · exact ih _ _ (fun ht => by have := hfu ht; omega)

theorem sIterLoop_good (H : CHyp cd env P N K) (hN : NG cd T nd d N env) (ctx : Val) (it : It) (ap : Bool)
    (hi : AdmI cd T nd d it) (hap : ap = true → (it.advances cd) = true) (hT : T → (it.advances cd) = true) :
    ∀ fuel s ist em, it.fits ist = true → (T → env.toks.length - s.pos + 1 ≤ fuel) →
      (sIterLoop N env ctx it ap fuel s ist em).Good T := by
  intro fuel
  induction fuel with
  | zero =>
    intro s ist em _ hfu
    simp only [sIterLoop, SOut.good_oof]
    intro ht; have := hfu ht; omega
  | succ fuel ih =>
    intro s ist em hf hfu
    have h1 := nstep H hN hi s ctx hf
    simp only [sIterLoop]
    revert h1
    cases N env it s ctx ist <;> g_simp
    rintro ⟨hf', hle, hadv⟩
    split
    · rename_i hc
      simp only [Bool.and_eq_true, beq_iff_eq] at hc
      have := (hadv (hap hc.1)).1
      omega
    · exact ih _ _ _ hf' (fun ht => by have := hadv (hT ht); have := hfu ht; omega)

theorem sSkipUntil_good (H : CHyp cd env P N K) (hP : PG cd T nd d P env) (ctx : Val) (skip until_ : G) (fb : Val)
    (hs : Adm cd T nd d skip) (hu : Adm cd T nd d until_) (hT : T → (skip.consumes cd) = true) :
    ∀ fuel s em, (T → env.toks.length - s.pos + 1 ≤ fuel) →
      (sSkipUntil P env ctx skip until_ fb fuel s em).Good T := by
  intro fuel
  induction fuel with
  | zero =>
    intro s em hfu
    simp only [sSkipUntil, SOut.good_oof]
    intro ht; have := hfu ht; omega
  | succ fuel ih =>
    intro s em hfu
    have h1 := pstep H hP hu s ctx
    have h2 := pstep H hP hs s ctx
    simp only [sSkipUntil]
    revert h1
    cases P env until_ s ctx <;> g_simp
    revert h2
    cases P env skip s ctx <;> g_simp
    rintro ⟨hle, hadv⟩
    exact ih _ _ (fun ht => by have := hadv (hT ht); have := hfu ht; omega)

theorem sSkipRetry_good (H : CHyp cd env P N K) (hP : PG cd T nd d P env) (ctx : Val) (a skip until_ : G)
    (ha : Adm cd T nd d a) (hs : Adm cd T nd d skip) (hu : Adm cd T nd d until_) (hT : T → (skip.consumes cd) = true) :
    ∀ fuel s em, (T → env.toks.length - s.pos + 1 ≤ fuel) →
      (sSkipRetry P env ctx a skip until_ fuel s em).Good T := by
  intro fuel
  induction fuel with
  | zero =>
    intro s em hfu
    simp only [sSkipRetry, SOut.good_oof]
    intro ht; have := hfu ht; omega
  | succ fuel ih =>
    intro s em hfu
    have h1 := pstep H hP hu s ctx
    have h2 := pstep H hP hs s ctx
    simp only [sSkipRetry]
    revert h1
    cases P env until_ s ctx <;> g_simp
    revert h2
    cases P env skip s ctx <;> g_simp
    rename_i v2 s2 em2
    rintro ⟨hle, hadv⟩
    have hrec : (sSkipRetry P env ctx a skip until_ fuel s2 (em ++ em2)).Good T :=
      ih _ _ (fun ht => by have := hadv (hT ht); have := hfu ht; omega)
    have h3 := pstep H hP ha s2 ctx
    revert h3
    cases P env a s2 ctx <;> g_simp
    · rename_i v3 s3 em3
      intro _
      cases em3 with
      | nil => simp
      | cons e es => exact hrec
    · exact hrec

theorem sJust_good (ts : List Nat) (v : Val) (s : SS) :
    (match sJust env ts s with
      | some s' => SOut.ok v s' []
      | none => .fail).Good T := by
  cases sJust env ts s <;> simp

theorem sTokenPrim_good (s : SS) (accept : Nat → Option Val) : (sTokenPrim env s accept).Good T := by
  unfold sTokenPrim
  cases env.toks[s.pos]? with
  | none => simp
  | some t => simp only []; cases accept t <;> simp

theorem sCustom_good (f : CustomFn) (s : SS) : (sCustom env f s).Good T := by
  cases f <;> simp only [sCustom, SOut.good_fail, SOut.good_ok]
  cases env.toks[s.pos]? <;> simp

theorem pegStep_good (H : CHyp cd env P N K)
    (hdefs : ∀ k dd, k < nd → env.defs[k]? = some dd → Adm cd T nd d dd) (hnd : nd ≤ env.defs.length)
    (hP : PG cd T nd d P env) (hN : NG cd T nd d N env) (hK : KG cd T nd d K env) (L : Nat)
    (hL : T → env.toks.length + 1 ≤ L) : PG cd T nd (d + 1) (pegStep P N K L) env := by
  intro g s ctx hg
  have thn : ∀ (a : G) (s : SS) (ctx : Val) (k : Val → SS → List Emis → SOut), Adm cd T nd d a →
      (∀ v s em, (k v s em).Good T) → ((P env a s ctx).andThen k).Good T :=
    fun a s ctx k ha hk => (hP a s ctx ha).andThen hk
  have fu : ∀ s : SS, T → env.toks.length - s.pos + 1 ≤ L := fun s ht => by have := hL ht; omega
  cases g
  all_goals try simp only [pegStep]
  case end_ => cases env.toks[s.pos]? <;> simp
  case empty => simp
  case any => exact sTokenPrim_good s _
  case just ts => exact sJust_good ts _ s
  case oneOf ts => exact sTokenPrim_good s _
  case noneOf ts => exact sTokenPrim_good s _
  case select ts => exact sTokenPrim_good s _
  case custom f => exact sCustom_good f s
  case todo => simp [Adm, G.wf] at hg
  case then_ a b => exact thn _ _ _ _ (by adm hg) fun _ _ _ => thn _ _ _ _ (by adm hg) fun _ _ _ => by simp
  case ignoreThen a b => exact thn _ _ _ _ (by adm hg) fun _ _ _ => thn _ _ _ _ (by adm hg) fun _ _ _ => by simp
  case thenIgnore a b => exact thn _ _ _ _ (by adm hg) fun _ _ _ => thn _ _ _ _ (by adm hg) fun _ _ _ => by simp
  case delimitedBy a l r =>
    exact thn _ _ _ _ (by adm hg) fun _ _ _ => thn _ _ _ _ (by adm hg) fun _ _ _ =>
      thn _ _ _ _ (by adm hg) fun _ _ _ => by simp
  case paddedBy a p =>
    exact thn _ _ _ _ (by adm hg) fun _ _ _ => thn _ _ _ _ (by adm hg) fun _ _ _ =>
      thn _ _ _ _ (by adm hg) fun _ _ _ => by simp
  case group gs => exact sGroup_good hP ctx gs s [] [] (by adm hg)
  case groupArr gs => exact sGroup_good hP ctx gs s [] [] (by adm hg)
  case or_ a b =>
    refine sChoice_good hP ctx s [a, b] ?_
    have ha : Adm cd T nd d a := by adm hg
    have hb : Adm cd T nd d b := by adm hg
    simp only [Adm, AdmL, wfL, termOkL, depthL] at ha hb ⊢
    exact ⟨by simp [ha.1, hb.1], fun ht => ⟨by simp [(ha.2 ht).1, (hb.2 ht).1], by
      have := (ha.2 ht).2; have := (hb.2 ht).2; omega⟩⟩
  case choice fl gs =>
    have hgs : AdmL cd T nd d gs := by adm hg
    cases fl
    · cases gs
      · simp [Adm, G.wf] at hg
      · simp only [pegStep]; exact sChoice_good hP ctx s _ hgs
    · simp only [pegStep]; exact sChoice_good hP ctx s _ hgs
  case orNot a =>
    have h1 := hP a s ctx (by adm hg)
    revert h1
    cases P env a s ctx <;> g_simp
  case not_ a =>
    have h1 := hP a s ctx (by adm hg)
    revert h1
    cases P env a s ctx <;> g_simp
  case andIs a b => exact thn _ _ _ _ (by adm hg) fun _ _ _ => thn _ _ _ _ (by adm hg) fun _ _ _ => by simp
  case rewind a => exact thn _ _ _ _ (by adm hg) fun _ _ _ => by simp
  case map f a => exact thn _ _ _ _ (by adm hg) fun _ _ _ => by simp
  case to v a => exact thn _ _ _ _ (by adm hg) fun _ _ _ => by simp
  case ignored a => exact thn _ _ _ _ (by adm hg) fun _ _ _ => by simp
  case filter p a => exact thn _ _ _ _ (by adm hg) fun _ _ _ => by split <;> simp
  case tryMap f a => exact thn _ _ _ _ (by adm hg) fun _ _ _ => by split <;> simp
  case tryMapWith f a => exact thn _ _ _ _ (by adm hg) fun _ _ _ => by split <;> simp
  case toSpan a => exact thn _ _ _ _ (by adm hg) fun _ _ _ => by simp
  case toSlice a => exact thn _ _ _ _ (by adm hg) fun _ _ _ => by simp
  case mapWithSpan a => exact thn _ _ _ _ (by adm hg) fun _ _ _ => by simp
  case mapWithState a => exact thn _ _ _ _ (by adm hg) fun _ _ _ => by simp
  case mapWithCtx a => exact thn _ _ _ _ (by adm hg) fun _ _ _ => by simp
  case validate f a => exact thn _ _ _ _ (by adm hg) fun _ _ _ => by simp
  case collect k it =>
    have hi : AdmI cd T nd d it := by adm hg
    have hw := hg.1
    simp only [G.wf, Bool.and_eq_true] at hw
    have hT : T → (it.advances cd) = true := fun t => by
      have := (hg.2 t).1; simp only [G.termOk, Bool.and_eq_true] at this; exact this.2
    have hk := hK it s ctx hi
    revert hk
    cases K env it s ctx <;> g_simp
    intro hf
    exact sCollectLoop_good H hN ctx it k hi hw.2 hT L _ _ _ _ _ hf (fu _)
  case collectExactly n it =>
    have hi : AdmI cd T nd d it := by adm hg
    have hk := hK it s ctx hi
    revert hk
    cases K env it s ctx <;> g_simp
    intro hf
    exact sCollectExactlyLoop_good H hN ctx it hi n _ _ _ _ hf
  case foldl f a it =>
    have hi : AdmI cd T nd d it := by adm hg
    have hw := hg.1
    simp only [G.wf, Bool.and_eq_true] at hw
    have hT : T → (it.advances cd) = true := fun t => by
      have := (hg.2 t).1; simp only [G.termOk, Bool.and_eq_true] at this; exact this.2.2
    refine thn _ _ _ _ (by adm hg) fun va s1 e1 => ?_
    have hk := hK it s1 ctx hi
    revert hk
    cases K env it s1 ctx <;> g_simp
    intro hf
    exact sFoldlLoop_good H hN ctx it _ hi hw.2.2 hT L _ _ _ _ hf (fu _)
  case foldlWith a it =>
    have hi : AdmI cd T nd d it := by adm hg
    have hw := hg.1
    simp only [G.wf, Bool.and_eq_true] at hw
    have hT : T → (it.advances cd) = true := fun t => by
      have := (hg.2 t).1; simp only [G.termOk, Bool.and_eq_true] at this; exact this.2.2
    refine thn _ _ _ _ (by adm hg) fun va s1 e1 => ?_
    have hk := hK it s1 ctx hi
    revert hk
    cases K env it s1 ctx <;> g_simp
    intro hf
    exact sFoldlLoop_good H hN ctx it _ hi hw.2.2 hT L _ _ _ _ hf (fu _)
  case foldr f it b =>
    have hi : AdmI cd T nd d it := by adm hg
    have hw := hg.1
    simp only [G.wf, Bool.and_eq_true] at hw
    have hT : T → (it.advances cd) = true := fun t => by
      have := (hg.2 t).1; simp only [G.termOk, Bool.and_eq_true] at this; exact this.2.2
    have hk := hK it s ctx hi
    revert hk
    cases K env it s ctx <;> g_simp
    rename_i ist s1 e1
    intro hf
    have hfc := sFoldrCollect_good H hN ctx it hi hw.2.2 hT L s1 ist [] e1 hf (fu _)
    revert hfc
    cases sFoldrCollect N env ctx it L s1 ist [] e1 with
    | inr o => exact id
    | inl x =>
      cases x with
      | none => simp
      | some t =>
        obtain ⟨items, s2, e2⟩ := t
        intro _
        exact thn _ _ _ _ (by adm hg) fun _ _ _ => by simp
  case foldrWith it b =>
    have hi : AdmI cd T nd d it := by adm hg
    have hw := hg.1
    simp only [G.wf, Bool.and_eq_true] at hw
    have hT : T → (it.advances cd) = true := fun t => by
      have := (hg.2 t).1; simp only [G.termOk, Bool.and_eq_true] at this; exact this.2.2
    have hk := hK it s ctx hi
    revert hk
    cases K env it s ctx <;> g_simp
    rename_i ist s1 e1
    intro hf
    have hfc := sFoldrCollect_good H hN ctx it hi hw.2.2 hT L s1 ist [] e1 hf (fu _)
    revert hfc
    cases sFoldrCollect N env ctx it L s1 ist [] e1 with
    | inr o => exact id
    | inl x =>
      cases x with
      | none => simp
      | some t =>
        obtain ⟨items, s2, e2⟩ := t
        intro _
        exact thn _ _ _ _ (by adm hg) fun _ _ _ => by simp
  case iterP it =>
    have hi : AdmI cd T nd d it := by adm hg
    have hw := hg.1
    simp only [G.wf, Bool.and_eq_true] at hw
    have hT : T → (it.iterPTerm cd) = true := fun t => by
      have := (hg.2 t).1; simp only [G.termOk, Bool.and_eq_true] at this; exact this.2
    have loop : ∀ ap, (ap = true → (it.advances cd) = true) → (T → (it.advances cd) = true) → (match K env it s ctx with
        | .ok ist s1 em => sIterLoop N env ctx it ap L s1 ist em
        | .fail => .fail
        | .panic w => .panic w
        | .oof => .oof).Good T := by
      intro ap hap hTa
      have hk := hK it s ctx hi
      revert hk
      cases K env it s ctx <;> g_simp
      intro hf
      exact sIterLoop_good H hN ctx it ap hi hap hTa L _ _ _ hf (fu _)
    cases it
    case repeated a lo hi' =>
      have hc : (a.consumes cd) = true := by simpa [It.iterPOk] using hw.2
      cases lo
      · cases hi'
        · simp only [pegStep]
          exact sRepeatFast_good H hP ctx a (by adm hi) hc L s [] (fu _)
        · simp only [pegStep]; exact loop true (fun _ => hc) (fun _ => hc)
      · simp only [pegStep]; exact loop true (fun _ => hc) (fun _ => hc)
    case separatedBy a sep lo hi' lead trail =>
      have hc : (a.consumes cd) = true := by simpa [It.iterPOk] using hw.2
      simp only [pegStep]; exact loop true (fun _ => hc) (fun _ => hc)
    case configureRep c inner =>
      simp only [pegStep]
      exact loop false (fun h => by cases h) (fun t => by simpa [It.iterPTerm, It.advances] using hT t)
    case tryConfigureRep c inner =>
      simp only [pegStep]
      exact loop false (fun h => by cases h) (fun t => by simpa [It.iterPTerm, It.advances] using hT t)
    case intoIter a => simp only [pegStep]; exact thn _ _ _ _ (by adm hi) fun _ _ _ => by simp
    all_goals simp [It.iterPOk] at hw
  case recoverVia a r =>
    have h1 := hP a s ctx (by adm hg)
    have h2 := hP r s ctx (by adm hg)
    revert h1
    cases P env a s ctx <;> g_simp
    revert h2
    cases P env r s ctx <;> g_simp
  case recoverSkipUntil a skip until_ fb =>
    have hT : T → (skip.consumes cd) = true := fun t => by
      have := (hg.2 t).1; simp only [G.termOk, Bool.and_eq_true] at this; exact this.2.2.2
    have h1 := hP a s ctx (by adm hg)
    revert h1
    cases P env a s ctx <;> g_simp
    exact sSkipUntil_good H hP ctx skip until_ fb (by adm hg) (by adm hg) hT L s [] (fu _)
  case recoverSkipRetry a skip until_ =>
    have hT : T → (skip.consumes cd) = true := fun t => by
      have := (hg.2 t).1; simp only [G.termOk, Bool.and_eq_true] at this; exact this.2.2.2
    have h1 := hP a s ctx (by adm hg)
    revert h1
    cases P env a s ctx <;> g_simp
    exact sSkipRetry_good H hP ctx a skip until_ (by adm hg) (by adm hg) (by adm hg) hT L s [] (fu _)
  case labelled l asCtx a => exact thn _ _ _ _ (by adm hg) fun _ _ _ => by simp
  case mapErr k a => exact hP a s ctx (by adm hg)
  case withCtx cv a => exact hP a s cv (by adm hg)
  case ignoreWithCtx a b => exact thn _ _ _ _ (by adm hg) fun _ _ _ => thn _ _ _ _ (by adm hg) fun _ _ _ => by simp
  case thenWithCtx a b => exact thn _ _ _ _ (by adm hg) fun _ _ _ => thn _ _ _ _ (by adm hg) fun _ _ _ => by simp
  case mapCtx f a => exact hP a s _ (by adm hg)
  case configureJust c ts => exact sJust_good _ _ s
  case withState a => exact thn _ _ _ _ (by adm hg) fun _ _ _ => by simp
  case memoized id a => exact hP a s ctx (by adm hg)
  case call k =>
    have hk : k < nd := by simpa [G.wf] using hg.1
    have hlt : k < env.defs.length := Nat.lt_of_lt_of_le hk hnd
    have he : env.defs[k]? = some env.defs[k] := List.getElem?_eq_getElem hlt
    rw [he]
    exact hP _ s ctx (hdefs k _ hk he)
  case boxed a => exact hP a s ctx (by adm hg)

theorem fits_repeated_cnt {a lo hi} {ist : ItSt} (h : (It.repeated a lo hi).fits ist = true) : ∃ n, ist = .cnt n := by
  cases ist <;> simp [It.fits] at h
  exact ⟨_, rfl⟩

theorem isRepeated_eq {it : It} (h : it.isRepeated = true) : ∃ a lo hi, it = .repeated a lo hi := by
  cases it <;> simp [It.isRepeated] at h
  exact ⟨_, _, _, rfl⟩

theorem pegMk_good (hP : PG cd T nd d P env) (hK : KG cd T nd d K env) : KG cd T nd (d + 1) (pegMk P K) env := by
  intro it s ctx hi
  cases it
  all_goals simp only [pegMk]
  case repeated => simp [It.fits]
  case separatedBy => simp [It.fits]
  case orNotIt => simp [It.fits]
  case enumerate inner =>
    have hk := hK inner s ctx (by adm hi)
    revert hk
    cases K env inner s ctx <;> g_simp
    simp [It.fits]
  case intoIter a =>
    have h1 := hP a s ctx (by adm hi)
    revert h1
    cases P env a s ctx <;> g_simp
    simp [It.fits]
  case thenIt a b =>
    have hk := hK a s ctx (by adm hi)
    revert hk
    cases K env a s ctx <;> g_simp
    simp [It.fits]
  case mapIt f inner =>
    have hk := hK inner s ctx (by adm hi)
    revert hk
    cases K env inner s ctx <;> g_simp
    simp [It.fits]
  case configureRep c inner =>
    have hr : inner.isRepeated = true := by
      have := hi.1; simp only [It.wf, Bool.and_eq_true] at this; exact this.2
    obtain ⟨a, lo, hi', rfl⟩ := isRepeated_eq hr
    have hk := hK (.repeated a lo hi') s ctx (by adm hi)
    revert hk
    cases K env (.repeated a lo hi') s ctx <;> g_simp
    intro hf
    obtain ⟨n, rfl⟩ := fits_repeated_cnt hf
    simp [It.fits]
  case tryConfigureRep c inner =>
    have hr : inner.isRepeated = true := by
      have := hi.1; simp only [It.wf, Bool.and_eq_true] at this; exact this.2
    obtain ⟨a, lo, hi', rfl⟩ := isRepeated_eq hr
    cases ctx.asNat? with
    | none => simp
    | some n =>
      have hk := hK (.repeated a lo hi') s ctx (by adm hi)
      revert hk
      cases K env (.repeated a lo hi') s ctx <;> g_simp
      intro hf
      obtain ⟨n, rfl⟩ := fits_repeated_cnt hf
      simp [It.fits]

theorem sRepeatedNext_good (hP : PG cd T nd d P env) (ctx : Val) (a : G) (ha : Adm cd T nd d a) (lo : Nat) (hi : Option Nat)
    (s : SS) (n : Nat) (wrap : ItSt → ItSt) (it : It) (hw : ∀ m, it.fits (wrap (.cnt m)) = true) :
    (sRepeatedNext P env ctx a lo hi s n wrap).Good T it := by
  unfold sRepeatedNext
  split
  · simp [hw]
  · have h1 := hP a s ctx ha
    revert h1
    cases P env a s ctx <;> g_simp
    · exact hw _
    · split <;> simp [hw]

theorem sSeparatedNext_good (hP : PG cd T nd d P env) (ctx : Val) (a sep : G) (ha : Adm cd T nd d a) (hs : Adm cd T nd d sep)
    (lo : Nat) (hi : Option Nat) (lead trail : Bool) (s : SS) (n : Nat) (it : It)
    (hw : ∀ m, it.fits (.cnt m) = true) :
    (sSeparatedNext P env ctx a sep lo hi lead trail s n).Good T it := by
  have item : ∀ (s0 : SS) (e0 : List Emis),
      (match P env a s0 ctx with
        | .ok v s1 em => SItOut.some v s1 (.cnt (n + 1)) (e0 ++ em)
        | .fail =>
          if n < lo then .fail
          else if trail then .done s0 (.cnt n) e0
          else .done s (.cnt n) []
        | .panic w => .panic w
        | .oof => .oof).Good T it := by
    intro s0 e0
    have h1 := hP a s0 ctx ha
    revert h1
    cases P env a s0 ctx <;> g_simp
    · exact hw _
    · split
      · simp
      · split <;> simp [hw]
  have hsep := hP sep s ctx hs
  unfold sSeparatedNext
  split
  · simp [hw]
  · simp only []
    split
    · revert hsep
      cases P env sep s ctx <;> g_simp
      · exact item _ _
      · exact item _ _
    · split
      · revert hsep
        cases P env sep s ctx <;> g_simp
        · exact item _ _
        · split <;> simp [hw]
      · exact item _ _

theorem pegNext_good (hP : PG cd T nd d P env) (hN : NG cd T nd d N env) (hK : KG cd T nd d K env) :
    NG cd T nd (d + 1) (pegNext P N K) env := by
  intro it s ctx ist hi hf
  cases it
  case repeated a lo hi' =>
    obtain ⟨n, rfl⟩ := fits_repeated_cnt hf
    simp only [pegNext]
    exact sRepeatedNext_good hP ctx a (by adm hi) _ _ s n id _ (fun m => by simp [It.fits])
  case separatedBy a sep lo hi' lead trail =>
    cases ist <;> simp only [It.fits, Bool.false_eq_true] at hf
    simp only [pegNext]
    exact sSeparatedNext_good hP ctx a sep (by adm hi) (by adm hi) _ _ _ _ s _ _ (fun m => by simp [It.fits])
  case enumerate inner =>
    cases ist <;> simp only [It.fits, Bool.false_eq_true] at hf
    rename_i k st
    simp only [pegNext]
    have h1 := hN inner s ctx st (by adm hi) hf
    revert h1
    cases N env inner s ctx st <;> g_simp
    all_goals simp [It.fits]
  case orNotIt a =>
    cases ist <;> simp only [It.fits, Bool.false_eq_true] at hf
    rename_i b
    simp only [pegNext]
    split
    · simp [It.fits]
    · have h1 := hP a s ctx (by adm hi)
      revert h1
      cases P env a s ctx <;> g_simp
      all_goals simp [It.fits]
  case intoIter a =>
    cases ist <;> simp only [It.fits, Bool.false_eq_true] at hf
    simp only [pegNext]
    split <;> simp [It.fits]
  case thenIt a b =>
    cases ist <;> simp only [It.fits, Bool.false_eq_true, Bool.and_eq_true] at hf
    rename_i sa sb?
    have ha : AdmI cd T nd d a := by adm hi
    have hb : AdmI cd T nd d b := by adm hi
    simp only [pegNext]
    cases sb? with
    | some sb =>
      simp only []
      have h1 := hN b s ctx sb hb hf.2
      revert h1
      cases N env b s ctx sb <;> g_simp
      all_goals simp [It.fits, hf.1]
    | none =>
      simp only []
      have h1 := hN a s ctx sa ha hf.1
      revert h1
      cases N env a s ctx sa <;> g_simp
      · simp [It.fits]
      · rename_i s1 sa1 e1
        intro hfa
        have h2 := hK b s1 ctx hb
        revert h2
        cases K env b s1 ctx <;> g_simp
        rename_i sb s2 e2
        intro hfb
        have h3 := hN b s2 ctx sb hb hfb
        revert h3
        cases N env b s2 ctx sb <;> g_simp
        all_goals simp [It.fits, hfa]
  case mapIt f inner =>
    have hf' : inner.fits ist = true := by simpa [It.fits] using hf
    simp only [pegNext]
    have h1 := hN inner s ctx ist (by adm hi) hf'
    revert h1
    cases N env inner s ctx ist <;> g_simp
    all_goals simp [It.fits]
  case configureRep c inner =>
    have hr : inner.isRepeated = true := by
      have := hi.1; simp only [It.wf, Bool.and_eq_true] at this; exact this.2
    obtain ⟨a, lo, hi', rfl⟩ := isRepeated_eq hr
    have hin : AdmI cd T nd d (.repeated a lo hi') := by adm hi
    cases ist <;> simp only [It.fits, Bool.false_eq_true] at hf
    rename_i st clo chi
    cases st <;> simp only [Bool.false_eq_true] at hf
    simp only [pegNext]
    exact sRepeatedNext_good hP ctx a (by adm hin) _ _ s _ _ _ (fun m => by simp [It.fits])
  case tryConfigureRep c inner =>
    have hr : inner.isRepeated = true := by
      have := hi.1; simp only [It.wf, Bool.and_eq_true] at this; exact this.2
    obtain ⟨a, lo, hi', rfl⟩ := isRepeated_eq hr
    have hin : AdmI cd T nd d (.repeated a lo hi') := by adm hi
    cases ist <;> simp only [It.fits, Bool.false_eq_true] at hf
    rename_i st clo chi
    cases st <;> simp only [Bool.false_eq_true] at hf
    simp only [pegNext]
    exact sRepeatedNext_good hP ctx a (by adm hin) _ _ s _ _ _ (fun m => by simp [It.fits])

end good

theorem Adm.mono {cd : Nat → Bool} {T : Prop} {nd d d' : Nat} {g : G} (h : Adm cd T nd d g) (hd : d ≤ d') :
    Adm cd T nd d' g :=
  ⟨h.1, fun t => ⟨(h.2 t).1, Nat.le_trans (h.2 t).2 hd⟩⟩
theorem AdmI.mono {cd : Nat → Bool} {T : Prop} {nd d d' : Nat} {it : It} (h : AdmI cd T nd d it) (hd : d ≤ d') :
    AdmI cd T nd d' it :=
  ⟨h.1, fun t => ⟨(h.2 t).1, Nat.le_trans (h.2 t).2 hd⟩⟩
theorem Adm.zero {cd : Nat → Bool} {T : Prop} {nd : Nat} {g : G} (h : Adm cd T nd 0 g) : ¬T := fun t => by
  have := (h.2 t).2; have := g.depth_pos; omega
theorem AdmI.zero {cd : Nat → Bool} {T : Prop} {nd : Nat} {it : It} (h : AdmI cd T nd 0 it) : ¬T := fun t => by
  have := (h.2 t).2; have := it.depth_pos; omega

/-- closing the recursion: at fuel `n` the three runners are `Good` on admissible syntax of depth `≤ d`,
    provided (when termination is claimed) `d + |input| + 1 ≤ n` -/
theorem good_all {cd : Nat → Bool} (env : Env) (hcd : CDefs cd env) (T : Prop) (nd : Nat) (hnd : nd ≤ env.defs.length)
    (hdefs : ∀ k dd, k < nd → env.defs[k]? = some dd → ∀ d, Adm cd T nd d dd) :
    ∀ n d, (T → d + env.toks.length + 1 ≤ n) →
      PG cd T nd d (peg n) env ∧ NG cd T nd d (pegNext' n) env ∧ KG cd T nd d (pegMk' n) env := by
  intro n
  induction n with
  | zero =>
    intro d hfu
    have hT : ¬T := fun t => by have := hfu t; omega
    exact ⟨fun g s ctx _ => by simpa [peg] using hT, fun it s ctx ist _ _ => by simpa [pegNext'] using hT,
      fun it s ctx _ => by simpa [pegMk'] using hT⟩
  | succ n ih =>
    intro d hfu
    have H := chyp_all env hcd n
    cases d with
    | succ d =>
      obtain ⟨hP, hN, hK⟩ := ih d (fun t => by have := hfu t; omega)
      exact ⟨pegStep_good H (fun k dd hk he => hdefs k dd hk he d) hnd hP hN hK n (fun t => by have := hfu t; omega),
        pegNext_good hP hN hK, pegMk_good hP hK⟩
    | zero =>
      refine ⟨fun g s ctx hg => ?_, fun it s ctx ist hi hf => ?_, fun it s ctx hi => ?_⟩
      · have hT := hg.zero
        obtain ⟨hP, hN, hK⟩ := ih 0 (fun t => absurd t hT)
        exact pegStep_good H (fun k dd hk he => hdefs k dd hk he 0) hnd hP hN hK n (fun t => absurd t hT) g s ctx
          (hg.mono (Nat.zero_le _))
      · have hT := hi.zero
        obtain ⟨hP, hN, hK⟩ := ih 0 (fun t => absurd t hT)
        exact pegNext_good hP hN hK it s ctx ist (hi.mono (Nat.zero_le _)) hf
      · have hT := hi.zero
        obtain ⟨hP, hN, hK⟩ := ih 0 (fun t => absurd t hT)
        exact pegMk_good hP hK it s ctx (hi.mono (Nat.zero_le _))

/-! ### (2) well-formed grammars never panic -/

/-- the definitions of `env` are well-formed w.r.t. the consumption annotation `cd`, and `cd` is justified -/
structure DefsWf (cd : Nat → Bool) (env : Env) : Prop where
  cdefs : CDefs cd env
  wf : ∀ dd ∈ env.defs, dd.wf cd env.defs.length = true

/-- an environment without definitions -/
theorem defsWf_nil {env : Env} (h : env.defs = []) : DefsWf noCalls env :=
  ⟨cdefs_noCalls env, by simp [h]⟩

/-- without annotation: every `call` counts as "may succeed without consuming" -/
theorem defsWf_noCalls {env : Env} (h : ∀ dd ∈ env.defs, dd.wf noCalls env.defs.length = true) : DefsWf noCalls env :=
  ⟨cdefs_noCalls env, h⟩

/-- **C20 (2), spec side.** -/
theorem peg_wf_no_panic {cd : Nat → Bool} (n : Nat) (env : Env) (g : G) (s : SS) (ctx : Val)
    (hg : g.wf cd env.defs.length = true) (hd : DefsWf cd env) (w : Nat) :
    peg n env g s ctx ≠ .panic w := by
  intro h
  have := (good_all env hd.cdefs False env.defs.length (Nat.le_refl _)
    (fun k dd _ he d => ⟨hd.wf dd (List.mem_of_getElem? he), fun f => f.elim⟩) n 0 (fun f => f.elim)).1 g s ctx
    ⟨hg, fun f => f.elim⟩
  rw [h] at this
  exact this

theorem run_panic_peg {n : Nat} {env : Env} {m : Mode} {g : G} {st : St} (hm : env.memoOn = false) {w : Nat}
    (h : run n env m g st = .panic w) : peg n env g st.ss st.ctx = .panic w := by
  have hr := run_refines n env m g st hm
  rw [h] at hr
  cases hp : peg n env g st.ss st.ctx <;> rw [hp] at hr <;> simp only [Refines] at hr
  rw [hr]

theorem run_oof_peg {n : Nat} {env : Env} {m : Mode} {g : G} {st : St} (hm : env.memoOn = false)
    (h : run n env m g st = .oof) : peg n env g st.ss st.ctx = .oof := by
  have hr := run_refines n env m g st hm
  rw [h] at hr
  cases hp : peg n env g st.ss st.ctx <;> rw [hp] at hr <;> simp only [Refines] at hr

/-- **C20 (2).** a well-formed grammar (with well-formed definitions) never panics, whatever the input, the
    start state, the mode and the fuel -/
theorem run_wf_no_panic {cd : Nat → Bool} (n : Nat) (env : Env) (m : Mode) (g : G) (st : St) (hm : env.memoOn = false)
    (hg : g.wf cd env.defs.length = true) (hd : DefsWf cd env) (w : Nat) :
    run n env m g st ≠ .panic w :=
  fun h => peg_wf_no_panic n env g _ _ hg hd w (run_panic_peg hm h)

theorem parseTop_wf_no_panic {cd : Nat → Bool} (n : Nat) (env : Env) (m : Mode) (g : G) (hm : env.memoOn = false)
    (hg : g.wf cd env.defs.length = true) (hd : DefsWf cd env) (w : Nat) :
    parseTop n env m g ≠ .panic w :=
  fun h => run_wf_no_panic n env m (.thenIgnore g .end_) St.init hm (by simp [G.wf, hg]) hd w (parseTop_panic_run h)

/-! ### (3) non-recursive well-formed grammars terminate -/

/-- well-formed, no `call`, and what termination needs: recovery `skip` parsers consume, the iterators driven by
    a fuel-bounded loop advance with every item -/
def G.wfTerm (g : G) : Bool := g.wf noCalls 0 && g.termOk noCalls

/-- **C20 (3), spec side.** fuel `depth + |input| + 1` suffices: neither out of fuel nor a panic -/
theorem peg_terminates (n : Nat) (env : Env) (g : G) (s : SS) (ctx : Val) (hg : g.wfTerm = true)
    (hn : g.depth + env.toks.length + 1 ≤ n) :
    peg n env g s ctx ≠ .oof ∧ ∀ w, peg n env g s ctx ≠ .panic w := by
  simp only [G.wfTerm, Bool.and_eq_true] at hg
  have := (good_all env (cdefs_noCalls env) True 0 (Nat.zero_le _) (fun k dd hk => absurd hk (Nat.not_lt_zero _))
    n g.depth (fun _ => hn)).1 g s ctx ⟨hg.1, fun _ => ⟨hg.2, Nat.le_refl _⟩⟩
  constructor
  · intro h; rw [h] at this; exact this trivial
  · intro w h; rw [h] at this; exact this

/-- **C20 (3).** -/
theorem run_terminates (n : Nat) (env : Env) (m : Mode) (g : G) (st : St) (hm : env.memoOn = false)
    (hg : g.wfTerm = true) (hn : g.depth + env.toks.length + 1 ≤ n) :
    run n env m g st ≠ .oof ∧ ∀ w, run n env m g st ≠ .panic w :=
  ⟨fun h => (peg_terminates n env g _ _ hg hn).1 (run_oof_peg hm h),
   fun w h => (peg_terminates n env g _ _ hg hn).2 w (run_panic_peg hm h)⟩

theorem parseTop_oof_run {n : Nat} {env : Env} {m : Mode} {g : G} :
    parseTop n env m g = .oof → run n env m (.thenIgnore g .end_) St.init = .oof := by
  unfold parseTop
  cases run n env m (.thenIgnore g .end_) St.init <;> simp

/-- **C20 (3), top level.** `parse`/`check` return a `ParseResult` -/
theorem parseTop_terminates (n : Nat) (env : Env) (m : Mode) (g : G) (hm : env.memoOn = false)
    (hg : g.wfTerm = true) (hn : g.depth + env.toks.length + 2 ≤ n) :
    ∃ r final, parseTop n env m g = .result r final := by
  have hg' : (G.thenIgnore g .end_).wfTerm = true := by
    simp only [G.wfTerm, Bool.and_eq_true] at hg ⊢
    simp [G.wf, G.termOk, hg]
  have hd : (G.thenIgnore g .end_).depth + env.toks.length + 1 ≤ n := by
    have := g.depth_pos
    simp only [G.depth]
    omega
  have h := run_terminates n env m (.thenIgnore g .end_) St.init hm hg' hd
  cases hp : parseTop n env m g with
  | result r final => exact ⟨r, final, rfl⟩
  | panic w => exact absurd (parseTop_panic_run hp) (h.2 w)
  | oof => exact absurd (parseTop_oof_run hp) h.1


/-! ## 5. what `wf` does not give: termination -/

/-- `a.recover_with(skip_until(empty(), until, ..))`: well-formed, no repetition at all -/
def hangSkipUntil : G := .recoverSkipUntil (.just [1]) .empty (.just [2]) .unit

theorem hangSkipUntil_wf : hangSkipUntil.wf noCalls 0 = true := by decide

theorem hangSkipUntil_loop (env : Env) (he : env.toks = []) (n : Nat) (ctx : Val) : ∀ fuel em,
    sSkipUntil (peg (n + 1)) env ctx .empty (.just [2]) .unit fuel ⟨0, []⟩ em = .oof := by
  intro fuel
  induction fuel with
  | zero => intro em; simp [sSkipUntil]
  | succ fuel ih =>
    intro em
    have h1 : peg (n + 1) env (.just [2]) ⟨0, []⟩ ctx = .fail := by simp [peg, pegStep, sJust, he]
    have h2 : peg (n + 1) env .empty ⟨0, []⟩ ctx = .ok .unit ⟨0, []⟩ [] := by simp [peg, pegStep]
    simp only [sSkipUntil, h1, h2]
    exact ih _

/-- … and yet out of fuel at every fuel: the skip parser does not consume, `until` never matches -/
theorem hangSkipUntil_oof (env : Env) (he : env.toks = []) (n : Nat) (ctx : Val) :
    peg n env hangSkipUntil ⟨0, []⟩ ctx = .oof := by
  cases n with
  | zero => simp [peg]
  | succ n =>
    cases n with
    | zero => simp [peg, pegStep, hangSkipUntil]
    | succ n =>
      simp only [hangSkipUntil, peg, pegStep]
      simp [sJust, he]
      exact hangSkipUntil_loop env he n ctx _ _

theorem hangSkipUntil_parseTop (env : Env) (he : env.toks = []) (hm : env.memoOn = false) (n : Nat) (m : Mode) :
    parseTop n env m hangSkipUntil = .oof := by
  have hp : peg n env (.thenIgnore hangSkipUntil .end_) ⟨0, []⟩ .unit = .oof := by
    cases n with
    | zero => simp [peg]
    | succ n => simp [peg, pegStep, hangSkipUntil_oof env he n, SOut.andThen]
  have hr := run_refines n env m (.thenIgnore hangSkipUntil .end_) St.init hm
  have e1 : St.init.ss = ⟨0, []⟩ := rfl
  have e2 : St.init.ctx = .unit := rfl
  rw [e1, e2, hp] at hr
  unfold parseTop
  revert hr
  cases run n env m (.thenIgnore hangSkipUntil .end_) St.init <;> simp [Refines]


/-- `any().repeated().then(empty().to(x).or_not()).collect()`: the repeated item consumes, the iterator is finite,
    and still the `Collect` no-progress assertion fires — `Then` is `NONCONSUMPTION_IS_OK` only when both sides are -/
def thenMix : G := .collect .vec (.thenIt (.repeated .any 0 none) (.orNotIt (.to (.tok 7) .empty)))

theorem thenMix_not_wf : thenMix.wf noCalls 0 = false := by decide

theorem thenMix_panics : peg 6 { toks := [5] } thenMix ⟨0, []⟩ .unit = .panic pNoProgress := by
  with_unfolding_all rfl

/-- a loop over `into_iter` yields as many items as the value has elements: no bound in terms of depth and input
    length; this is why `termOk` wants looped iterators to `advance` -/
def bigIntoIter : G := .collect .vec (.intoIter (.to (.toks [1, 2, 3, 4, 5, 6]) .empty))

theorem bigIntoIter_wf : bigIntoIter.wf noCalls 0 = true := by decide
theorem bigIntoIter_fuel : bigIntoIter.depth + ({ toks := [] } : Env).toks.length + 1 = 5 := by decide
theorem bigIntoIter_oof : peg 5 { toks := [] } bigIntoIter ⟨0, []⟩ .unit = .oof := by
  with_unfolding_all rfl

/-! ## 6. sanity: the predicates accept ordinary grammars -/

section examples

/-- `none_of(' ').repeated().at_least(1).collect::<String>()` -/
def exWord : G := .collect .string (.repeated (.filter (.tokNot 32) .any) 1 none)
/-- `one_of(' ').repeated()` used as a parser -/
def exWs : G := .iterP (.repeated (.oneOf [32]) 0 none)
/-- `word.padded_by(ws).repeated().collect::<Vec<_>>()` -/
def exWords : G := .collect .vec (.repeated (.paddedBy exWord exWs) 0 none)
/-- `value = '[' value,* ']' | digit+` as definition 0 -/
def exValue : G := .choice .tuple
  [.delimitedBy (.collect .vec (.separatedBy (.call 0) (.just [44]) 0 none false true)) (.just [91]) (.just [93]),
   .collect .string (.repeated (.oneOf [48, 49]) 1 none)]
def exEnv (toks : List Nat) : Env := { toks := toks, defs := [exValue], memoOn := false }
def allCalls : Nat → Bool := fun _ => true

example : exWord.consumes noCalls = true := by decide
example : exWords.wf noCalls 0 = true := by decide
example : exWords.wfTerm = true := by decide
example : exValue.consumes allCalls = true := by decide
example : exValue.wf allCalls 1 = true := by decide

theorem exEnv_defsWf (toks : List Nat) : DefsWf allCalls (exEnv toks) :=
  ⟨fun k dd h _ => by
      cases k with
      | zero => simp [exEnv] at h; subst h; decide
      | succ k => simp [exEnv] at h,
   fun dd h => by
      simp [exEnv] at h; subst h
      show exValue.wf allCalls 1 = true
      decide⟩

/-- the recursive list grammar never panics, on any input -/
example (n : Nat) (toks : List Nat) (m : Mode) (w : Nat) : parseTop n (exEnv toks) m (.call 0) ≠ .panic w :=
  parseTop_wf_no_panic n (exEnv toks) m (.call 0) rfl (by show (G.call 0).wf allCalls 1 = true; decide)
    (exEnv_defsWf toks) w

/-- the word list grammar always returns a `ParseResult` -/
example (toks : List Nat) (m : Mode) :
    ∃ r final, parseTop (exWords.depth + toks.length + 2) { toks := toks, memoOn := false } m exWords = .result r final :=
  parseTop_terminates _ { toks := toks, memoOn := false } m exWords rfl (by decide) (Nat.le_refl _)

end examples

#print axioms peg_panic_sites
#print axioms run_no_unwrap_panic
#print axioms parseTop_no_unwrap_panic
#print axioms peg_consumes
#print axioms pegNext'_advances
#print axioms peg_wf_no_panic
#print axioms run_wf_no_panic
#print axioms parseTop_wf_no_panic
#print axioms peg_terminates
#print axioms run_terminates
#print axioms parseTop_terminates
#print axioms hangSkipUntil_parseTop
#print axioms thenMix_panics
#print axioms bigIntoIter_oof

end Chumsky
