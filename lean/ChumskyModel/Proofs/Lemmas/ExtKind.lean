/-
  C10 for grammars with several Pratt tables referring to each other (`EEnv` without nested-input extensions): every runner of
  the extension machine commutes with the re-basing of spans, for every input representation.
-/
import ChumskyModel.Model.Ext
import ChumskyModel.Proofs.Lemmas.PrattKind
import ChumskyModel.Proofs.Lemmas.ExtDecoS
set_option linter.unusedSimpArgs false
set_option linter.unusedVariables false
namespace Chumsky

/-- every extension is a Pratt table whose atom / operator grammars carry no span constants -/
def EEnv.PrattOnly (e : EEnv) : Prop :=
  ∀ x ∈ e.exts, ∃ atom ops, x = .pratt atom ops ∧ atom.constOk = true ∧
    ∀ o ∈ ops, (match o with | .infix _ _ g => g | .prefix _ g => g | .postfix _ g => g).constOk = true

theorem EEnv.find_mapConst (e : EEnv) (M : SpMap) (g : G) : e.find (g.mapConst M) = e.find g := by
  cases g <;> simp [EEnv.find, G.mapConst]

theorem runE_kind_all {M : SpMap} {env env' : Env} (e : EEnv) (h : KindRel M env env') (hp : e.PrattOnly) :
    ∀ n : Nat, KindSimR M env env' (runE e n) ∧ KindSimN M env env' (nextE e n) ∧ KindSimK M env env' (mkIterE e n)
  | 0 => ⟨fun _ _ _ => rfl, fun _ _ _ _ => rfl, fun _ _ _ => rfl⟩
  | n + 1 => by
    obtain ⟨hR, hN, hK⟩ := runE_kind_all e h hp n
    refine ⟨?_, ?_, ?_⟩
    · intro m g st
      simp only [runE]
      rw [EEnv.find_mapConst]
      cases hf : e.find g with
      | none => exact step_kind h hR hN hK n m g st
      | some x =>
        obtain ⟨atom, ops, rfl, hatom, hops⟩ := hp x (EEnv.find_mem hf)
        dsimp only
        have := prattGo_kind h hR m atom ops n 0 st
        rwa [G.mapConst_of_constOk _ atom hatom, opsMapConst_of_constOk _ ops hops] at this
    · simp only [nextE]; exact stepNext_kind hR hN hK
    · simp only [mkIterE]; exact stepMk_kind h hR hK

end Chumsky
