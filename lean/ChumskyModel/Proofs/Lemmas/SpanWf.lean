/-
  Proofs/Lemmas/SpanWf.lean — arithmetic of `Env.mkSpan` / `Env.off` for the three span disciplines
  (`&[T]`-like: token indices; `&str`: byte offsets; `Input::map` / `IterInput`: the tokens' own spans).
  Pure lemmas (no grammar): used by C07 and C10.
-/
import ChumskyModel.Model.Machine

namespace Chumsky

/-! ### `&str`: byte offsets -/

theorem utf8w_ge_one (c : Nat) : 1 ≤ utf8w c := by
  unfold utf8w; repeat' split
  all_goals omega

theorem utf8w_le4 (c : Nat) : utf8w c ≤ 4 := by
  unfold utf8w; repeat' split
  all_goals omega

/-- the offset of token index `i` is the UTF-8 length of the first `i` characters: always a character boundary -/
theorem strOff_eq_sum (toks : List Nat) (i : Nat) : strOff toks i = ((toks.take i).map utf8w).sum := by
  induction toks generalizing i with
  | nil => cases i <;> simp [strOff]
  | cons c cs ih => cases i <;> simp [strOff, ih]

theorem strOff_succ (toks : List Nat) (i : Nat) (c : Nat) (h : toks[i]? = some c) :
    strOff toks (i + 1) = strOff toks i + utf8w c := by
  induction toks generalizing i with
  | nil => simp at h
  | cons d ds ih =>
    cases i with
    | zero => simp at h; subst h; simp [strOff]
    | succ k => simp at h; simp only [strOff]; rw [ih k h]; omega

theorem strOff_le_of_le (toks : List Nat) {i j : Nat} (h : i ≤ j) : strOff toks i ≤ strOff toks j := by
  induction toks generalizing i j with
  | nil => cases i <;> cases j <;> simp [strOff]
  | cons c cs ih =>
    cases i with
    | zero => simp [strOff]
    | succ i' =>
      cases j with
      | zero => omega
      | succ j' => simp only [strOff]; have := ih (i := i') (j := j') (by omega); omega

/-- a non-empty range of characters has a non-empty byte range -/
theorem strOff_lt_of_lt (toks : List Nat) {i j : Nat} (h : i < j) (hj : j ≤ toks.length) : strOff toks i < strOff toks j := by
  induction toks generalizing i j with
  | nil => simp at hj; omega
  | cons c cs ih =>
    cases j with
    | zero => omega
    | succ j' =>
      cases i with
      | zero => simp only [strOff]; have := utf8w_ge_one c; omega
      | succ i' =>
        simp only [strOff]
        have := ih (i := i') (j := j') (by omega) (by simpa using hj); omega

/-- the byte length of the whole text -/
def strLen (toks : List Nat) : Nat := strOff toks toks.length

theorem strOff_le_len (toks : List Nat) {j : Nat} (hj : j ≤ toks.length) : strOff toks j ≤ strLen toks :=
  strOff_le_of_le toks hj

/-! ### `Input::map` / `IterInput`: the tokens' own spans -/

/-- token spans are non-inverted and in input order; the end-of-input span lies after the last token -/
structure SpansWf (tsp : List (Nat × Nat)) (eoi : Nat × Nat) : Prop where
  each : ∀ k (h : k < tsp.length), tsp[k].1 ≤ tsp[k].2
  next : ∀ k (h : k + 1 < tsp.length), tsp[k].2 ≤ tsp[k + 1].1
  last : ∀ k (h : k < tsp.length), tsp[k].2 ≤ eoi.1
  eoiWf : eoi.1 ≤ eoi.2

theorem SpansWf.start_mono {tsp eoi} (w : SpansWf tsp eoi) {k l : Nat} (hkl : k ≤ l) (hl : l < tsp.length) :
    (tsp[k]'(by omega)).1 ≤ tsp[l].1 := by
  induction l with
  | zero => have : k = 0 := by omega
            subst this; exact Nat.le_refl _
  | succ m ih =>
    by_cases hk : k = m + 1
    · subst hk; exact Nat.le_refl _
    · have h1 := ih (by omega) (by omega)
      have h2 := w.each m (by omega)
      have h3 := w.next m hl
      omega

theorem SpansWf.end_mono {tsp eoi} (w : SpansWf tsp eoi) {k l : Nat} (hkl : k ≤ l) (hl : l < tsp.length) :
    (tsp[k]'(by omega)).2 ≤ tsp[l].2 := by
  induction l with
  | zero => have : k = 0 := by omega
            subst this; exact Nat.le_refl _
  | succ m ih =>
    by_cases hk : k = m + 1
    · subst hk; exact Nat.le_refl _
    · have h1 := ih (by omega) (by omega)
      have h2 := w.each (m + 1) hl
      have h3 := w.next m hl
      omega

/-- a token ends before any later token starts -/
theorem SpansWf.end_le_start {tsp eoi} (w : SpansWf tsp eoi) {k l : Nat} (hkl : k < l) (hl : l < tsp.length) :
    (tsp[k]'(by omega)).2 ≤ tsp[l].1 := by
  have h1 := w.end_mono (k := k) (l := l - 1) (by omega) (by omega)
  have h2 := w.next (l - 1) (by omega)
  have : l - 1 + 1 = l := by omega
  simp only [this] at h2
  omega

/-- the environment of a parse is well formed: a mapped input has one span per token, in order -/
def Env.Wf (env : Env) : Prop :=
  env.kind = .mapped → env.tspans.length = env.toks.length ∧ SpansWf env.tspans env.eoi

/-! ### `mkSpan`, kind by kind -/

theorem mkSpan_slice (env : Env) (h : env.kind = .slice) (i j : Nat) : env.mkSpan i j = (i, j) := by
  simp [Env.mkSpan, h]

theorem mkSpan_str (env : Env) (h : env.kind = .str) (i j : Nat) :
    env.mkSpan i j = (strOff env.toks i, strOff env.toks j) := by
  simp [Env.mkSpan, h]

/-- mapped, non-empty match: from the start of the first consumed token to the end of the last -/
theorem mkSpan_mapped_nonempty (env : Env) (h : env.kind = .mapped) {i j : Nat} (hij : i < j) (hj : j ≤ env.tspans.length) :
    env.mkSpan i j = ((env.tspans[i]'(by omega)).1, (env.tspans[j - 1]'(by omega)).2) := by
  have hi : i < env.tspans.length := by omega
  have hne : (i == j) = false := by simp; omega
  have hj0 : j > 0 := by omega
  simp [Env.mkSpan, h, hne, hi, hj0, List.getD_eq_getElem?_getD, List.getElem?_eq_getElem (show j - 1 < env.tspans.length by omega)]

/-- mapped, empty match at `i > 0`: the empty span just after the previous token -/
theorem mkSpan_mapped_empty_pos (env : Env) (h : env.kind = .mapped) {i : Nat} (hi : 0 < i) (hl : i ≤ env.tspans.length) :
    env.mkSpan i i = ((env.tspans[i - 1]'(by omega)).2, (env.tspans[i - 1]'(by omega)).2) := by
  simp [Env.mkSpan, h, hi, List.getD_eq_getElem?_getD, List.getElem?_eq_getElem (show i - 1 < env.tspans.length by omega)]

/-- mapped, empty match at the very start: the empty span just before the first token (or at the end-of-input span) -/
theorem mkSpan_mapped_empty_zero (env : Env) (h : env.kind = .mapped) :
    env.mkSpan 0 0 = match env.tspans[0]? with
                     | some s => (s.1, s.1)
                     | none => (env.eoi.2, env.eoi.2) := by
  simp only [Env.mkSpan, h, beq_self_eq_true, if_true, Nat.lt_irrefl, gt_iff_lt, if_false]
  cases env.tspans[0]? <;> rfl

end Chumsky
